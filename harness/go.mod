module verifharness

go 1.23

require github.com/evanw/esbuild v0.0.0

replace github.com/evanw/esbuild => /repo
