// Package nodex runs the JavaScript runners of /verif/node under Node 20:
// JSON on stdin, JSON on stdout, one process per batch.
package nodex

import (
	"bytes"
	"encoding/json"
	"fmt"
	"os/exec"
	"path/filepath"
	"time"

	"verifharness/core"
)

// Run executes node [nodeArgs...] /verif/node/<script> with in as JSON on
// stdin and decodes stdout into out. cwd may be "" (scratch).
func Run(r *core.Run, script string, in interface{}, out interface{}, timeout time.Duration, cwd string, nodeArgs ...string) error {
	b, err := json.Marshal(in)
	if err != nil {
		return err
	}
	args := append([]string{}, nodeArgs...)
	args = append(args, filepath.Join(r.Verif, "node", script))
	cmd := exec.Command("node", args...)
	if cwd == "" {
		cwd = r.Scratch
	}
	cmd.Dir = cwd
	cmd.Stdin = bytes.NewReader(b)
	var stdout, stderr bytes.Buffer
	cmd.Stdout = &stdout
	cmd.Stderr = &stderr
	if err := cmd.Start(); err != nil {
		return err
	}
	done := make(chan error, 1)
	go func() { done <- cmd.Wait() }()
	select {
	case err := <-done:
		if err != nil {
			return fmt.Errorf("node %s: %v\n%s", script, err, tailStr(stderr.String(), 2000))
		}
	case <-time.After(timeout):
		cmd.Process.Kill()
		<-done
		return fmt.Errorf("node %s: timeout after %v", script, timeout)
	}
	if err := json.Unmarshal(stdout.Bytes(), out); err != nil {
		return fmt.Errorf("node %s: undecodable output: %v\n%s\n%s", script, err, tailStr(stdout.String(), 500), tailStr(stderr.String(), 1000))
	}
	return nil
}

func tailStr(s string, n int) string {
	if len(s) > n {
		return s[len(s)-n:]
	}
	return s
}
