// Package tlcrun invokes TLC on a module of /verif/spec in a scratch copy and
// parses what the harness needs from its output: statistics, exported CASE
// records, coverage, and whether (and which) property was violated.
package tlcrun

import (
	"bufio"
	"bytes"
	"encoding/json"
	"fmt"
	"os"
	"os/exec"
	"path/filepath"
	"regexp"
	"strconv"
	"strings"
	"sync/atomic"
	"time"

	"verifharness/core"
)

type Options struct {
	Module     string            // e.g. "BuildContext" (spec/BuildContext.tla)
	Config     string            // e.g. "BuildContext.quick.cfg" (spec/cfg/...)
	Workers    int               // default 8
	TimeoutSec int               // default 600
	Simulate   string            // e.g. "num=1000" -> -simulate num=1000
	Depth      int               // -depth
	Seed       int64             // -seed (0 = none)
	Coverage   bool              // -coverage 1
	DFS        bool              // depth-first state queue (trace specs)
	NoDeadlock bool              // -deadlock (disable deadlock checking)
	Files      map[string]string // extra files written next to the spec (traces, records)
	XssMB      int               // thread stack size
	HeapGB     int               // -Xmx
	JavaOpts   string            // extra JVM options appended to JAVA_TOOL_OPTIONS (e.g. "-XX:TieredStopAtLevel=1 -XX:ParallelGCThreads=2")
	OnCase     func(raw []byte)  // called for each exported CASE record (JSON)
	KeepOutput bool
}

type Result struct {
	Generated   int64
	Distinct    int64
	Depth       int
	ExitCode    int
	TimedOut    bool
	Violated    string // name of violated invariant/property, "deadlock", or ""
	Cases       int64
	Output      string // tail of the output (or all if KeepOutput)
	ZeroActions []string
	ActionCount map[string]int64
	Dir         string
	Wall        time.Duration
	PostFalse   bool // a POSTCONDITION evaluated to FALSE
}

var counter int64

var reStates = regexp.MustCompile(`(\d+) states generated, (\d+) distinct states found`)
var reDepth = regexp.MustCompile(`The depth of the complete state graph search is (\d+)`)
var reInv = regexp.MustCompile(`Error: Invariant (\S+) is violated`)
var reActProp = regexp.MustCompile(`Error: Action property (\S+) is violated`)
var reTemporal = regexp.MustCompile(`Error: Temporal properties were violated`)
var reCov = regexp.MustCompile(`^<(\w+) line (\d+), col (\d+) to line (\d+), col (\d+) of module (\w+)>: (\d+):(\d+)`)

func copyFile(src, dst string) error {
	b, err := os.ReadFile(src)
	if err != nil {
		return err
	}
	return os.WriteFile(dst, b, 0644)
}

// Run executes TLC. An error is returned only for infrastructure failures
// (TLC could not be started, parse errors in the spec, timeout); a violated
// property is reported in Result.Violated.
func Run(r *core.Run, o Options) (*Result, error) {
	res, err := runOnce(r, o)
	if err == nil || res == nil || o.Workers == 1 {
		return res, err
	}
	switch res.ExitCode {
	case 0, 10, 11, 12, 13, 124, 137:
		return res, err
	}
	// TLC ended with an internal error (not a property violation, not a timeout). With several workers this
	// has been seen sporadically (same spec and config pass when repeated): repeat once single-threaded, which
	// is deterministic; a genuine error of the spec fails again and is reported.
	r.Logf("TLC %s/%s failed with %d workers (exit %d); repeating once with 1 worker. First error lines:\n%s", o.Module, o.Config, o.Workers, res.ExitCode, errorLines(res.Output, 12))
	o2 := o
	o2.Workers = 1
	if o2.TimeoutSec > 0 {
		o2.TimeoutSec *= 3
	}
	return runOnce(r, o2)
}

func errorLines(s string, n int) string {
	var out []string
	lines := strings.Split(s, "\n")
	for i, l := range lines {
		if strings.Contains(l, "Error") || strings.Contains(l, "Exception") || strings.Contains(l, "error:") {
			end := i + 3
			if end > len(lines) {
				end = len(lines)
			}
			out = append(out, lines[i:end]...)
			if len(out) >= n {
				break
			}
		}
	}
	return strings.Join(out, "\n")
}

func runOnce(r *core.Run, o Options) (*Result, error) {
	n := atomic.AddInt64(&counter, 1)
	dir := filepath.Join(r.Scratch, fmt.Sprintf("tlc-%d", n))
	if err := os.MkdirAll(dir, 0755); err != nil {
		return nil, err
	}
	specDir := filepath.Join(r.Verif, "spec")
	ents, err := os.ReadDir(specDir)
	if err != nil {
		return nil, err
	}
	for _, e := range ents {
		if strings.HasSuffix(e.Name(), ".tla") {
			if err := copyFile(filepath.Join(specDir, e.Name()), filepath.Join(dir, e.Name())); err != nil {
				return nil, err
			}
		}
	}
	if _, generated := o.Files[o.Config]; !generated {
		if err := copyFile(filepath.Join(specDir, "cfg", o.Config), filepath.Join(dir, o.Config)); err != nil {
			return nil, err
		}
	}
	for name, content := range o.Files {
		if err := os.WriteFile(filepath.Join(dir, name), []byte(content), 0644); err != nil {
			return nil, err
		}
	}
	if o.Workers == 0 {
		o.Workers = 8
	}
	if o.TimeoutSec == 0 {
		o.TimeoutSec = 600
	}
	heap := o.HeapGB
	if heap == 0 {
		heap = 8
	}
	jopts := fmt.Sprintf("-Xmx%dg", heap)
	if o.XssMB > 0 {
		jopts += fmt.Sprintf(" -Xss%dm", o.XssMB)
	}
	if o.DFS {
		jopts += " -Dtlc2.tool.queue.IStateQueue=StateDeque"
	}
	if o.JavaOpts != "" {
		jopts += " " + o.JavaOpts
	}
	args := []string{"-k", "10", fmt.Sprint(o.TimeoutSec), "tlc", "-metadir", filepath.Join(dir, "meta"),
		"-workers", fmt.Sprint(o.Workers), "-config", o.Config, "-nowarning"}
	if o.Simulate != "" {
		args = append(args, "-simulate", o.Simulate)
	}
	if o.Depth > 0 {
		args = append(args, "-depth", fmt.Sprint(o.Depth))
	}
	if o.Seed != 0 {
		args = append(args, "-seed", fmt.Sprint(o.Seed))
	}
	if o.Coverage {
		args = append(args, "-coverage", "1")
	}
	if o.NoDeadlock {
		args = append(args, "-deadlock")
	}
	args = append(args, o.Module+".tla")
	cmd := exec.Command("timeout", args...)
	cmd.Dir = dir
	cmd.Env = append(os.Environ(), "JAVA_TOOL_OPTIONS="+jopts)
	stdout, err := cmd.StdoutPipe()
	if err != nil {
		return nil, err
	}
	cmd.Stderr = cmd.Stdout
	start := time.Now()
	if err := cmd.Start(); err != nil {
		return nil, err
	}
	res := &Result{Dir: dir, ActionCount: map[string]int64{}}
	var tail []string
	var all bytes.Buffer
	sc := bufio.NewScanner(stdout)
	sc.Buffer(make([]byte, 1<<20), 1<<28)
	const casePrefix = `<<"CASE", `
	for sc.Scan() {
		line := sc.Text()
		if strings.HasPrefix(line, casePrefix) && strings.HasSuffix(line, ">>") {
			lit := line[len(casePrefix) : len(line)-2]
			var s string
			if err := json.Unmarshal([]byte(lit), &s); err == nil {
				res.Cases++
				if o.OnCase != nil {
					o.OnCase([]byte(s))
				}
				continue
			}
		}
		if o.KeepOutput {
			all.WriteString(line)
			all.WriteByte('\n')
		}
		if len(tail) >= 400 {
			tail = tail[1:]
		}
		tail = append(tail, line)
		if m := reStates.FindStringSubmatch(line); m != nil {
			res.Generated, _ = strconv.ParseInt(m[1], 10, 64)
			res.Distinct, _ = strconv.ParseInt(m[2], 10, 64)
		}
		if m := reDepth.FindStringSubmatch(line); m != nil {
			res.Depth, _ = strconv.Atoi(m[1])
		}
		if m := reInv.FindStringSubmatch(line); m != nil && res.Violated == "" {
			res.Violated = m[1]
		}
		if m := reActProp.FindStringSubmatch(line); m != nil && res.Violated == "" {
			res.Violated = m[1]
		}
		if reTemporal.MatchString(line) && res.Violated == "" {
			res.Violated = "temporal"
		}
		if strings.Contains(line, "Error: Deadlock reached") && res.Violated == "" {
			res.Violated = "deadlock"
		}
		if strings.HasPrefix(line, "Error: Postcondition") && strings.Contains(line, "is false") {
			res.PostFalse = true
		}
		if m := reCov.FindStringSubmatch(line); m != nil {
			cnt, _ := strconv.ParseInt(m[8], 10, 64)
			res.ActionCount[m[1]] += cnt
		}
	}
	err = cmd.Wait()
	res.Wall = time.Since(start)
	if o.KeepOutput {
		res.Output = all.String()
	} else {
		res.Output = strings.Join(tail, "\n")
	}
	if ee, ok := err.(*exec.ExitError); ok {
		res.ExitCode = ee.ExitCode()
	} else if err != nil {
		return res, err
	}
	if res.ExitCode == 124 || res.ExitCode == 137 {
		res.TimedOut = true
		return res, fmt.Errorf("TLC timed out after %ds on %s/%s", o.TimeoutSec, o.Module, o.Config)
	}
	for a, c := range res.ActionCount {
		if c == 0 {
			res.ZeroActions = append(res.ZeroActions, a)
		}
	}
	// TLC exit codes: 0 ok, 10..13 violations (assumption, deadlock, safety, liveness);
	// anything else is an error in the spec or in TLC itself.
	switch res.ExitCode {
	case 0, 11, 12, 13:
	default:
		if res.Violated == "" && !res.PostFalse {
			return res, fmt.Errorf("TLC failed (exit %d) on %s/%s:\n%s", res.ExitCode, o.Module, o.Config, lastLines(res.Output, 40))
		}
	}
	if res.ExitCode != 0 && res.Violated == "" && !res.PostFalse {
		return res, fmt.Errorf("TLC exit %d without a recognised violation on %s/%s:\n%s", res.ExitCode, o.Module, o.Config, lastLines(res.Output, 40))
	}
	r.AddStates(res.Distinct, res.Generated)
	return res, nil
}

func lastLines(s string, n int) string {
	lines := strings.Split(s, "\n")
	if len(lines) > n {
		lines = lines[len(lines)-n:]
	}
	return strings.Join(lines, "\n")
}

// MustHold runs an exhaustive/simulation config whose properties are expected
// to hold on the model. A violation on the model alone is NOT a property
// violation (guard 3 of DESIGN.md section 2): it is an infrastructure/spec error.
func MustHold(r *core.Run, o Options) *Result {
	res, err := Run(r, o)
	if err != nil {
		r.Infra("%v", err)
		return res
	}
	if res.Violated != "" {
		r.Infra("model %s/%s violates %s on the design alone (spec error, not a verdict):\n%s", o.Module, o.Config, res.Violated, lastLines(res.Output, 60))
	}
	r.Logf("TLC %s/%s: %d generated, %d distinct, depth %d, %d cases, %.1fs", o.Module, o.Config, res.Generated, res.Distinct, res.Depth, res.Cases, res.Wall.Seconds())
	return res
}
