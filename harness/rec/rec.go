// Package rec records hook events (build tag verif) and harness events in one
// totally ordered log.  The sink is called synchronously at the hook site, so
// for events emitted inside a critical section the order of the log is the
// order of the critical sections.
package rec

import (
	"math/rand"
	"sync"
	"time"

	"github.com/evanw/esbuild/pkg/api"
)

type Event struct {
	Seq int64
	Ev  string
	Gid int64
	KV  map[string]interface{}
}

func (e Event) Str(k string) string {
	s, _ := e.KV[k].(string)
	return s
}
func (e Event) Bool(k string) bool {
	b, _ := e.KV[k].(bool)
	return b
}
func (e Event) Int(k string) int64 {
	switch v := e.KV[k].(type) {
	case int:
		return int64(v)
	case int64:
		return v
	case uint32:
		return int64(v)
	case int32:
		return int64(v)
	}
	return 0
}

type GateFunc func(name, key string, gid int64) string

var (
	mu      sync.Mutex
	events  []Event
	seq     int64
	enabled bool
	once    sync.Once

	gateMu sync.RWMutex
	gates  = map[string]GateFunc{} // by key (context id or path prefix) ; "" = default

	obsMu     sync.RWMutex
	observers = map[string]func(Event){} // by the event's "ctx" value
)

// Observe registers a callback that is invoked (after the event has been
// appended to the log, outside of the log's lock) for every hook event whose
// "ctx" field equals key.
func Observe(key string, fn func(Event)) {
	obsMu.Lock()
	if fn == nil {
		delete(observers, key)
	} else {
		observers[key] = fn
	}
	obsMu.Unlock()
}

// Install installs the global sink and gate dispatcher (idempotent)
func Install() {
	once.Do(func() {
		api.VerifSetSink(func(ev string, gid int64, kv []interface{}) {
			if !enabled {
				return
			}
			m := make(map[string]interface{}, len(kv)/2)
			for i := 0; i+1 < len(kv); i += 2 {
				if k, ok := kv[i].(string); ok {
					m[k] = kv[i+1]
				}
			}
			mu.Lock()
			seq++
			e := Event{Seq: seq, Ev: ev, Gid: gid, KV: m}
			events = append(events, e)
			mu.Unlock()
			if c, ok := m["ctx"].(string); ok {
				obsMu.RLock()
				fn := observers[c]
				obsMu.RUnlock()
				if fn != nil {
					fn(e)
				}
			}
		})
		api.VerifSetGate(func(name, key string) string {
			gateMu.RLock()
			g := gates[key]
			if g == nil {
				g = gates[""]
			}
			gateMu.RUnlock()
			if g == nil {
				return ""
			}
			return g(name, key, api.VerifGoID())
		})
	})
	enabled = true
}

// Log appends a harness-origin event
func Log(ev string, kv map[string]interface{}) {
	gid := api.VerifGoID()
	mu.Lock()
	seq++
	events = append(events, Event{Seq: seq, Ev: ev, Gid: gid, KV: kv})
	mu.Unlock()
}

// Take returns and clears all recorded events
func Take() []Event {
	mu.Lock()
	out := events
	events = nil
	mu.Unlock()
	return out
}

// Snapshot returns a copy of all events so far without clearing
func Snapshot() []Event {
	mu.Lock()
	out := append([]Event(nil), events...)
	mu.Unlock()
	return out
}

// SetGate registers a gate function for a key ("" = all other keys)
func SetGate(key string, g GateFunc) {
	gateMu.Lock()
	if g == nil {
		delete(gates, key)
	} else {
		gates[key] = g
	}
	gateMu.Unlock()
}

// Jitter returns a gate function that sleeps for a seeded random duration of
// at most maxMicros microseconds with probability p
func Jitter(seed int64, p float64, maxMicros int) GateFunc {
	var m sync.Mutex
	r := rand.New(rand.NewSource(seed))
	return func(name, key string, gid int64) string {
		m.Lock()
		hit := r.Float64() < p
		d := r.Intn(maxMicros + 1)
		m.Unlock()
		if hit {
			time.Sleep(time.Duration(d) * time.Microsecond)
		}
		return ""
	}
}
