// Package c10: code splitting shares modules correctly across chunks.
//
// Spec: Link.tla (the chunk graph as a function of the module graph: entry
// bits, chunks, cross-chunk imports, exported aliases; the properties are
// formulas over a link result), LinkGen.tla (the bounded graph family +
// the load machine; TLC checks the properties on Compute(G) for every graph
// and that loading any subset/order of entry points evaluates each module
// body once and reads no binding before initialisation; it exports one CASE
// record per graph: the graph, the expected chunking and the expected
// observations), LinkState.tla (the same formulas evaluated by TLC on the
// real linker state and on the acorn analysis of the emitted chunks).
//
// Binding (S): hook "link.done" -> record -> LinkState.tla; the real
// partition is also compared with the one the spec computes.
// Binding (R): the emitted chunks are written to disk and loaded by Node's ESM
// loader in every subset and order of the entry points (fresh module
// instances per sequence); the observation is compared with the spec's
// prediction, cross-validated by running the source modules natively and the
// unsplit bundle of every entry point.
package c10

import (
	"encoding/json"
	"fmt"
	"os"
	"path/filepath"
	"sort"
	"strings"
	"sync"
	"time"

	"github.com/evanw/esbuild/pkg/api"

	"verifharness/core"
	"verifharness/nodex"
	"verifharness/tlcrun"
)

// ---------------------------------------------------------------------------
// CASE records exported by LinkGen.tla

type gimport struct {
	To   string `json:"to"`
	Bind bool   `json:"bind"`
}

type grx struct {
	To   string `json:"to"`
	Kind string `json:"kind"` // star | named | rename | imex | ns
}

type gfile struct {
	Name    string    `json:"name"`
	Base    int       `json:"base"`
	Exports bool      `json:"exports"`
	Sfx     string    `json:"sfx"`  // suffix of the top-level names of the file
	Dflt    bool      `json:"dflt"` // has a default export
	Imports []gimport `json:"imports"`
	Reexp   []string  `json:"reexp"`
	Rx      []grx     `json:"rx"`
	Dyn     []string  `json:"dyn"`
	Req     []string  `json:"req"` // require() calls at the top level of the body
	Cjs     bool      `json:"cjs"` // written in CommonJS syntax
	Ldr     string    `json:"ldr"` // js | ts | tsx | jsx | json | css
}

// ext is the extension of the source file of a module parsed by the given loader
func ext(ldr string) string {
	switch ldr {
	case "ts", "tsx", "jsx", "json", "css":
		return "." + ldr
	}
	return ".js"
}

// hasBody: the module reports through probes (style sheets and JSON data do not)
func (f *gfile) hasBody() bool { return f.Ldr != "css" && f.Ldr != "json" }

type expChunk struct {
	Kind    string      `json:"kind"` // js | css
	Bits    []string    `json:"bits"`
	Files   []string    `json:"files"`
	Entry   string      `json:"entry"`
	Static  [][]string  `json:"static"`
	Dynamic [][]string  `json:"dynamic"`
	Exports []expExport `json:"exports"` // the alias table the renamer model assigns
}

type expSubset struct {
	Entries []string       `json:"entries"`
	Loaded  []string       `json:"loaded"`
	C       map[string]int `json:"c"`
}

type expExport struct {
	Alias string `json:"alias"`
	File  string `json:"file"`
	Name  string `json:"name"`
	Kind  string `json:"kind"` // v | c | bump | default | ns | peek | poke
}

// expRead is one thing the body of a module reads through a binding import
type expRead struct {
	Via    string `json:"via"`  // the imported module
	Kind   string `json:"kind"` // triple | default | ns
	File   string `json:"file"` // the declaring module
	Alias  string `json:"alias"`
	CAlias string `json:"calias"`
	BAlias string `json:"balias"`
}

type expect struct {
	AllEntries []string                   `json:"allEntries"`
	Live       []string                   `json:"live"`
	Chunks     []expChunk                 `json:"chunks"`
	Shared     int                        `json:"shared"`
	Val        map[string]int             `json:"val"`
	Dval       map[string]int             `json:"dval"`
	Effects    map[string][][]interface{} `json:"effects"`
	Async      map[string][][]interface{} `json:"async"`
	Reads      map[string][]expRead       `json:"reads"`
	Tables     map[string][]expExport     `json:"tables"` // the resolved export table (namespace) of every live file
	Closure    map[string][]string        `json:"closure"`
	Subsets    []expSubset                `json:"subsets"`
	Wrap       map[string]string          `json:"wrap"`     // wrap kind of every live file: none | esm | cjs
	Uses       []expUse                   `json:"uses"`     // symbol uses (bindings, wrappers, exports objects) by file
	Features   []string                   `json:"features"` // feature labels of the graph
}

type expUse struct {
	By   string `json:"by"`
	File string `json:"file"`
	Name string `json:"name"`
}

// binds lists the modules whose binding triples the body of m reads and bumps, in order
func (e *expect) binds(m string) []string {
	var out []string
	for _, r := range e.Reads[m] {
		if r.Kind == "triple" {
			out = append(out, r.File)
		}
	}
	return out
}

// table returns the export table of a file sorted by alias
func (e *expect) table(m string) []expExport {
	t := append([]expExport{}, e.Tables[m]...)
	sort.Slice(t, func(i, j int) bool { return t[i].Alias < t[j].Alias })
	return t
}

type gcase struct {
	Label   string   `json:"label"`
	K       int      `json:"k"`
	Masks   []int    `json:"masks"`
	Variant string   `json:"variant"`
	Files   []gfile  `json:"files"`
	Entries []string `json:"entries"`
	Expect  expect   `json:"expect"`
}

func (c *gcase) file(name string) *gfile {
	for i := range c.Files {
		if c.Files[i].Name == name {
			return &c.Files[i]
		}
	}
	return nil
}

func effectString(e []interface{}) string {
	if len(e) != 3 {
		return fmt.Sprint(e)
	}
	v := e[2]
	if f, ok := v.(float64); ok {
		v = int(f)
	}
	return fmt.Sprintf("%v:%v=%v", e[0], e[1], v)
}

// ---------------------------------------------------------------------------
// the source program of a graph (the projection graph -> JavaScript)

// local name of a binding imported from module via under the name alias
func local(alias, via string) string { return alias + "_of_" + via }

// render writes the source text of one module.  Every name a statement imports or re-exports comes from the export
// tables the specification computed (expect.tables); `export *` is the only statement whose meaning the text leaves
// to the ES semantics.
//
// native = the reading of the same graph that Node's ESM loader can run without a bundler (the cross-validation of
// the spec's prediction): every module is a .js ES module, a require() is a namespace import, a module written in
// CommonJS syntax is written as the ES module with the same exports, a style sheet import is dropped, type annotations
// are left out.  It differs from the bundled reading only in the relative order of different modules' top-level code,
// which is not compared.
func (c *gcase) render(f *gfile, isUserEntry bool, native bool) string {
	var sb strings.Builder
	m := f.Name
	path := func(to string) string {
		if native {
			return "./" + to + ".js"
		}
		return "./" + to + ext(c.file(to).Ldr)
	}
	switch f.Ldr {
	case "css":
		return fmt.Sprintf(".%s { color: #0000%02d }\n", m, f.Base)
	case "json":
		if native {
			return fmt.Sprintf("export default %d;\n", c.Expect.Dval[m])
		}
		return fmt.Sprintf("%d\n", c.Expect.Dval[m])
	}
	if f.Cjs && !native {
		return c.renderCJS(f)
	}
	if native {
		for _, t := range f.Req {
			fmt.Fprintf(&sb, "import * as req_%s from '%s';\n", t, path(t))
		}
	}
	for _, imp := range f.Imports {
		if c.file(imp.To).Ldr == "css" {
			if !native {
				fmt.Fprintf(&sb, "import '%s';\n", path(imp.To))
			}
			continue
		}
		var specs []string
		if imp.Bind {
			for _, x := range c.Expect.table(imp.To) {
				specs = append(specs, fmt.Sprintf("%s as %s", x.Alias, local(x.Alias, imp.To)))
			}
		}
		if len(specs) > 0 {
			fmt.Fprintf(&sb, "import { %s } from '%s';\n", strings.Join(specs, ", "), path(imp.To))
		} else {
			fmt.Fprintf(&sb, "import '%s';\n", path(imp.To))
		}
	}
	edges := []grx{}
	for _, x := range f.Reexp {
		edges = append(edges, grx{To: x, Kind: "rename"})
	}
	edges = append(edges, f.Rx...)
	for _, e := range edges {
		tab := c.Expect.table(e.To)
		switch e.Kind {
		case "star":
			fmt.Fprintf(&sb, "export * from '%s';\n", path(e.To))
		case "ns":
			fmt.Fprintf(&sb, "export * as ns_%s from '%s';\n", e.To, path(e.To))
		case "named", "rename":
			var specs []string
			for _, x := range tab {
				if e.Kind == "rename" {
					specs = append(specs, fmt.Sprintf("%s as %s_%s", x.Alias, x.Alias, e.To))
				} else {
					specs = append(specs, x.Alias)
				}
			}
			fmt.Fprintf(&sb, "export { %s } from '%s';\n", strings.Join(specs, ", "), path(e.To))
		case "imex":
			var imps, exps []string
			for _, x := range tab {
				l := x.Alias + "_ie_" + e.To
				imps = append(imps, fmt.Sprintf("%s as %s", x.Alias, l))
				exps = append(exps, fmt.Sprintf("%s as %s", l, x.Alias))
			}
			if len(imps) > 0 {
				fmt.Fprintf(&sb, "import { %s } from '%s';\nexport { %s };\n", strings.Join(imps, ", "), path(e.To), strings.Join(exps, ", "))
			} else {
				fmt.Fprintf(&sb, "import '%s';\n", path(e.To))
			}
		}
	}
	x := f.Sfx
	fmt.Fprintf(&sb, "__probe(%q, \"start:%s=0\");\n", m, m)
	ann := ""
	if !native && (f.Ldr == "ts" || f.Ldr == "tsx") {
		ann = ": number"
	}
	fmt.Fprintf(&sb, "let id%s%s = %d;\nfunction helper%s()%s { return id%s }\n", x, ann, f.Base, x, ann, x)
	fmt.Fprintf(&sb, "__probe(%q, \"helper:%s=\" + helper%s());\n", m, m, x)
	for _, t := range f.Req {
		if !native {
			fmt.Fprintf(&sb, "const req_%s = require('%s');\n", t, path(t))
		}
		fmt.Fprintf(&sb, "__probe(%q, \"req:%s=\" + (req_%s.v%s === undefined ? -1 : req_%s.v%s));\n", m, t, t, c.file(t).Sfx, t, c.file(t).Sfx)
	}
	if f.Exports {
		sum := []string{}
		for _, imp := range f.Imports {
			if t := c.file(imp.To); imp.Bind && t.Exports {
				sum = append(sum, local("v"+t.Sfx, t.Name))
			}
		}
		if len(sum) == 0 {
			sum = []string{"0"}
		}
		fmt.Fprintf(&sb, "export let v%s = %d + 2 * (%s);\nexport let c%s = 0;\nexport function bump%s() { c%s += 1; return c%s }\n", x, f.Base, strings.Join(sum, " + "), x, x, x, x)
		fmt.Fprintf(&sb, "__probe(%q, \"own:%s=\" + v%s);\n", m, m, x)
	}
	if f.Dflt {
		fmt.Fprintf(&sb, "export default helper%s() * 1000;\n", x)
	}
	reads := c.Expect.Reads[m]
	for _, r := range reads {
		l := local(r.Alias, r.Via)
		switch r.Kind {
		case "triple":
			cl, bl := local(r.CAlias, r.Via), local(r.BAlias, r.Via)
			fmt.Fprintf(&sb, "__probe(%q, \"read:%s=\" + %s);\n", m, r.File, l)
			fmt.Fprintf(&sb, "{ const before = %s; %s(); __probe(%q, \"bump:%s=\" + (%s - before)); }\n", cl, bl, m, r.File, cl)
		case "default":
			fmt.Fprintf(&sb, "__probe(%q, \"dflt:%s=\" + %s);\n", m, r.File, l)
		case "ns":
			fmt.Fprintf(&sb, "__probe(%q, \"ns:%s=\" + Object.keys(%s).length);\n", m, r.File, l)
		}
	}
	for _, d := range f.Dyn {
		// every name of the namespace is read; its `v` and the number of names are reported
		fmt.Fprintf(&sb, "__track(%q, import('%s').then((ns) => { for (const k of Object.keys(ns)) void ns[k]; __probe(%q, \"dyn:%s=\" + (ns.v%s === undefined ? -1 : ns.v%s)); __probe(%q, \"dynkeys:%s=\" + Object.keys(ns).length) }));\n",
			m, path(d), m, d, c.file(d).Sfx, c.file(d).Sfx, m, d)
	}
	if isUserEntry {
		var peeks, pokes []string
		for _, r := range reads {
			if r.Kind == "triple" {
				peeks = append(peeks, fmt.Sprintf("[%q, %s, %s]", r.File, local(r.Alias, r.Via), local(r.CAlias, r.Via)))
				pokes = append(pokes, fmt.Sprintf("%s();", local(r.BAlias, r.Via)))
			}
		}
		fmt.Fprintf(&sb, "export function peek_%s() { return [%s] }\n", m, strings.Join(peeks, ", "))
		fmt.Fprintf(&sb, "export function poke_%s() { %s }\n", m, strings.Join(pokes, " "))
	}
	fmt.Fprintf(&sb, "__probe(%q, \"end:%s=0\");\n", m, m)
	return sb.String()
}

// renderCJS writes a module in CommonJS syntax: the same probes and the same exports (v, c, bump) as properties of
// `exports` (c is read through the exports object, so importers see it change)
func (c *gcase) renderCJS(f *gfile) string {
	var sb strings.Builder
	m, x := f.Name, f.Sfx
	fmt.Fprintf(&sb, "__probe(%q, \"start:%s=0\");\n", m, m)
	fmt.Fprintf(&sb, "let id%s = %d;\nfunction helper%s() { return id%s }\n", x, f.Base, x, x)
	fmt.Fprintf(&sb, "__probe(%q, \"helper:%s=\" + helper%s());\n", m, m, x)
	for _, t := range f.Req {
		fmt.Fprintf(&sb, "const req_%s = require('./%s%s');\n", t, t, ext(c.file(t).Ldr))
		fmt.Fprintf(&sb, "__probe(%q, \"req:%s=\" + (req_%s.v%s === undefined ? -1 : req_%s.v%s));\n", m, t, t, c.file(t).Sfx, t, c.file(t).Sfx)
	}
	if f.Exports {
		fmt.Fprintf(&sb, "exports.v%s = %d + 2 * (0);\nexports.c%s = 0;\nexports.bump%s = function () { exports.c%s += 1; return exports.c%s };\n", x, f.Base, x, x, x, x)
		fmt.Fprintf(&sb, "__probe(%q, \"own:%s=\" + exports.v%s);\n", m, m, x)
	}
	fmt.Fprintf(&sb, "__probe(%q, \"end:%s=0\");\n", m, m)
	return sb.String()
}

func (c *gcase) srcPath(name string) string { return "src/" + name + ext(c.file(name).Ldr) }

// sources: the project the bundler reads (src/) and the native reading of the same graph (native/)
func (c *gcase) sources() map[string]string {
	user := map[string]bool{}
	for _, e := range c.Entries {
		user[e] = true
	}
	out := map[string]string{}
	for i := range c.Files {
		f := &c.Files[i]
		out[c.srcPath(f.Name)] = c.render(f, user[f.Name], false)
		if f.Ldr != "css" {
			out["native/"+f.Name+".js"] = c.render(f, user[f.Name], true)
		}
	}
	// (the bundler decides between CommonJS and ES syntax by the text of a file, not by a package.json of type module)
	out["src/package.json"] = "{}\n"
	return out
}

// every non-empty subset of 0..k-1 in every order
func sequences(k int) [][]int {
	var out [][]int
	var rec func(cur []int, used int)
	rec = func(cur []int, used int) {
		if len(cur) > 0 {
			out = append(out, append([]int{}, cur...))
		}
		for i := 0; i < k; i++ {
			if used&(1<<i) == 0 {
				rec(append(cur, i), used|1<<i)
			}
		}
	}
	rec(nil, 0)
	return out
}

// ---------------------------------------------------------------------------
// the link.done projection (routed by working directory)

type ldFile struct {
	Idx     int    `json:"idx"`
	Pretty  string `json:"pretty"`
	IsLive  bool   `json:"isLive"`
	IsEntry bool   `json:"isEntry"`
	Bits    []int  `json:"bits"`
	Kind    string `json:"kind"`
	Wrap    string `json:"wrap"`
}

// specNameOf is the name of a file of the link.done projection in the vocabulary of the specification: the base name
// without the extension; the JS stub the bundler creates for a style sheet imported from JS (same path, JS
// representation) is not a file of the specification's alphabet, like the runtime
func (f *ldFile) specNameOf() string {
	b := filepath.Base(f.Pretty)
	if f.Kind == "js" && strings.HasSuffix(b, ".css") {
		return b + "#stub"
	}
	for _, e := range []string{".js", ".ts", ".tsx", ".jsx", ".json", ".css"} {
		if strings.HasSuffix(b, e) {
			return strings.TrimSuffix(b, e)
		}
	}
	return b
}

type ldChunk struct {
	I           int   `json:"i"`
	IsEntry     bool  `json:"isEntry"`
	EntryBit    int   `json:"entryBit"`
	SourceIndex int   `json:"sourceIndex"`
	Bits        []int `json:"bits"`
	Files       []int `json:"files"`
	Imports     []struct {
		Chunk int `json:"chunk"`
		Kind  int `json:"kind"`
	} `json:"imports"`
	Exports map[string]struct {
		Name string `json:"name"`
		File int    `json:"file"`
	} `json:"exports"`
	ExportCount int `json:"exportCount"`
	ImportsFrom []struct {
		Chunk   int      `json:"chunk"`
		Aliases []string `json:"aliases"`
	} `json:"importsFrom"`
	Kind string `json:"kind"`
}

type ldData struct {
	Cwd     string    `json:"cwd"`
	Files   []ldFile  `json:"files"`
	Chunks  []ldChunk `json:"chunks"`
	Entries []struct {
		SourceIndex int `json:"sourceIndex"`
	} `json:"entries"`
	Splitting bool `json:"splitting"`
}

var linkMu sync.Mutex
var linkSlots = map[string]*ldData{}

func installLinkProc() {
	api.VerifSetProc("link.done", func(data interface{}) {
		m, ok := data.(map[string]interface{})
		if !ok {
			return
		}
		if sp, _ := m["splitting"].(bool); !sp {
			return
		}
		cwd, _ := m["cwd"].(string)
		linkMu.Lock()
		_, wanted := linkSlots[cwd]
		linkMu.Unlock()
		if !wanted {
			return
		}
		b, err := json.Marshal(m)
		if err != nil {
			return
		}
		var d ldData
		if json.Unmarshal(b, &d) != nil {
			return
		}
		linkMu.Lock()
		linkSlots[cwd] = &d
		linkMu.Unlock()
	})
}

// ---------------------------------------------------------------------------
// records for LinkState.tla

type srFile struct {
	ID      int   `json:"id"`
	Live    bool  `json:"live"`
	Bits    []int `json:"bits"`
	IsEntry bool  `json:"isEntry"`
	Css     bool  `json:"css"`
}
type srImport struct {
	Chunk int    `json:"chunk"`
	Kind  string `json:"kind"`
}
type srExport struct {
	Alias string `json:"alias"`
	File  int    `json:"file"`
	Name  string `json:"name"`
}
type srImportFrom struct {
	Chunk int    `json:"chunk"`
	Alias string `json:"alias"`
}
type srChunk struct {
	Kind        string         `json:"kind"`
	Bits        []int          `json:"bits"`
	IsEntry     bool           `json:"isEntry"`
	Entry       int            `json:"entry"`
	Files       []int          `json:"files"`
	Imports     []srImport     `json:"imports"`
	Exports     []srExport     `json:"exports"`
	ExportCount int            `json:"exportCount"`
	ImportsFrom []srImportFrom `json:"importsFrom"`
}
type srEmImport struct {
	To    int      `json:"to"`
	Names []string `json:"names"`
}
type srEmAssign struct {
	To   int    `json:"to"`
	Name string `json:"name"`
}
type srEmitted struct {
	Kind       string       `json:"kind"` // js | css
	IsEntry    bool         `json:"isEntry"`
	Imports    []srEmImport `json:"imports"`
	Dyn        []int        `json:"dyn"`
	Exports    []string     `json:"exports"`
	Assigns    []srEmAssign `json:"assigns"`
	ParseError bool         `json:"parseError"`
}
type srEexport struct {
	Entry int    `json:"entry"`
	File  int    `json:"file"`
	Name  string `json:"name"`
}
type srUse struct {
	By   int    `json:"by"`
	File int    `json:"file"`
	Name string `json:"name"`
}
type stateRecord struct {
	ID      int         `json:"id"`
	Files   []srFile    `json:"files"`
	Entries []int       `json:"entries"`
	Chunks  []srChunk   `json:"chunks"`
	Emitted []srEmitted `json:"emitted"`
	// what the entry points export according to the specification (TableOf), in the linker's file ids
	Eexports []srEexport `json:"eexports"`
	// the symbol uses the specification predicts (bindings, wrappers init_x / require_x, exports objects), in the
	// linker's file ids
	Uses []srUse `json:"uses"`
	// not serialised
	cs     *gcase
	config string
	detail map[string]interface{}
}


// ---------------------------------------------------------------------------
// node jobs and results

type nodeJob struct {
	ID         string   `json:"id"`
	Dir        string   `json:"dir"`
	Entries    []string `json:"entries"`
	Names      []string `json:"names"` // entry point i exports the observers peek_<name>, poke_<name>
	Sequences  [][]int  `json:"sequences"`
	Analyze    bool     `json:"analyze"`
	NoCopy     bool     `json:"nocopy"`
	PublicPath string   `json:"publicPath"`
}

type nodeErr struct {
	Where   string `json:"where"`
	Name    string `json:"name"`
	Message string `json:"message"`
}

type nodeSnap struct {
	Entry int                    `json:"entry"`
	NS    map[string]interface{} `json:"ns"`
	Peek  [][]interface{}        `json:"peek"`
}

type nodeRun struct {
	Seq    []int      `json:"seq"`
	Trace  [][]string `json:"trace"`
	Errors []nodeErr  `json:"errors"`
	After  []nodeSnap `json:"after"`
	Poked  []nodeSnap `json:"poked"`
}

type anImport struct {
	To    *string  `json:"to"`
	Path  string   `json:"path"`
	Names []string `json:"names"`
}
type anDyn struct {
	To   *string `json:"to"`
	Path string  `json:"path"`
}
type anFile struct {
	Kind       string     `json:"kind"` // js | css
	File       string     `json:"file"`
	Imports    []anImport `json:"imports"`
	Dyn        []anDyn    `json:"dyn"`
	Exports    []string   `json:"exports"`
	Assigns    []string   `json:"assigns"`
	ParseError string     `json:"parseError"`
}
type nodeResult struct {
	ID       string    `json:"id"`
	Runs     []nodeRun `json:"runs"`
	Analysis *struct {
		Error string   `json:"error"`
		Files []anFile `json:"files"`
	} `json:"analysis"`
}

// ---------------------------------------------------------------------------
// comparing one run with the specification's prediction

func sortedCopy(xs []string) []string {
	out := append([]string{}, xs...)
	sort.Strings(out)
	return out
}

func sameSet(a, b []string) bool {
	x, y := sortedCopy(a), sortedCopy(b)
	if len(x) != len(y) {
		return false
	}
	for i := range x {
		if x[i] != y[i] {
			return false
		}
	}
	return true
}

func setKey(xs []string) string { return strings.Join(sortedCopy(xs), ",") }

// checkRun returns the discrepancies between the observation of one load
// sequence and the prediction of the spec (up to the relative order of
// different modules' top-level code).  entries are the user entry points that
// the job could load (the unsplit job has only one).
func (c *gcase) checkRun(run *nodeRun, entryNames []string) []string {
	var bad []string
	for _, e := range run.Errors {
		bad = append(bad, fmt.Sprintf("error %s at %s: %s", e.Name, e.Where, e.Message))
	}
	var loadedEntries []string
	for _, ei := range run.Seq {
		loadedEntries = append(loadedEntries, entryNames[ei])
	}
	var sub *expSubset
	for i := range c.Expect.Subsets {
		if sameSet(c.Expect.Subsets[i].Entries, loadedEntries) {
			sub = &c.Expect.Subsets[i]
		}
	}
	if sub == nil {
		return append(bad, fmt.Sprintf("no prediction for the entry set %v", loadedEntries))
	}
	// per-module effect subsequences
	perSync := map[string][]string{}
	perAsync := map[string][]string{}
	startAt := map[string]int{}
	endAt := map[string]int{}
	for i, t := range run.Trace {
		if len(t) != 2 {
			continue
		}
		m, s := t[0], t[1]
		if strings.HasPrefix(s, "dyn:") || strings.HasPrefix(s, "dynkeys:") {
			perAsync[m] = append(perAsync[m], s)
			if _, ended := endAt[m]; !ended {
				bad = append(bad, fmt.Sprintf("module %s: dynamic import result %q before the end of its body", m, s))
			}
			continue
		}
		perSync[m] = append(perSync[m], s)
		if strings.HasPrefix(s, "start:") {
			if _, twice := startAt[m]; twice {
				bad = append(bad, fmt.Sprintf("module %s: body ran more than once", m))
			}
			startAt[m] = i
		}
		if strings.HasPrefix(s, "end:") {
			endAt[m] = i
		}
	}
	var ran []string
	for m := range perSync {
		ran = append(ran, m)
	}
	if !sameSet(ran, sub.Loaded) {
		bad = append(bad, fmt.Sprintf("modules evaluated %v, expected %v", sortedCopy(ran), sortedCopy(sub.Loaded)))
	}
	for _, m := range sortedCopy(ran) {
		var want []string
		for _, e := range c.Expect.Effects[m] {
			want = append(want, effectString(e))
		}
		if strings.Join(perSync[m], " ") != strings.Join(want, " ") {
			bad = append(bad, fmt.Sprintf("module %s: effects %v, expected %v", m, perSync[m], want))
		}
		var wantAsync []string
		for _, e := range c.Expect.Async[m] {
			wantAsync = append(wantAsync, effectString(e))
		}
		if setKey(perAsync[m]) != setKey(wantAsync) {
			bad = append(bad, fmt.Sprintf("module %s: dynamic import effects %v, expected %v", m, perAsync[m], wantAsync))
		}
		// every module whose bindings the body reads is evaluated before the body starts.  (A module that is only
		// re-exported or imported for its side effects may run later than in the unsplit program: that is the
		// documented limitation about the relative order of different modules' top-level code.)
		for _, d := range c.Expect.binds(m) {
			de, ok := endAt[d]
			if !ok || de > startAt[m] {
				bad = append(bad, fmt.Sprintf("module %s started before %s, whose bindings it reads, was evaluated", m, d))
			}
		}
	}
	// a module outside the static closure of the loaded entry points is evaluated lazily: only after the body of a
	// module whose import() reaches it has ended
	eager := map[string]bool{}
	for _, e := range loadedEntries {
		for _, m := range c.Expect.Closure[e] {
			eager[m] = true
		}
	}
	for _, x := range sortedCopy(ran) {
		if eager[x] {
			continue
		}
		ok := false
		for _, m := range ran {
			f := c.file(m)
			em, ended := endAt[m]
			if f == nil || !ended || em > startAt[x] {
				continue
			}
			for _, d := range f.Dyn {
				for _, y := range c.Expect.Closure[d] {
					if y == x {
						ok = true
					}
				}
			}
		}
		if !ok {
			bad = append(bad, fmt.Sprintf("module %s is only reachable through import() but was evaluated before any import() that reaches it", x))
		}
	}
	// what the loaded entry points observe: their namespaces and the shared state
	counters := map[string]int{}
	for k, v := range sub.C {
		counters[k] = v
	}
	checkSnaps := func(stage string, snaps []nodeSnap) {
		if len(snaps) != len(run.Seq) {
			bad = append(bad, fmt.Sprintf("%s: %d of %d entry points loaded", stage, len(snaps), len(run.Seq)))
		}
		for _, s := range snaps {
			e := entryNames[s.Entry]
			want := c.wantNamespace(e, counters, 0)
			if g, w := normJSON(s.NS), normJSON(want); g != w {
				bad = append(bad, fmt.Sprintf("%s: namespace of %s is %s, expected %s", stage, e, g, w))
			}
			wantPeek := [][]interface{}{}
			for _, t := range c.Expect.binds(e) {
				wantPeek = append(wantPeek, []interface{}{t, c.Expect.Val[t], counters[t]})
			}
			gotPeek := s.Peek
			if gotPeek == nil {
				gotPeek = [][]interface{}{}
			}
			if g, w := normJSON(gotPeek), normJSON(wantPeek); g != w {
				bad = append(bad, fmt.Sprintf("%s: %s observes shared state %s, expected %s", stage, e, g, w))
			}
		}
	}
	checkSnaps("after load", run.After)
	for _, e := range loadedEntries {
		for _, t := range c.Expect.binds(e) {
			counters[t]++
		}
	}
	checkSnaps("after poke", run.Poked)
	return bad
}

// wantNamespace is the namespace object of module m the specification predicts: every alias of its export table
// with the value of the binding it resolves to (a namespace re-export nests the namespace of its target)
func (c *gcase) wantNamespace(m string, counters map[string]int, depth int) map[string]interface{} {
	want := map[string]interface{}{}
	for _, x := range c.Expect.Tables[m] {
		switch x.Kind {
		case "v":
			want[x.Alias] = c.Expect.Val[x.File]
		case "c":
			want[x.Alias] = counters[x.File]
		case "default":
			want[x.Alias] = c.Expect.Dval[x.File]
		case "ns":
			if depth < 6 {
				want[x.Alias] = c.wantNamespace(x.File, counters, depth+1)
			}
		default:
			want[x.Alias] = "fn"
		}
	}
	return want
}

func normJSON(v interface{}) string {
	b, _ := json.Marshal(v)
	var x interface{}
	json.Unmarshal(b, &x)
	b, _ = json.Marshal(x)
	return string(b)
}

// ---------------------------------------------------------------------------
// build configurations

type buildConfig struct {
	Name       string
	Minify     bool
	EntryNames string
	ChunkNames string
	PublicPath bool // file:// URL of the output directory
}

func (b buildConfig) String() string { return b.Name }

var cfgPlain = buildConfig{Name: "plain"}
var cfgMinify = buildConfig{Name: "minify", Minify: true}
var extraConfigs = []buildConfig{
	{Name: "names-dir-hash", EntryNames: "[dir]/[name]-[hash]", ChunkNames: "chunks/[name]-[hash]"},
	{Name: "names-hash-minify", Minify: true, EntryNames: "entry-[name]", ChunkNames: "[hash]"},
	{Name: "names-nested", EntryNames: "a/b/[name]", ChunkNames: "c/[name]-[hash]"},
	{Name: "public-path", PublicPath: true},
	{Name: "public-path-minify-names", Minify: true, PublicPath: true, ChunkNames: "x/[name]-[hash]"},
}

type builtSplit struct {
	cfg      buildConfig
	outdir   string
	entries  []string // output path (relative to outdir) of every user entry point
	isEntry  map[string]bool
	link     *ldData
	public   string
	errors   []string
	nOutputs int
	// entry point metadata of the metafile: source path -> the outputs that name it as their entry point; JS output ->
	// its CSS bundle
	entryOutputs map[string][]string
	cssBundle    map[string]string
}

type metaOut struct {
	Outputs map[string]struct {
		EntryPoint string `json:"entryPoint"`
		CSSBundle  string `json:"cssBundle"`
	} `json:"outputs"`
}

func (c *gcase) buildSplit(root string, cfg buildConfig) *builtSplit {
	out := &builtSplit{cfg: cfg, outdir: filepath.Join(root, "out-"+cfg.Name), isEntry: map[string]bool{}, entryOutputs: map[string][]string{}, cssBundle: map[string]string{}}
	var eps []string
	for _, e := range c.Entries {
		eps = append(eps, c.srcPath(e))
	}
	opts := api.BuildOptions{
		AbsWorkingDir: root,
		EntryPoints:   eps,
		Outbase:       "src",
		Outdir:        out.outdir,
		Bundle:        true,
		Splitting:     true,
		Format:        api.FormatESModule,
		Write:         true,
		Metafile:      true,
		LogLevel:      api.LogLevelSilent,
		EntryNames:    cfg.EntryNames,
		ChunkNames:    cfg.ChunkNames,
	}
	if cfg.Minify {
		opts.MinifyWhitespace, opts.MinifyIdentifiers, opts.MinifySyntax = true, true, true
	}
	if cfg.PublicPath {
		out.public = "file://" + filepath.ToSlash(out.outdir) + "/"
		opts.PublicPath = out.public
	}
	linkMu.Lock()
	linkSlots[root] = nil
	linkMu.Unlock()
	res := api.Build(opts)
	linkMu.Lock()
	out.link = linkSlots[root]
	delete(linkSlots, root)
	linkMu.Unlock()
	for _, e := range res.Errors {
		out.errors = append(out.errors, e.Text)
	}
	out.nOutputs = len(res.OutputFiles)
	var meta metaOut
	json.Unmarshal([]byte(res.Metafile), &meta)
	byEntry := map[string]string{}
	for p, o := range meta.Outputs {
		abs := filepath.Join(root, p)
		rel, err := filepath.Rel(out.outdir, abs)
		if err != nil {
			continue
		}
		rel = filepath.ToSlash(rel)
		if o.EntryPoint != "" {
			out.isEntry[rel] = true
			out.entryOutputs[o.EntryPoint] = append(out.entryOutputs[o.EntryPoint], rel)
			// (should an entry point be named by several outputs, the report is made in evaluateCase; the JS one is loaded)
			if _, have := byEntry[o.EntryPoint]; !have || strings.HasSuffix(rel, ".js") {
				byEntry[o.EntryPoint] = rel
			}
		}
		if o.CSSBundle != "" {
			if crel, err := filepath.Rel(out.outdir, filepath.Join(root, o.CSSBundle)); err == nil {
				out.cssBundle[rel] = filepath.ToSlash(crel)
			}
		}
	}
	for _, ep := range eps {
		out.entries = append(out.entries, byEntry[ep])
	}
	return out
}

func (c *gcase) buildUnsplit(root string, entry string, minify bool) (string, []string) {
	dir := filepath.Join(root, fmt.Sprintf("unsplit-%s-%v", entry, minify))
	opts := api.BuildOptions{
		AbsWorkingDir: root,
		EntryPoints:   []string{c.srcPath(entry)},
		Outfile:       filepath.Join(dir, entry+".js"),
		Bundle:        true,
		Format:        api.FormatESModule,
		Write:         true,
		LogLevel:      api.LogLevelSilent,
	}
	if minify {
		opts.MinifyWhitespace, opts.MinifyIdentifiers, opts.MinifySyntax = true, true, true
	}
	res := api.Build(opts)
	var errs []string
	for _, e := range res.Errors {
		errs = append(errs, e.Text)
	}
	return dir, errs
}

// ---------------------------------------------------------------------------
// the real partition compared with the spec's

type realChunk struct {
	Bits    []string
	Files   []string
	Entry   string
	Static  []string // keys of bit sets
	Dynamic []string
	// static imports that carry nothing but runtime helpers (__esm, __commonJS, __toESM, ...): the runtime file is
	// outside the alphabet of the specification, so such an edge is compared only if the specification has it too
	HelperStatic []string
}

func (c *gcase) comparePartition(d *ldData) (diff []string, shared int) {
	nameOf := map[int]string{}
	for i := range d.Files {
		nameOf[d.Files[i].Idx] = d.Files[i].specNameOf()
	}
	// the wrap kind of every file (a derived attribute the chunk graph depends on)
	for i := range d.Files {
		f := &d.Files[i]
		if w, ok := c.Expect.Wrap[nameOf[f.Idx]]; ok && f.Kind == "js" && f.IsLive && f.Wrap != w {
			diff = append(diff, fmt.Sprintf("file %s: wrap kind %s, spec %s", nameOf[f.Idx], f.Wrap, w))
		}
	}
	kindOf := func(k string) string {
		if k == "css" {
			return "css"
		}
		return "js"
	}
	entryName := func(bit int) string {
		if bit < 0 || bit >= len(d.Entries) {
			return fmt.Sprintf("?bit%d", bit)
		}
		return nameOf[d.Entries[bit].SourceIndex]
	}
	user := map[string]bool{}
	for i := range c.Files {
		user[c.Files[i].Name] = true
	}
	bitsKey := func(bits []int) string {
		var ns []string
		for _, b := range bits {
			ns = append(ns, entryName(b))
		}
		return setKey(ns)
	}
	// a shared chunk that holds nothing but esbuild's runtime helpers (needed for namespace objects; the runtime is
	// reachable from every entry point) is outside the alphabet of the specification, as the runtime file is
	helperOnly := map[int]bool{}
	for i, ch := range d.Chunks {
		n := 0
		for _, f := range ch.Files {
			if user[nameOf[f]] {
				n++
			}
		}
		if n == 0 && !ch.IsEntry && len(ch.Files) > 0 && ch.Kind != "css" {
			helperOnly[i] = true
		}
	}
	// does chunk ch import from chunk `from` symbols of non-user files (the runtime) only?
	helperEdge := func(ch ldChunk, from int) bool {
		n := 0
		for _, f := range ch.ImportsFrom {
			if f.Chunk != from {
				continue
			}
			for _, a := range f.Aliases {
				x, ok := d.Chunks[from].Exports[a]
				if !ok || user[nameOf[x.File]] {
					return false
				}
				n++
			}
		}
		return n > 0
	}
	real := map[string]realChunk{}
	for ci, ch := range d.Chunks {
		if helperOnly[ci] {
			shared++
			continue
		}
		rc := realChunk{}
		for _, b := range ch.Bits {
			rc.Bits = append(rc.Bits, entryName(b))
		}
		for _, f := range ch.Files {
			if user[nameOf[f]] { // the runtime file is not part of the spec's alphabet
				rc.Files = append(rc.Files, nameOf[f])
			}
		}
		if ch.IsEntry {
			rc.Entry = nameOf[ch.SourceIndex]
		} else {
			shared++
		}
		for _, imp := range ch.Imports {
			if imp.Chunk < 0 || imp.Chunk >= len(d.Chunks) || helperOnly[imp.Chunk] {
				continue
			}
			k := bitsKey(d.Chunks[imp.Chunk].Bits)
			if d.Chunks[imp.Chunk].Kind == "css" {
				k = "css:" + k // (never expected: a JS chunk does not import a CSS chunk)
			}
			if imp.Kind == 3 {
				rc.Dynamic = append(rc.Dynamic, k)
			} else if helperEdge(ch, imp.Chunk) {
				rc.HelperStatic = append(rc.HelperStatic, k)
			} else {
				rc.Static = append(rc.Static, k)
			}
		}
		real[kindOf(ch.Kind)+":"+setKey(rc.Bits)] = rc
	}
	want := map[string]expChunk{}
	for _, ch := range c.Expect.Chunks {
		want[kindOf(ch.Kind)+":"+setKey(ch.Bits)] = ch
	}
	for k, w := range want {
		r, ok := real[k]
		if !ok {
			diff = append(diff, fmt.Sprintf("spec has a chunk for bits {%s}, the linker has none", k))
			continue
		}
		if !sameSet(r.Files, w.Files) {
			diff = append(diff, fmt.Sprintf("chunk {%s}: files %v, spec %v", k, sortedCopy(r.Files), sortedCopy(w.Files)))
		}
		if r.Entry != w.Entry {
			diff = append(diff, fmt.Sprintf("chunk {%s}: entry %q, spec %q", k, r.Entry, w.Entry))
		}
		var ws, wd []string
		for _, s := range w.Static {
			ws = append(ws, setKey(s))
		}
		for _, s := range w.Dynamic {
			wd = append(wd, setKey(s))
		}
		rs := append([]string{}, r.Static...)
		for _, h := range r.HelperStatic {
			for _, x := range ws {
				if x == h {
					rs = append(rs, h)
				}
			}
		}
		if strings.Join(sortedCopy(rs), ";") != strings.Join(sortedCopy(ws), ";") {
			diff = append(diff, fmt.Sprintf("chunk {%s}: static imports %v, spec %v", k, sortedCopy(rs), sortedCopy(ws)))
		}
		if strings.Join(sortedCopy(r.Dynamic), ";") != strings.Join(sortedCopy(wd), ";") {
			diff = append(diff, fmt.Sprintf("chunk {%s}: dynamic imports %v, spec %v", k, sortedCopy(r.Dynamic), sortedCopy(wd)))
		}
	}
	for k := range real {
		if _, ok := want[k]; !ok {
			diff = append(diff, fmt.Sprintf("the linker has a chunk for bits {%s}, the spec has none", k))
		}
	}
	sort.Strings(diff)
	return diff, shared
}

// ---------------------------------------------------------------------------
// state records

func kindOfChunk(k string) string {
	if k == "css" {
		return "css"
	}
	return "js"
}

func makeRecord(c *gcase, b *builtSplit, an []anFile) *stateRecord {
	d := b.link
	rec := &stateRecord{cs: c, config: b.cfg.Name, Files: []srFile{}, Entries: []int{}, Chunks: []srChunk{}, Emitted: []srEmitted{}, Eexports: []srEexport{}, Uses: []srUse{}}
	idOf := map[string]int{}
	nameOfID := map[int]string{}
	for i := range d.Files {
		f := &d.Files[i]
		idOf[f.specNameOf()] = f.Idx + 1
		nameOfID[f.Idx+1] = f.specNameOf()
	}
	// the entry chunk of a wrapped entry point calls the wrapper of the entry point
	for _, e := range c.Expect.AllEntries {
		if w := c.Expect.Wrap[e]; idOf[e] > 0 && w != "" && w != "none" {
			rec.Eexports = append(rec.Eexports, srEexport{Entry: idOf[e], File: idOf[e], Name: "wrapper"})
		}
	}
	for _, u := range c.Expect.Uses {
		if idOf[u.By] > 0 && idOf[u.File] > 0 {
			rec.Uses = append(rec.Uses, srUse{By: idOf[u.By], File: idOf[u.File], Name: u.Name})
		}
	}
	for _, e := range c.Expect.AllEntries {
		for _, x := range c.Expect.Tables[e] {
			if idOf[e] > 0 && idOf[x.File] > 0 {
				rec.Eexports = append(rec.Eexports, srEexport{Entry: idOf[e], File: idOf[x.File], Name: x.Name})
			}
		}
	}
	// the linker's name of a symbol in the vocabulary of the specification
	specName := func(file int, orig string) string {
		switch orig {
		case nameOfID[file] + "_default":
			return "default"
		case nameOfID[file] + "_exports", "exports":
			return "*"
		case "init_" + nameOfID[file], "require_" + nameOfID[file]:
			return "wrapper"
		}
		return orig
	}
	entryFile := func(bit int) int {
		if bit < 0 || bit >= len(d.Entries) {
			return -1
		}
		return d.Entries[bit].SourceIndex + 1
	}
	for _, e := range d.Entries {
		rec.Entries = append(rec.Entries, e.SourceIndex+1)
	}
	for _, f := range d.Files {
		if f.Kind != "js" && f.Kind != "css" {
			continue
		}
		sf := srFile{ID: f.Idx + 1, Live: f.IsLive, IsEntry: f.IsEntry, Bits: []int{}, Css: f.Kind == "css"}
		for _, bit := range f.Bits {
			sf.Bits = append(sf.Bits, entryFile(bit))
		}
		rec.Files = append(rec.Files, sf)
	}
	for _, ch := range d.Chunks {
		sc := srChunk{Kind: kindOfChunk(ch.Kind), IsEntry: ch.IsEntry, Bits: []int{}, Files: []int{}, Imports: []srImport{}, Exports: []srExport{}, ImportsFrom: []srImportFrom{}, ExportCount: ch.ExportCount}
		if ch.IsEntry {
			sc.Entry = ch.SourceIndex + 1
		}
		for _, bit := range ch.Bits {
			sc.Bits = append(sc.Bits, entryFile(bit))
		}
		for _, f := range ch.Files {
			sc.Files = append(sc.Files, f+1)
		}
		for _, imp := range ch.Imports {
			kind := "static"
			if imp.Kind == 3 {
				kind = "dynamic"
			}
			sc.Imports = append(sc.Imports, srImport{Chunk: imp.Chunk + 1, Kind: kind})
		}
		var aliases []string
		for a := range ch.Exports {
			aliases = append(aliases, a)
		}
		sort.Strings(aliases)
		for _, a := range aliases {
			sc.Exports = append(sc.Exports, srExport{Alias: a, File: ch.Exports[a].File + 1, Name: specName(ch.Exports[a].File+1, ch.Exports[a].Name)})
		}
		for _, from := range ch.ImportsFrom {
			for _, a := range from.Aliases {
				sc.ImportsFrom = append(sc.ImportsFrom, srImportFrom{Chunk: from.Chunk + 1, Alias: a})
			}
		}
		rec.Chunks = append(rec.Chunks, sc)
	}
	index := map[string]int{}
	for i, f := range an {
		index[f.File] = i + 1
	}
	for _, f := range an {
		em := srEmitted{Kind: kindOfChunk(f.Kind), IsEntry: b.isEntry[f.File], Imports: []srEmImport{}, Dyn: []int{}, Exports: append([]string{}, f.Exports...), Assigns: []srEmAssign{}, ParseError: f.ParseError != ""}
		for _, imp := range f.Imports {
			to := 0
			if imp.To != nil {
				to = index[*imp.To]
			}
			names := []string{}
			for _, n := range imp.Names {
				if n != "*" { // a namespace import always resolves
					names = append(names, n)
				}
			}
			em.Imports = append(em.Imports, srEmImport{To: to, Names: names})
		}
		for _, dy := range f.Dyn {
			to := 0
			if dy.To != nil {
				to = index[*dy.To]
			}
			em.Dyn = append(em.Dyn, to)
		}
		for _, a := range f.Assigns {
			em.Assigns = append(em.Assigns, srEmAssign{To: 0, Name: a})
		}
		rec.Emitted = append(rec.Emitted, em)
	}
	return rec
}

type verdict struct {
	I       int      `json:"i"`
	ID      int      `json:"id"`
	Failing []string `json:"failing"`
}

// validate lets TLC evaluate the formulas of Link.tla on every record (one pass)
func validate(r *core.Run, recs []*stateRecord) {
	if len(recs) == 0 {
		return
	}
	var sb strings.Builder
	for i, rc := range recs {
		rc.ID = i + 1
		b, _ := json.Marshal(rc)
		sb.Write(b)
		sb.WriteByte('\n')
	}
	var verdicts []verdict
	res, err := tlcrun.Run(r, tlcrun.Options{Module: "LinkState", Config: "LinkState.cfg", Workers: 1, TimeoutSec: 1200,
		Files: map[string]string{"c10records.ndjson": sb.String()},
		OnCase: func(raw []byte) {
			var v verdict
			if json.Unmarshal(raw, &v) == nil {
				verdicts = append(verdicts, v)
			}
		}})
	if err != nil {
		r.Infra("state validation failed to run: %v", err)
		return
	}
	if res.Violated != "" || len(verdicts) != len(recs) {
		r.Infra("state validation incomplete: %d verdicts for %d records (violated=%q)\n%s", len(verdicts), len(recs), res.Violated, res.Output)
		return
	}
	r.AddTraces(int64(len(recs)))
	for _, v := range verdicts {
		if len(v.Failing) == 0 || v.I < 1 || v.I > len(recs) {
			continue
		}
		bad := recs[v.I-1]
		for _, inv := range v.Failing {
			r.Violation(map[string]interface{}{"kind": "state", "invariant": inv, "label": bad.cs.Label, "config": bad.config},
				fmt.Sprintf("the real link result of %s (%s) violates %s", bad.cs.Label, bad.config, inv),
				map[string]interface{}{"scenario": bad.cs, "record": bad, "detail": bad.detail})
		}
	}
}

// ---------------------------------------------------------------------------
// one case

type caseOutcome struct {
	records []*stateRecord
	shared  int
	runs    int
	builds  int
}

func readTree(dir string) map[string]string {
	out := map[string]string{}
	filepath.Walk(dir, func(p string, info os.FileInfo, err error) error {
		if err != nil || info.IsDir() {
			return nil
		}
		b, err := os.ReadFile(p)
		if err == nil {
			rel, _ := filepath.Rel(dir, p)
			out[filepath.ToSlash(rel)] = string(b)
		}
		return nil
	})
	return out
}

// subsetSequences keeps one load order per subset of entry points
func subsetSequences(seqs [][]int) [][]int {
	seen := map[int]bool{}
	var out [][]int
	for _, s := range seqs {
		mask := 0
		for _, i := range s {
			mask |= 1 << i
		}
		if !seen[mask] {
			seen[mask] = true
			out = append(out, s)
		}
	}
	return out
}

type prepared struct {
	idx         int
	c           *gcase
	root0, root string
	srcs        map[string]string
	seqs        [][]int
	splits      []*builtSplit
	unsplitDirs map[bool]map[string]string
	unsplitErrs []string
	jobs        []nodeJob
	builds      int
}

func (p *prepared) jobID(s string) string { return fmt.Sprintf("%d/%s", p.idx, s) }

// prepareCase writes the source program, runs the builds and lists the node jobs
func prepareCase(r *core.Run, idx int, c *gcase, configs []buildConfig) *prepared {
	p := &prepared{idx: idx, c: c}
	p.root0 = filepath.Join(r.Scratch, fmt.Sprintf("g%d", idx))
	os.MkdirAll(p.root0, 0755)
	root, err := filepath.EvalSymlinks(p.root0)
	if err != nil {
		root = p.root0
	}
	p.root = root
	p.srcs = c.sources()
	core.WriteTree(root, p.srcs)
	// every .js file below is an ES module (spares Node the CommonJS-first syntax detection)
	os.WriteFile(filepath.Join(root, "package.json"), []byte("{\"type\":\"module\"}\n"), 0644)
	p.seqs = sequences(len(c.Entries))
	var entryFiles []string
	for _, e := range c.Entries {
		entryFiles = append(entryFiles, e+".js")
	}
	for _, cfg := range configs {
		p.splits = append(p.splits, c.buildSplit(root, cfg))
		p.builds++
	}
	p.unsplitDirs = map[bool]map[string]string{}
	needUnsplit := map[bool]bool{}
	for _, cfg := range configs {
		needUnsplit[cfg.Minify] = true
	}
	for minify := range needUnsplit {
		p.unsplitDirs[minify] = map[string]string{}
		for _, e := range c.Entries {
			dir, errs := c.buildUnsplit(root, e, minify)
			p.unsplitDirs[minify][e] = dir
			p.unsplitErrs = append(p.unsplitErrs, errs...)
			p.builds++
		}
	}
	// node jobs: the source natively (one order per subset: the prediction does not depend on the order),
	// the unsplit bundles, the split outputs (every subset in every order)
	p.jobs = []nodeJob{{ID: p.jobID("native"), Dir: filepath.Join(root, "native"), Entries: entryFiles, Names: c.Entries, Sequences: subsetSequences(p.seqs)}}
	for minify, dirs := range p.unsplitDirs {
		for ei, e := range c.Entries {
			if _, err := os.Stat(filepath.Join(dirs[e], e+".js")); err == nil {
				p.jobs = append(p.jobs, nodeJob{ID: p.jobID(fmt.Sprintf("unsplit/%v/%d", minify, ei)), Dir: dirs[e], Entries: []string{e + ".js"}, Names: []string{e}, Sequences: [][]int{{0}}})
			}
		}
	}
	for si, b := range p.splits {
		if len(b.errors) > 0 || b.nOutputs == 0 {
			continue
		}
		job := nodeJob{ID: p.jobID(fmt.Sprintf("split/%d", si)), Dir: b.outdir, Entries: b.entries, Names: c.Entries, Sequences: p.seqs, Analyze: true, PublicPath: b.public}
		if si >= 2 {
			job.Sequences = subsetSequences(p.seqs)
		}
		if b.cfg.PublicPath {
			// chunks refer to each other by absolute file:// URLs: one sequence (all entry points in order) in place
			all := []int{}
			for i := range c.Entries {
				all = append(all, i)
			}
			job.NoCopy = true
			job.Sequences = [][]int{all}
		}
		p.jobs = append(p.jobs, job)
	}
	return p
}

// evaluateCase compares the observations with the prediction
func evaluateCase(r *core.Run, p *prepared, byID map[string]*nodeResult) (out caseOutcome) {
	c := p.c
	defer os.RemoveAll(p.root0)
	out.builds = p.builds
	replay := func(extra map[string]interface{}) map[string]interface{} {
		m := map[string]interface{}{"scenario": c, "files": p.srcs}
		for k, v := range extra {
			m[k] = v
		}
		return m
	}

	// 1. the spec's prediction against the native run of the source (guard 1: cross-validated oracle)
	native := byID[p.jobID("native")]
	if native == nil || len(native.Runs) == 0 {
		r.Infra("case %s: native run missing", c.Label)
		return
	}
	for i := range native.Runs {
		if bad := c.checkRun(&native.Runs[i], c.Entries); len(bad) > 0 {
			r.Drift("case %s: the spec's prediction differs from Node running the source modules (sequence %v): %s", c.Label, native.Runs[i].Seq, strings.Join(bad, "; "))
			return
		}
		out.runs++
	}

	// 2. the unsplit bundle of every entry point (the reference of the property statement)
	if len(p.unsplitErrs) > 0 {
		r.Drift("case %s: the unsplit build failed: %v", c.Label, p.unsplitErrs)
		return
	}
	for minify := range p.unsplitDirs {
		for ei := range c.Entries {
			res := byID[p.jobID(fmt.Sprintf("unsplit/%v/%d", minify, ei))]
			if res == nil || len(res.Runs) != 1 {
				r.Drift("case %s: no unsplit bundle for %s", c.Label, c.Entries[ei])
				return
			}
			if bad := c.checkRun(&res.Runs[0], []string{c.Entries[ei]}); len(bad) > 0 {
				// the reference itself misbehaves: a C02 matter, not a verdict about splitting
				r.Drift("case %s: the UNSPLIT bundle of %s (minify=%v) differs from the source semantics: %s", c.Label, c.Entries[ei], minify, strings.Join(bad, "; "))
				return
			}
			out.runs++
		}
	}

	// 3. the split builds
	for si, b := range p.splits {
		key := func(kind string) map[string]interface{} {
			return map[string]interface{}{"kind": kind, "label": c.Label, "config": b.cfg.Name}
		}
		if len(b.errors) > 0 || b.nOutputs == 0 {
			r.Violation(key("build"), fmt.Sprintf("splitting build of %s (%s) failed: %v", c.Label, b.cfg.Name, b.errors), replay(map[string]interface{}{"errors": b.errors}))
			continue
		}
		res := byID[p.jobID(fmt.Sprintf("split/%d", si))]
		if res == nil {
			r.Infra("case %s: split run missing", c.Label)
			continue
		}
		emitted := readTree(b.outdir)
		for _, e := range b.entries {
			if e == "" {
				r.Violation(key("outputs"), fmt.Sprintf("%s (%s): an entry point has no output file", c.Label, b.cfg.Name), replay(map[string]interface{}{"emitted": emitted}))
			}
		}
		// entry point metadata: every entry point (user or import() target) is named by exactly one output, a JS file; the
		// CSS bundle it names exists
		cssWanted := map[string]bool{}
		for _, ch := range c.Expect.Chunks {
			if ch.Kind == "css" {
				cssWanted[ch.Entry] = true
			}
		}
		for _, e := range c.Expect.AllEntries {
			outs := b.entryOutputs[c.srcPath(e)]
			if len(outs) != 1 || !strings.HasSuffix(outs[0], ".js") {
				r.Violation(key("entry-metadata"), fmt.Sprintf("%s (%s): the entry point %s is named by the outputs %v, expected exactly one JS file", c.Label, b.cfg.Name, e, outs),
					replay(map[string]interface{}{"emitted": emitted, "entryOutputs": b.entryOutputs}))
				continue
			}
			css := b.cssBundle[outs[0]]
			if _, exists := emitted[css]; css != "" && !exists {
				r.Violation(key("css-chunk"), fmt.Sprintf("%s (%s): the CSS bundle %s of entry point %s was not written", c.Label, b.cfg.Name, css, e), replay(map[string]interface{}{"emitted": emitted}))
			}
			if (css != "") != cssWanted[e] {
				r.Drift("case %s (%s): entry point %s has the CSS bundle %q, the spec's two-chunk rule says %v", c.Label, b.cfg.Name, e, css, cssWanted[e])
			}
		}
		runBad := false
		for i := range res.Runs {
			out.runs++
			if bad := c.checkRun(&res.Runs[i], c.Entries); len(bad) > 0 {
				runBad = true
				var seqNames []string
				for _, ei := range res.Runs[i].Seq {
					seqNames = append(seqNames, c.Entries[ei])
				}
				r.Violation(key("run"), fmt.Sprintf("%s (%s): loading %v from the split output differs from the unsplit program: %s", c.Label, b.cfg.Name, seqNames, strings.Join(bad, "; ")),
					replay(map[string]interface{}{"sequence": seqNames, "discrepancies": bad, "observed": res.Runs[i], "emitted": emitted}))
				break // one report per build
			}
		}
		if b.link == nil {
			r.Infra("case %s (%s): no link.done projection received", c.Label, b.cfg.Name)
			continue
		}
		if res.Analysis == nil || res.Analysis.Error != "" {
			r.Infra("case %s (%s): static analysis failed: %v", c.Label, b.cfg.Name, res.Analysis)
			continue
		}
		diff, shared := c.comparePartition(b.link)
		if shared > out.shared {
			out.shared = shared
		}
		if len(diff) > 0 && !runBad {
			// the linker's chunking differs from the spec's rule; whether the real one is WRONG is decided by the
			// invariants on the real state and by the run above, so this alone is a drift of the spec's rule
			r.Drift("case %s (%s): chunk graph differs from Compute(G): %s", c.Label, b.cfg.Name, strings.Join(diff, "; "))
		}
		rec := makeRecord(c, b, res.Analysis.Files)
		rec.detail = map[string]interface{}{"emitted": emitted, "partitionDiff": diff}
		out.records = append(out.records, rec)
	}
	return
}

// ---------------------------------------------------------------------------

type genCfg struct{ name, text string }

// genConfigs derives the generator configurations from spec/cfg/LinkGen.quick.cfg: the family is cut into
// slices (incidence family by shape = k entry points over n modules, re-export chain family, name-collision
// family), one TLC run each, because TLC computes initial states (one per graph) with a single thread.
// quick: a seeded slice (one variant per incidence pattern up to k=3, n=2 and k=2, n=4 and of half of the patterns
// of k=3, n=3; one sixteenth of the re-export chains; every naming of k=2, n=3 and an eighth of the other namings);
// thorough: every variant of every pattern up to k=3, n=3 and k=2, n=4, a seeded slice (two variants per
// pattern) of k=3, n=4, every re-export chain and every naming.
func genConfigs(r *core.Run) ([]genCfg, error) {
	b, err := os.ReadFile(filepath.Join(r.Verif, "spec", "cfg", "LinkGen.quick.cfg"))
	if err != nil {
		return nil, err
	}
	tmpl := string(b)
	for _, line := range []string{"Shapes <- ShapesQuick", "Pick = 1", "PickTwo = TRUE", "Half = 0", "ChainPick = 1", "ChainDiv = 12", "NamePick = 1", "WrapPick = 1", "LoaderPick = 1"} {
		if !strings.Contains(tmpl, "\n  "+line+"\n") {
			return nil, fmt.Errorf("unexpected shape of LinkGen.quick.cfg (no line %q)", line)
		}
	}
	pick := int(r.Seed % 1000)
	if pick <= 0 {
		pick = 1
	}
	type slice struct {
		shapes              string
		pick                int
		two                 bool
		half                int
		chainPick, chainDiv int
		namePick            int
		wrapPick, ldrPick   int
	}
	mk := func(name string, x slice) genCfg {
		// (the constant lines, not the header comment)
		rep := func(t, old, new string) string { return strings.Replace(t, "\n  "+old+"\n", "\n  "+new+"\n", 1) }
		t := rep(tmpl, "Shapes <- ShapesQuick", "Shapes <- "+x.shapes)
		t = rep(t, "Pick = 1", fmt.Sprintf("Pick = %d", x.pick))
		t = rep(t, "PickTwo = TRUE", fmt.Sprintf("PickTwo = %s", strings.ToUpper(fmt.Sprint(x.two))))
		t = rep(t, "Half = 0", fmt.Sprintf("Half = %d", x.half))
		t = rep(t, "ChainPick = 1", fmt.Sprintf("ChainPick = %d", x.chainPick))
		t = rep(t, "ChainDiv = 12", fmt.Sprintf("ChainDiv = %d", x.chainDiv))
		t = rep(t, "NamePick = 1", fmt.Sprintf("NamePick = %d", x.namePick))
		t = rep(t, "WrapPick = 1", fmt.Sprintf("WrapPick = %d", x.wrapPick))
		t = rep(t, "LoaderPick = 1", fmt.Sprintf("LoaderPick = %d", x.ldrPick))
		return genCfg{"LinkGen." + name + ".cfg", t}
	}
	inc := func(shapes string, pick int, two bool, half int) genCfg {
		return mk(fmt.Sprintf("%s.%d", shapes, half), slice{shapes: shapes, pick: pick, two: two, half: half, chainPick: 9999, chainDiv: 1, namePick: 9999, wrapPick: 9999, ldrPick: 9999})
	}
	chains := func(pick, div, half int) genCfg {
		return mk(fmt.Sprintf("chains.%d", half), slice{shapes: "ShapesNone", pick: 1, half: half, chainPick: pick, chainDiv: div, namePick: 9999, wrapPick: 9999, ldrPick: 9999})
	}
	names := func(pick, half int) genCfg {
		return mk(fmt.Sprintf("names.%d", half), slice{shapes: "ShapesNone", pick: 1, half: half, chainPick: 9999, chainDiv: 1, namePick: pick, wrapPick: 9999, ldrPick: 9999})
	}
	// the wrap-kind family and the loader / CSS family (one run: both are small)
	wraps := func(wpick, lpick, half int) genCfg {
		return mk(fmt.Sprintf("wraps.%d", half), slice{shapes: "ShapesNone", pick: 1, half: half, chainPick: 9999, chainDiv: 1, namePick: 9999, wrapPick: wpick, ldrPick: lpick})
	}
	if !r.Thorough() {
		// (k=3 over 3 modules: the half of the patterns chosen by the seed)
		return []genCfg{inc("ShapesQuickB", pick, false, 0), chains(pick, 16, 1), chains(pick, 16, 2), inc("ShapesQuickA", pick, false, 1+pick%2),
			names(pick, 0), wraps(pick, pick, 0)}, nil
	}
	// the big slices first, each spread over two runs
	out := []genCfg{chains(0, 1, 1), chains(0, 1, 2), inc("S33", 0, true, 1), inc("S33", 0, true, 2), inc("S34", pick, true, 1), inc("S34", pick, true, 2),
		names(0, 1), names(0, 2), wraps(0, 0, 1), wraps(0, 0, 2)}
	for _, s := range []string{"S24", "S32", "S23", "S22", "S31", "S21"} {
		out = append(out, inc(s, 0, true, 0))
	}
	return out, nil
}

func Run(r *core.Run) {
	r.Assume("module bodies observe only order-independent values at top level (own value, values of static imports, the delta of a bump); the relative order of different modules' top-level code is not compared (documented limitation of splitting)")
	r.Assume("fresh module instances per load sequence are obtained by loading each sequence through its own symbolic link to the output directory (node --preserve-symlinks: the ESM registry is keyed by the unresolved URL) in one Node process; with a public path (file:// URL of the output directory) one sequence is loaded in place")
	r.Assume("trusted: TLC, Node's ESM loader, acorn; the link.done projection (internal/linker/verif_on.go)")
	installLinkProc()
	defer api.VerifSetProc("link.done", nil)

	var cases []*gcase
	if r.Replay != "" {
		// re-run one recorded scenario in every build configuration
		var rp struct {
			Detail struct {
				Scenario *gcase `json:"scenario"`
			} `json:"detail"`
		}
		b, err := os.ReadFile(r.Replay)
		if err != nil || json.Unmarshal(b, &rp) != nil || rp.Detail.Scenario == nil {
			r.Infra("cannot read the replay file %s", r.Replay)
			return
		}
		runCases(r, []*gcase{rp.Detail.Scenario}, func(int) []buildConfig {
			return append([]buildConfig{cfgPlain, cfgMinify}, extraConfigs...)
		})
		return
	}
	// the properties reject damaged link results (non-vacuity), checked as TLC assumptions
	sanityDone := make(chan struct{})
	go func() {
		defer close(sanityDone)
		tlcrun.MustHold(r, tlcrun.Options{Module: "LinkSanity", Config: "LinkSanity.cfg", Workers: 1, TimeoutSec: 600})
	}()
	defer func() { <-sanityDone }()
	cfgs, err := genConfigs(r)
	if err != nil {
		r.Infra("cannot derive the generator configs: %v", err)
		return
	}
	if only := os.Getenv("C10_CFGS"); only != "" { // developer filter: generator slices whose name contains the string
		var keep []genCfg
		for _, g := range cfgs {
			if strings.Contains(g.name, only) {
				keep = append(keep, g)
			}
		}
		cfgs = keep
	}
	var cmu sync.Mutex
	designBroken := false
	core.Parallel(len(cfgs), r.Pick(6, 4), func(i int) {
		res := tlcrun.MustHold(r, tlcrun.Options{Module: "LinkGen", Config: cfgs[i].name, Workers: 2, TimeoutSec: r.Pick(900, 3000),
			Files: map[string]string{cfgs[i].name: cfgs[i].text},
			OnCase: func(raw []byte) {
				var c gcase
				if err := json.Unmarshal(raw, &c); err == nil && c.Label != "" {
					cmu.Lock()
					cases = append(cases, &c)
					cmu.Unlock()
				}
			}})
		if res == nil || res.Violated != "" {
			cmu.Lock()
			designBroken = true // reported as Infra by MustHold: the design itself is broken
			cmu.Unlock()
		}
	})
	if designBroken {
		return
	}
	if len(cases) == 0 {
		r.Infra("no cases exported by LinkGen")
		return
	}
	sort.Slice(cases, func(i, j int) bool { return cases[i].Label < cases[j].Label })
	r.Set("graphs_enumerated", len(cases))
	r.Logf("%d graphs exported by LinkGen", len(cases))
	if only := os.Getenv("C10_ONLY"); only != "" { // developer filter: labels containing the string
		var keep []*gcase
		for _, c := range cases {
			if strings.Contains(c.Label, only) {
				keep = append(keep, c)
			}
		}
		cases = keep
	}
	runCases(r, cases, func(i int) []buildConfig {
		configs := []buildConfig{cfgPlain}
		if v := cases[i].Variant; r.Thorough() && (v == "names" || v == "rxchain" || v == "wrap" || v == "loader") {
			// (the big new families: a third configuration for every third graph)
			configs = append(configs, cfgMinify)
			if i%3 == 0 {
				configs = append(configs, extraConfigs[(i/3)%len(extraConfigs)])
			}
		} else if r.Thorough() {
			configs = append(configs, cfgMinify, extraConfigs[i%len(extraConfigs)])
		} else if v == "names" || v == "rxchain" || v == "wrap" || v == "loader" {
			// the collision renamers differ with and without minification: both, always
			configs = append(configs, cfgMinify)
		} else if (i+int(r.Seed))%2 == 0 {
			configs = append(configs, cfgMinify)
		} else if (i+int(r.Seed))%5 == 0 {
			configs = append(configs, extraConfigs[(i/5)%len(extraConfigs)])
		}
		return configs
	})
}

func runCases(r *core.Run, cases []*gcase, configsFor func(i int) []buildConfig) {
	var mu sync.Mutex
	var records []*stateRecord
	variants := map[string]int{}
	features := map[string]int{}
	totalRuns, totalBuilds := 0, 0
	// one Node process per batch of cases
	const perBatch = 8
	nBatches := (len(cases) + perBatch - 1) / perBatch
	core.Parallel(nBatches, 8, func(bi int) {
		lo, hi := bi*perBatch, (bi+1)*perBatch
		if hi > len(cases) {
			hi = len(cases)
		}
		var preps []*prepared
		var jobs []nodeJob
		for i := lo; i < hi; i++ {
			p := prepareCase(r, i, cases[i], configsFor(i))
			preps = append(preps, p)
			jobs = append(jobs, p.jobs...)
		}
		var nres struct {
			Results []nodeResult `json:"results"`
		}
		if err := nodex.Run(r, "run_chunks.js", map[string]interface{}{"jobs": jobs}, &nres, 900*time.Second, r.Scratch, "--expose-internals", "--no-warnings", "--preserve-symlinks"); err != nil {
			r.Infra("cases %d..%d: node runner failed: %v", lo, hi-1, err)
			for _, p := range preps {
				os.RemoveAll(p.root0)
			}
			return
		}
		byID := map[string]*nodeResult{}
		for i := range nres.Results {
			byID[nres.Results[i].ID] = &nres.Results[i]
		}
		for _, p := range preps {
			oc := evaluateCase(r, p, byID)
			c, i := p.c, p.idx
			mu.Lock()
			records = append(records, oc.records...)
			variants[c.Variant]++
			for _, f := range c.Expect.Features {
				features[f]++
			}
			totalRuns += oc.runs
			totalBuilds += oc.builds
			r.Case(c.Label, oc.shared >= 1)
			if i%(len(cases)/6+1) == 0 {
				r.Sample(map[string]interface{}{"label": c.Label, "entries": c.Entries, "files": len(c.Files), "expected_chunks": len(c.Expect.Chunks),
					"shared_chunks_real": oc.shared, "configs": fmt.Sprint(configsFor(i)), "load_sequences_run": oc.runs})
			}
			mu.Unlock()
		}
	})
	r.Set("variants", variants)
	r.Set("features", features)
	r.Set("load_sequences_run", totalRuns)
	r.Set("builds", totalBuilds)
	r.Set("link_states_recorded", len(records))
	r.Logf("%d builds, %d load sequences, %d link states; validating with TLC", totalBuilds, totalRuns, len(records))

	const batch = 2000
	nb := (len(records) + batch - 1) / batch
	core.Parallel(nb, 4, func(bi int) {
		lo, hi := bi*batch, (bi+1)*batch
		if hi > len(records) {
			hi = len(records)
		}
		validate(r, append([]*stateRecord{}, records[lo:hi]...))
	})
	r.Set("rule", "case = one graph of LinkGen.tla (incidence pattern of k entry points over n modules x feature variant x naming; re-export chain; naming of a shared chunk; wrap-kind pattern: how each entry point reaches a shared ES / CommonJS module; loader kind and CSS mode of an import() target), built with splitting in 1-3 configurations, its link state validated by TLC against Link.tla and its chunks loaded in every subset and order of entry points; non-trivial = the real build produced at least one shared (non-entry) chunk")
}

func init() { core.Register("C10", Run) }
