// The compile phase of C08: spec/LinkPar.tla (N per-entry-point linker
// goroutines, the serializer around the exclusive mangle cache / local CSS
// section, the shared log, the join in entry point order).  TLC explores all
// interleavings for every input of a family, checks Mutex / SerialOrder /
// NoPanic / Determinism / no dead end, and exports (a) the inputs and (b) every
// schedule (sequence of controlled steps).  Binding (R): each input is
// materialised as a real project (MangleProps + MangleCache with per-entry
// properties, colliding local CSS names, plain and minified renaming, an entry
// point whose linker takes the error path, linker warnings) and every exported
// schedule is imposed on real builds through the link.* gates; the BuildResults
// must be byte-identical across all schedules and to the ungated build, and the
// real code must take exactly the uncontrolled steps (Enter) the schedule
// contains.  Binding (T): the link.excl.* events of every real build are
// validated by TLC against LinkParTrace.tla.
package c08

import (
	"encoding/json"
	"fmt"
	"math/rand"
	"os"
	"path/filepath"
	"runtime"
	"sort"
	"strconv"
	"strings"
	"sync"
	"time"

	"github.com/evanw/esbuild/pkg/api"

	"verifharness/core"
	"verifharness/rec"
	"verifharness/tlcrun"
)

// ---------------------------------------------------------------------------
// TLC configurations (module LinkParMC)

type linkCfg struct {
	Name                             string
	N                                int
	Props, Css, Presets, Modes, Msgs string
	MaxErr                           int
	Serializer                       string
	Calls                            string
	Control                          string
	Eager                            bool
	Export                           string // "", "ExportInputs", "ExportSched"
	Fair                             bool
}

func (c linkCfg) text() string {
	spec := "Spec"
	if c.Fair {
		spec = "FairSpec"
	}
	if c.Serializer == "" {
		c.Serializer = "waitgroup"
	}
	if c.Calls == "" {
		c.Calls = "{1}"
	}
	if c.Control == "" {
		c.Control = "{}"
	}
	s := fmt.Sprintf("SPECIFICATION %s\nCONSTANTS\n  N = %d\n  PropSeqs <- %s\n  CssSeqs <- %s\n  MaxErr = %d\n  Presets <- %s\n  CssModes <- %s\n  MsgFam <- %s\n  Serializer = %q\n  CallsFam = %s\n  Control = %s\n  Eager = %s\n",
		spec, c.N, c.Props, c.Css, c.MaxErr, c.Presets, c.Modes, c.Msgs, c.Serializer, c.Calls, c.Control, strings.ToUpper(fmt.Sprint(c.Eager)))
	s += "INVARIANTS TypeOK Mutex SerialOrder NoPanic Determinism"
	if c.Export != "" {
		s += " " + c.Export
	}
	s += "\n"
	if c.Fair {
		s += "PROPERTIES Termination\n"
	}
	s += "CHECK_DEADLOCK TRUE\n"
	return s
}

type linkInput struct {
	N       int             `json:"n"`
	Props   [][]string      `json:"props"`
	Css     [][]string      `json:"css"`
	Path    []string        `json:"path"`
	Preset  [][]interface{} `json:"preset"`
	CssMode string          `json:"cssMode"`
	Cache   interface{}     `json:"cache"`
	// what the harness adds (not from TLC)
	Warn bool `json:"warn"` // every linker logs a warning (LinkPar: msgs[i].pre # 0)
}

func (in linkInput) key() string {
	b, _ := json.Marshal([]interface{}{in.N, in.Props, in.Css, in.Path, in.Preset, in.CssMode})
	return string(b)
}

// a case is interesting for the replay when the shared state is written by two different
// linkers after the first one, or names collide across entry points
func (in linkInput) sensitive() bool {
	writers := 0
	for i := 1; i < in.N; i++ {
		if in.Path[i] == "ok" && (len(in.Props[i]) > 0 || len(in.Css[i]) > 0) {
			writers++
		}
	}
	return writers >= 2
}

type linkStep struct {
	K string
	I int
}

type linkSchedule struct {
	N     int
	Steps []linkStep
}

func (s linkSchedule) String() string {
	var sb strings.Builder
	for _, st := range s.Steps {
		fmt.Fprintf(&sb, "%s%d ", st.K, st.I)
	}
	return strings.TrimSpace(sb.String())
}

type rawCase struct {
	Kind string          `json:"kind"`
	N    int             `json:"n"`
	Hist [][]interface{} `json:"hist"`
}

func runLinkTLC(r *core.Run, c linkCfg, workers int, onCase func(raw []byte)) *tlcrun.Result {
	cfgName := "LinkPar." + c.Name + ".gen.cfg"
	res, err := tlcrun.Run(r, tlcrun.Options{Module: "LinkParMC", Config: cfgName, Workers: workers, TimeoutSec: 900,
		Files: map[string]string{cfgName: c.text()}, OnCase: onCase})
	if err != nil {
		r.Infra("LinkPar model %s: %v", c.Name, err)
		return nil
	}
	return res
}

// the design configurations: all interleavings x all inputs of the family
func linkModel(r *core.Run) (inputs []linkInput, scheds map[string][]linkSchedule) {
	var mu sync.Mutex
	seenIn := map[string]bool{}
	scheds = map[string][]linkSchedule{}
	seenSched := map[string]bool{}
	onCase := func(mode string) func(raw []byte) {
		return func(raw []byte) {
			var rc rawCase
			if json.Unmarshal(raw, &rc) != nil {
				return
			}
			mu.Lock()
			defer mu.Unlock()
			switch rc.Kind {
			case "input":
				var in linkInput
				if json.Unmarshal(raw, &in) == nil && !seenIn[in.key()] {
					seenIn[in.key()] = true
					inputs = append(inputs, in)
				}
			case "sched":
				s := linkSchedule{N: rc.N}
				for _, h := range rc.Hist {
					if len(h) == 2 {
						k, _ := h[0].(string)
						f, _ := h[1].(float64)
						s.Steps = append(s.Steps, linkStep{k, int(f)})
					}
				}
				k := fmt.Sprintf("%s/%d/%s", mode, s.N, s.String())
				if !seenSched[k] {
					seenSched[k] = true
					scheds[fmt.Sprintf("%s%d", mode, s.N)] = append(scheds[fmt.Sprintf("%s%d", mode, s.N)], s)
				}
			}
		}
	}
	type job struct {
		c    linkCfg
		mode string
		neg  string // expected violation ("" = must hold)
	}
	var jobs []job
	design := func(name string, n int, props, css, presets, modes string, maxErr int) {
		jobs = append(jobs, job{c: linkCfg{Name: name, N: n, Props: props, Css: css, Presets: presets, Modes: modes, Msgs: "MsgNone", MaxErr: maxErr, Export: "ExportInputs"}})
	}
	// inputs x all interleavings (Enter is a step of its own, nothing is eager)
	if r.Thorough() {
		design("d2", 2, "PropsSmall", "CssSmall", "PresetSome", "ModesBoth", 1)
		design("d3", 3, "PropsMid", "CssSmall", "PresetSome", "ModesPlain", 1)
		design("d3css", 3, "PropsSmall", "CssMid", "PresetNone", "ModesBoth", 0)
		design("d3big", 3, "PropsBig", "CssNone", "PresetNone", "ModesPlain", 0)
		design("d4", 4, "PropsSmall", "CssSmall", "PresetNone", "ModesPlain", 0)
		design("d4err", 4, "PropsSmall", "CssNone", "PresetNone", "ModesPlain", 2)
	} else {
		design("d3", 3, "PropsSmall", "CssSmall", "PresetNone", "ModesBoth", 0)
		design("d3err", 3, "PropsSmall", "CssNone", "PresetSome", "ModesPlain", 1)
		design("d4", 4, "PropsSmall", "CssNone", "PresetNone", "ModesPlain", 0)
	}
	// the shared log: every interleaving of the log writes of the pre / post segments
	jobs = append(jobs, job{c: linkCfg{Name: "msgs3", N: 3, Props: "PropsNone", Css: "CssNone", Presets: "PresetNone", Modes: "ModesPlain", Msgs: "MsgAll", MaxErr: r.Pick(0, 1), Fair: true}})
	// schedules: the controlled steps, uncontrolled steps run to quiescence
	for n := 2; n <= 4; n++ {
		if n == 2 && !r.Thorough() {
			continue // with two entry points the first one always goes first: nothing to impose
		}
		if n == 4 && !r.Thorough() {
			// 105 exclusive-section schedules; the 1145 log schedules of 4 linkers only in the thorough tier
			jobs = append(jobs, job{mode: "excl", c: linkCfg{Name: "sched4", N: 4, Props: "PropsNone", Css: "CssNone", Presets: "PresetNone", Modes: "ModesPlain", Msgs: "MsgNone",
				Control: `{"A", "E", "L"}`, Eager: true, Export: "ExportSched"}})
			continue
		}
		jobs = append(jobs, job{mode: "excl", c: linkCfg{Name: fmt.Sprintf("sched%d", n), N: n, Props: "PropsNone", Css: "CssNone", Presets: "PresetNone", Modes: "ModesPlain", Msgs: "MsgNone",
			Control: `{"A", "E", "L"}`, Eager: true, Export: "ExportSched"}})
		jobs = append(jobs, job{mode: "log", c: linkCfg{Name: fmt.Sprintf("log%d", n), N: n, Props: "PropsNone", Css: "CssNone", Presets: "PresetNone", Modes: "ModesPlain", Msgs: "MsgBoth",
			Control: `{"S", "P"}`, Eager: true, Export: "ExportSched"}})
	}
	// negative controls: the model must tell the design from its broken variants
	neg := func(name, ser, calls, expect string) {
		jobs = append(jobs, job{neg: expect, c: linkCfg{Name: name, N: 3, Props: "PropsNone", Css: "CssSmall", Presets: "PresetNone", Modes: "ModesPlain", Msgs: "MsgNone", Serializer: ser, Calls: calls}})
	}
	neg("neg-token", "token", "{1}", "SerialOrder Determinism")
	if r.Thorough() {
		neg("neg-none", "none", "{1}", "SerialOrder Mutex")
		neg("neg-calls2", "waitgroup", "{1, 2}", "SerialOrder NoPanic Determinism")
	}
	neg("neg-calls0", "waitgroup", "{0, 1}", "deadlock Determinism")
	core.Parallel(len(jobs), 4, func(k int) {
		j := jobs[k]
		res := runLinkTLC(r, j.c, r.Pick(2, 3), onCase(j.mode))
		if res == nil {
			return
		}
		if j.neg != "" {
			if res.Violated == "" || !strings.Contains(" "+j.neg+" ", " "+res.Violated+" ") {
				r.Infra("LinkPar negative control %s: expected a violation of %s, TLC reports %q", j.c.Name, j.neg, res.Violated)
			} else {
				r.Inc("linkpar_negative_controls_killed", 1)
			}
			return
		}
		if res.Violated != "" {
			r.Infra("LinkPar model %s violates %s on the design alone:\n%s", j.c.Name, res.Violated, res.Output)
			return
		}
		r.Logf("TLC LinkPar/%s: %d generated, %d distinct, %d cases", j.c.Name, res.Generated, res.Distinct, res.Cases)
	})
	// the join rule of the inner pools (per chunk / part range / file / entry point): slots by index
	if res := tlcrun.MustHold(r, tlcrun.Options{Module: "SlotJoin", Config: "SlotJoin.cfg", Workers: 1, TimeoutSec: 600}); res != nil && r.Thorough() {
		if neg, err := tlcrun.Run(r, tlcrun.Options{Module: "SlotJoin", Config: "SlotJoin.neg.cfg", Workers: 1, TimeoutSec: 600}); err == nil && neg.Violated != "JoinByIndex" {
			r.Infra("SlotJoin negative control: a join in completion order must violate JoinByIndex, TLC reports %q", neg.Violated)
		}
	}
	sort.Slice(inputs, func(i, j int) bool { return inputs[i].key() < inputs[j].key() })
	for k := range scheds {
		s := scheds[k]
		sort.Slice(s, func(i, j int) bool { return s[i].String() < s[j].String() })
	}
	return
}

// ---------------------------------------------------------------------------
// the real project of an input

var presetNames = []string{"a", "b", "c", "d"}

func (in linkInput) files() (map[string]string, []string) {
	files := map[string]string{
		"lib.js": "export const yes = 1\nexport function keep(x) { return x }\n",
	}
	var entries []string
	for i := 0; i < in.N; i++ {
		var sb strings.Builder
		sb.WriteString("import * as lib from './lib.js'\n")
		if len(in.Css[i]) > 0 {
			fmt.Fprintf(&sb, "import * as st from './d%d/style.module.css'\n", i)
		}
		if in.Path[i] == "err" {
			sb.WriteString("import {nope} from './lib.js'\nconsole.log(nope)\n")
		}
		fmt.Fprintf(&sb, "const o%d = {", i)
		for k, p := range in.Props[i] {
			if k > 0 {
				sb.WriteString(", ")
			}
			fmt.Fprintf(&sb, "%s_: %d", p, k)
		}
		fmt.Fprintf(&sb, "}\nexport default o%d\nconsole.log('entry %d', lib.yes", i, i)
		// the assignment order of mangleProps is by use count: the k-th property of the sequence is used most
		for k, p := range in.Props[i] {
			for u := 0; u < 2*(len(in.Props[i])-k); u++ {
				fmt.Fprintf(&sb, ", o%d.%s_", i, p)
			}
		}
		for _, c := range in.Css[i] {
			fmt.Fprintf(&sb, ", st.%s", c)
		}
		sb.WriteString(")\n")
		if in.Warn {
			fmt.Fprintf(&sb, "console.log(lib.missing%d)\n", i)
		}
		name := fmt.Sprintf("e%d.js", i)
		files[name] = sb.String()
		entries = append(entries, name)
		if len(in.Css[i]) > 0 {
			var cb strings.Builder
			for k, c := range in.Css[i] {
				for u := 0; u < len(in.Css[i])-k; u++ {
					fmt.Fprintf(&cb, ".%s { color: red; order: %d%d }\n", c, i, u)
				}
			}
			files[fmt.Sprintf("d%d/style.module.css", i)] = cb.String()
		}
	}
	return files, entries
}

func (in linkInput) options(dir string, entries []string, variant int) api.BuildOptions {
	o := buildOpts(dir, entries, nil, buildCfg{}, nil)
	o.MangleProps = "_$"
	o.MangleCache = map[string]interface{}{}
	for _, pr := range in.Preset {
		if len(pr) == 2 {
			p, _ := pr[0].(string)
			n, _ := pr[1].(float64)
			o.MangleCache[p+"_"] = presetNames[int(n)%len(presetNames)]
		}
	}
	if in.CssMode == "minify" {
		o.MinifyIdentifiers = true
	}
	switch variant % 3 {
	case 1:
		o.Sourcemap = api.SourceMapLinked
	case 2:
		o.MinifyWhitespace, o.MinifySyntax = true, true
		o.Format = api.FormatCommonJS
	}
	return o
}

// ---------------------------------------------------------------------------
// the link.* scheduler

var linkGates = []string{"link.start", "link.excl.enter", "link.excl.leave", "link.post"}

type linkSched struct {
	dir       string
	mu        sync.Mutex
	control   map[string]bool           // controlled gate names; the others only record the arrival
	waiting   map[string]chan struct{}  // gate|i -> blocked goroutine
	arrivals  map[string]int            // gate|i -> number of arrivals so far
	passAll   bool
	deviation string
	imposed   bool
}

var (
	linkSchedMu sync.RWMutex
	linkScheds  = map[string]*linkSched{} // by project dir (= cwd of the build)
)

func linkGate(name, key string) {
	cut := strings.LastIndex(key, "|")
	if cut < 0 {
		return
	}
	linkSchedMu.RLock()
	s := linkScheds[key[:cut]]
	linkSchedMu.RUnlock()
	if s == nil {
		return
	}
	k := name + key[cut:]
	s.mu.Lock()
	s.arrivals[k]++
	if s.passAll || !s.control[name] {
		s.mu.Unlock()
		return
	}
	ch := make(chan struct{})
	s.waiting[k] = ch
	s.mu.Unlock()
	<-ch
}

func newLinkSched(dir string, control ...string) *linkSched {
	s := &linkSched{dir: dir, control: map[string]bool{}, waiting: map[string]chan struct{}{}, arrivals: map[string]int{}}
	for _, c := range control {
		s.control[c] = true
	}
	linkSchedMu.Lock()
	linkScheds[dir] = s
	linkSchedMu.Unlock()
	return s
}

func (s *linkSched) close() {
	linkSchedMu.Lock()
	delete(linkScheds, s.dir)
	linkSchedMu.Unlock()
	s.abort("")
}

// give up control: everything runs freely from now on
func (s *linkSched) abort(why string) {
	s.mu.Lock()
	if why != "" && s.deviation == "" {
		s.deviation = why
	}
	s.passAll = true
	for k, ch := range s.waiting {
		close(ch)
		delete(s.waiting, k)
	}
	s.mu.Unlock()
}

func gk(gate string, i int) string { return gate + "|" + strconv.Itoa(i) }

func (s *linkSched) arrived(gate string, i int) int {
	s.mu.Lock()
	defer s.mu.Unlock()
	return s.arrivals[gk(gate, i)]
}

// wait until linker i has arrived at the gate `want` times; other() reports a deviation while waiting
func (s *linkSched) waitArrival(gate string, i int, want int, d time.Duration, other func() string) string {
	deadline := time.Now().Add(d)
	for {
		if s.arrived(gate, i) >= want {
			return ""
		}
		if other != nil {
			if dev := other(); dev != "" {
				return dev
			}
		}
		if time.Now().After(deadline) {
			return fmt.Sprintf("linker %d did not reach %s within %v", i, gate, d)
		}
		time.Sleep(50 * time.Microsecond)
	}
}

func (s *linkSched) release(gate string, i int) bool {
	s.mu.Lock()
	defer s.mu.Unlock()
	ch, ok := s.waiting[gk(gate, i)]
	if ok {
		close(ch)
		delete(s.waiting, gk(gate, i))
	}
	return ok
}

func linkDone(dir string, i int) bool {
	for _, e := range rec.Snapshot() {
		if e.Ev == "link.done" && e.Str("cwd") == dir && int(e.Int("i")) == i {
			return true
		}
	}
	return false
}

const (
	linkWait   = 15 * time.Second      // a step the model says is enabled must happen within this time
	linkSettle = 1500 * time.Microsecond // time given to a step the model says is NOT enabled to happen anyway
)

// impose one TLC-exported schedule.  Steps: S/A/L/P = open the gate of linker i;
// E = the real code must, on its own, let linker i into the section now (and nobody else).
func (s *linkSched) run(sc linkSchedule) {
	n := sc.N
	inside := map[int]bool{}  // linkers the schedule says are inside the section
	entered := map[int]bool{} // linkers the schedule says have entered so far
	// who is inside the section according to the real code: arrived at link.excl.leave, not yet released
	unexpected := func(expect int) func() string {
		return func() string {
			for j := 0; j < n; j++ {
				if j != expect && !entered[j] && s.arrived("link.excl.leave", j) > 0 {
					return fmt.Sprintf("linker %d is inside the exclusive section, the specification allows only linker %d to enter here", j, expect)
				}
			}
			return ""
		}
	}
	for k, st := range sc.Steps {
		var dev string
		switch st.K {
		case "S":
			if dev = s.waitArrival("link.start", st.I, 1, linkWait, nil); dev == "" {
				s.release("link.start", st.I)
				// the pre segment runs up to the section
				dev = s.waitArrival("link.excl.enter", st.I, 1, linkWait, nil)
			}
		case "A":
			if dev = s.waitArrival("link.excl.enter", st.I, 1, linkWait, nil); dev == "" {
				s.release("link.excl.enter", st.I)
			}
		case "E":
			dev = s.waitArrival("link.excl.leave", st.I, 1, linkWait, unexpected(st.I))
			entered[st.I], inside[st.I] = true, true
		case "L":
			if dev = s.waitArrival("link.excl.leave", st.I, 1, linkWait, nil); dev == "" {
				s.release("link.excl.leave", st.I)
				delete(inside, st.I)
				dev = s.waitArrival("link.post", st.I, 1, linkWait, nil)
			}
		case "P":
			if dev = s.waitArrival("link.post", st.I, 1, linkWait, nil); dev == "" {
				s.release("link.post", st.I)
				deadline := time.Now().Add(linkWait)
				for !linkDone(s.dir, st.I) {
					if time.Now().After(deadline) {
						dev = fmt.Sprintf("linker %d did not finish within %v after link.post", st.I, linkWait)
						break
					}
					time.Sleep(100 * time.Microsecond)
				}
			}
		}
		// if the schedule does not continue with an Enter, nobody may enter now
		if dev == "" && s.control["link.excl.leave"] && (k+1 >= len(sc.Steps) || sc.Steps[k+1].K != "E") && (st.K == "A" || st.K == "L") {
			time.Sleep(linkSettle)
			dev = unexpected(-1)()
			if dev != "" {
				dev = strings.Replace(dev, "allows only linker -1 to enter here", "allows nobody to enter here", 1)
			}
		}
		if dev != "" {
			s.abort(fmt.Sprintf("step %d (%s%d) of schedule [%s]: %s", k+1, st.K, st.I, sc.String(), dev))
			return
		}
	}
	s.mu.Lock()
	s.imposed = true
	s.mu.Unlock()
}

// seeded random policy over all four gates (scaled scenarios)
func (s *linkSched) runRandom(rnd *rand.Rand, stop chan struct{}) {
	for {
		select {
		case <-stop:
			return
		case <-time.After(time.Duration(100+rnd.Intn(400)) * time.Microsecond):
		}
		s.mu.Lock()
		if len(s.waiting) > 0 {
			keys := make([]string, 0, len(s.waiting))
			for k := range s.waiting {
				keys = append(keys, k)
			}
			sort.Strings(keys)
			k := keys[rnd.Intn(len(keys))]
			close(s.waiting[k])
			delete(s.waiting, k)
		}
		s.mu.Unlock()
	}
}

// ---------------------------------------------------------------------------
// the link.excl.* events of one build as a trace block for LinkParTrace

type linkTrace struct {
	N      int                      `json:"n"`
	Events []map[string]interface{} `json:"events"`
	Label  string                   `json:"label"`
}

func linkTraceOf(dir string, evs []rec.Event, label string) linkTrace {
	t := linkTrace{Label: label}
	for _, e := range evs {
		if e.Str("cwd") != dir {
			continue
		}
		switch e.Ev {
		case "link.excl.run":
			t.Events = append(t.Events, map[string]interface{}{"ev": "run", "i": e.Int("i")})
		case "link.excl.leave":
			t.Events = append(t.Events, map[string]interface{}{"ev": "leave", "i": e.Int("i")})
		case "link.done":
			if n := int(e.Int("n")); n > t.N {
				t.N = n
			}
		}
	}
	t.Events = append(t.Events, map[string]interface{}{"ev": "done"})
	return t
}

func linkTraceCfg(n int) string {
	return fmt.Sprintf("SPECIFICATION TraceSpec\nCONSTANTS\n  N = %d\n  PropSeqs <- PropsNone\n  CssSeqs <- CssNone\n  MaxErr = 0\n  Presets <- PresetNone\n  CssModes <- ModesPlain\n  MsgFam <- MsgNone\n"+
		"  Serializer = \"waitgroup\"\n  CallsFam = {1}\n  Control = {}\n  Eager = FALSE\nINVARIANTS TypeOK Mutex SerialOrder NoPanic\nCONSTRAINT HighWater\nPOSTCONDITION TraceAccepted\nCHECK_DEADLOCK FALSE\n", n)
}

// validate the trace blocks of real builds (grouped by the number of entry points) against LinkPar
func validateLinkTraces(r *core.Run, traces []linkTrace) {
	byN := map[int][]linkTrace{}
	for _, t := range traces {
		if t.N >= 2 {
			byN[t.N] = append(byN[t.N], t)
		}
	}
	var ns []int
	for n := range byN {
		ns = append(ns, n)
	}
	sort.Ints(ns)
	core.Parallel(len(ns), 3, func(k int) {
		n := ns[k]
		var sb strings.Builder
		var lineOwner []int
		for bi, t := range byN[n] {
			if bi > 0 {
				sb.WriteString("{\"ev\":\"reset\"}\n")
				lineOwner = append(lineOwner, bi)
			}
			for _, e := range t.Events {
				b, _ := json.Marshal(e)
				sb.Write(b)
				sb.WriteByte('\n')
				lineOwner = append(lineOwner, bi)
			}
		}
		cfgName := fmt.Sprintf("LinkParTrace.n%d.gen.cfg", n)
		res, err := tlcrun.Run(r, tlcrun.Options{Module: "LinkParTrace", Config: cfgName, Workers: 1, DFS: true, TimeoutSec: 900, KeepOutput: true,
			Files: map[string]string{cfgName: linkTraceCfg(n), "linktrace.ndjson": sb.String()}})
		if err != nil {
			r.Infra("link trace validation (n=%d): %v", n, err)
			return
		}
		if res.Violated == "" && !res.PostFalse {
			r.Inc("link_traces_validated", int64(len(byN[n])))
			r.AddTraces(int64(len(byN[n])))
			return
		}
		hw := 0
		for _, m := range reHW.FindAllStringSubmatch(res.Output, -1) {
			var v int
			fmt.Sscan(m[1], &v)
			if v > hw {
				hw = v
			}
		}
		lines := strings.Split(sb.String(), "\n")
		rejected, label := "", ""
		var block []map[string]interface{}
		if hw >= 1 && hw <= len(lines) {
			rejected = lines[hw-1]
			if hw-1 < len(lineOwner) {
				label = byN[n][lineOwner[hw-1]].Label
				block = byN[n][lineOwner[hw-1]].Events
			}
		}
		r.Violation(map[string]interface{}{"kind": "link-trace-rejected", "n": n, "violated": res.Violated},
			fmt.Sprintf("the exclusive mangle-cache section of a real build with %d entry points is not a behaviour of LinkPar.tla (violated=%q): event %s of build %q rejected (section executions must happen in entry point order, one linker at a time)", n, res.Violated, rejected, label),
			map[string]interface{}{"n": n, "event_index": hw, "event": rejected, "build": label, "events": block})
	})
}

// ---------------------------------------------------------------------------
// replay of inputs x schedules (child process)

type linkReplayIn struct {
	Inputs []linkInput    `json:"inputs"`
	Scheds [][]linkSchedule `json:"scheds"` // per input: the schedules to impose
	Procs  int            `json:"procs"`
	Offset int            `json:"offset"`
}

type linkBuildOut struct {
	Label       string            `json:"label"`
	Fingerprint string            `json:"fingerprint"`
	Parts       map[string]string `json:"parts"`
	Imposed     bool              `json:"imposed"`
	Deviation   string            `json:"deviation"`
	Hung        bool              `json:"hung"`
}

type linkCaseOut struct {
	Builds   []linkBuildOut `json:"builds"` // [0] = ungated
	Traces   []linkTrace    `json:"traces"`
	Errors   int            `json:"errors"`
	Warnings int            `json:"warnings"`
	Cache    string         `json:"cache"`
}

type linkReplayOut struct {
	Cases []linkCaseOut `json:"cases"`
}

// api.Build with a watchdog: a build that does not return is a dead end the specification excludes
func buildWatch(o api.BuildOptions, d time.Duration) (api.BuildResult, bool) {
	ch := make(chan api.BuildResult, 1)
	go func() { ch <- api.Build(o) }()
	select {
	case res := <-ch:
		return res, false
	case <-time.After(d):
		return api.BuildResult{}, true
	}
}

func linkReplay(r *core.Run, in linkReplayIn) (linkReplayOut, error) {
	var out linkReplayOut
	if in.Procs > 0 {
		runtime.GOMAXPROCS(in.Procs)
	}
	rec.Install()
	rec.SetGate("", gateFn)
	for ci, input := range in.Inputs {
		dir := filepath.Join(r.Scratch, fmt.Sprintf("lk-%d", in.Offset+ci))
		os.MkdirAll(dir, 0755)
		files, entries := input.files()
		if err := core.WriteTree(dir, files); err != nil {
			return out, err
		}
		opts := input.options(dir, entries, in.Offset+ci)
		var co linkCaseOut
		add := func(label string, res api.BuildResult, s *linkSched, hung bool) {
			fp, parts := fingerprint(dir, res)
			b := linkBuildOut{Label: label, Fingerprint: fp, Parts: parts, Imposed: true, Hung: hung}
			if s != nil {
				s.mu.Lock()
				b.Imposed, b.Deviation = s.imposed, s.deviation
				s.mu.Unlock()
			}
			co.Builds = append(co.Builds, b)
			co.Traces = append(co.Traces, linkTraceOf(dir, rec.Take(), fmt.Sprintf("%s %s", input.key(), label)))
		}
		rec.Take()
		res, hung := buildWatch(opts, 30*time.Second)
		add("ungated", res, nil, hung)
		co.Errors, co.Warnings = len(res.Errors), len(res.Warnings)
		mc, _ := json.Marshal(res.MangleCache)
		co.Cache = string(mc)
		for _, sc := range in.Scheds[ci] {
			if hung {
				break // the ungated build already hangs
			}
			var s *linkSched
			if len(sc.Steps) > 0 && (sc.Steps[0].K == "S" || sc.Steps[0].K == "P") {
				s = newLinkSched(dir, "link.start", "link.post")
			} else {
				s = newLinkSched(dir, "link.excl.enter", "link.excl.leave")
			}
			fin := make(chan struct{})
			go func() { s.run(sc); close(fin) }()
			res, hungS := buildWatch(opts, 30*time.Second)
			select { // the build returned: the scheduler only has its last observation left
			case <-fin:
			case <-time.After(2 * time.Second):
			}
			s.close()
			add("["+sc.String()+"]", res, s, hungS)
			if hungS {
				break
			}
		}
		out.Cases = append(out.Cases, co)
		os.RemoveAll(dir)
	}
	return out, nil
}

func init() {
	core.RegisterChild("c08.linkreplay", func(r *core.Run, in json.RawMessage) (interface{}, error) {
		var x linkReplayIn
		if err := json.Unmarshal(in, &x); err != nil {
			return nil, err
		}
		return linkReplay(r, x)
	})
}

// ---------------------------------------------------------------------------

func pickScheds(rnd *rand.Rand, all []linkSchedule, max int) []linkSchedule {
	if len(all) <= max {
		return all
	}
	idx := rnd.Perm(len(all))[:max]
	sort.Ints(idx)
	out := make([]linkSchedule, 0, max)
	for _, i := range idx {
		out = append(out, all[i])
	}
	return out
}

// part (C) of the check
func runLinkPhase(r *core.Run, exes []string) []linkTrace {
	inputs, scheds := linkModel(r)
	r.Logf("LinkPar: %d inputs exported", len(inputs))
	if len(inputs) == 0 {
		r.Infra("LinkPar exported no inputs")
		return nil
	}
	nSched := 0
	for _, s := range scheds {
		nSched += len(s)
	}
	r.Set("link_schedules_exported", nSched)
	r.Set("link_inputs_exported", len(inputs))
	// seeded sub-sample of the inputs per number of entry points; prefer the inputs in which two
	// later linkers write the shared state
	byN := map[int][]linkInput{}
	for _, in := range inputs {
		byN[in.N] = append(byN[in.N], in)
	}
	var chosen []linkInput
	for _, n := range []int{2, 3, 4} {
		var sens, rest []linkInput
		for _, in := range byN[n] {
			if in.sensitive() || n == 2 {
				sens = append(sens, in)
			} else {
				rest = append(rest, in)
			}
		}
		r.Rand.Shuffle(len(sens), func(i, j int) { sens[i], sens[j] = sens[j], sens[i] })
		r.Rand.Shuffle(len(rest), func(i, j int) { rest[i], rest[j] = rest[j], rest[i] })
		want := map[int]int{2: r.Pick(0, 20), 3: r.Pick(18, 120), 4: r.Pick(6, 40)}[n]
		take := append(sens[:min(len(sens), want*3/4+1)], rest[:min(len(rest), want/4+1)]...)
		if len(take) > want {
			take = take[:want]
		}
		chosen = append(chosen, take...)
	}
	// every fourth input also logs a linker warning per entry point
	for i := range chosen {
		chosen[i].Warn = i%4 == 0
	}
	perInput := make([][]linkSchedule, len(chosen))
	for i, in := range chosen {
		ex := scheds[fmt.Sprintf("excl%d", in.N)]
		lg := scheds[fmt.Sprintf("log%d", in.N)]
		perInput[i] = append(append([]linkSchedule{}, pickScheds(r.Rand, ex, r.Pick(15, 60))...), pickScheds(r.Rand, lg, r.Pick(3, 20))...)
	}
	// children
	nChildren := r.Pick(4, 8)
	type chunk struct {
		lo, hi int
		out    linkReplayOut
		ok     bool
	}
	chunks := make([]chunk, 0, nChildren)
	per := (len(chosen) + nChildren - 1) / nChildren
	for lo := 0; lo < len(chosen); lo += per {
		chunks = append(chunks, chunk{lo: lo, hi: min(lo+per, len(chosen))})
	}
	core.Parallel(len(chunks), 4, func(k int) {
		c := &chunks[k]
		in := linkReplayIn{Inputs: chosen[c.lo:c.hi], Scheds: perInput[c.lo:c.hi], Procs: []int{0, 2, 4, 1}[k%4], Offset: c.lo}
		cr := r.Child("c08.linkreplay", in, &c.out, 20*time.Minute, exes[k%len(exes)], "GORACE=halt_on_error=1")
		c.ok = !childFailed(r, cr, fmt.Sprintf("link replay %d", k), map[string]interface{}{"phase": "link", "chunk": k})
	})
	var traces []linkTrace
	imposed, builds := 0, 0
	once := map[string]bool{} // one report per kind and number of entry points
	violation := func(key map[string]interface{}, what string, detail interface{}) {
		k := fmt.Sprint(key["kind"], key["n"])
		if !once[k] {
			once[k] = true
			r.Violation(key, what, detail)
		}
	}
	for _, c := range chunks {
		if !c.ok {
			continue
		}
		for ci, co := range c.out.Cases {
			in := chosen[c.lo+ci]
			mkKey := func(kind string) map[string]interface{} {
				return map[string]interface{}{"phase": "link", "n": in.N, "cssMode": in.CssMode, "kind": kind}
			}
			nImposed := 0
			reported := false
			for bi, b := range co.Builds {
				builds++
				if b.Imposed && bi > 0 {
					nImposed++
				}
				if reported {
					continue
				}
				files, _ := in.files()
				if b.Hung {
					key := mkKey("link-hang")
					violation(key, fmt.Sprintf("a real build with %d entry points did not return under schedule %s (LinkPar: every linker gets through, Termination)", in.N, b.Label),
						map[string]interface{}{"input": in, "schedule": b.Label, "deviation": b.Deviation, "files": files})
					reported = true
				}
				if b.Deviation != "" {
					key := mkKey("link-schedule-deviation")
					violation(key, fmt.Sprintf("the real compile phase left the specification LinkPar under an imposed schedule: %s", b.Deviation),
						map[string]interface{}{"input": in, "schedule": b.Label, "deviation": b.Deviation, "files": files})
				}
				if !b.Hung && b.Fingerprint != co.Builds[0].Fingerprint {
					d := diffParts(co.Builds[0].Parts, b.Parts)
					key := mkKey("link-order-dependent")
					key["differs"] = classify(d)
					violation(key, fmt.Sprintf("build result depends on the interleaving of the per-entry-point linkers: schedule %s differs from the ungated build in %v (props %v, css %v, %s)", b.Label, d, in.Props, in.Css, in.CssMode),
						map[string]interface{}{"input": in, "schedule": b.Label, "differs": d, "a": pick(co.Builds[0].Parts, d), "b": pick(b.Parts, d), "files": files})
				}
			}
			imposed += nImposed
			r.Case(fmt.Sprintf("link:%s:warn=%v", in.key(), in.Warn), nImposed >= 2 && in.sensitive())
			if c.lo+ci < 3 {
				r.Sample(map[string]interface{}{"phase": "link", "input": in, "schedules": len(co.Builds) - 1, "imposed": nImposed, "errors": co.Errors, "warnings": co.Warnings, "mangle_cache": co.Cache})
			}
			traces = append(traces, co.Traces...)
		}
	}
	r.Logf("link replay: %d inputs, %d builds, %d schedules imposed", len(chosen), builds, imposed)
	r.Set("link_schedules_imposed", imposed)
	r.Set("link_builds", builds)
	return traces
}

// ---------------------------------------------------------------------------
// scaled scenarios of the compile phase: 3-5 entry points WITHOUT code splitting, a pool of
// to-be-mangled properties and local CSS names spread over shared modules (so that different
// entry points see different subsets), linker warnings from shared and per-entry files, and
// (kind "linkerr") linker errors from two entry points

type scaledLinkIn struct {
	Seed    int64  `json:"seed"`
	NFiles  int    `json:"nfiles"`
	Kind    string `json:"kind"` // "link" | "linkerr"
	Minify  bool   `json:"minify"`
	Repeats int    `json:"repeats"`
	Procs   []int  `json:"procs"`
}

type scaledLinkOut struct {
	scaledOut
	Traces []linkTrace `json:"traces"`
	NEntry int         `json:"nentry"`
	Cache  string      `json:"cache"`
}

func scaledLinkFiles(seed int64, n int, kind string) (map[string]string, []string) {
	rnd := rand.New(rand.NewSource(seed))
	files := map[string]string{}
	nEntries := 3 + int(seed%3)
	classes := []string{"btn", "box", "row", "cell"}
	for k := 0; k < 5; k++ {
		var cb strings.Builder
		for _, c := range classes {
			if rnd.Intn(3) > 0 {
				fmt.Fprintf(&cb, ".%s { color: red; order: %d }\n", c, k)
			}
		}
		cb.WriteString(".always { margin: 0 }\n")
		files[fmt.Sprintf("c%d/style.module.css", k)] = cb.String()
	}
	files["lib.js"] = "export const yes = 1\n"
	for i := 0; i < n; i++ {
		var sb strings.Builder
		sb.WriteString("import * as lib from './lib.js'\n")
		nimp := rnd.Intn(3)
		for k := 0; k < nimp && i+1 < n; k++ {
			fmt.Fprintf(&sb, "import {v as v%d} from './m%03d.js'\nexport const r%d = v%d\n", k, i+1+rnd.Intn(n-i-1), k, k)
		}
		if rnd.Intn(3) == 0 {
			fmt.Fprintf(&sb, "import * as st from './c%d/style.module.css'\nexport const cls = [st.always, st.%s]\n", rnd.Intn(5), classes[rnd.Intn(len(classes))])
		}
		// two or three properties of a pool of 12, with different use counts
		fmt.Fprintf(&sb, "export function v(o) { return [lib.yes")
		for k := 0; k < 2+rnd.Intn(2); k++ {
			p := rnd.Intn(12)
			for u := 0; u <= rnd.Intn(3); u++ {
				fmt.Fprintf(&sb, ", o.pk%d_", p)
			}
		}
		sb.WriteString("] }\n")
		if rnd.Intn(4) == 0 {
			fmt.Fprintf(&sb, "console.log(lib.absent%d)\n", i) // linker warning, logged by every linker that links this file
		}
		files[fmt.Sprintf("m%03d.js", i)] = sb.String()
	}
	var entries []string
	for e := 0; e < nEntries; e++ {
		var sb strings.Builder
		sb.WriteString("import * as lib from './lib.js'\n")
		for k := 0; k < 3; k++ {
			fmt.Fprintf(&sb, "import {v as x%d} from './m%03d.js'\n", k, rnd.Intn(n))
		}
		fmt.Fprintf(&sb, "import * as st from './c%d/style.module.css'\n", e%5)
		fmt.Fprintf(&sb, "console.log(x0, x1, x2, st.always, {own%d_: 1, pk%d_: 2}, lib.gone%d)\n", e, rnd.Intn(12), e)
		if kind == "linkerr" && (e == 1 || e == nEntries-1) {
			fmt.Fprintf(&sb, "import {nothing%d} from './lib.js'\nconsole.log(nothing%d)\n", e, e)
		}
		name := fmt.Sprintf("entry%d.js", e)
		files[name] = sb.String()
		entries = append(entries, name)
	}
	return files, entries
}

func runScaledLink(r *core.Run, in scaledLinkIn) (scaledLinkOut, error) {
	var out scaledLinkOut
	rec.Install()
	rec.SetGate("", gateFn)
	files, entries := scaledLinkFiles(in.Seed, in.NFiles, in.Kind)
	out.NEntry = len(entries)
	locs := []string{
		filepath.Join(r.Scratch, fmt.Sprintf("L%d", in.Seed)),
		filepath.Join(r.Scratch, fmt.Sprintf("another-location-of-the-project-%d/deep/er", in.Seed)),
	}
	for _, d := range locs {
		os.MkdirAll(d, 0755)
		if err := core.WriteTree(d, files); err != nil {
			return out, err
		}
	}
	defer func() {
		for _, d := range locs {
			os.RemoveAll(d)
		}
	}()
	opts := func(dir string) api.BuildOptions {
		o := buildOpts(dir, entries, nil, buildCfg{Minify: in.Minify, SourceMap: in.Seed%2 == 0}, nil)
		o.MangleProps = "_$"
		o.MangleCache = map[string]interface{}{"pk3_": "fixed", "keep_": false}
		return o
	}
	add := func(label, dir string, res api.BuildResult) {
		fp, parts := fingerprint(dir, res)
		out.Fingerprints = append(out.Fingerprints, fp)
		out.Parts = append(out.Parts, parts)
		out.Labels = append(out.Labels, label)
		out.Errors, out.Warnings, out.Outputs = len(res.Errors), len(res.Warnings), len(res.OutputFiles)
		out.Traces = append(out.Traces, linkTraceOf(dir, rec.Take(), fmt.Sprintf("scaled %s seed %d %s", in.Kind, in.Seed, label)))
		if out.Cache == "" {
			mc, _ := json.Marshal(res.MangleCache)
			out.Cache = string(mc)
		}
	}
	rec.Take()
	for k := 0; k < in.Repeats; k++ {
		add(fmt.Sprintf("repeat%d", k), locs[0], api.Build(opts(locs[0])))
	}
	old := runtime.GOMAXPROCS(0)
	for _, p := range in.Procs {
		runtime.GOMAXPROCS(p)
		add(fmt.Sprintf("procs%d", p), locs[0], api.Build(opts(locs[0])))
	}
	runtime.GOMAXPROCS(old)
	rnd := rand.New(rand.NewSource(in.Seed))
	for k := 0; k < 2*in.Repeats; k++ {
		s := newLinkSched(locs[0], linkGates...)
		stop := make(chan struct{})
		go s.runRandom(rand.New(rand.NewSource(rnd.Int63())), stop)
		res, hung := buildWatch(opts(locs[0]), 120*time.Second)
		close(stop)
		s.close()
		if hung {
			return out, fmt.Errorf("HUNG: scaled build under a random link schedule did not return")
		}
		add(fmt.Sprintf("linksched%d", k), locs[0], res)
	}
	add("loc1", locs[1], api.Build(opts(locs[1])))
	return out, nil
}

func init() {
	core.RegisterChild("c08.scaledlink", func(r *core.Run, in json.RawMessage) (interface{}, error) {
		var x scaledLinkIn
		if err := json.Unmarshal(in, &x); err != nil {
			return nil, err
		}
		return runScaledLink(r, x)
	})
}

func runScaledLinkPhase(r *core.Run, exes []string) []linkTrace {
	n := r.Pick(3, 16)
	outs := make([]scaledLinkOut, n)
	ins := make([]scaledLinkIn, n)
	oks := make([]bool, n)
	core.Parallel(n, 3, func(i int) {
		kind := "link"
		if i%3 == 2 {
			kind = "linkerr"
		}
		ins[i] = scaledLinkIn{Seed: r.Seed*104729 + int64(i), NFiles: r.Pick(25, 80), Kind: kind, Minify: i%2 == 1, Repeats: r.Pick(3, 6), Procs: []int{1, 2, 5, 16}}
		cr := r.Child("c08.scaledlink", ins[i], &outs[i], 15*time.Minute, exes[i%len(exes)], "GORACE=halt_on_error=1")
		oks[i] = !childFailed(r, cr, fmt.Sprintf("scaled link scenario %d", i), map[string]interface{}{"scenario": kind, "phase": "link"})
	})
	var traces []linkTrace
	for i := 0; i < n; i++ {
		if !oks[i] {
			continue
		}
		in, out := ins[i], outs[i]
		r.Case(fmt.Sprintf("scaledlink:%d:%s:min=%v", in.Seed, in.Kind, in.Minify), len(out.Fingerprints) >= 2)
		if i < 2 {
			r.Sample(map[string]interface{}{"scenario": in.Kind, "entry_points": out.NEntry, "files": in.NFiles, "minify": in.Minify, "builds": len(out.Fingerprints), "outputs": out.Outputs, "errors": out.Errors, "warnings": out.Warnings, "mangle_cache": out.Cache})
		}
		for k := 1; k < len(out.Fingerprints); k++ {
			if out.Fingerprints[k] != out.Fingerprints[0] {
				d := diffParts(out.Parts[0], out.Parts[k])
				r.Violation(map[string]interface{}{"kind": "nondeterministic", "scenario": in.Kind, "differs": classify(d)},
					fmt.Sprintf("two builds of the same inputs and options differ (%s vs %s, scenario %s, %d entry points without splitting, %d files): %v", out.Labels[0], out.Labels[k], in.Kind, out.NEntry, in.NFiles, d),
					map[string]interface{}{"in": in, "label_a": out.Labels[0], "label_b": out.Labels[k], "differs": d, "a": pick(out.Parts[0], d), "b": pick(out.Parts[k], d)})
				break
			}
		}
		traces = append(traces, out.Traces...)
	}
	return traces
}
