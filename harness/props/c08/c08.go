// Package c08: builds are deterministic.  Spec: Scan.tla (the parallel scan as
// a state machine; TLC checks load-once / index injectivity / drain / "the
// reachable set and DFS order are functions of the graph" for EVERY arrival
// order of parse results and exports those orders); binding (R): every
// exported arrival order is imposed on the real scan through the scan.send
// gate and the BuildResult must be byte-identical across all of them and to
// the ungated run; scaled scenarios are perturbed with seeded random feasible
// orders, GOMAXPROCS, map-iteration repeats, sibling builds and different
// absolute project locations.
package c08

import (
	"crypto/sha1"
	"encoding/hex"
	"encoding/json"
	"fmt"
	"math/rand"
	"os"
	"path/filepath"
	"regexp"
	"runtime"
	"sort"
	"strings"
	"sync"
	"time"

	"github.com/evanw/esbuild/pkg/api"

	"verifharness/core"
	"verifharness/rec"
	"verifharness/tlcrun"
)

// ---------------------------------------------------------------------------
// the model graphs (shared by the TLA+ constants and the real projects)

type graph struct {
	Name     string              `json:"name"`
	Modules  []string            `json:"modules"`
	Imports  map[string][]string `json:"imports"`
	Entries  []string            `json:"entries"`
	Injected []string            `json:"injected"`
}

func graphs() []graph {
	return []graph{
		{Name: "chain", Modules: []string{"a", "b", "c"}, Imports: map[string][]string{"a": {"b"}, "b": {"c"}}, Entries: []string{"a"}},
		{Name: "diamond", Modules: []string{"a", "b", "c", "d"}, Imports: map[string][]string{"a": {"b", "c"}, "b": {"d"}, "c": {"d"}}, Entries: []string{"a"}},
		{Name: "cycle", Modules: []string{"a", "b", "c"}, Imports: map[string][]string{"a": {"b"}, "b": {"c"}, "c": {"a"}}, Entries: []string{"a"}},
		{Name: "two-entries-shared", Modules: []string{"a", "b", "c", "d", "e"}, Imports: map[string][]string{"a": {"c", "d"}, "b": {"d", "c"}, "c": {"e"}, "d": {"e"}}, Entries: []string{"a", "b"}},
		{Name: "fan", Modules: []string{"a", "b", "c", "d", "e"}, Imports: map[string][]string{"a": {"b", "c", "d", "e"}, "e": {"b"}}, Entries: []string{"a"}},
		{Name: "inject", Modules: []string{"a", "b", "c", "i"}, Imports: map[string][]string{"a": {"b"}, "b": {"c"}, "i": {"c"}}, Entries: []string{"a"}, Injected: []string{"i"}},
		{Name: "cross-entries", Modules: []string{"a", "b", "c", "d"}, Imports: map[string][]string{"a": {"b", "d"}, "b": {"a", "c"}, "c": {"d"}}, Entries: []string{"b", "a"}},
	}
}

func tlaSeq(xs []string) string {
	q := make([]string, len(xs))
	for i, x := range xs {
		q[i] = fmt.Sprintf("%q", x)
	}
	return "<<" + strings.Join(q, ", ") + ">>"
}

func (g graph) tlaModule(name string) string {
	var sb strings.Builder
	fmt.Fprintf(&sb, "---- MODULE %s ----\nEXTENDS Scan, Json\n", name)
	fmt.Fprintf(&sb, "GModules == {%s}\n", strings.Trim(tlaSeq(g.Modules), "<>"))
	sb.WriteString("GImports == [m \\in GModules |-> CASE ")
	first := true
	for _, m := range g.Modules {
		if len(g.Imports[m]) == 0 {
			continue
		}
		if !first {
			sb.WriteString(" [] ")
		}
		first = false
		fmt.Fprintf(&sb, "m = %q -> %s", m, tlaSeq(g.Imports[m]))
	}
	if !first {
		sb.WriteString(" [] ")
	}
	sb.WriteString("OTHER -> <<>>]\n")
	fmt.Fprintf(&sb, "GEntries == %s\nGInjected == %s\n", tlaSeq(g.Entries), tlaSeq(g.Injected))
	sb.WriteString("Export == (phase = \"done\" /\\ ~cancel) => PrintT(<<\"CASE\", ToJson([arrival |-> arrival, stable |-> StableOrder])>>)\n====\n")
	return sb.String()
}

// the trace-validation module for one graph: the graph module plus trace actions
func (g graph) tlaTraceModule(name string) string {
	base := g.tlaModule(name)
	base = strings.TrimSuffix(base, "====\n")
	return base + `
TraceLog == ndJsonDeserialize("scantrace.ndjson")
VARIABLE l
tvars == <<vars, l>>
Ev == TraceLog[l]
IsEv(n) == l <= Len(TraceLog) /\ TraceLog[l].ev = n
Consume == l' = l + 1
TraceInit == Init /\ l = 1 /\ TLCSet(1, 1)

TrReset ==
  /\ IsEv("reset") /\ Consume
  /\ phase' = "onstart" /\ startLeft' = NOnStart
  /\ visited' = [f \in Files |-> IF f = Runtime THEN 0 ELSE -1]
  /\ nextIdx' = 1 /\ remaining' = 1
  /\ parsing' = {Runtime} /\ ready' = {} /\ received' = {} /\ arrival' = <<>>
  /\ spawns' = [f \in Files |-> IF f = Runtime THEN 1 ELSE 0]
  /\ entryNext' = 1 /\ injNext' = 1 /\ injWaiting' = {} /\ panicked' = {} /\ cancel' = FALSE

\* scan.barrier: onStartWaitGroup.Wait() returned
TrBarrier == IsEv("barrier") /\ Consume /\ Barrier

\* scan.visit outside of the receive loop: an injected file or an entry point
TrVisitTop ==
  /\ IsEv("visit") /\ Consume
  /\ \/ phase = "inject" /\ InjectSpawn /\ Injected[injNext] = Ev.m
     \/ phase = "entries" /\ AddEntry /\ Entries[entryNext] = Ev.m
  /\ Ev.hit = (visited[Ev.m] # -1)
  /\ visited'[Ev.m] = Ev.idx

\* scan.recv + scan.result + the scan.visit events of its import records (regrouped by the harness)
TrMainRecv ==
  /\ IsEv("mainrecv") /\ Consume
  /\ MainRecv(Ev.f)
  /\ Len(Ev.visits) = Len(ImportsOf(Ev.f))
  /\ \A k \in 1..Len(Ev.visits) :
        /\ Ev.visits[k].m = ImportsOf(Ev.f)[k]
        /\ visited'[Ev.visits[k].m] = Ev.visits[k].idx
        /\ (~Ev.visits[k].hit) => visited[Ev.visits[k].m] = -1
  /\ remaining' = Ev.remaining + Cardinality({k \in 1..Len(Ev.visits) : ~Ev.visits[k].hit})

\* the build returned: the scan must be complete
TrDone == IsEv("done") /\ Consume /\ phase = "done" /\ UNCHANGED vars

Silent ==
  /\ l' = l
  /\ \/ InjectWaitDone \/ EntriesDone \/ ScanDone
     \/ \E f \in Files : ParseReady(f)

TraceNext == TrReset \/ TrBarrier \/ TrVisitTop \/ TrMainRecv \/ TrDone \/ Silent
TraceSpec == TraceInit /\ [][TraceNext]_tvars
HighWater == IF l > TLCGet(1) THEN TLCSet(1, l) ELSE TRUE
TraceAccepted == PrintT(<<"HIGHWATER", TLCGet(1)>>) /\ TLCGet(1) = Len(TraceLog) + 1
====
`
}

func traceCfg() string {
	return "SPECIFICATION TraceSpec\nCONSTANTS\n  Modules <- GModules\n  Imports <- GImports\n  Entries <- GEntries\n  Injected <- GInjected\n" +
		"  NOnStart = 0\n  AllowCancel = FALSE\n  PanicIn = {}\n" +
		"INVARIANTS TypeOK LoadOnce IdxInjective RemainingExact StartBeforeLoad CompleteScan Drained\nCONSTRAINT HighWater\nPOSTCONDITION TraceAccepted\nCHECK_DEADLOCK FALSE\n"
}

func cfg(spec string, cancel bool, panicIn string, export bool, nOnStart int) string {
	s := "SPECIFICATION " + spec + "\nCONSTANTS\n  Modules <- GModules\n  Imports <- GImports\n  Entries <- GEntries\n  Injected <- GInjected\n"
	s += fmt.Sprintf("  NOnStart = %d\n  AllowCancel = %v\n  PanicIn = {%s}\n", nOnStart, strings.ToUpper(fmt.Sprint(cancel)), panicIn)
	s += "INVARIANTS TypeOK LoadOnce IdxInjective RemainingExact StartBeforeLoad CompleteScan Drained"
	if export {
		s += " Export"
	}
	s += "\n"
	if spec == "FairSpec" {
		s += "PROPERTIES Termination\n"
	}
	s += "CHECK_DEADLOCK FALSE\n"
	return s
}

// ---------------------------------------------------------------------------
// real projects

func (g graph) files() map[string]string {
	files := map[string]string{}
	for _, m := range g.Modules {
		var sb strings.Builder
		for k, imp := range g.Imports[m] {
			fmt.Fprintf(&sb, "import {v as v%d} from './%s.js'\n", k, imp)
		}
		// identical top-level names in every file (the renamer must pick names
		// independently of source indices), a mangled property, a warning
		fmt.Fprintf(&sb, "const shared = '%s', helper = () => shared + ':' + tag_\nlet tag_ = '%s'.prop_\n", m, m)
		fmt.Fprintf(&sb, "export function v() { return [helper()")
		for k := range g.Imports[m] {
			fmt.Fprintf(&sb, ", typeof v%d", k)
		}
		fmt.Fprintf(&sb, "] }\nexport const only_%s = typeof shared === 'nope' // warning: impossible typeof\nconsole.log(v().length)\n", m)
		files[m+".js"] = sb.String()
	}
	return files
}

type buildCfg struct {
	Name        string
	Splitting   bool
	Minify      bool
	SourceMap   bool
	MangleProps bool
}

func buildOpts(dir string, entries, injected []string, c buildCfg, extra func(*api.BuildOptions)) api.BuildOptions {
	o := api.BuildOptions{
		AbsWorkingDir: dir,
		Bundle:        true,
		Outdir:        "out",
		Write:         false,
		LogLevel:      api.LogLevelSilent,
		Metafile:      true,
		Format:        api.FormatESModule,
		EntryNames:    "[name]-[hash]",
		ChunkNames:    "chunks/[name]-[hash]",
		AssetNames:    "assets/[name]-[hash]",
	}
	for _, e := range entries {
		o.EntryPoints = append(o.EntryPoints, e)
	}
	for _, i := range injected {
		o.Inject = append(o.Inject, i)
	}
	o.Splitting = c.Splitting
	if c.Minify {
		o.MinifyWhitespace, o.MinifyIdentifiers, o.MinifySyntax = true, true, true
	}
	if c.SourceMap {
		o.Sourcemap = api.SourceMapLinked
	}
	if c.MangleProps {
		o.MangleProps = "_$"
		o.MangleCache = map[string]interface{}{"keep_": false}
	}
	if extra != nil {
		extra(&o)
	}
	return o
}

// fingerprint of everything the property lists, with absolute paths made relative to dir
func fingerprint(dir string, res api.BuildResult) (string, map[string]string) {
	parts := map[string]string{}
	rel := func(p string) string {
		if r, err := filepath.Rel(dir, p); err == nil {
			return r
		}
		return p
	}
	var order []string
	for _, f := range res.OutputFiles {
		parts["file:"+rel(f.Path)] = hashStr(string(f.Contents)) + ":" + f.Hash
		order = append(order, rel(f.Path))
	}
	// the order of BuildResult.OutputFiles (results are joined in entry point / chunk order)
	parts["order"] = strings.Join(order, "\n")
	parts["metafile"] = hashStr(res.Metafile)
	mc, _ := json.Marshal(res.MangleCache)
	parts["manglecache"] = string(mc)
	msg := func(ms []api.Message) string {
		var sb strings.Builder
		for _, m := range ms {
			sb.WriteString(m.Text)
			if m.Location != nil {
				fmt.Fprintf(&sb, "@%s:%d:%d", m.Location.File, m.Location.Line, m.Location.Column)
			}
			for _, n := range m.Notes {
				sb.WriteString("|" + n.Text)
			}
			sb.WriteString("\n")
		}
		return sb.String()
	}
	parts["errors"] = msg(res.Errors)
	parts["warnings"] = msg(res.Warnings)
	keys := make([]string, 0, len(parts))
	for k := range parts {
		keys = append(keys, k)
	}
	sort.Strings(keys)
	h := sha1.New()
	for _, k := range keys {
		h.Write([]byte(k + "=" + parts[k] + "\x00"))
	}
	return hex.EncodeToString(h.Sum(nil)[:10]), parts
}

func hashStr(s string) string {
	h := sha1.Sum([]byte(s))
	return hex.EncodeToString(h[:8])
}

func diffParts(a, b map[string]string) []string {
	var d []string
	for k, v := range a {
		if b[k] != v {
			d = append(d, k)
		}
	}
	for k := range b {
		if _, ok := a[k]; !ok {
			d = append(d, k)
		}
	}
	sort.Strings(d)
	if len(d) > 8 {
		d = d[:8]
	}
	return d
}

// ---------------------------------------------------------------------------
// the scan.send scheduler

type sched struct {
	dir      string
	mu       sync.Mutex
	waiting  map[string]chan struct{}
	wake     chan struct{}
	stop     chan struct{}
	released []string
	gaveUp   bool
}

var (
	schedMu sync.RWMutex
	scheds  = map[string]*sched{} // by project dir
)

func gateFn(name, key string, gid int64) string {
	if strings.HasPrefix(name, "link.") {
		linkGate(name, key)
		return ""
	}
	if name != "scan.send" {
		return ""
	}
	schedMu.RLock()
	var s *sched
	for d, x := range scheds {
		if strings.HasPrefix(key, d+string(filepath.Separator)) {
			s = x
			break
		}
	}
	schedMu.RUnlock()
	if s == nil {
		return ""
	}
	ch := make(chan struct{})
	s.mu.Lock()
	s.waiting[key] = ch
	s.mu.Unlock()
	select {
	case s.wake <- struct{}{}:
	default:
	}
	<-ch
	return ""
}

func newSched(dir string) *sched {
	s := &sched{dir: dir, waiting: map[string]chan struct{}{}, wake: make(chan struct{}, 1), stop: make(chan struct{})}
	schedMu.Lock()
	scheds[dir] = s
	schedMu.Unlock()
	return s
}

func (s *sched) close() {
	schedMu.Lock()
	delete(scheds, s.dir)
	schedMu.Unlock()
	close(s.stop)
	s.releaseAll()
}

func (s *sched) releaseAll() {
	s.mu.Lock()
	for k, ch := range s.waiting {
		close(ch)
		delete(s.waiting, k)
	}
	s.mu.Unlock()
}

// explicit: release exactly in the given order (module names); anything not named is released at once
func (s *sched) runExplicit(order []string) {
	pos := 0
	named := map[string]bool{}
	for _, m := range order {
		named[filepath.Join(s.dir, m+".js")] = true
	}
	deadline := time.NewTimer(20 * time.Second)
	defer deadline.Stop()
	for {
		s.mu.Lock()
		for k, ch := range s.waiting {
			if !named[k] {
				close(ch)
				delete(s.waiting, k)
			}
		}
		for pos < len(order) {
			k := filepath.Join(s.dir, order[pos]+".js")
			ch, ok := s.waiting[k]
			if !ok {
				break
			}
			close(ch)
			delete(s.waiting, k)
			s.released = append(s.released, order[pos])
			pos++
			// let the main goroutine consume this result before the next is released:
			// results travel over an unbuffered channel, so the next release can only
			// be received after this one has been
			s.mu.Unlock()
			time.Sleep(300 * time.Microsecond)
			s.mu.Lock()
		}
		s.mu.Unlock()
		select {
		case <-s.stop:
			return
		case <-s.wake:
		case <-time.After(2 * time.Millisecond):
		case <-deadline.C:
			s.gaveUp = true
			s.releaseAll()
			return
		}
	}
}

// random: wait until arrivals settle, then release one waiting goroutine chosen by the seeded policy
func (s *sched) runRandom(rnd *rand.Rand, policy int) {
	for {
		select {
		case <-s.stop:
			return
		case <-s.wake:
		case <-time.After(1 * time.Millisecond):
		}
		// settle
		time.Sleep(time.Duration(100+rnd.Intn(300)) * time.Microsecond)
		s.mu.Lock()
		if len(s.waiting) > 0 {
			keys := make([]string, 0, len(s.waiting))
			for k := range s.waiting {
				keys = append(keys, k)
			}
			sort.Strings(keys)
			var k string
			switch policy % 3 {
			case 0:
				k = keys[rnd.Intn(len(keys))]
			case 1:
				k = keys[len(keys)-1]
			default:
				k = keys[0]
			}
			close(s.waiting[k])
			delete(s.waiting, k)
		}
		s.mu.Unlock()
	}
}

// ---------------------------------------------------------------------------

type tlcCase struct {
	Arrival []string `json:"arrival"`
	Stable  []string `json:"stable"`
}

func projectOrder(arr []string) []string {
	var out []string
	for _, a := range arr {
		if a != "<runtime>" {
			out = append(out, a)
		}
	}
	return out
}

func modelGraph(r *core.Run, g graph) [][]string {
	mod := "ScanG_" + strings.ReplaceAll(g.Name, "-", "_")
	seen := map[string]bool{}
	var orders [][]string
	var mu sync.Mutex
	res, err := tlcrun.Run(r, tlcrun.Options{
		Module: mod, Config: mod + ".cfg", Workers: 2, TimeoutSec: 600,
		Files: map[string]string{mod + ".tla": g.tlaModule(mod), mod + ".cfg": cfg("Spec", false, "", true, 1)},
		OnCase: func(raw []byte) {
			var c tlcCase
			if json.Unmarshal(raw, &c) == nil {
				o := projectOrder(c.Arrival)
				k := strings.Join(o, ",")
				mu.Lock()
				if !seen[k] {
					seen[k] = true
					orders = append(orders, o)
				}
				mu.Unlock()
			}
		},
	})
	if err != nil {
		r.Infra("Scan model %s: %v", g.Name, err)
		return nil
	}
	if res.Violated != "" {
		r.Infra("Scan model %s violates %s on the design alone:\n%s", g.Name, res.Violated, res.Output)
		return nil
	}
	r.Logf("TLC Scan/%s: %d generated, %d distinct, %d arrival orders", g.Name, res.Generated, res.Distinct, len(orders))
	// fault configurations: cancel at any point, a panicking parse goroutine; liveness
	for _, fc := range []struct {
		name, spec, panicIn string
		cancel              bool
	}{{"cancel", "FairSpec", "", true}, {"panic", "FairSpec", fmt.Sprintf("%q", g.Modules[len(g.Modules)-1]), false}} {
		if len(g.Injected) > 0 && fc.name == "panic" {
			// a panic inside an injected file's parse goroutine: see DESIGN.md section 7 item 7
			continue
		}
		fr, err := tlcrun.Run(r, tlcrun.Options{
			Module: mod, Config: mod + ".cfg", Workers: 2, TimeoutSec: 600,
			Files: map[string]string{mod + ".tla": g.tlaModule(mod), mod + ".cfg": cfg(fc.spec, fc.cancel, fc.panicIn, false, 1)},
		})
		if err != nil {
			r.Infra("Scan model %s/%s: %v", g.Name, fc.name, err)
		} else if fr.Violated != "" {
			r.Infra("Scan model %s/%s violates %s on the design alone:\n%s", g.Name, fc.name, fr.Violated, fr.Output)
		}
	}
	sort.Slice(orders, func(i, j int) bool { return strings.Join(orders[i], ",") < strings.Join(orders[j], ",") })
	return orders
}

type replayIn struct {
	Graph  graph      `json:"graph"`
	Orders [][]string `json:"orders"`
	Cfg    buildCfg   `json:"cfg"`
	Procs  int        `json:"procs"`
}

type replayOut struct {
	ScanTraces   [][]map[string]interface{} `json:"scan_traces"`
	Fingerprints []string            `json:"fingerprints"` // [0] = ungated
	Parts        []map[string]string `json:"parts"`
	Imposed      []bool              `json:"imposed"` // the order was really imposed
	Errors       int                 `json:"errors"`
}

func replayGraph(r *core.Run, in replayIn) (replayOut, error) {
	var out replayOut
	if in.Procs > 0 {
		runtime.GOMAXPROCS(in.Procs)
	}
	rec.Install()
	rec.SetGate("", gateFn)
	dir := filepath.Join(r.Scratch, "g-"+in.Graph.Name)
	os.MkdirAll(dir, 0755)
	defer os.RemoveAll(dir)
	if err := core.WriteTree(dir, in.Graph.files()); err != nil {
		return out, err
	}
	var entries, injected []string
	for _, e := range in.Graph.Entries {
		entries = append(entries, e+".js")
	}
	for _, e := range in.Graph.Injected {
		injected = append(injected, e+".js")
	}
	opts := buildOpts(dir, entries, injected, in.Cfg, nil)
	rec.Take()
	res := api.Build(opts)
	out.ScanTraces = append(out.ScanTraces, scanTrace(dir, rec.Take()))
	fp, parts := fingerprint(dir, res)
	out.Fingerprints = append(out.Fingerprints, fp)
	out.Parts = append(out.Parts, parts)
	out.Imposed = append(out.Imposed, true)
	out.Errors = len(res.Errors)
	for _, order := range in.Orders {
		s := newSched(dir)
		go s.runExplicit(order)
		res := api.Build(opts)
		s.close()
		out.ScanTraces = append(out.ScanTraces, scanTrace(dir, rec.Take()))
		fp, parts := fingerprint(dir, res)
		out.Fingerprints = append(out.Fingerprints, fp)
		out.Parts = append(out.Parts, parts)
		out.Imposed = append(out.Imposed, !s.gaveUp && strings.Join(s.released, ",") == strings.Join(order, ","))
	}
	return out, nil
}

// scanTrace regroups the scan hook events of one build into trace events for
// the generated trace module (pure regrouping/renaming)
func scanTrace(dir string, evs []rec.Event) []map[string]interface{} {
	name := func(p string) string {
		if p == "<runtime>" {
			return p
		}
		return strings.TrimSuffix(filepath.Base(p), ".js")
	}
	var out []map[string]interface{}
	var cur map[string]interface{}
	flush := func() {
		if cur != nil {
			out = append(out, cur)
			cur = nil
		}
	}
	for _, e := range evs {
		if e.Str("cwd") != dir {
			continue
		}
		switch e.Ev {
		case "scan.barrier":
			flush()
			out = append(out, map[string]interface{}{"ev": "barrier"})
		case "scan.recv":
			flush()
			cur = map[string]interface{}{"ev": "mainrecv", "f": "?", "remaining": e.Int("remaining"), "visits": []interface{}{}}
		case "scan.result":
			if cur != nil {
				cur["f"] = name(e.Str("path"))
			}
		case "scan.visit":
			v := map[string]interface{}{"m": name(e.Str("path")), "hit": e.Bool("hit"), "idx": e.Int("idx")}
			if cur != nil {
				cur["visits"] = append(cur["visits"].([]interface{}), v)
			} else {
				v["ev"] = "visit"
				out = append(out, v)
			}
		}
	}
	flush()
	out = append(out, map[string]interface{}{"ev": "done"})
	return out
}

func validateScanTraces(r *core.Run, g graph, traces [][]map[string]interface{}) {
	mod := "ScanT_" + strings.ReplaceAll(g.Name, "-", "_")
	var sb strings.Builder
	n := 0
	for i, tr := range traces {
		if i > 0 {
			sb.WriteString("{\"ev\":\"reset\"}\n")
			n++
		}
		for _, e := range tr {
			b, _ := json.Marshal(e)
			sb.Write(b)
			sb.WriteByte('\n')
			n++
		}
	}
	res, err := tlcrun.Run(r, tlcrun.Options{Module: mod, Config: mod + ".cfg", Workers: 1, DFS: true, TimeoutSec: 600, KeepOutput: true,
		Files: map[string]string{mod + ".tla": g.tlaTraceModule(mod), mod + ".cfg": traceCfg(), "scantrace.ndjson": sb.String()}})
	if err != nil {
		r.Infra("scan trace validation %s: %v", g.Name, err)
		return
	}
	if res.Violated == "" && !res.PostFalse {
		r.Inc("scan_traces_validated", int64(len(traces)))
		return
	}
	hw := 0
	for _, m := range reHW.FindAllStringSubmatch(res.Output, -1) {
		var v int
		fmt.Sscan(m[1], &v)
		if v > hw {
			hw = v
		}
	}
	for _, m := range reL.FindAllStringSubmatch(res.Output, -1) {
		var v int
		fmt.Sscan(m[1], &v)
		if v > hw {
			hw = v
		}
	}
	lines := strings.Split(sb.String(), "\n")
	rejected := ""
	if hw >= 1 && hw <= len(lines) {
		rejected = lines[hw-1]
	}
	r.Violation(map[string]interface{}{"kind": "scan-trace-rejected", "graph": g.Name, "violated": res.Violated},
		fmt.Sprintf("real scan of graph %s rejected by Scan.tla (violated=%q) at event %d: %s", g.Name, res.Violated, hw, rejected),
		map[string]interface{}{"graph": g, "event_index": hw, "event": rejected, "trace": sb.String()})
}

var reHW = regexp.MustCompile(`"HIGHWATER", (\d+)`)
var reL = regexp.MustCompile(`(?m)^/\\ l = (\d+)`)

// ---------------------------------------------------------------------------
// scaled scenarios

type scaledIn struct {
	Seed    int64    `json:"seed"`
	NFiles  int      `json:"nfiles"`
	Cfg     buildCfg `json:"cfg"`
	Repeats int      `json:"repeats"`
	Procs   []int    `json:"procs"`
	Kind    string   `json:"kind"` // "js" | "assets" | "diag"
}

type scaledOut struct {
	Fingerprints []string            `json:"fingerprints"`
	Labels       []string            `json:"labels"`
	Parts        []map[string]string `json:"parts"`
	Errors       int                 `json:"errors"`
	Warnings     int                 `json:"warnings"`
	Outputs      int                 `json:"outputs"`
}

func scaledFiles(seed int64, n int, kind string) (map[string]string, []string) {
	rnd := rand.New(rand.NewSource(seed))
	files := map[string]string{}
	nEntries := 3
	var entries []string
	for i := 0; i < n; i++ {
		var sb strings.Builder
		name := fmt.Sprintf("m%03d", i)
		// imports only to higher-numbered files plus an occasional back edge (cycle)
		nimp := rnd.Intn(4)
		for k := 0; k < nimp && i+1 < n; k++ {
			j := i + 1 + rnd.Intn(n-i-1)
			fmt.Fprintf(&sb, "import {v as v%d} from './m%03d.js'\n", k, j)
			fmt.Fprintf(&sb, "export const r%d = v%d\n", k, k)
		}
		if i > 3 && rnd.Intn(6) == 0 {
			fmt.Fprintf(&sb, "import * as back from './m%03d.js'\nexport const b = () => back\n", rnd.Intn(i))
		}
		if rnd.Intn(7) == 0 && i+1 < n {
			fmt.Fprintf(&sb, "export const lazy = () => import('./m%03d.js')\n", i+1+rnd.Intn(n-i-1))
		}
		if kind == "assets" && rnd.Intn(5) == 0 {
			fmt.Fprintf(&sb, "import url%d from './asset%d.bin'\nimport './style%d.css'\nexport const u = url%d\n", i, i%4, i%3, i)
		}
		fmt.Fprintf(&sb, "const shared = %d, helper = x => x + shared\nexport function v() { return helper(%d).prop_ }\n", i, i)
		if rnd.Intn(5) == 0 {
			fmt.Fprintf(&sb, "export const w%d = typeof shared === 'nope'\n", i) // warning
		}
		if rnd.Intn(9) == 0 {
			sb.WriteString("/*! legal comment " + name + " */\n")
		}
		fmt.Fprintf(&sb, "console.log(shared, v)\n")
		files[name+".js"] = sb.String()
	}
	for e := 0; e < nEntries; e++ {
		var sb strings.Builder
		name := fmt.Sprintf("entry%d", e)
		for k := 0; k < 4; k++ {
			fmt.Fprintf(&sb, "import {v as x%d} from './m%03d.js'\n", k, rnd.Intn(n))
		}
		sb.WriteString("const shared = 'e'\nconsole.log(shared, x0, x1, x2, x3)\n")
		files[name+".js"] = sb.String()
		entries = append(entries, name+".js")
	}
	if kind == "assets" {
		for a := 0; a < 4; a++ {
			files[fmt.Sprintf("asset%d.bin", a)] = fmt.Sprintf("asset-bytes-%d-%d", a, seed)
		}
		for s := 0; s < 3; s++ {
			files[fmt.Sprintf("style%d.css", s)] = fmt.Sprintf(".c%d { color: red; background: url(./asset%d.bin) }\n", s, s)
		}
	}
	if kind == "diag" {
		// several diagnostics that carry no source location: entry points that do not exist
		for k := 0; k < 6; k++ {
			entries = append(entries, fmt.Sprintf("./missing%d.js", k))
		}
	}
	return files, entries
}

func runScaled(r *core.Run, in scaledIn) (scaledOut, error) {
	var out scaledOut
	rec.Install()
	rec.SetGate("", gateFn)
	files, entries := scaledFiles(in.Seed, in.NFiles, in.Kind)
	// three absolute locations of different lengths
	locs := []string{
		filepath.Join(r.Scratch, fmt.Sprintf("s%d", in.Seed)),
		filepath.Join(r.Scratch, fmt.Sprintf("a-much-longer-directory-name-for-scenario-%d/nested/deeper", in.Seed)),
		filepath.Join(r.Scratch, fmt.Sprintf("x%d/y", in.Seed)),
	}
	for _, d := range locs {
		os.MkdirAll(d, 0755)
		if err := core.WriteTree(d, files); err != nil {
			return out, err
		}
	}
	defer func() {
		for _, d := range locs {
			os.RemoveAll(d)
		}
	}()
	extra := func(o *api.BuildOptions) {
		if in.Kind == "assets" {
			o.Loader = map[string]api.Loader{".bin": api.LoaderFile}
		}
		o.LegalComments = api.LegalCommentsLinked
	}
	add := func(label, dir string, res api.BuildResult) {
		fp, parts := fingerprint(dir, res)
		out.Fingerprints = append(out.Fingerprints, fp)
		out.Parts = append(out.Parts, parts)
		out.Labels = append(out.Labels, label)
		out.Errors, out.Warnings, out.Outputs = len(res.Errors), len(res.Warnings), len(res.OutputFiles)
	}
	rnd := rand.New(rand.NewSource(in.Seed))
	// (1) plain repeats (Go's randomised map iteration, goroutine timing)
	for k := 0; k < in.Repeats; k++ {
		add(fmt.Sprintf("repeat%d", k), locs[0], api.Build(buildOpts(locs[0], entries, nil, in.Cfg, extra)))
	}
	// (2) GOMAXPROCS sweep
	old := runtime.GOMAXPROCS(0)
	for _, p := range in.Procs {
		runtime.GOMAXPROCS(p)
		add(fmt.Sprintf("procs%d", p), locs[0], api.Build(buildOpts(locs[0], entries, nil, in.Cfg, extra)))
	}
	runtime.GOMAXPROCS(old)
	// (3) imposed arrival orders (seeded policies)
	for k := 0; k < in.Repeats; k++ {
		s := newSched(locs[0])
		go s.runRandom(rand.New(rand.NewSource(rnd.Int63())), k)
		add(fmt.Sprintf("order%d", k), locs[0], api.Build(buildOpts(locs[0], entries, nil, in.Cfg, extra)))
		s.close()
	}
	// (4) other absolute locations
	for i := 1; i < len(locs); i++ {
		add(fmt.Sprintf("loc%d", i), locs[i], api.Build(buildOpts(locs[i], entries, nil, in.Cfg, extra)))
	}
	// (5) concurrent sibling builds of different projects in the same process
	var wg sync.WaitGroup
	sib := make([]api.BuildResult, 3)
	for i := 0; i < 3; i++ {
		wg.Add(1)
		go func(i int) {
			defer wg.Done()
			sib[i] = api.Build(buildOpts(locs[i], entries, nil, in.Cfg, extra))
		}(i)
	}
	// an unrelated sibling
	wg.Add(1)
	go func() {
		defer wg.Done()
		api.Transform("let a = 1; export {a}", api.TransformOptions{MinifyIdentifiers: true})
	}()
	wg.Wait()
	for i := 0; i < 3; i++ {
		add(fmt.Sprintf("sibling%d", i), locs[i], sib[i])
	}
	return out, nil
}

// ---------------------------------------------------------------------------

func init() {
	core.Register("C08", Run)
	core.RegisterChild("c08.replay", func(r *core.Run, in json.RawMessage) (interface{}, error) {
		var x replayIn
		if err := json.Unmarshal(in, &x); err != nil {
			return nil, err
		}
		return replayGraph(r, x)
	})
	core.RegisterChild("c08.scaled", func(r *core.Run, in json.RawMessage) (interface{}, error) {
		var x scaledIn
		if err := json.Unmarshal(in, &x); err != nil {
			return nil, err
		}
		return runScaled(r, x)
	})
}

func childFailed(r *core.Run, cr core.ChildResult, what string, key map[string]interface{}) bool {
	if !cr.Crashed && !cr.TimedOut {
		return false
	}
	if core.CrashInEsbuild(cr.Stderr) {
		kind := "crash"
		if strings.Contains(cr.Stderr, "DATA RACE") {
			kind = "data-race"
		}
		key["kind"] = kind
		r.Violation(key, what+": the build process died ("+kind+")", map[string]interface{}{"stderr": cr.Stderr})
	} else {
		r.Infra("%s: driver died (exit %d, timeout %v): %s", what, cr.ExitCode, cr.TimedOut, cr.Stderr)
	}
	return true
}

func Run(r *core.Run) {
	r.Assume("arrival orders of parse results, the schedules of the per-entry-point linkers around the exclusive section and of their log writes, and (thorough) the race detector are controlled/observed; the pools inside one linker (per chunk / part range / file) join by index (SlotJoin.tla) and are only perturbed by GOMAXPROCS, random link schedules and repetition, not enumerated (DESIGN.md section 6, design.d/C08.md)")
	cfgs := []buildCfg{{Name: "bundle"}, {Name: "split-min-map-mangle", Splitting: true, Minify: true, SourceMap: true, MangleProps: true}}
	exes := []string{""}
	if r.Thorough() {
		cfgs = append(cfgs, buildCfg{Name: "split", Splitting: true}, buildCfg{Name: "min-mangle", Minify: true, MangleProps: true})
		if race := r.RaceExe(); race != "" {
			exes = append(exes, race)
		}
	}
	// developer switch: VERIF_C08_PARTS=link runs only the compile-phase parts (C), (D)
	parts := os.Getenv("VERIF_C08_PARTS")
	scanPart := parts == "" || strings.Contains(parts, "scan")
	imposedTotal := 0
	// (A) model graphs: every arrival order TLC finds, imposed on the real scan
	gs := graphs()
	if !scanPart {
		gs = nil
	}
	allOrders := make([][][]string, len(gs))
	core.Parallel(len(gs), 4, func(i int) { allOrders[i] = modelGraph(r, gs[i]) })
	for gi, g := range gs {
		orders := allOrders[gi]
		if orders == nil {
			continue
		}
		maxOrders := r.Pick(40, 400)
		if len(orders) > maxOrders {
			r.Rand.Shuffle(len(orders), func(i, j int) { orders[i], orders[j] = orders[j], orders[i] })
			orders = orders[:maxOrders]
		}
		for ci, c := range cfgs {
			procs := []int{0, 2, 1, 5}[(gi+ci)%4]
			var out replayOut
			cr := r.Child("c08.replay", replayIn{Graph: g, Orders: orders, Cfg: c, Procs: procs}, &out, 10*time.Minute, exes[(gi+ci)%len(exes)], "GORACE=halt_on_error=1")
			if childFailed(r, cr, "graph "+g.Name, map[string]interface{}{"graph": g.Name, "cfg": c.Name}) {
				continue
			}
			imposed := 0
			for i := 1; i < len(out.Fingerprints); i++ {
				if out.Imposed[i] {
					imposed++
				}
				r.Case(fmt.Sprintf("%s/%s/%s", g.Name, c.Name, strings.Join(orders[i-1], ",")), false)
				if out.Fingerprints[i] != out.Fingerprints[0] {
					d := diffParts(out.Parts[0], out.Parts[i])
					r.Violation(map[string]interface{}{"kind": "order-dependent", "graph": g.Name, "cfg": c.Name, "differs": classify(d)},
						fmt.Sprintf("build result of graph %s (%s) depends on the arrival order of parse results: order %v differs from the ungated build in %v", g.Name, c.Name, orders[i-1], d),
						map[string]interface{}{"graph": g, "cfg": c, "order": orders[i-1], "differs": d, "files": g.files()})
					break
				}
			}
			if ci == 0 {
				validateScanTraces(r, g, out.ScanTraces)
			}
			imposedTotal += imposed
			r.AddTraces(int64(imposed))
			if imposed >= 2 {
				r.Case(fmt.Sprintf("graph:%s/%s", g.Name, c.Name), true)
			}
			if gi < 2 && ci == 0 {
				r.Sample(map[string]interface{}{"graph": g.Name, "orders": len(orders), "first_orders": orders[:min(3, len(orders))], "cfg": c.Name, "imposed": imposed})
			}
		}
	}
	r.Set("arrival_orders_imposed", imposedTotal)
	// (B) scaled scenarios
	nsc := r.Pick(4, 24)
	if !scanPart {
		nsc = 0
	}
	kinds := []string{"js", "assets", "diag", "js"}
	for i := 0; i < nsc; i++ {
		in := scaledIn{Seed: r.Seed*7919 + int64(i), NFiles: []int{30, 60, 120, 200}[i%4], Cfg: cfgs[i%len(cfgs)], Repeats: r.Pick(4, 8), Procs: []int{1, 2, 5, 16}, Kind: kinds[i%len(kinds)]}
		if !r.Thorough() {
			in.NFiles = []int{30, 60, 40, 80}[i%4]
		}
		var out scaledOut
		cr := r.Child("c08.scaled", in, &out, 15*time.Minute, exes[i%len(exes)], "GORACE=halt_on_error=1")
		if childFailed(r, cr, fmt.Sprintf("scaled scenario %d", i), map[string]interface{}{"scenario": in.Kind, "cfg": in.Cfg.Name}) {
			continue
		}
		distinct := map[string]bool{}
		for _, f := range out.Fingerprints {
			distinct[f] = true
		}
		r.Case(fmt.Sprintf("scaled:%d:%s:%s", in.Seed, in.Kind, in.Cfg.Name), len(out.Fingerprints) >= 2)
		r.AddTraces(int64(len(out.Fingerprints)))
		if i < 3 {
			r.Sample(map[string]interface{}{"scenario": in.Kind, "files": in.NFiles, "cfg": in.Cfg.Name, "builds": len(out.Fingerprints), "outputs": out.Outputs, "errors": out.Errors, "warnings": out.Warnings})
		}
		if len(distinct) > 1 {
			for k := 1; k < len(out.Fingerprints); k++ {
				if out.Fingerprints[k] != out.Fingerprints[0] {
					d := diffParts(out.Parts[0], out.Parts[k])
					r.Violation(map[string]interface{}{"kind": "nondeterministic", "scenario": in.Kind, "differs": classify(d)},
						fmt.Sprintf("two builds of the same inputs and options differ (%s vs %s, scenario %s/%s, %d files): %v", out.Labels[0], out.Labels[k], in.Kind, in.Cfg.Name, in.NFiles, d),
						map[string]interface{}{"in": in, "label_a": out.Labels[0], "label_b": out.Labels[k], "differs": d, "a": pick(out.Parts[0], d), "b": pick(out.Parts[k], d)})
					break
				}
			}
		}
	}
	// (C) the compile phase: LinkPar.tla inputs x schedules imposed through the link.* gates,
	// (D) scaled projects with 3-5 entry points without splitting under random link schedules,
	// and the link.excl.* events of all those builds validated against LinkParTrace.tla
	traces := runLinkPhase(r, exes)
	traces = append(traces, runScaledLinkPhase(r, exes)...)
	validateLinkTraces(r, traces)
	r.Set("rule", "case = one (graph, config, imposed arrival order), one LinkPar input (per-entry mangled properties / local CSS names / error path / preset cache / renaming mode) replayed under its imposed link schedules, or one scaled scenario (repeats + GOMAXPROCS sweep + imposed random scan or link orders + other absolute locations + concurrent siblings); non-trivial = at least 2 distinct arrival orders were actually imposed (link inputs: at least 2 schedules imposed AND two linkers after the first write the shared state) / at least 2 builds compared")
}

func pick(m map[string]string, keys []string) map[string]string {
	o := map[string]string{}
	for _, k := range keys {
		o[k] = m[k]
	}
	return o
}

// classify the differing parts into a stable class for known-finding matching
func classify(d []string) string {
	classes := map[string]bool{}
	for _, k := range d {
		switch {
		case strings.HasPrefix(k, "file:"):
			classes["files"] = true
		default:
			classes[k] = true
		}
	}
	var out []string
	for c := range classes {
		out = append(out, c)
	}
	sort.Strings(out)
	return strings.Join(out, "+")
}
