package all

import _ "verifharness/props/c16"
