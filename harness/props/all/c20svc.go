package all

import _ "verifharness/props/c20svc"
