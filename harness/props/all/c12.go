package all

import _ "verifharness/props/c12"
