package all

import _ "verifharness/props/c10"
