package c14

// History dimension of C14 (spec/LoweringHist.tla): esbuild keeps process-global caches
// (bundler.globalRuntimeCache: the parsed and LOWERED runtime library keyed by a projection of
// the options; config.processedGlobals), so what a build emits can depend on what the same
// process built before.  The spec's generator exports histories of <= 3 builds (all ordered
// pairs over a skeleton of one step per target, single-dimension variants both ways, seeded
// triples) and a program per runtime helper; every history runs inside ONE child process, every
// step builds every helper program through the step's API (Transform / Build / Context+Rebuild),
// and every output is judged like a matrix cell (acorn at the target's year + feature detector
// against the spec's AllowedSyntax of the step's OWN configuration).  The first step of a
// history is a build in a fresh process: outputs of later steps are also compared byte for byte
// with the fresh output of the same step and program (spec: HistoryIndependent; a difference
// that stays within the target is reported as drift, not as a C14 verdict).

import (
	"encoding/json"
	"fmt"
	"os"
	"path/filepath"
	"regexp"
	"sort"
	"strings"
	"sync"
	"time"

	"github.com/evanw/esbuild/pkg/api"

	"verifharness/core"
	"verifharness/tlcrun"
)

type hstep struct {
	Target     string   `json:"target"`
	Engines    []string `json:"engines"`
	Override   string   `json:"override"`
	Minify     string   `json:"minify"`
	Api        string   `json:"api"`
	TriggerOff bool     `json:"triggerOff,omitempty"` // census: switch the program's trigger features off
}

func (s hstep) tname() string {
	if s.Target != "" {
		return s.Target
	}
	return strings.Join(s.Engines, "+")
}

func (s hstep) String() string {
	return s.tname() + "," + s.Override + "," + s.Minify + "," + s.Api
}

type hprog struct {
	Name     string   `json:"name"`
	Loader   string   `json:"loader"`
	Src      string   `json:"src"`
	Trigger  []string `json:"trigger"`
	ExtraOff []string `json:"extraOff"`
	Opts     []string `json:"opts"`
	Bundle   bool     `json:"bundle"`
	Needs    []string `json:"needs"`
	MinNeeds []string `json:"minNeeds"`
	Uses     []string `json:"uses"`
}

type hhist struct {
	Steps   []hstep `json:"steps"`
	Leaky   bool    `json:"leaky"`
	Differs bool    `json:"differs"`
}

func (h *hhist) String() string {
	parts := make([]string, len(h.Steps))
	for i, s := range h.Steps {
		parts[i] = s.String()
	}
	return strings.Join(parts, " > ")
}

type hhelpers struct {
	Helpers []string            `json:"helpers"`
	Uses    map[string][]string `json:"uses"`
}

type hout struct {
	Code     string   `json:"code"`
	Errors   []string `json:"errors,omitempty"`
	Warnings []string `json:"warnings,omitempty"`
}

type hchildIn struct {
	Steps []hstep `json:"steps"`
	Progs []hprog `json:"progs"`
}

type hchildOut struct {
	Outs [][]hout `json:"outs"` // [step][prog]
}

var histFiles = map[string]string{
	"lib.cjs":   "exports.v = 1;\nmodule.exports.w = function () { return 2; };\n",
	"lib2.js":   "export const v2 = 2;\nexport default function d2() { return 3; }\n",
	"data.json": "{\"k\": 1}\n",
	"data.bin":  "\x00\x01\x02binary",
}

// the output format of a step's build of a program ("" = none given)
func histFormat(p *hprog, s hstep) string {
	if contains(p.Opts, "formatCJS") {
		return "cjs"
	}
	if contains(p.Opts, "formatESM") {
		return "esm"
	}
	switch s.Api {
	case "build":
		return "esm"
	case "rebuild":
		return "cjs"
	}
	return ""
}

func histBuild(dir string, p *hprog, s hstep) hout {
	supported := map[string]bool{}
	if s.Override != "none" && s.Override != "" {
		eq := strings.Index(s.Override, "=")
		supported[s.Override[:eq]] = s.Override[eq+1:] == "true"
	}
	for _, f := range p.ExtraOff {
		supported[f] = false
	}
	if s.TriggerOff {
		for _, f := range p.Trigger {
			supported[f] = false
		}
	}
	target := api.DefaultTarget
	if s.Target != "" {
		target = targetByName[s.Target]
	}
	eng := engines(s.Engines)
	ms, mi, mw := s.Minify != "off", s.Minify == "all", s.Minify == "all"
	loader := api.LoaderJS
	sourcefile := "entry.js"
	if p.Loader == "ts" {
		loader = api.LoaderTS
		sourcefile = "entry.ts"
	}
	tsconfig := ""
	if contains(p.Opts, "tsExperimentalDecorators") {
		tsconfig = `{"compilerOptions":{"experimentalDecorators":true}}`
	}
	keep := contains(p.Opts, "keepNames")
	format := formatOf(histFormat(p, s))
	if s.Api == "transform" {
		res := api.Transform(p.Src+"\n", api.TransformOptions{Loader: loader, Sourcefile: sourcefile, Target: target, Engines: eng,
			Supported: supported, Format: format, LogLevel: api.LogLevelSilent, TsconfigRaw: tsconfig, KeepNames: keep,
			MinifyWhitespace: mw, MinifySyntax: ms, MinifyIdentifiers: mi})
		return hout{Code: string(res.Code), Errors: msgs(res.Errors), Warnings: msgs(res.Warnings)}
	}
	platform := api.PlatformDefault
	if contains(p.Opts, "platformNode") {
		platform = api.PlatformNode
	}
	opts := api.BuildOptions{
		Stdin:         &api.StdinOptions{Contents: p.Src + "\n", ResolveDir: dir, Sourcefile: sourcefile, Loader: loader},
		AbsWorkingDir: dir, Bundle: true, Write: false, Outfile: filepath.Join(dir, "out", "out.js"), Target: target, Engines: eng,
		Supported: supported, Format: format, Platform: platform, LogLevel: api.LogLevelSilent, External: []string{"x"},
		Loader: map[string]api.Loader{".bin": api.LoaderBinary}, TsconfigRaw: tsconfig, KeepNames: keep,
		MinifyWhitespace: mw, MinifySyntax: ms, MinifyIdentifiers: mi}
	var res api.BuildResult
	if s.Api == "rebuild" {
		ctx, cerr := api.Context(opts)
		if cerr != nil {
			return hout{Errors: msgs(cerr.Errors)}
		}
		ctx.Rebuild()
		res = ctx.Rebuild() // the second build is served by the context's AST cache
		ctx.Dispose()
	} else {
		res = api.Build(opts)
	}
	code := ""
	for _, f := range res.OutputFiles {
		if strings.HasSuffix(f.Path, ".js") {
			code += string(f.Contents)
		}
	}
	return hout{Code: code, Errors: msgs(res.Errors), Warnings: msgs(res.Warnings)}
}

func histChild(r *core.Run, raw json.RawMessage) (interface{}, error) {
	var in hchildIn
	if err := json.Unmarshal(raw, &in); err != nil {
		return nil, err
	}
	dir := filepath.Join(r.Scratch, "w")
	if err := os.MkdirAll(dir, 0755); err != nil {
		return nil, err
	}
	for name, c := range histFiles {
		if err := os.WriteFile(filepath.Join(dir, name), []byte(c), 0644); err != nil {
			return nil, err
		}
	}
	out := hchildOut{}
	for _, s := range in.Steps {
		row := make([]hout, len(in.Progs))
		for pi := range in.Progs {
			row[pi] = histBuild(dir, &in.Progs[pi], s)
		}
		out.Outs = append(out.Outs, row)
	}
	return out, nil
}

func init() { core.RegisterChild("c14hist", histChild) }

var reExportVar = regexp.MustCompile(`(?m)^\s*export var (__[A-Za-z]+)\b`)

func sortedKeys(m map[string]bool) []string {
	out := make([]string, 0, len(m))
	for k := range m {
		out = append(out, k)
	}
	sort.Strings(out)
	return out
}

type histModel struct {
	progs   []hprog
	hists   []*hhist
	helpers *hhelpers
}

// histTLC: the TLC part (design, negative controls, generator)
func histTLC(r *core.Run) *histModel {
	genCfg, designCfg := "LoweringHist.gen.cfg", "LoweringHist.design.cfg"
	if r.Thorough() {
		genCfg, designCfg = "LoweringHist.gent.cfg", "LoweringHist.designt.cfg"
	}
	var progs []hprog
	var hists []*hhist
	var helpers *hhelpers
	var wg sync.WaitGroup
	wg.Add(3)
	go func() {
		defer wg.Done()
		tlcrun.MustHold(r, tlcrun.Options{Module: "LoweringHist", Config: designCfg, Workers: 2, TimeoutSec: 1500, HeapGB: 4})
	}()
	go func() {
		defer wg.Done()
		// negative controls: a coarser cache key must be caught by the model
		for _, nc := range []struct{ cfg, inv string }{{"LoweringHist.coarse.cfg", "HelperSyntaxWithinTarget"}, {"LoweringHist.coarse2.cfg", "HistoryIndependent"}} {
			res, err := tlcrun.Run(r, tlcrun.Options{Module: "LoweringHist", Config: nc.cfg, Workers: 1, TimeoutSec: 900, HeapGB: 2})
			if err != nil || res == nil {
				r.Infra("negative control %s: %v", nc.cfg, err)
				continue
			}
			if res.Violated != nc.inv {
				r.Infra("negative control %s: TLC should find a counterexample to %s with the coarser runtime cache key, found %q", nc.cfg, nc.inv, res.Violated)
			}
			r.Logf("TLC LoweringHist/%s (negative control): %s violated as expected, %d distinct, %.1fs", nc.cfg, res.Violated, res.Distinct, res.Wall.Seconds())
		}
	}()
	go func() {
		defer wg.Done()
		data, err := os.ReadFile(filepath.Join(r.Verif, "spec", "cfg", genCfg))
		if err != nil {
			r.Infra("%v", err)
			return
		}
		cfg := strings.Replace(string(data), "Seed = 1", fmt.Sprintf("Seed = %d", r.Seed), 1)
		tlcrun.MustHold(r, tlcrun.Options{Module: "LoweringHist", Config: genCfg, Files: map[string]string{genCfg: cfg}, Workers: 1, TimeoutSec: 1500, HeapGB: 4,
			OnCase: func(raw []byte) {
				var k struct {
					Kind string `json:"kind"`
				}
				if json.Unmarshal(raw, &k) != nil {
					return
				}
				switch k.Kind {
				case "prog":
					var p hprog
					if json.Unmarshal(raw, &p) == nil {
						progs = append(progs, p)
					}
				case "hist":
					hh := &hhist{}
					if json.Unmarshal(raw, hh) == nil {
						hists = append(hists, hh)
					}
				case "helpers":
					helpers = &hhelpers{}
					json.Unmarshal(raw, helpers)
				}
			}})
	}()
	wg.Wait()
	return &histModel{progs, hists, helpers}
}

// histReplay: every exported history inside one child process
func histReplay(r *core.Run, m *histModel, h *header, allowOf func(target, override string) *allow, detect func(items []detItem) []detResult) {
	if m == nil || len(m.progs) == 0 || len(m.hists) == 0 || m.helpers == nil {
		r.Infra("the history generator exported nothing")
		return
	}
	progs, hists, helpers := m.progs, m.hists, m.helpers
	sort.Slice(progs, func(i, j int) bool { return progs[i].Name < progs[j].Name })
	sort.Slice(hists, func(i, j int) bool { return hists[i].String() < hists[j].String() })

	// the helper list of the spec vs internal/runtime/runtime.go
	if src, err := os.ReadFile(filepath.Join(r.Repo, "internal", "runtime", "runtime.go")); err == nil {
		real := map[string]bool{}
		for _, m := range reExportVar.FindAllStringSubmatch(string(src), -1) {
			real[m[1]] = true
		}
		spec := map[string]bool{}
		for _, x := range helpers.Helpers {
			spec[x] = true
		}
		for _, x := range sortedKeys(real) {
			if !spec[x] {
				r.Drift("runtime helper %s of internal/runtime/runtime.go is not in the spec's RuntimeHelpers (no program pulls it in)", x)
			}
		}
		for _, x := range sortedKeys(spec) {
			if !real[x] {
				r.Drift("the spec's runtime helper %s is not exported by internal/runtime/runtime.go", x)
			}
		}
		r.Set("runtime_helpers", len(real))
	} else {
		r.Infra("cannot read runtime.go: %v", err)
	}

	// census histories: one fresh process per program kind, esnext with only the trigger off
	census := &hhist{Steps: []hstep{{Target: "esnext", Override: "none", Minify: "off", Api: "transform", TriggerOff: true},
		{Target: "esnext", Override: "none", Minify: "off", Api: "build", TriggerOff: true}}}
	all := append([]*hhist{census}, hists...)

	outs := make([]hchildOut, len(all))
	failed := make([]bool, len(all))
	core.Parallel(len(all), 8, func(i int) {
		res := r.Child("c14hist", hchildIn{Steps: all[i].Steps, Progs: progs}, &outs[i], 20*time.Minute, "")
		if res.Crashed || res.TimedOut || len(outs[i].Outs) != len(all[i].Steps) {
			failed[i] = true
			if res.Crashed && core.CrashInEsbuild(res.Stderr) {
				r.Violation(map[string]interface{}{"kind": "history-crash", "history": all[i].String()},
					"esbuild crashed while building the history "+all[i].String(), map[string]interface{}{"history": all[i], "stderr": res.Stderr})
			} else {
				r.Infra("history child failed (%s): crashed=%v timeout=%v\n%s", all[i].String(), res.Crashed, res.TimedOut, res.Stderr)
			}
		}
	})
	r.Logf("replayed %d histories x %d helper programs in one process each", len(hists), len(progs))

	// reference: the output of a step as the FIRST build of a process
	type rk struct{ step, prog string }
	fresh := map[rk]*hout{}
	for i := 1; i < len(all); i++ {
		if failed[i] {
			continue
		}
		for pi := range progs {
			k := rk{all[i].Steps[0].String(), progs[pi].Name}
			if _, ok := fresh[k]; !ok {
				fresh[k] = &outs[i].Outs[0][pi]
			}
		}
	}

	// detect (distinct (code, year, module))
	type dk struct {
		code string
		year int
		mod  string
	}
	detIdx := map[dk]int{}
	var items []detItem
	type ref struct{ h, s, p, item int }
	var refs []ref
	rejected := 0
	for i := range all {
		if failed[i] {
			continue
		}
		for si, s := range all[i].Steps {
			a := allowOf(s.tname(), s.Override)
			if a == nil {
				r.Infra("no allowed set for history step %s", s.String())
				continue
			}
			for pi := range progs {
				o := &outs[i].Outs[si][pi]
				if len(o.Errors) > 0 {
					rejected++
					if i == 0 && progs[pi].Bundle == (s.Api == "build") {
						r.Drift("helper census: program %s does not build for esnext with its trigger off: %v", progs[pi].Name, o.Errors)
					}
					continue
				}
				year := 0
				if a.Year >= 2015 && a.Year <= 2024 && !strings.HasSuffix(s.Override, "=true") && !s.TriggerOff {
					year = a.Year
				}
				mod := "auto"
				switch histFormat(&progs[pi], s) {
				case "esm":
					mod = "module"
				case "cjs", "iife":
					mod = "script"
				}
				k := dk{o.Code, year, mod}
				idx, ok := detIdx[k]
				if !ok {
					idx = len(items)
					detIdx[k] = idx
					items = append(items, detItem{ID: fmt.Sprint(idx), Code: o.Code, Year: year, Module: mod})
				}
				refs = append(refs, ref{i, si, pi, idx})
			}
		}
	}
	dets := detect(items)
	r.Logf("histories: parsed %d distinct outputs of %d", len(items), len(refs))

	usesOf := func(names []string) map[string]bool {
		m := map[string]bool{}
		for _, n := range names {
			for _, f := range helpers.Uses[n] {
				m[f] = true
			}
		}
		return m
	}
	var cannotParse, historyDependent, later, censusChecked int
	pulled := map[string]bool{}
	for _, rf := range refs {
		hh, s, p, o := all[rf.h], all[rf.h].Steps[rf.s], &progs[rf.p], &outs[rf.h].Outs[rf.s][rf.p]
		d := dets[rf.item]
		if d.ID == "" {
			continue
		}
		a := allowOf(s.tname(), s.Override)
		if rf.h == 0 {
			// helper census (spec data vs the real runtime library): drift only
			if p.Bundle != (s.Api == "build") {
				continue
			}
			censusChecked++
			for _, n := range p.Needs {
				if strings.Contains(o.Code, n) {
					pulled[n] = true
				} else {
					r.Drift("helper census: program %s (%s, trigger off at esnext) does not pull in %s", p.Name, s.Api, n)
				}
			}
			if d.ParsedLatest {
				want := usesOf(p.Needs)
				got := map[string]bool{}
				residual := map[string]bool{}
				for _, f := range p.Uses {
					residual[f] = true
				}
				for _, f := range d.Features {
					if !residual[f] {
						got[f] = true
					}
				}
				if strings.Join(sortedKeys(want), ",") != strings.Join(sortedKeys(got), ",") {
					r.Drift("helper census: program %s: the helper code uses %v, the spec's HelperUses say %v", p.Name, sortedKeys(got), sortedKeys(want))
				}
			}
			continue
		}
		needed := len(p.Trigger) == 0
		for _, f := range p.Trigger {
			if !a.set[f] {
				needed = true
			}
		}
		differs := false
		for k := 0; k < rf.s; k++ {
			if hh.Steps[k].tname() != s.tname() || hh.Steps[k].Override != s.Override || hh.Steps[k].Minify != s.Minify {
				differs = true
			}
		}
		id := "hist/" + hh.String() + "/" + fmt.Sprint(rf.s) + "/" + p.Name
		r.Case(id, needed && differs)
		key := func(kind, feature string) map[string]interface{} {
			return map[string]interface{}{"kind": kind, "feature": feature, "program": p.Name, "history": hh.String(), "step": rf.s}
		}
		detail := map[string]interface{}{"history": hh.Steps, "step": rf.s, "program": p, "output": o.Code, "warnings": o.Warnings,
			"allowed": a.Allowed, "found": d.Features, "parse_error": d.ParseErr}
		if f := fresh[rk{s.String(), p.Name}]; f != nil && rf.s > 0 {
			later++
			detail["fresh_output"] = f.Code
			if f.Code != o.Code || len(f.Errors) != len(o.Errors) {
				historyDependent++
				r.Drift("history-dependent output (within the target's syntax unless a VIOLATION says otherwise): program %s, step %d of %s", p.Name, rf.s, hh.String())
			}
		}
		if !d.ParsedLatest {
			if d.DecoratorLike && a.set["decorators"] {
				cannotParse++
				continue
			}
			r.Violation(key("history:output-does-not-parse", ""), fmt.Sprintf("%s: output is not valid JavaScript for the reference parser (acorn, latest): %s", id, d.LatestErr), detail)
			continue
		}
		r.AddTraces(1)
		bad := []string{}
		for _, f := range d.Features {
			if a.set[f] {
				continue
			}
			if contains(h.PassThrough, f) && len(o.Warnings) > 0 {
				continue
			}
			bad = append(bad, f)
		}
		for _, f := range bad {
			r.Violation(key("history:disallowed-feature-emitted", f),
				fmt.Sprintf("%s: the build succeeded without a diagnostic but the output contains %s, which target %s (override %s) does not have", id, f, s.tname(), s.Override), detail)
		}
		if len(bad) == 0 && !d.Parsed {
			r.Violation(key("history:output-does-not-parse-at-target", ""),
				fmt.Sprintf("%s: output does not parse as ECMAScript %d: %s", id, a.Year, d.ParseErr), detail)
		}
	}
	r.Set("histories_replayed", len(hists))
	r.Set("history_helper_programs", len(progs))
	r.Set("history_builds_rejected_with_error", rejected)
	r.Set("history_later_steps_compared_with_fresh", later)
	r.Set("history_dependent_outputs", historyDependent)
	r.Set("history_reference_cannot_parse", cannotParse)
	r.Set("helper_census_programs", censusChecked)
	r.Set("helpers_pulled_in_by_name", len(pulled))
	if len(hists) > 0 {
		mid := hists[len(hists)/2]
		r.Sample(map[string]interface{}{"history": mid.String(), "programs": len(progs), "leaky_under_a_keyless_cache": mid.Leaky})
	}
}
