// Package c14: output only uses syntax available in the configured target.
// Spec: spec/Lowering.tla part (a).  The matrix config exports every inhabited (feature,
// position) cell with its source text and, for every target / engine list x supported
// override, AllowedSyntax (so both the matrix and the allowed sets come from the spec).
// Binding (R): every cell x target x override x stage (transform/bundle x format x minify)
// goes through the real api.Transform / api.Build; an output produced without an error
// must (1) parse with acorn at ecmaVersion = the target year and (2) contain no feature node
// outside the allowed set (node/feature_detect.js), unless the feature is in the spec's
// pass-through set and a warning was reported; a feature forced on by `supported` must
// still be there.  The spec's feature->year table is compared once with the ES rows of
// internal/compat/js_table.go.
package c14

import (
	"encoding/json"
	"fmt"
	"os"
	"path/filepath"
	"regexp"
	"sort"
	"strconv"
	"strings"
	"sync"
	"time"

	"github.com/evanw/esbuild/pkg/api"

	"verifharness/core"
	"verifharness/nodex"
	"verifharness/tlcrun"
)

type stage struct {
	Name   string `json:"name"`
	Bundle bool   `json:"bundle"`
	Format string `json:"format"`
	Minify bool   `json:"minify"`
}

type header struct {
	Stages      []stage             `json:"stages"`
	PassThrough []string            `json:"passThrough"`
	Gates       map[string]string   `json:"gates"`
	Years       map[string]int      `json:"years"`
	Overridable []string            `json:"overridable"`
	Engines     map[string][]string `json:"engines"`
}

type cell struct {
	Feature  string   `json:"feature"`
	Position string   `json:"position"`
	Src      string   `json:"src"`
	Uses     []string `json:"uses"`
	Module   bool     `json:"module"`
	Tempts   string   `json:"tempts"` // minifier bait: the feature the minifier is tempted to introduce
}

type allow struct {
	Target     string   `json:"target"`
	Engines    []string `json:"engines"`
	Year       int      `json:"year"`
	Override   string   `json:"override"`
	Allowed    []string `json:"allowed"`
	Consistent bool     `json:"consistent"`
	set        map[string]bool
}

func (a *allow) name() string {
	if a.Target != "" {
		return a.Target
	}
	return strings.Join(a.Engines, "+")
}

type job struct {
	c   *cell
	a   *allow
	st  stage
	id  string
	nt  bool // non-trivial
	ovF string
	ovB bool
}

type built struct {
	j        *job
	code     string
	errors   []string
	warnings []string
}

type detItem struct {
	ID     string `json:"id"`
	Code   string `json:"code"`
	Year   int    `json:"year"`
	Module string `json:"module"`
}

type detResult struct {
	ID            string   `json:"id"`
	Parsed        bool     `json:"parsed"`
	ParseErr      string   `json:"parseErr"`
	ParsedLatest  bool     `json:"parsedLatest"`
	LatestErr     string   `json:"latestErr"`
	Features      []string `json:"features"`
	DecoratorLike bool     `json:"decoratorLike"`
}

var targetByName = map[string]api.Target{"es2015": api.ES2015, "es2016": api.ES2016, "es2017": api.ES2017, "es2018": api.ES2018,
	"es2019": api.ES2019, "es2020": api.ES2020, "es2021": api.ES2021, "es2022": api.ES2022, "es2023": api.ES2023, "es2024": api.ES2024,
	"esnext": api.ESNext}

var reEngine = regexp.MustCompile(`^([a-z]+)([0-9.]+)$`)

func engines(list []string) []api.Engine {
	var out []api.Engine
	for _, e := range list {
		m := reEngine.FindStringSubmatch(e)
		if m == nil {
			continue
		}
		name := api.EngineNode
		if m[1] == "chrome" {
			name = api.EngineChrome
		}
		out = append(out, api.Engine{Name: name, Version: m[2]})
	}
	return out
}

var memFiles = map[string]string{
	"lib.cjs":   "exports.v = 1;\nmodule.exports.w = function () { return 2; };\n",
	"lib2.js":   "export const v2 = 2;\nexport default function d2() { return 3; }\n",
	"data.json": "{\"k\": 1}\n",
}

var memPlugin = api.Plugin{Name: "mem", Setup: func(b api.PluginBuild) {
	b.OnResolve(api.OnResolveOptions{Filter: `^\./(lib\.cjs|lib2\.js|data\.json)$`}, func(a api.OnResolveArgs) (api.OnResolveResult, error) {
		return api.OnResolveResult{Path: "/mem/" + strings.TrimPrefix(a.Path, "./"), Namespace: "mem"}, nil
	})
	b.OnLoad(api.OnLoadOptions{Filter: `.*`, Namespace: "mem"}, func(a api.OnLoadArgs) (api.OnLoadResult, error) {
		name := strings.TrimPrefix(a.Path, "/mem/")
		c := memFiles[name]
		l := api.LoaderJS
		if strings.HasSuffix(name, ".json") {
			l = api.LoaderJSON
		}
		return api.OnLoadResult{Contents: &c, Loader: l}, nil
	})
}}

func formatOf(s string) api.Format {
	switch s {
	case "esm":
		return api.FormatESModule
	case "cjs":
		return api.FormatCommonJS
	case "iife":
		return api.FormatIIFE
	}
	return api.FormatDefault
}

func msgs(ms []api.Message) []string {
	out := make([]string, 0, len(ms))
	for _, m := range ms {
		out = append(out, m.Text)
	}
	return out
}

func source(c *cell, bundle bool) string {
	src := c.Src
	if !bundle {
		if c.Feature == "hashbang" {
			return src + "\nb(1);\n"
		}
		return src + "\n"
	}
	prefix := "import lib from \"./lib.cjs\";\nb(lib);\n"
	if c.Feature == "hashbang" {
		return src + "\n" + prefix
	}
	return prefix + src + "\n"
}

func build(j *job) built {
	var supported map[string]bool
	if j.ovF != "" {
		supported = map[string]bool{j.ovF: j.ovB}
	}
	target := api.DefaultTarget
	if j.a.Target != "" {
		target = targetByName[j.a.Target]
	}
	eng := engines(j.a.Engines)
	src := source(j.c, j.st.Bundle)
	if !j.st.Bundle {
		res := api.Transform(src, api.TransformOptions{Loader: api.LoaderJS, Sourcefile: "cell.js", Target: target, Engines: eng,
			Supported: supported, Format: formatOf(j.st.Format), LogLevel: api.LogLevelSilent,
			MinifyWhitespace: j.st.Minify, MinifySyntax: j.st.Minify, MinifyIdentifiers: j.st.Minify})
		return built{j: j, code: string(res.Code), errors: msgs(res.Errors), warnings: msgs(res.Warnings)}
	}
	res := api.Build(api.BuildOptions{
		Stdin:  &api.StdinOptions{Contents: src, ResolveDir: "/", Sourcefile: "entry.js", Loader: api.LoaderJS},
		Bundle: true, Write: false, Outfile: "/out/out.js", Target: target, Engines: eng, Supported: supported, Format: formatOf(j.st.Format),
		LogLevel: api.LogLevelSilent, Plugins: []api.Plugin{memPlugin}, External: []string{"x"},
		MinifyWhitespace: j.st.Minify, MinifySyntax: j.st.Minify, MinifyIdentifiers: j.st.Minify})
	code := ""
	for _, f := range res.OutputFiles {
		if strings.HasSuffix(f.Path, ".js") {
			code += string(f.Contents)
		}
	}
	return built{j: j, code: code, errors: msgs(res.Errors), warnings: msgs(res.Warnings)}
}

// ---- the ES rows of internal/compat/js_table.go

var reFeatKey = regexp.MustCompile(`^\s*"([a-z0-9-]+)":\s+([A-Za-z0-9]+),`)
var reRowStart = regexp.MustCompile(`^\t([A-Z][A-Za-z0-9]*): \{$`)
var reEngineRow = regexp.MustCompile(`^\t\t([A-Za-z]+):\s+\{(.*)\},$`)
var reVer = regexp.MustCompile(`start: v\{(\d+), (\d+), (\d+)\}(?:, end: v\{(\d+), (\d+), (\d+)\})?`)

type verRange struct {
	s, e   [3]int
	hasEnd bool
}

func parseTable(repo string) (keyOf map[string]string, rows map[string]map[string][]verRange, err error) {
	b, err := os.ReadFile(filepath.Join(repo, "internal", "compat", "js_table.go"))
	if err != nil {
		return nil, nil, err
	}
	keyOf = map[string]string{}
	rows = map[string]map[string][]verRange{}
	inTable := false
	cur := ""
	for _, line := range strings.Split(string(b), "\n") {
		if m := reFeatKey.FindStringSubmatch(line); m != nil && !inTable {
			keyOf[m[2]] = m[1]
		}
		if strings.HasPrefix(line, "var jsTable") {
			inTable = true
			continue
		}
		if !inTable {
			continue
		}
		if line == "}" {
			break
		}
		if m := reRowStart.FindStringSubmatch(line); m != nil {
			cur = m[1]
			rows[cur] = map[string][]verRange{}
			continue
		}
		if m := reEngineRow.FindStringSubmatch(line); m != nil && cur != "" {
			var rs []verRange
			for _, v := range reVer.FindAllStringSubmatch(m[2], -1) {
				var r verRange
				for i := 0; i < 3; i++ {
					r.s[i], _ = strconv.Atoi(v[1+i])
				}
				if v[4] != "" {
					r.hasEnd = true
					for i := 0; i < 3; i++ {
						r.e[i], _ = strconv.Atoi(v[4+i])
					}
				}
				rs = append(rs, r)
			}
			rows[cur][m[1]] = rs
		}
	}
	return keyOf, rows, nil
}

func cmpVer(a, b [3]int) int {
	for i := 0; i < 3; i++ {
		if a[i] != b[i] {
			if a[i] < b[i] {
				return -1
			}
			return 1
		}
	}
	return 0
}

func supports(rs []verRange, v [3]int) bool {
	for _, r := range rs {
		if cmpVer(v, r.s) >= 0 && (!r.hasEnd || cmpVer(v, r.e) < 0) {
			return true
		}
	}
	return false
}

func compareTable(r *core.Run, h *header) {
	keyOf, rows, err := parseTable(r.Repo)
	if err != nil || len(rows) == 0 {
		r.Infra("cannot parse internal/compat/js_table.go: %v", err)
		return
	}
	goName := map[string]string{}
	for g, k := range keyOf {
		goName[k] = g
	}
	mism, engMism, unmodelled := []string{}, []string{}, []string{}
	compared := 0
	for f, year := range h.Years {
		g, ok := goName[f]
		if !ok {
			if f != "numeric-separators" {
				mism = append(mism, fmt.Sprintf("%s: no such feature in esbuild's table", f))
			}
			continue
		}
		es := rows[g]["ES"]
		compared++
		switch {
		case len(es) == 0 && year <= 2024:
			mism = append(mism, fmt.Sprintf("%s: TC39 ES%d, esbuild: no ES version", f, year))
		case len(es) == 0 && year == 2025:
			mism = append(mism, fmt.Sprintf("%s: TC39 ES2025, esbuild: no ES version (more conservative)", f))
		case len(es) > 0 && es[0].s[0] != year:
			mism = append(mism, fmt.Sprintf("%s: TC39 ES%d, esbuild ES%d", f, year, es[0].s[0]))
		}
		// engine rows: esbuild must not claim support where the spec's engine table has none
		for e, feats := range h.Engines {
			m := reEngine.FindStringSubmatch(e)
			if m == nil {
				continue
			}
			row := "Node"
			if m[1] == "chrome" {
				row = "Chrome"
			}
			var v [3]int
			for i, p := range strings.Split(m[2], ".") {
				if i < 3 {
					v[i], _ = strconv.Atoi(p)
				}
			}
			in := false
			for _, x := range feats {
				if x == f {
					in = true
				}
			}
			if supports(rows[g][row], v) && !in {
				engMism = append(engMism, fmt.Sprintf("%s: esbuild says %s supports it, the spec's engine table does not", f, e))
			}
		}
	}
	for g, k := range keyOf {
		if _, ok := h.Years[k]; !ok {
			es := rows[g]["ES"]
			y := "none"
			if len(es) > 0 {
				y = strconv.Itoa(es[0].s[0])
			}
			unmodelled = append(unmodelled, k+"(ES "+y+")")
		}
	}
	sort.Strings(mism)
	sort.Strings(engMism)
	sort.Strings(unmodelled)
	r.Set("table_features_compared", compared)
	r.Set("table_mismatches", mism)
	r.Set("engine_table_mismatches", engMism)
	r.Set("table_features_not_modelled", unmodelled)
	for _, m := range mism {
		r.Drift("feature->year table: %s", m)
	}
	for _, m := range engMism {
		r.Drift("engine table: %s", m)
	}
}

func contains(xs []string, x string) bool {
	for _, y := range xs {
		if y == x {
			return true
		}
	}
	return false
}

// detectAll runs node/feature_detect.js over the items (in chunks, 8 node processes side by side)
func detectAll(r *core.Run, items []detItem) []detResult {
	dets := make([]detResult, len(items))
	const chunk = 1500
	nChunks := (len(items) + chunk - 1) / chunk
	var dmu sync.Mutex
	core.Parallel(nChunks, 8, func(ci int) {
		lo, hi := ci*chunk, (ci+1)*chunk
		if hi > len(items) {
			hi = len(items)
		}
		var out struct {
			Results []detResult `json:"results"`
		}
		if err := nodex.Run(r, "feature_detect.js", map[string]interface{}{"items": items[lo:hi]}, &out, 15*time.Minute, "", "--expose-internals"); err != nil {
			r.Infra("feature detector failed on items %d..%d: %v", lo, hi, err)
			return
		}
		dmu.Lock()
		for _, d := range out.Results {
			if n, err := strconv.Atoi(d.ID); err == nil && n >= 0 && n < len(dets) {
				dets[n] = d
			}
		}
		dmu.Unlock()
	})
	return dets
}

func Run(r *core.Run) {
	r.Assume("reference grammar = acorn 8.16 (embedded in Node 20) at ecmaVersion = target year; acorn cannot parse decorators/auto-accessors/import defer: those outputs are counted as reference_cannot_parse and not judged")
	r.Assume("engine targets are judged against a hand-transcribed upper bound of what the engine version parses (spec EngineSyntax), not against esbuild's own table")
	r.Assume("histories: one build per step through a fresh api.Transform/api.Build/api.Context; the process-global caches are those read off the code (bundler.globalRuntimeCache, config.processedGlobals); a later build's output that differs from the fresh-process output but stays within the target's syntax is drift, not a C14 verdict")
	// the TLC runs that nothing below waits for go on beside the matrix (8 TLC workers in all)
	var bg sync.WaitGroup
	bg.Add(2)
	defer bg.Wait()
	go func() {
		defer bg.Done()
		tlcrun.MustHold(r, tlcrun.Options{Module: "Lowering", Config: "Lowering.design.cfg", Workers: 2, TimeoutSec: 1500, HeapGB: 4})
	}()
	var hm *histModel
	hmDone := make(chan struct{})
	go func() {
		defer bg.Done()
		defer close(hmDone)
		hm = histTLC(r)
	}()
	var h *header
	var cells []*cell
	var allows []*allow
	res := tlcrun.MustHold(r, tlcrun.Options{Module: "Lowering", Config: "Lowering.matrix.cfg", Workers: 2, TimeoutSec: 1500, HeapGB: 4, OnCase: func(raw []byte) {
		var k struct {
			Kind string `json:"kind"`
		}
		if json.Unmarshal(raw, &k) != nil {
			return
		}
		switch k.Kind {
		case "header":
			h = &header{}
			json.Unmarshal(raw, h)
		case "cell":
			c := &cell{}
			if json.Unmarshal(raw, c) == nil {
				cells = append(cells, c)
			}
		case "allow":
			a := &allow{}
			if json.Unmarshal(raw, a) == nil {
				a.set = map[string]bool{}
				for _, f := range a.Allowed {
					a.set[f] = true
				}
				allows = append(allows, a)
			}
		}
	}})
	if res == nil || h == nil || len(cells) == 0 || len(allows) == 0 {
		r.Infra("the matrix generator exported nothing")
		return
	}
	sort.Slice(cells, func(i, j int) bool {
		if cells[i].Feature != cells[j].Feature {
			return cells[i].Feature < cells[j].Feature
		}
		return cells[i].Position < cells[j].Position
	})
	r.Set("cells_enumerated", len(cells))
	r.Set("allowed_sets_enumerated", len(allows))
	compareTable(r, h)

	// index the allowed sets
	type tk struct{ target, override string }
	allowOf := map[tk]*allow{}
	var targetNames []string
	seenT := map[string]bool{}
	for _, a := range allows {
		allowOf[tk{a.name(), a.Override}] = a
		if !seenT[a.name()] {
			seenT[a.name()] = true
			targetNames = append(targetNames, a.name())
		}
	}
	sort.Strings(targetNames)
	var esTargets, engTargets []string
	for _, t := range targetNames {
		if strings.HasPrefix(t, "es") {
			esTargets = append(esTargets, t)
		} else {
			engTargets = append(engTargets, t)
		}
	}

	// the jobs: cell x target x override (none, each used feature on/off) x stage
	var jobs []*job
	inconsistent := 0
	for _, c := range cells {
		// quick: the targets around the feature's year, the extremes and one engine list; 3 stages
		ts := targetNames
		stages := h.Stages
		if !r.Thorough() {
			y := h.Years[c.Feature]
			if c.Tempts != "" {
				y = h.Years[c.Tempts]
			}
			pick := map[string]bool{"es2015": true, "esnext": true}
			if y <= 2024 {
				pick["es"+strconv.Itoa(y)] = true
				pick["es"+strconv.Itoa(y-1)] = true
			} else {
				pick["es2024"] = true
			}
			pick[esTargets[r.Rand.Intn(len(esTargets))]] = true
			pick[engTargets[r.Rand.Intn(len(engTargets))]] = true
			ts = nil
			for _, t := range targetNames {
				if pick[t] {
					ts = append(ts, t)
				}
			}
			stages = []stage{h.Stages[r.Rand.Intn(2)], h.Stages[2+r.Rand.Intn(3)], h.Stages[5+r.Rand.Intn(len(h.Stages)-5)]}
		}
		if c.Tempts != "" { // minifier bait: only the minifying stages matter
			stages = nil
			for _, st := range h.Stages {
				if st.Minify {
					stages = append(stages, st)
				}
			}
		}
		ovs := []string{"none"}
		relevant := c.Uses
		if c.Tempts != "" {
			relevant = append(append([]string{}, c.Uses...), c.Tempts)
		}
		for _, u := range relevant {
			if contains(h.Overridable, u) {
				ovs = append(ovs, u+"=true", u+"=false")
			}
		}
		for _, t := range ts {
			base := allowOf[tk{t, "none"}]
			for _, ov := range ovs {
				a := allowOf[tk{t, ov}]
				if a == nil || base == nil {
					r.Infra("no allowed set for target %s override %s", t, ov)
					continue
				}
				if !a.Consistent {
					inconsistent++ // contradictory configuration (spec: Consistent): not part of the matrix
					continue
				}
				nt := false
				for _, u := range relevant {
					if !a.set[u] {
						nt = true
					}
				}
				for _, st := range stages {
					j := &job{c: c, a: a, st: st, nt: nt, id: c.Feature + "/" + c.Position + "/" + t + "/" + ov + "/" + st.Name}
					if ov != "none" {
						eq := strings.Index(ov, "=")
						j.ovF, j.ovB = ov[:eq], ov[eq+1:] == "true"
					}
					jobs = append(jobs, j)
				}
			}
		}
	}
	if os.Getenv("C14_HIST_ONLY") != "" { // developer switch: only the history dimension (never in the registered commands)
		jobs = nil
		r.Assume("DEVELOPER RUN: C14_HIST_ONLY set, the matrix was not replayed")
	}
	r.Set("matrix_cells", len(jobs))
	r.Set("contradictory_configurations_skipped", inconsistent)
	r.Logf("%d cells, %d allowed sets, %d matrix cells to build", len(cells), len(allows), len(jobs))

	// build
	outs := make([]built, len(jobs))
	core.Parallel(len(jobs), 8, func(i int) { outs[i] = build(jobs[i]) })
	r.Logf("built")

	// detect (distinct (code, year, module) only)
	type dk struct {
		code string
		year int
		mod  string
	}
	detIdx := map[dk]int{}
	var items []detItem
	itemOf := make([]int, len(outs))
	rejected := 0
	for i, o := range outs {
		itemOf[i] = -1
		if len(o.errors) > 0 {
			rejected++
			continue
		}
		year := 0
		// the year grammar applies when no override switches something on
		if o.j.a.Year >= 2015 && o.j.a.Year <= 2024 && !(o.j.ovF != "" && o.j.ovB) {
			year = o.j.a.Year
		}
		mod := "auto"
		switch o.j.st.Format {
		case "esm":
			mod = "module"
		case "cjs", "iife":
			mod = "script"
		}
		k := dk{o.code, year, mod}
		idx, ok := detIdx[k]
		if !ok {
			idx = len(items)
			detIdx[k] = idx
			items = append(items, detItem{ID: strconv.Itoa(idx), Code: o.code, Year: year, Module: mod})
		}
		itemOf[i] = idx
	}
	r.Set("builds_rejected_with_error", rejected)
	r.Set("distinct_outputs_parsed", len(items))
	dets := detectAll(r, items)
	r.Logf("parsed %d distinct outputs", len(items))

	// what the same cell and stage contains when nothing has to be lowered (target esnext, no
	// override): a feature that is absent there was removed by something else (e.g. folding)
	type bk struct{ cell, stage string }
	baseline := map[bk]map[string]bool{}
	for i, o := range outs {
		if o.j.a.Target == "esnext" && o.j.a.Override == "none" && itemOf[i] >= 0 {
			m := map[string]bool{}
			for _, f := range dets[itemOf[i]].Features {
				m[f] = true
			}
			baseline[bk{o.j.c.Feature + "/" + o.j.c.Position, o.j.st.Name}] = m
		}
	}

	// judge
	var cannotParse, passedThrough, warnedPass int
	perFeature := map[string]int{}
	for i, o := range outs {
		j := o.j
		r.Case(j.id, j.nt)
		if j.nt {
			perFeature[j.c.Feature]++
		}
		if itemOf[i] < 0 {
			continue
		}
		d := dets[itemOf[i]]
		if d.ID == "" {
			continue // detector failed for this chunk (reported as infra)
		}
		key := func(kind, feature string) map[string]interface{} {
			return map[string]interface{}{"kind": kind, "feature": feature, "cell": j.c.Feature + "/" + j.c.Position, "target": j.a.name(),
				"override": j.a.Override, "stage": j.st.Name}
		}
		detail := map[string]interface{}{"source": source(j.c, j.st.Bundle), "output": o.code, "warnings": o.warnings, "allowed": j.a.Allowed,
			"found": d.Features, "parse_error": d.ParseErr}
		if !d.ParsedLatest {
			if d.DecoratorLike && j.a.set["decorators"] {
				cannotParse++
				continue
			}
			r.Violation(key("output-does-not-parse", ""), fmt.Sprintf("%s: output is not valid JavaScript for the reference parser (acorn, latest): %s", j.id, d.LatestErr), detail)
			continue
		}
		r.AddTraces(1)
		bad := []string{}
		for _, f := range d.Features {
			if j.a.set[f] {
				continue
			}
			if contains(h.PassThrough, f) && len(o.warnings) > 0 {
				warnedPass++
				continue
			}
			bad = append(bad, f)
		}
		for _, f := range bad {
			r.Violation(key("disallowed-feature-emitted", f),
				fmt.Sprintf("%s: the build succeeded without a diagnostic but the output contains %s, which target %s (override %s) does not have", j.id, f, j.a.name(), j.a.Override), detail)
		}
		if len(bad) == 0 && !d.Parsed {
			r.Violation(key("output-does-not-parse-at-target", ""),
				fmt.Sprintf("%s: output does not parse as ECMAScript %d: %s", j.id, j.a.Year, d.ParseErr), detail)
		}
		// a feature forced on must be passed through (checked where no other stage consumes it)
		// (ES-year targets only: for engine lists the spec only has an upper bound of the engine's syntax)
		if base := baseline[bk{j.c.Feature + "/" + j.c.Position, j.st.Name}]; j.ovF == j.c.Feature && j.ovB && j.a.Target != "" && base[j.ovF] &&
			!j.st.Bundle && (j.st.Format == "" || j.st.Format == "esm") {
			othersOK := true
			for _, u := range j.c.Uses {
				if u != j.ovF && !j.a.set[u] {
					othersOK = false
				}
			}
			if othersOK {
				passedThrough++
				if !contains(d.Features, j.ovF) {
					r.Violation(key("forced-on-feature-not-passed-through", j.ovF),
						fmt.Sprintf("%s: supported:{%s:true} but the output no longer contains the feature", j.id, j.ovF), detail)
				}
			}
		}
		if i%(len(outs)/6+1) == 0 {
			r.Sample(map[string]interface{}{"cell": j.id, "source": source(j.c, j.st.Bundle), "allowed_n": len(j.a.Allowed), "found": d.Features,
				"parsed_at_year": d.Parsed, "year": j.a.Year, "output_bytes": len(o.code)})
		}
	}
	// the history dimension (spec/LoweringHist.tla)
	<-hmDone
	histReplay(r, hm, h, func(target, override string) *allow { return allowOf[tk{target, override}] }, func(items []detItem) []detResult { return detectAll(r, items) })
	r.Set("reference_cannot_parse", cannotParse)
	r.Set("forced_on_checked", passedThrough)
	r.Set("pass_through_with_warning", warnedPass)
	r.Set("nontrivial_by_feature", perFeature)
	r.Set("rule", "case = one matrix cell: (feature, position) cell of spec/Lowering.tla x target year or engine list x supported override (none / each used feature on / off) x stage (transform|bundle x format x minify); quick samples targets (es2015, the feature's year and the year before, esnext, one random year, one engine list) and 3 stages per cell, thorough takes all; non-trivial = the input uses a feature that is not in AllowedSyntax(target, override) (minifier-bait cells: the feature the minifier is tempted to introduce is not allowed); plus one case per (history of spec/LoweringHist.tla, step, helper program): non-trivial = the step is not the first of its process, an earlier step has another target/override/minify mode and the step's configuration needs the program's helpers")
}

func init() { core.Register("C14", Run) }
