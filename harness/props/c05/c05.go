// Package c05: syntax lowering preserves behaviour for every target.
// Spec: spec/Lowering.tla part (b) (probe-trace semantics of the lowerable constructs) and
// spec/LoweringProgs.tla (TLC enumerates construct x position (x nesting) programs, checks
// once-only evaluation and locality of the rules and exports every program with the trace
// it predicts per environment).  Binding (R): every program is transformed by the real
// api.Transform for every target / supported override / minify setting; the original and
// every distinct output run in Node 20 (node/run_probes.js) under every environment and the
// observations (probe and trap trace, this-identities, completion or error class) must be
// equal.  The spec's prediction is the third witness: where it disagrees with native V8 on
// the ORIGINAL program the case is SPEC-DRIFT (excluded), never a violation.
package c05

import (
	"encoding/json"
	"fmt"
	"os"
	"path/filepath"
	"sort"
	"strings"
	"sync"
	"time"

	"github.com/evanw/esbuild/pkg/api"

	"verifharness/core"
	"verifharness/nodex"
	"verifharness/tlcrun"
)

type obs struct {
	T []string `json:"t"`
	C string   `json:"c"`
}

type program struct {
	Name   string     `json:"name"`
	Src    string     `json:"src"`
	Async  bool       `json:"async"`
	Pair   bool       `json:"pair"`
	Probes []int      `json:"probes"`
	Envs   [][]string `json:"envs"`
	Exp    []obs      `json:"exp"`
}

type variant struct {
	Key string `json:"key"`
	Src string `json:"src"`
	all []string
}

type nodeProgram struct {
	ID       string     `json:"id"`
	Src      string     `json:"src"`
	Variants []variant  `json:"variants"`
	Probes   []int      `json:"probes"`
	Envs     [][]string `json:"envs"`
	Exp      []obs      `json:"exp"`
}

type mismatch struct {
	Variant              string   `json:"variant"`
	Env                  []string `json:"env"`
	Native               *obs     `json:"native,omitempty"`
	Lowered              *obs     `json:"lowered,omitempty"`
	Spec                 *obs     `json:"spec,omitempty"`
	SpecAgreesWithNative *bool    `json:"specAgreesWithNative,omitempty"`
}

type nodeResult struct {
	ID                string     `json:"id"`
	Fatal             string     `json:"fatal"`
	NativeOK          bool       `json:"nativeOK"`
	NativeErr         string     `json:"nativeErr"`
	Runs              int64      `json:"runs"`
	Envs              int        `json:"envs"`
	Mismatches        []mismatch `json:"mismatches"`
	NMismatch         int        `json:"nMismatch"`
	SpecMismatches    []mismatch `json:"specMismatches"`
	NSpecMismatch     int        `json:"nSpecMismatch"`
	SpecOnly          []mismatch `json:"specOnly"`
	NSpecOnly         int        `json:"nSpecOnly"`
	NSpecCompared     int64      `json:"nSpecCompared"`
	NSpecOnlyCompared int64      `json:"nSpecOnlyCompared"`
	Unpredicted       int64      `json:"unpredicted"`
	VariantErrors     []struct {
		Variant string `json:"variant"`
		Err     string `json:"err"`
	} `json:"variantErrors"`
	Sample json.RawMessage `json:"sample"`
}

type targetSpec struct {
	name string
	t    api.Target
}

var targets = []targetSpec{
	{"es2015", api.ES2015}, {"es2016", api.ES2016}, {"es2017", api.ES2017}, {"es2018", api.ES2018}, {"es2019", api.ES2019},
	{"es2020", api.ES2020}, {"es2021", api.ES2021}, {"es2022", api.ES2022}, {"esnext", api.ESNext},
}

// single-feature overrides: switched off at esnext (only this feature is lowered, next to
// everything else native) and switched on at es2015 (everything else lowered around it)
var lowerOne = []string{"optional-chain", "nullish-coalescing", "logical-assignment", "exponent-operator", "object-rest-spread",
	"class-field", "class-static-field", "class-private-field", "class-private-static-field", "class-private-method",
	"class-private-accessor", "class-private-brand-check", "class-static-blocks", "async-await", "async-generator", "for-await",
	"template-literal", "optional-catch-binding", "using"}
var keepOne = []string{"optional-chain", "nullish-coalescing", "logical-assignment", "class-field", "class-static-blocks",
	"async-await", "object-rest-spread", "exponent-operator"}

type config struct {
	key       string
	target    api.Target
	supported map[string]bool
	minify    bool
}

func configs(thorough bool) []config {
	var out []config
	for _, m := range []bool{false, true} {
		suffix := ""
		if m {
			suffix = "|minify"
		}
		for _, t := range targets {
			out = append(out, config{key: t.name + suffix, target: t.t, minify: m})
		}
		for _, f := range lowerOne {
			out = append(out, config{key: "esnext+" + f + "=false" + suffix, target: api.ESNext, supported: map[string]bool{f: false}, minify: m})
		}
		for _, f := range keepOne {
			out = append(out, config{key: "es2015+" + f + "=true" + suffix, target: api.ES2015, supported: map[string]bool{f: true}, minify: m})
		}
	}
	return out
}

func transform(src string, c config) (string, bool) {
	res := api.Transform(src, api.TransformOptions{
		Loader: api.LoaderJS, Sourcefile: "program.js", Target: c.target, Supported: c.supported, LogLevel: api.LogLevelSilent,
		MinifyWhitespace: c.minify, MinifySyntax: c.minify, MinifyIdentifiers: c.minify,
	})
	if len(res.Errors) > 0 {
		return "", false
	}
	return string(res.Code), true
}

func readCfg(r *core.Run, name string) string {
	b, err := os.ReadFile(filepath.Join(r.Verif, "spec", "cfg", name))
	if err != nil {
		r.Infra("cannot read %s: %v", name, err)
		return ""
	}
	return string(b)
}

// generate runs the program generator in parallel shards and returns the exported programs
func generate(r *core.Run, base string, shards int, workers int, stride int, offset int64) []program {
	tmpl := readCfg(r, base)
	if tmpl == "" {
		return nil
	}
	var mu sync.Mutex
	var progs []program
	core.Parallel(shards, shards, func(i int) {
		cfg := strings.Replace(tmpl, "Shard = 0", fmt.Sprintf("Shard = %d", i), 1)
		cfg = strings.Replace(cfg, "Shards = 1", fmt.Sprintf("Shards = %d", shards), 1)
		cfg = strings.Replace(cfg, "\n  Stride = 1", fmt.Sprintf("\n  Stride = %d", stride), 1)
		// the offset rotates both samples (pairs: every Stride-th; singles: every SStride-th position per construct)
		cfg = strings.Replace(cfg, "Offset = 0", fmt.Sprintf("Offset = %d", ((offset%1000)+1000)%1000), 1)
		name := fmt.Sprintf("LoweringProgs.shard%d.cfg", i)
		res := tlcrun.MustHold(r, tlcrun.Options{Module: "LoweringProgs", Config: name, Workers: workers, TimeoutSec: 1500, HeapGB: 4,
			Files: map[string]string{name: cfg},
			OnCase: func(raw []byte) {
				var p program
				if err := json.Unmarshal(raw, &p); err == nil && p.Src != "" {
					mu.Lock()
					progs = append(progs, p)
					mu.Unlock()
				}
			}})
		if res != nil && res.Violated != "" {
			r.Infra("the semantic rules violate %s on an enumerated program (spec error)", res.Violated)
		}
	})
	sort.Slice(progs, func(i, j int) bool { return progs[i].Name < progs[j].Name })
	return progs
}

// constructs of a program name: position/outer[/slot/inner]
func constructsOf(name string) []string {
	parts := strings.Split(name, "/")
	var out []string
	if len(parts) >= 2 {
		out = append(out, parts[1])
	}
	if len(parts) >= 4 {
		out = append(out, parts[3])
	}
	return out
}

// constructs for which a genuine defect of the unchanged tree is listed in known_findings.jsonl;
// the key of a violation names the one involved so that the listed entry matches nothing else
var knownConstructs = []string{"oc_parencall"}

func knownConstruct(name string) string {
	for _, c := range constructsOf(name) {
		for _, k := range knownConstructs {
			if c == k {
				return k
			}
		}
	}
	return ""
}

// diffClass classifies how the lowered observation differs from the native one
func diffClass(n, l *obs) string {
	if n == nil || l == nil {
		return "other"
	}
	if n.C == l.C && strings.HasPrefix(n.C, "throw:") && len(l.T) < len(n.T) {
		for i := range l.T {
			if l.T[i] != n.T[i] {
				return "other"
			}
		}
		return "lowered-trace-is-prefix-same-throw"
	}
	if n.C != l.C && l.C == "throw:TypeError" && strings.HasPrefix(n.C, "throw:") && len(l.T) < len(n.T) && sameTrace(l.T, n.T[:len(l.T)]) {
		return "lowered-throws-typeerror-before-native-throw"
	}
	if n.C != l.C && len(n.T) == len(l.T) {
		same := true
		for i := range l.T {
			if l.T[i] != n.T[i] {
				same = false
			}
		}
		if same {
			return "completion-differs"
		}
	}
	return "other"
}

// signature names the one further defect listed in known_findings.jsonl: a static field
// initialiser / static block that is lowered out of the class body runs in sloppy mode in a
// script, so an assignment to a property of a primitive (TypeError in the strict class body)
// silently succeeds and evaluation continues.  ref = native (or, spec_only, spec) observation.
func signature(name, pos string, env []string, ref, l *obs) string {
	if s := objSignature(name, env, ref, l); s != "" {
		return s
	}
	// `(a?.b)(c)` inside a parameter default value: the temporary that holds the receiver is
	// declared as the parameter of an arrow wrapped around the chain only, the `.call(_a, ...)`
	// outside of it reads an undeclared variable (reproduced by hand, see known_findings.jsonl)
	if ref != nil && l != nil && knownConstruct(name) == "oc_parencall" && (pos == "dflt" || pos == "ddflt") &&
		l.C == "throw:ReferenceError" && ref.C != l.C && len(l.T) <= len(ref.T) && sameTrace(l.T, ref.T[:len(l.T)]) {
		return "parenthesised-optional-chain-callee-temporary-out-of-scope-in-parameter-default"
	}
	if ref == nil || l == nil || ref.C != "throw:TypeError" || !strings.HasPrefix(l.C, "ret:") || len(l.T) < len(ref.T) {
		return ""
	}
	for i := range ref.T {
		if ref.T[i] != l.T[i] {
			return ""
		}
	}
	static := pos == "sfield" || pos == "sblock"
	for _, c := range constructsOf(name) {
		if c == "d_sblockset" {
			static = true
		}
	}
	for _, c := range constructsOf(name) {
		if strings.HasPrefix(c, "class_") && (strings.Contains(c, "c_sfield") || strings.Contains(c, "c_csfield") || strings.Contains(c, "c_sblock") || strings.Contains(c, "c_spfield")) {
			static = true
		}
	}
	if static {
		return "strict-mode-lost-in-lowered-static-initialiser"
	}
	return ""
}

func hasEnv(env []string, cl string) bool {
	for _, e := range env {
		if e == cl {
			return true
		}
	}
	return false
}

func sameTrace(a, b []string) bool {
	if len(a) != len(b) {
		return false
	}
	for i := range a {
		if a[i] != b[i] {
			return false
		}
	}
	return true
}

func withoutTraps(t []string) []string {
	var out []string
	for _, e := range t {
		if strings.HasPrefix(e, "ownKeys:") || strings.HasPrefix(e, "gopd:") || strings.HasPrefix(e, "getProto:") || strings.HasPrefix(e, "has:") {
			continue
		}
		out = append(out, e)
	}
	return out
}

// objSignature names the genuine defects of the unchanged tree that the object-model families
// found (each reproduced by hand, see known_findings.jsonl / design.d/C05.md).  A signature is
// the exact shape of the difference, so that any other difference in the same program stays a
// violation.
func objSignature(name string, env []string, ref, l *obs) string {
	if ref == nil || l == nil {
		return ""
	}
	cs := constructsOf(name)
	if len(cs) != 1 {
		return ""
	}
	c := cs[0]
	isPrefix := len(l.T) >= len(ref.T) && sameTrace(ref.T, l.T[:len(ref.T)])
	all := strings.Join(l.T, " ") + " " + l.C
	const ownProto, reparented = "<Object|__proto__=own:EWC:mark:m>", "<mark:m|>"
	switch {
	case strings.HasPrefix(c, "d_") && c != "d_ctorset" && c != "d_sblockset" && c != "d_superset" && c != "d_superget" &&
		hasEnv(env, "BF") && ref.C == "throw:TypeError" && isPrefix && strings.Contains(all, "[str:<other|>,str:undef]"):
		return "field-definition-on-non-extensible-object-silently-ignored"
	case strings.HasPrefix(c, "s_") && hasEnv(env, "PX") && ref.C == l.C && !sameTrace(ref.T, l.T) && sameTrace(withoutTraps(ref.T), withoutTraps(l.T)):
		return "proxy-trap-sequence-of-lowered-copy"
	case strings.HasPrefix(c, "s_rest") && hasEnv(env, "OP") && len(ref.T) == len(l.T) &&
		strings.Contains(strings.Join(ref.T, " ")+" "+ref.C, ownProto) &&
		all == strings.Replace(strings.Join(ref.T, " ")+" "+ref.C, ownProto, reparented, -1):
		return "object-rest-assigns-own-__proto__-key"
	case c == "d_superset" && ref.C == "throw:TypeError" && !strings.HasPrefix(l.C, "throw:TypeError") && isPrefix && len(l.T) > len(ref.T)-1 &&
		(hasEnv(env, "BG") || hasEnv(env, "BR") || hasEnv(env, "BF")):
		return "failed-super-assignment-ignored-in-lowered-async-method"
	}
	return ""
}

func family(name string) string {
	parts := strings.Split(name, "/")
	if len(parts) >= 2 {
		return parts[1]
	}
	return name
}

// families for which Node 20 has no native implementation: the spec is the only oracle
func specOnlyFamily(name string) bool {
	for _, f := range constructsOf(name) {
		if strings.HasPrefix(f, "u_") || strings.HasPrefix(f, "dec_") {
			return true
		}
	}
	return false
}

// spec_only families whose rules were checked by hand against the proposal text (explicit
// resource management: DisposeResources / AddDisposableResource / SuppressedError chaining)
func handVerified(name string) bool {
	for _, f := range constructsOf(name) {
		if strings.HasPrefix(f, "dec_") {
			return false
		}
	}
	return specOnlyFamily(name)
}

func Run(r *core.Run) {
	r.Assume("observations = ordered trace of probe evaluations, property get/set/delete/has traps on probe objects, calls with this-identity and Object.is-precise arguments, plus completion value or error class; error messages and function names are not compared")
	r.Assume("microtask turn counts are not observed: every program has a single chain of awaits next to synchronous code")
	r.Assume("Node 20 (V8 11.3) is the native engine for everything up to ES2023; using/decorators have no native run (spec_only)")

	var wg sync.WaitGroup
	wg.Add(1)
	go func() {
		defer wg.Done()
		tlcrun.MustHold(r, tlcrun.Options{Module: "Lowering", Config: "Lowering.design.cfg", Workers: 2, TimeoutSec: 900, HeapGB: 4})
	}()

	var progs []program
	if r.Thorough() {
		progs = generate(r, "LoweringProgs.thorough.cfg", 8, 2, 3, r.Seed)
	} else {
		progs = generate(r, "LoweringProgs.quick.cfg", 6, 1, 1, r.Seed)
	}
	wg.Wait()
	if len(progs) == 0 {
		r.Infra("the generator exported no programs")
		return
	}
	r.Set("programs_exported", len(progs))
	r.Logf("%d programs exported by TLC", len(progs))

	cfgs := configs(r.Thorough())
	// transform
	nps := make([]nodeProgram, len(progs))
	lowered := make([]bool, len(progs))
	var nTransforms, nErrors, nDistinct int64
	var cmu sync.Mutex
	core.Parallel(len(progs), 8, func(i int) {
		p := progs[i]
		np := nodeProgram{ID: p.Name, Src: p.Src, Probes: p.Probes, Envs: p.Envs, Exp: p.Exp, Variants: []variant{}}
		seen := map[string]int{}
		var tr, er int64
		base := map[bool]string{}
		for _, m := range []bool{false, true} {
			if out, ok := transform(p.Src, config{target: api.ESNext, minify: m}); ok {
				base[m] = out
			}
		}
		low := false
		for _, c := range cfgs {
			out, ok := transform(p.Src, c)
			tr++
			if !ok {
				er++
				continue
			}
			if b, has := base[c.minify]; has && out != b {
				low = true
			}
			if idx, dup := seen[out]; dup {
				np.Variants[idx].all = append(np.Variants[idx].all, c.key)
				continue
			}
			seen[out] = len(np.Variants)
			np.Variants = append(np.Variants, variant{Key: c.key, Src: out, all: []string{c.key}})
		}
		nps[i] = np
		lowered[i] = low
		cmu.Lock()
		nTransforms += tr
		nErrors += er
		nDistinct += int64(len(np.Variants))
		cmu.Unlock()
	})
	r.Set("transforms", nTransforms)
	r.Set("transform_errors_skipped", nErrors)
	r.Set("distinct_outputs", nDistinct)
	r.Set("configurations_per_program", len(cfgs))
	r.Logf("%d transforms, %d skipped for reported errors, %d distinct outputs", nTransforms, nErrors, nDistinct)

	// run in Node
	const chunk = 40
	nChunks := (len(nps) + chunk - 1) / chunk
	results := make([]nodeResult, 0, len(nps))
	var rmu sync.Mutex
	core.Parallel(nChunks, 8, func(ci int) {
		lo, hi := ci*chunk, (ci+1)*chunk
		if hi > len(nps) {
			hi = len(nps)
		}
		var out struct {
			Results []nodeResult `json:"results"`
		}
		in := map[string]interface{}{"programs": nps[lo:hi]}
		if err := nodex.Run(r, "run_probes_c05.js", in, &out, 20*time.Minute, ""); err != nil {
			r.Infra("probe runner failed on programs %d..%d: %v", lo, hi, err)
			return
		}
		rmu.Lock()
		results = append(results, out.Results...)
		rmu.Unlock()
	})
	byName := map[string]int{}
	for i, p := range progs {
		byName[p.Name] = i
	}
	sort.Slice(results, func(i, j int) bool { return results[i].ID < results[j].ID })

	var runs, specCompared, specOnlyCompared, unpredicted int64
	var specOnlyProgs, nativeProgs, driftProgs, specOnlyDrift int
	famSeen := map[string]bool{}
	for _, res := range results {
		i, ok := byName[res.ID]
		if !ok {
			continue
		}
		p := progs[i]
		np := nps[i]
		if res.Fatal != "" {
			r.Infra("probe runner: %s: %s", res.ID, res.Fatal)
			continue
		}
		r.Case(p.Name, lowered[i])
		famSeen[family(p.Name)] = true
		runs += res.Runs
		specCompared += res.NSpecCompared
		specOnlyCompared += res.NSpecOnlyCompared
		unpredicted += res.Unpredicted
		keysOf := func(vkey string) []string {
			for _, v := range np.Variants {
				if v.Key == vkey {
					return v.all
				}
			}
			return nil
		}
		pos := strings.SplitN(p.Name, "/", 2)[0]
		if !res.NativeOK {
			if !specOnlyFamily(p.Name) {
				r.Infra("native V8 cannot compile generated program %s: %s\n%s", p.Name, res.NativeErr, p.Src)
				continue
			}
			specOnlyProgs++
			if res.NSpecOnly > 0 {
				m := res.SpecOnly[0]
				// single-construct using programs: the rules were checked by hand against the proposal.
				// Nestings with another construct have no native cross-validation of the combination:
				// a disagreement there is a verdict only if it is an instance of a defect already
				// reproduced by hand (signature / known construct), otherwise SPEC-DRIFT.
				sig := signature(p.Name, pos, m.Env, m.Spec, m.Lowered)
				knownShape := sig != "" || (knownConstruct(p.Name) != "" && diffClass(m.Spec, m.Lowered) == "lowered-trace-is-prefix-same-throw")
				if handVerified(p.Name) && (!p.Pair || knownShape) {
					r.Violation(map[string]interface{}{"kind": "spec-only-trace", "program": p.Name, "construct": family(p.Name), "position": pos, "variant": m.Variant,
						"diff": diffClass(m.Spec, m.Lowered), "known_construct": knownConstruct(p.Name), "signature": sig},
						fmt.Sprintf("lowered %s behaves differently from the proposal semantics (variant %s, env %v): expected %v %s, got %v %s",
							p.Name, m.Variant, m.Env, m.Spec.T, m.Spec.C, m.Lowered.T, m.Lowered.C),
						map[string]interface{}{"program": p, "mismatch": m, "same_output_for": keysOf(m.Variant)})
				} else {
					specOnlyDrift++
					r.Drift("spec_only %s: lowered output and the (not hand-verified) spec prediction differ: %+v", p.Name, m)
				}
			}
			continue
		}
		nativeProgs++
		for _, ve := range res.VariantErrors {
			r.Violation(map[string]interface{}{"kind": "lowered-output-invalid", "program": p.Name, "construct": family(p.Name), "position": pos, "variant": ve.Variant},
				fmt.Sprintf("output for %s (%s) is rejected by V8 although the original runs: %s", p.Name, ve.Variant, ve.Err),
				map[string]interface{}{"program": p, "error": ve.Err, "same_output_for": keysOf(ve.Variant)})
		}
		if res.NSpecMismatch > 0 {
			driftProgs++
			m := res.SpecMismatches[0]
			r.Drift("%s env %v: spec predicts %v %s, native V8 gives %v %s", p.Name, m.Env, m.Spec.T, m.Spec.C, m.Native.T, m.Native.C)
		}
		// one report per program and kind of difference (a known defect in one environment must
		// not hide another difference of the same program)
		reported := map[string]bool{}
		for _, m := range res.Mismatches {
			if m.SpecAgreesWithNative != nil && !*m.SpecAgreesWithNative {
				continue // spec and native disagree on the original: excluded (counted as drift above)
			}
			sig := signature(p.Name, pos, m.Env, m.Native, m.Lowered)
			dc := diffClass(m.Native, m.Lowered)
			if reported[sig+"|"+dc] {
				continue
			}
			reported[sig+"|"+dc] = true
			var out string
			for _, v := range np.Variants {
				if v.Key == m.Variant {
					out = v.Src
				}
			}
			r.Violation(map[string]interface{}{"kind": "trace-differs", "program": p.Name, "construct": family(p.Name), "position": pos, "variant": m.Variant,
				"diff": dc, "known_construct": knownConstruct(p.Name), "signature": sig},
				fmt.Sprintf("%s lowered for %s behaves differently (env %v): native %v %s, lowered %v %s",
					p.Name, m.Variant, m.Env, m.Native.T, m.Native.C, m.Lowered.T, m.Lowered.C),
				map[string]interface{}{"program": p.Name, "source": p.Src, "output": out, "mismatch": m, "same_output_for": keysOf(m.Variant), "mismatching_runs": res.NMismatch})
		}
		if len(res.Sample) > 0 && (i%400 == 0) {
			r.Sample(map[string]interface{}{"program": p.Name, "source": p.Src, "variants": len(np.Variants), "envs": len(p.Envs), "first_env": res.Sample})
		}
	}
	if len(results) != len(progs) {
		r.Infra("probe runner returned %d results for %d programs", len(results), len(progs))
	}
	r.AddTraces(runs)
	r.Set("node_runs", runs)
	r.Set("programs_with_native_run", nativeProgs)
	r.Set("spec_only", specOnlyProgs)
	r.Set("spec_only_runs_compared", specOnlyCompared)
	r.Set("spec_only_drift", specOnlyDrift)
	r.Set("spec_vs_native_runs_compared", specCompared)
	r.Set("spec_unpredicted_runs", unpredicted)
	r.Set("programs_with_spec_drift", driftProgs)
	objFam := map[string]int{}
	for f := range famSeen {
		switch {
		case strings.HasPrefix(f, "d_"):
			objFam["definitions_over_base_shapes"]++
		case strings.HasPrefix(f, "s_"):
			objFam["copies_over_adversarial_sources"]++
		case strings.HasPrefix(f, "t_"):
			objFam["error_timing_cause_x_form"]++
		case f == "a_then" || f == "a_retthen" || f == "a_forawait_then":
			objFam["thenables"]++
		}
	}
	r.Set("object_model_constructs_seen", objFam)
	fams := make([]string, 0, len(famSeen))
	for f := range famSeen {
		fams = append(fams, f)
	}
	sort.Strings(fams)
	r.Set("constructs", len(fams))
	r.Set("targets", len(targets))
	r.Set("rule", "case = one program exported by TLC from spec/LoweringProgs.tla (construct x position incl. the object-model families [definitions over base-class shapes, copies over adversarial sources, error timing, thenables]; quick: label-first covering sample of the positions, thorough: all positions x every 3rd nesting with one more construct) run under every environment of its probes for the original and for every distinct api.Transform output over 9 targets x single-feature supported overrides x minify off/on; non-trivial = some output differs from the esnext output of the same minify setting (something was lowered); a violation needs native V8 on the original and the lowered output to disagree while the spec (where it predicts) agrees with native")
}

func init() { core.Register("C05", Run) }
