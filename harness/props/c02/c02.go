// Package c02: bundling preserves module-graph semantics (ESM, CommonJS, mixed).
//
// Spec: spec/ModuleSem.tla, a reference semantics of the ES module loader,
// Node's CommonJS loader and their interoperation.  TLC model-checks it
// (body-at-most-once, no re-entry, post-order, determinism, no uninitialised
// read in the generated family) and, with the same configs, enumerates the
// bounded family of module graphs together with the host-visible trace the
// specification predicts (CASE records).
//
// Binding (R): every exported graph is written to a directory, loaded by
// Node's own loaders (cross-validation of the oracle: a disagreement is
// SPEC-DRIFT and the case is excluded) and bundled by the real api.Build in
// format {esm,cjs,iife+GlobalName} x platform {node,browser,neutral} x minify
// {off,on}; each bundle is executed in Node and its observation (probe trace,
// thrown error, entry exports) must equal the native one.
//
// Data-loader clause: every byte string of length <= 3 over {00, 41, 80,
// EF BB BF, FF, 0A} imported through text/base64/binary/dataurl/file, and a
// set of JSON documents through json, must yield exactly the file's
// text/bytes/JSON value.
package c02

import (
	"encoding/json"
	"fmt"
	"math/rand"
	"os"
	"path/filepath"
	"regexp"
	"sort"
	"strconv"
	"strings"
	"sync"
	"time"

	"github.com/evanw/esbuild/pkg/api"

	"verifharness/core"
	"verifharness/nodex"
	"verifharness/tlcrun"
)

type stmt struct {
	Op string `json:"op"`
	T  int    `json:"t"`
	X  string `json:"x"`
}

type ev struct {
	ID  string `json:"id"`
	Val string `json:"val"`
}

// a CASE record of ModuleSem
type graphCase struct {
	Spec   string   `json:"spec"`
	Kinds  []string `json:"kinds"`
	Bodies [][]stmt `json:"bodies"`
	Trace  []ev     `json:"trace"`
	Threw  bool     `json:"threw"`
	Ns     string   `json:"ns"`
	Req    string   `json:"req"`
	Feat   []string `json:"feat"` // the specification's feature labels (ModuleSem!Features)
	NsStat string   `json:"nsStatic"` // the entry's namespace restricted to the names known without running (no export * from CommonJS)
	Modes  []string `json:"modes"`    // per module: "node" | "babel" (an ES module in a plain .js file that no package.json declares a module)
	CycDyn []string `json:"cycdyn"`   // ModuleSem!CycDynReaders: members of an import cycle with a module whose export set is only known at run time
	LateCp bool     `json:"lateCopy"` // ModuleSem!LateCopy

	id     string
	labels []string
	src    string // generator config
}

// a GRAPH record of ModuleSem in Mode "gen": a graph that links, not yet run
type graphSpec struct {
	Spec   string   `json:"spec"`
	Kinds  []string `json:"kinds"` // raw kinds (preset leaves by name)
	Bodies [][]stmt `json:"bodies"`
	Feat   []string `json:"feat"`

	id  string
	src string
}

func realKind(k string) string {
	switch k {
	case "Lesm", "Ldyn", "esmb":
		return "esm"
	case "Lcjs", "Lmark", "Lmarkx":
		return "cjs"
	}
	return k
}

// interop modes of the modules of a GRAPH record (raw kinds)
func modesOf(kinds []string) []string {
	out := make([]string, len(kinds))
	for i, k := range kinds {
		out[i] = "node"
		if k == "esmb" {
			out[i] = "babel"
		}
	}
	return out
}

func hasBabel(modes []string) bool {
	for _, m := range modes {
		if m == "babel" {
			return true
		}
	}
	return false
}

func graphID(kinds []string, modes []string, bodies [][]stmt) string {
	real := make([]string, len(kinds))
	for i, k := range kinds {
		real[i] = realKind(k)
	}
	if bodies == nil {
		bodies = [][]stmt{}
	}
	for i := range bodies {
		if bodies[i] == nil {
			bodies[i] = []stmt{}
		}
	}
	if hasBabel(modes) {
		return core.Hash(map[string]interface{}{"k": real, "b": bodies, "m": modes})
	}
	return core.Hash(map[string]interface{}{"k": real, "b": bodies})
}

type buildCfg struct {
	Format   string `json:"format"`
	Platform string `json:"platform"`
	Minify   bool   `json:"minify"`
}

func (c buildCfg) name() string {
	m := "plain"
	if c.Minify {
		m = "min"
	}
	return c.Format + "-" + c.Platform + "-" + m
}

func allCfgs() []buildCfg {
	var out []buildCfg
	for _, f := range []string{"esm", "cjs", "iife"} {
		for _, p := range []string{"node", "browser", "neutral"} {
			for _, m := range []bool{false, true} {
				out = append(out, buildCfg{f, p, m})
			}
		}
	}
	return out
}

// ---------------------------------------------------------------------------
// materialisation of a graph as files
// ---------------------------------------------------------------------------

// naming schemes: how module kinds are expressed on disk
//
//	0: .mjs / .cjs           1: package.json type=module: .js / .cjs
//	2: package.json type=commonjs: .mjs / .js
//
// An ES module in "babel" mode is a plain .js file without a package.json
// (scheme 0 only): esbuild does not apply Node's interop rule to it, Node 20
// loads it as an ES module by syntax detection.
func fileName(kind string, m int, scheme int, mode string) string {
	ext := ""
	switch kind {
	case "esm":
		ext = ".mjs"
		if scheme == 1 || mode == "babel" {
			ext = ".js"
		}
	case "cjs":
		ext = ".cjs"
		if scheme == 2 {
			ext = ".js"
		}
	case "json":
		ext = ".json"
	}
	return fmt.Sprintf("m%d%s", m, ext)
}

func materialise(g *graphCase, scheme int) (map[string]string, string) {
	files := map[string]string{}
	name := func(m int) string {
		mode := ""
		if m-1 < len(g.Modes) {
			mode = g.Modes[m-1]
		}
		return fileName(g.Kinds[m-1], m, scheme, mode)
	}
	switch scheme {
	case 1:
		files["package.json"] = `{"type":"module"}` + "\n"
	case 2:
		files["package.json"] = `{"type":"commonjs"}` + "\n"
	}
	for i, kind := range g.Kinds {
		m := i + 1
		var sb strings.Builder
		switch kind {
		case "json":
			fmt.Fprintf(&sb, `{"x":"m%d"}`+"\n", m)
		case "esm":
			if i < len(g.Modes) && g.Modes[i] == "babel" {
				// a plain .js file is an ES module for Node (syntax detection) and for
				// esbuild only if it has ES syntax: make that independent of the body
				sb.WriteString("export {};\n")
			}
			for k, s := range g.Bodies[i] {
				id := fmt.Sprintf("m%d.%d", m, k+1)
				spec := ""
				attr, dynAttr := "", ""
				if s.T > 0 {
					spec = "./" + name(s.T)
					if g.Kinds[s.T-1] == "json" {
						attr = ` with { type: "json" }`
						dynAttr = `, { with: { type: "json" } }`
					}
				}
				switch s.Op {
				case "probe":
					fmt.Fprintf(&sb, "__probe(%q);\n", id)
				case "let":
					fmt.Fprintf(&sb, "export let %s = %q;\n", s.X, id)
				case "set":
					fmt.Fprintf(&sb, "%s = %q;\n", s.X, id)
				case "fn":
					fmt.Fprintf(&sb, "export function f(v) { %s = v; }\n", s.X)
				case "call":
					fmt.Fprintf(&sb, "import { f as f_%d } from %q;\nf_%d(%q);\n", k+1, spec, k+1, id)
				case "rd":
					if s.X == "default" {
						fmt.Fprintf(&sb, "import v_%d from %q%s;\n", k+1, spec, attr)
					} else {
						fmt.Fprintf(&sb, "import { %s as v_%d } from %q%s;\n", s.X, k+1, spec, attr)
					}
					fmt.Fprintf(&sb, "__probe(%q, v_%d);\n", id, k+1)
				case "rns":
					fmt.Fprintf(&sb, "import * as n_%d from %q%s;\n__probe(%q, n_%d);\n", k+1, spec, attr, id, k+1)
				case "imp":
					fmt.Fprintf(&sb, "import %q%s;\n", spec, attr)
				case "def":
					fmt.Fprintf(&sb, "export default %q;\n", id)
				case "rex":
					fmt.Fprintf(&sb, "export { %s } from %q%s;\n", s.X, spec, attr)
				case "star":
					fmt.Fprintf(&sb, "export * from %q%s;\n", spec, attr)
				case "starns":
					fmt.Fprintf(&sb, "export * as ns from %q%s;\n", spec, attr)
				case "dyn":
					fmt.Fprintf(&sb, "__dyn(%q, import(%q%s));\n", id, spec, dynAttr)
				case "throw":
					fmt.Fprintf(&sb, "throw new Error(%q);\n", id)
				}
			}
		case "cjs":
			for k, s := range g.Bodies[i] {
				id := fmt.Sprintf("m%d.%d", m, k+1)
				spec := ""
				dynAttr := ""
				if s.T > 0 {
					spec = "./" + name(s.T)
					if g.Kinds[s.T-1] == "json" {
						dynAttr = `, { with: { type: "json" } }`
					}
				}
				switch s.Op {
				case "probe":
					fmt.Fprintf(&sb, "__probe(%q);\n", id)
				case "xset":
					fmt.Fprintf(&sb, "exports.%s = %q;\n", s.X, id)
				case "mexp":
					fmt.Fprintf(&sb, "const c_%d = %q;\nmodule.exports = { %s: c_%d };\n", k+1, id, s.X, k+1)
				case "esm":
					fmt.Fprintf(&sb, "exports.__esModule = true;\n")
				case "req":
					fmt.Fprintf(&sb, "const r_%d = require(%q);\n__probe(%q, r_%d);\n", k+1, spec, id, k+1)
				case "dyn":
					fmt.Fprintf(&sb, "__dyn(%q, import(%q%s));\n", id, spec, dynAttr)
				case "throw":
					fmt.Fprintf(&sb, "throw new Error(%q);\n", id)
				}
			}
		}
		files[name(m)] = sb.String()
	}
	return files, name(1)
}

// labels of a graph (coverage, and the non-triviality rule of DESIGN.md A.6:
// a cycle, a star export, mixed ESM/CJS or a data import)
func labelsOf(g *graphCase) []string {
	n := len(g.Kinds)
	adj := make([][]int, n+1)
	set := map[string]bool{}
	kindsSeen := map[string]bool{}
	for i, k := range g.Kinds {
		kindsSeen[k] = true
		for _, s := range g.Bodies[i] {
			if s.T > 0 {
				adj[i+1] = append(adj[i+1], s.T)
				if s.T == i+1 {
					set["self-import"] = true
				}
				if g.Kinds[s.T-1] == "json" {
					set["data"] = true
				}
				if g.Kinds[s.T-1] != k && g.Kinds[s.T-1] != "json" {
					if k == "esm" {
						set["esm->cjs"] = true
					} else {
						set["cjs->esm"] = true
					}
				}
			}
			switch s.Op {
			case "star", "starns":
				set["star"] = true
			case "dyn":
				set["dynamic-import"] = true
			case "throw":
				set["throw"] = true
			case "rex":
				set["re-export"] = true
			case "call":
				set["cross-module-mutation"] = true
			case "rns":
				set["namespace"] = true
			}
		}
	}
	if kindsSeen["esm"] && kindsSeen["cjs"] {
		set["mixed"] = true
	}
	// cycle: some module reaches itself
	for s := 1; s <= n; s++ {
		seen := make([]bool, n+1)
		stack := append([]int{}, adj[s]...)
		for len(stack) > 0 {
			v := stack[len(stack)-1]
			stack = stack[:len(stack)-1]
			if v == s {
				set["cycle"] = true
				break
			}
			if seen[v] {
				continue
			}
			seen[v] = true
			stack = append(stack, adj[v]...)
		}
	}
	// diamond: two distinct paths to one module (in-degree >= 2 from distinct modules)
	indeg := map[int]map[int]bool{}
	for i := 1; i <= n; i++ {
		for _, t := range adj[i] {
			if t != i {
				if indeg[t] == nil {
					indeg[t] = map[int]bool{}
				}
				indeg[t][i] = true
			}
		}
	}
	for _, from := range indeg {
		if len(from) >= 2 {
			set["shared-dependency"] = true
		}
	}
	var out []string
	for l := range set {
		out = append(out, l)
	}
	sort.Strings(out)
	return out
}

func nontrivial(labels []string) bool {
	for _, l := range labels {
		switch l {
		case "cycle", "self-import", "star", "mixed", "data":
			return true
		}
	}
	return false
}

// ---------------------------------------------------------------------------
// running
// ---------------------------------------------------------------------------

type obs struct {
	Name    string      `json:"name,omitempty"`
	Trace   [][2]string `json:"trace"`
	Threw   *string     `json:"threw"`
	Ns      *string     `json:"ns"`
	Req     *string     `json:"req"`
	Exp     *string     `json:"exp"`
	Settled bool        `json:"settled"`
}

type nodeBundle struct {
	Name   string `json:"name"`
	File   string `json:"file"`
	Format string `json:"format"`
	Global string `json:"global,omitempty"`
}

type nodeCase struct {
	ID      string       `json:"id"`
	Dir     string       `json:"dir"`
	Entry   string       `json:"entry"`
	Bundles []nodeBundle `json:"bundles"`
}

type nodeResult struct {
	ID      string `json:"id"`
	Native  *obs   `json:"native"`
	Bundles []obs  `json:"bundles"`
}

type prepared struct {
	g      *graphCase
	scheme int
	files  map[string]string
	entry  string
	dir    string
	cfgs   []buildCfg
	outs   map[string]string // cfg name -> bundle text
	errs   map[string]string // cfg name -> build error text
}

func str(p *string) string {
	if p == nil {
		return "<none>"
	}
	return *p
}

func traceStr(t [][2]string) string {
	var sb strings.Builder
	for i, e := range t {
		if i > 0 {
			sb.WriteString(" ")
		}
		sb.WriteString(e[0] + "=" + e[1])
	}
	return sb.String()
}

func specTrace(g *graphCase) (string, string) {
	var t [][2]string
	threw := "<none>"
	for _, e := range g.Trace {
		if e.ID == "threw" {
			threw = e.Val
			continue
		}
		t = append(t, [2]string{e.ID, e.Val})
	}
	return traceStr(t), threw
}

func bundle(p *prepared, c buildCfg) (string, string) {
	opts := api.BuildOptions{
		AbsWorkingDir: p.dir,
		EntryPoints:   []string{p.entry},
		Bundle:        true,
		Write:         false,
		Outfile:       "out.js",
		LogLevel:      api.LogLevelSilent,
	}
	switch c.Format {
	case "esm":
		opts.Format = api.FormatESModule
	case "cjs":
		opts.Format = api.FormatCommonJS
	case "iife":
		opts.Format = api.FormatIIFE
		opts.GlobalName = "G_" + p.g.id
	}
	switch c.Platform {
	case "node":
		opts.Platform = api.PlatformNode
	case "browser":
		opts.Platform = api.PlatformBrowser
	case "neutral":
		opts.Platform = api.PlatformNeutral
	}
	if c.Minify {
		opts.MinifyWhitespace, opts.MinifyIdentifiers, opts.MinifySyntax = true, true, true
	}
	res := api.Build(opts)
	if len(res.Errors) > 0 {
		var msgs []string
		for _, e := range res.Errors {
			msgs = append(msgs, e.Text)
		}
		return "", strings.Join(msgs, "; ")
	}
	for _, f := range res.OutputFiles {
		return string(f.Contents), ""
	}
	return "", "no output file"
}

func bundleFile(c buildCfg) string {
	ext := ".js"
	switch c.Format {
	case "esm":
		ext = ".mjs"
	case "cjs":
		ext = ".cjs"
	}
	return filepath.Join("out", c.name()+ext)
}

type stats struct {
	mu         sync.Mutex
	bundlesRun int64
	byLabel    map[string]int
	byCfg      map[string]int
	bySrc      map[string]int
	excluded   int
	sampled    map[string]bool
}

// runBatch materialises, bundles, executes and compares a batch of graphs
func runBatch(r *core.Run, batch []*prepared, st *stats, bno int) {
	in := struct {
		Cases []nodeCase `json:"cases"`
	}{}
	for _, p := range batch {
		os.MkdirAll(filepath.Join(p.dir, "out"), 0755)
		if err := core.WriteTree(p.dir, p.files); err != nil {
			r.Infra("cannot write graph: %v", err)
			return
		}
		nc := nodeCase{ID: p.g.id, Dir: p.dir, Entry: p.entry}
		p.outs, p.errs = map[string]string{}, map[string]string{}
		for _, c := range p.cfgs {
			text, berr := bundle(p, c)
			if berr != "" {
				p.errs[c.name()] = berr
				continue
			}
			p.outs[c.name()] = text
			os.WriteFile(filepath.Join(p.dir, bundleFile(c)), []byte(text), 0644)
			nb := nodeBundle{Name: c.name(), File: bundleFile(c), Format: c.Format}
			if c.Format == "iife" {
				nb.Global = "G_" + p.g.id
			}
			nc.Bundles = append(nc.Bundles, nb)
		}
		in.Cases = append(in.Cases, nc)
	}
	var out struct {
		Results []nodeResult `json:"results"`
	}
	if err := nodex.Run(r, "run_graph.js", in, &out, 10*time.Minute, r.Scratch); err != nil {
		r.Infra("batch %d: %v", bno, err)
		return
	}
	if len(out.Results) != len(batch) {
		r.Infra("batch %d: %d results for %d cases", bno, len(out.Results), len(batch))
		return
	}
	for i, p := range batch {
		compare(r, p, &out.Results[i], st)
		os.RemoveAll(p.dir)
	}
}

func compare(r *core.Run, p *prepared, res *nodeResult, st *stats) {
	g := p.g
	nat := res.Native
	if nat == nil || !nat.Settled {
		r.Infra("graph %s: native run did not settle", g.id)
		return
	}
	// (1) cross-validation of the oracle: specification vs Node's loaders
	wantTrace, wantThrew := specTrace(g)
	gotTrace := traceStr(nat.Trace)
	drift := ""
	switch {
	case wantTrace != gotTrace:
		drift = fmt.Sprintf("trace: spec [%s] native [%s]", wantTrace, gotTrace)
	case wantThrew != str(nat.Threw):
		drift = fmt.Sprintf("threw: spec %s native %s", wantThrew, str(nat.Threw))
	case !g.Threw && g.Ns != str(nat.Ns):
		drift = fmt.Sprintf("import(entry): spec %s native %s", g.Ns, str(nat.Ns))
	case !g.Threw && g.Req != str(nat.Req):
		drift = fmt.Sprintf("require(entry): spec %s native %s", g.Req, str(nat.Req))
	}
	if drift != "" {
		r.Drift("graph %s (%s) %s\n  files: %s", g.id, g.src, drift, filesBrief(p.files))
		st.mu.Lock()
		st.excluded++
		st.mu.Unlock()
		return
	}
	r.Case(g.id, nontrivial(g.labels))
	r.AddTraces(1)
	st.mu.Lock()
	for _, l := range g.labels {
		st.byLabel[l]++
	}
	st.bySrc[g.src]++
	needSample := false
	for _, l := range g.labels {
		if !st.sampled[l] && len(st.sampled) < 8 {
			st.sampled[l] = true
			needSample = true
			break
		}
	}
	st.mu.Unlock()
	if needSample {
		r.Sample(map[string]interface{}{"graph": g.id, "labels": g.labels, "files": p.files, "expected_trace": wantTrace, "entry_exports": g.Ns})
	}
	// (2) the verdict: every bundle behaves like the native load
	byName := map[string]*obs{}
	for i := range res.Bundles {
		byName[res.Bundles[i].Name] = &res.Bundles[i]
	}
	entryKind := g.Kinds[0]
	ambStarCjs, cycDyn := false, false
	cycReader := map[string]bool{}
	for _, m := range g.CycDyn {
		cycReader[m] = true
	}
	for _, f := range g.Feat {
		if f == "amb:star>cjs" {
			ambStarCjs = true
		}
		if f == "cyc:esmdyn" {
			cycDyn = true
		}
	}
	for _, c := range p.cfgs {
		key := map[string]interface{}{"graph": g.id, "format": c.Format, "platform": c.Platform, "minify": c.Minify, "pattern": pattern(g),
			"cycle": hasLabel(g, "cycle"), "throws": hasLabel(g, "throw"), "mixed": hasLabel(g, "mixed")}
		replay := func(what string, o *obs) map[string]interface{} {
			m := map[string]interface{}{
				"scenario": g, "labels": g.labels, "naming_scheme": p.scheme, "config": c, "files": p.files,
				"spec_expected": map[string]interface{}{"trace": wantTrace, "threw": wantThrew, "ns": g.Ns, "req": g.Req},
				"native":        nat, "what": what, "bundle": p.outs[c.name()],
			}
			if o != nil {
				m["observed"] = o
			}
			return m
		}
		st.mu.Lock()
		st.bundlesRun++
		st.byCfg[c.name()]++
		st.mu.Unlock()
		if e, bad := p.errs[c.name()]; bad {
			what := "esbuild rejects a module graph that Node loads: " + e
			key["kind"] = "build-error"
			key["error"] = reQuoted.ReplaceAllString(e, `"*"`)
			key["star"] = hasLabel(g, "star")
			r.Violation(key, what, replay(what, nil))
			continue
		}
		o := byName[c.name()]
		if o == nil {
			r.Infra("graph %s: no result for bundle %s", g.id, c.name())
			continue
		}
		if !o.Settled {
			what := "the bundle's dynamic import never settled"
			key["kind"] = "hang"
			r.Violation(key, what, replay(what, o))
			continue
		}
		if t := traceStr(o.Trace); t != gotTrace {
			what := fmt.Sprintf("probe trace differs: native [%s] bundle(%s) [%s]", gotTrace, c.name(), t)
			key["kind"] = "trace"
			key["signature"] = signature(g, nat.Trace, o.Trace)
			if ambStarCjs && firstDiffExtraKeys(nat.Trace, o.Trace) {
				// the graph has a name that is ambiguous only through a CommonJS export-star
				// source and the first disagreement is an object with additional keys in the bundle
				key["star_cjs_ambiguity"] = true
			}
			if cycDyn && firstDiffExtraKeys(o.Trace, nat.Trace) && cycReader[firstDiffModule(nat.Trace, o.Trace)] {
				// an ES module with a run-time export set is in an import cycle, the first
				// disagreement is an object that lacks keys in the bundle and the module that
				// looks is itself a member of such a cycle (it looked too early)
				key["dyn_exports_in_cycle"] = true
			}
			if g.LateCp && (firstDiffExtraKeys(o.Trace, nat.Trace) || firstDiffUndefined(g, nat.Trace, o.Trace)) {
				// an export-star cycle was cut at a module whose re-export source has a run-time
				// export set and ran later (ModuleSem!LateCopy): the copied names are missing for good
				key["late_star_copy"] = true
			}
			r.Violation(key, what, replay(what, o))
			continue
		}
		if str(o.Threw) != str(nat.Threw) {
			what := fmt.Sprintf("thrown error differs: native %s bundle(%s) %s", str(nat.Threw), c.name(), str(o.Threw))
			key["kind"] = "threw"
			r.Violation(key, what, replay(what, o))
			continue
		}
		if nat.Threw != nil {
			continue
		}
		// entry exports: esm bundle <-> import(entry); cjs bundle and the
		// global name <-> require(entry).  A CommonJS entry point bundled as
		// esm exports module.exports as default only (its named exports are
		// not statically known; documented), so only "default" is compared.
		want := str(nat.Req)
		got := str(o.Exp)
		if c.Format == "esm" {
			want = str(nat.Ns)
			if entryKind == "cjs" {
				want = "{default:" + str(nat.Req) + "}"
			}
		}
		if c.Format == "iife" && want == "{}" && got == "undefined" {
			// an entry point without exports: esbuild's IIFE returns nothing, so
			// the global name is undefined instead of an empty exports object;
			// neither exposes an export
			got = "{}"
		}
		if want != got {
			what := fmt.Sprintf("entry exports differ: native %s bundle(%s) %s", want, c.name(), got)
			key["kind"] = "exports"
			if ambStarCjs && extraKeysOnly(want, got) {
				key["star_cjs_ambiguity"] = true
			}
			if g.LateCp && extraKeysOnly(got, want) {
				key["late_star_copy"] = true
			}
			if c.Format == "esm" && entryKind == "esm" && g.NsStat != "" && g.NsStat != g.Ns && got == g.NsStat {
				// exactly the names that come through "export * from <CommonJS>" are missing
				key["kind"] = "exports-star-cjs-in-esm-output"
				what = fmt.Sprintf("an esm bundle cannot carry the entry point's export * from a CommonJS module: native %s bundle(%s) %s", want, c.name(), got)
			}
			r.Violation(key, what, replay(what, o))
		}
	}
}

// fields splits a rendered object "{k:v,...}" into its top-level fields (nil if v is not an object)
func fields(v string) map[string]string {
	if len(v) < 2 || v[0] != '{' || v[len(v)-1] != '}' {
		return nil
	}
	out := map[string]string{}
	depth, start, colon := 0, 1, -1
	flush := func(end int) {
		if colon > 0 {
			out[v[start:colon]] = v[colon+1 : end]
		}
	}
	for i := 1; i < len(v)-1; i++ {
		switch v[i] {
		case '{':
			depth++
		case '}':
			depth--
		case ':':
			if depth == 0 && colon < 0 {
				colon = i
			}
		case ',':
			if depth == 0 {
				flush(i)
				start, colon = i+1, -1
			}
		}
	}
	flush(len(v) - 1)
	return out
}

// extends: got has every field of nat with the same value, or, where both
// values are objects, an extension of it; more reports an additional key
func extends(nat, got string) (ok bool, more bool) {
	if nat == got {
		return true, false
	}
	a, b := fields(nat), fields(got)
	if a == nil || b == nil {
		return false, false
	}
	more = len(b) > len(a)
	for k, av := range a {
		bv, has := b[k]
		if !has {
			return false, false
		}
		o, m := extends(av, bv)
		if !o {
			return false, false
		}
		more = more || m
	}
	return true, more
}

// extraKeysOnly: both values are objects and the bundle's differs from the
// native one only by additional keys (at any nesting level)
func extraKeysOnly(nat, got string) bool {
	ok, more := extends(nat, got)
	return ok && more
}

func firstDiffExtraKeys(nat, got [][2]string) bool {
	for i := 0; i < len(nat) && i < len(got); i++ {
		if nat[i][0] != got[i][0] {
			return false
		}
		if nat[i][1] != got[i][1] {
			return extraKeysOnly(nat[i][1], got[i][1])
		}
	}
	return false
}

// the module ("mN") whose statement logged the first event on which the traces differ in value
func firstDiffModule(nat, got [][2]string) string {
	for i := 0; i < len(nat) && i < len(got); i++ {
		if nat[i][0] != got[i][0] {
			return ""
		}
		if nat[i][1] != got[i][1] {
			if j := strings.IndexByte(nat[i][0], '.'); j > 0 {
				return nat[i][0][:j]
			}
			return ""
		}
	}
	return ""
}

// the first disagreement is a named import (rd) that is a string natively and undefined in the bundle
func firstDiffUndefined(g *graphCase, nat, got [][2]string) bool {
	for i := 0; i < len(nat) && i < len(got); i++ {
		if nat[i][0] != got[i][0] {
			return false
		}
		if nat[i][1] != got[i][1] {
			var m, k int
			if n, _ := fmt.Sscanf(nat[i][0], "m%d.%d", &m, &k); n != 2 || m < 1 || m > len(g.Bodies) || k < 1 || k > len(g.Bodies[m-1]) {
				return false
			}
			return g.Bodies[m-1][k-1].Op == "rd" && got[i][1] == "undefined" && !strings.HasPrefix(nat[i][1], "{")
		}
	}
	return false
}

// pattern is a coarse structural class of a graph, part of the violation key
// (known findings are matched on it together with the kind of disagreement)
func pattern(g *graphCase) string {
	return strings.Join(g.labels, "+")
}

// signature names the first point where two traces part (which statement kind
// logged it and what class of value each side saw); it identifies a class of
// failures narrowly enough to be the match key of a known finding
func signature(g *graphCase, nat, got [][2]string) string {
	cls := func(v string) string {
		switch {
		case strings.HasPrefix(v, "!"):
			return "error"
		case strings.HasPrefix(v, "{") && strings.Contains(v, "Error>"):
			return "object(a getter throws)"
		case strings.HasPrefix(v, "{"):
			return "object"
		case v == "undefined":
			return "undefined"
		case v == "fn":
			return "function"
		}
		return "string"
	}
	opOf := func(id string) string {
		var m, k int
		if n, _ := fmt.Sscanf(id, "m%d.%d", &m, &k); n == 2 && m >= 1 && m <= len(g.Bodies) && k >= 1 && k <= len(g.Bodies[m-1]) {
			s := g.Bodies[m-1][k-1]
			t := ""
			if s.T > 0 {
				t = "->" + g.Kinds[s.T-1]
				for _, ts := range g.Bodies[s.T-1] {
					if ts.Op == "esm" {
						t += "(__esModule)"
						break
					}
				}
			}
			return g.Kinds[m-1] + ":" + s.Op + t
		}
		return "?"
	}
	for i := 0; i < len(nat) || i < len(got); i++ {
		switch {
		case i >= len(nat):
			return "extra event in bundle at " + opOf(got[i][0])
		case i >= len(got):
			return "missing event in bundle at " + opOf(nat[i][0])
		case nat[i][0] != got[i][0]:
			return "order: native " + opOf(nat[i][0]) + " bundle " + opOf(got[i][0])
		case nat[i][1] != got[i][1]:
			return "value at " + opOf(nat[i][0]) + ": native " + cls(nat[i][1]) + " bundle " + cls(got[i][1])
		}
	}
	return "same"
}

func hasLabel(g *graphCase, l string) bool {
	for _, x := range g.labels {
		if x == l {
			return true
		}
	}
	return false
}

func filesBrief(files map[string]string) string {
	var names []string
	for n := range files {
		names = append(names, n)
	}
	sort.Strings(names)
	var sb strings.Builder
	for _, n := range names {
		sb.WriteString("\n    --- " + n + "\n      " + strings.ReplaceAll(strings.TrimSpace(files[n]), "\n", "\n      "))
	}
	return sb.String()
}

var reQuoted = regexp.MustCompile(`"[^"]*"`)
var reSimStates = regexp.MustCompile(`The number of states generated: (\d+)`)

type genCfg struct {
	Config   string
	Simulate string // "" = exhaustive
	Depth    int
	Timeout  int
	Thorough bool // only in the thorough tier
	Quick    bool // only in the quick tier (subsumed by a thorough config)
	Quota    int  // number of graphs taken from this config by seeded sampling (0 = all), after the per-feature picks
	Workers  int  // TLC workers (0 = the tier's default)
}

// runTLC runs one ModuleSem configuration (retrying once when the JVM was
// killed from outside: the machine is shared) and hands every exported record
// to onRec.  reset is called before a retry.
func runTLC(r *core.Run, what string, mk func() tlcrun.Options, reset func()) *tlcrun.Result {
	res, err := tlcrun.Run(r, mk())
	if err != nil && (res == nil || !res.TimedOut) {
		r.Logf("TLC %s failed (%v); retrying once", what, firstLine(err.Error()))
		reset()
		res, err = tlcrun.Run(r, mk())
	}
	if err != nil {
		r.Infra("%v", err)
		return nil
	}
	if res.Violated != "" {
		// guard 3 of DESIGN.md section 2: a violation on the model alone is a spec error, not a verdict
		r.Infra("model ModuleSem/%s violates %s on the design alone (spec error, not a verdict):\n%s", what, res.Violated, tailLines(res.Output, 60))
		return nil
	}
	return res
}

// stage 1: TLC (Mode "gen") enumerates / samples the graph family of one
// configuration; every graph comes with the specification's feature labels
func generate(r *core.Run, gc genCfg, workers int) []*graphSpec {
	var graphs []*graphSpec
	var mu sync.Mutex
	seen := map[string]bool{}
	mk := func() tlcrun.Options {
		o := tlcrun.Options{Module: "ModuleSem", Config: gc.Config, Workers: workers, TimeoutSec: gc.Timeout,
			OnCase: func(raw []byte) {
				var g graphSpec
				if err := json.Unmarshal(raw, &g); err != nil || g.Spec != "ModuleSem.graph" {
					r.Infra("undecodable GRAPH record: %v", err)
					return
				}
				g.id = graphID(g.Kinds, modesOf(g.Kinds), g.Bodies)
				mu.Lock()
				defer mu.Unlock()
				if seen[g.id] {
					return
				}
				seen[g.id] = true
				g.src = gc.Config
				graphs = append(graphs, &g)
			}}
		if gc.Simulate != "" {
			o.Simulate = gc.Simulate
			o.Depth = gc.Depth
			o.Workers = 1
			o.Seed = r.Seed
		}
		return o
	}
	res := runTLC(r, gc.Config, mk, func() {
		mu.Lock()
		graphs, seen = nil, map[string]bool{}
		mu.Unlock()
	})
	if res == nil {
		return nil
	}
	if gc.Simulate != "" {
		// simulation mode reports its state count differently
		if m := reSimStates.FindStringSubmatch(res.Output); m != nil {
			n, _ := strconv.ParseInt(m[1], 10, 64)
			res.Generated, res.Distinct = n, n
			r.AddStates(n, n)
		}
	}
	r.Logf("TLC ModuleSem/%s (generate): %d generated, %d distinct, depth %d, %d graphs, %.1fs", gc.Config, res.Generated, res.Distinct, res.Depth, len(graphs), res.Wall.Seconds())
	r.Set("tlc_"+strings.TrimSuffix(strings.TrimPrefix(gc.Config, "ModuleSem."), ".cfg"),
		map[string]interface{}{"generated": res.Generated, "distinct": res.Distinct, "depth": res.Depth, "graphs": len(graphs), "wall_s": res.Wall.Seconds()})
	sort.Slice(graphs, func(i, j int) bool { return graphs[i].id < graphs[j].id })
	return graphs
}

// stage 2: TLC (Mode "run") runs the reference loader on the selected graphs,
// checks the invariants of ModuleSem on every state of these runs and exports
// the predicted observation of every graph inside the generated family
func runSpec(r *core.Run, sel []*graphSpec, shards, workers int) []*graphCase {
	if len(sel) == 0 {
		return nil
	}
	if shards > len(sel) {
		shards = 1
	}
	byID := map[string]*graphSpec{}
	for _, g := range sel {
		byID[g.id] = g
	}
	out := make([][]*graphCase, shards)
	var gen, dist int64
	var mu sync.Mutex
	core.Parallel(shards, shards, func(sh int) {
		var sb strings.Builder
		n := 0
		for i := sh; i < len(sel); i += shards {
			line, _ := json.Marshal(map[string]interface{}{"kinds": sel[i].Kinds, "bodies": sel[i].Bodies})
			sb.Write(line)
			sb.WriteByte('\n')
			n++
		}
		var cases []*graphCase
		var cmu sync.Mutex
		mk := func() tlcrun.Options {
			return tlcrun.Options{Module: "ModuleSem", Config: "ModuleSem.run.cfg", Workers: workers, TimeoutSec: 1500,
				Files: map[string]string{"c02_graphs.ndjson": sb.String()},
				OnCase: func(raw []byte) {
					var g graphCase
					if err := json.Unmarshal(raw, &g); err != nil || g.Spec != "ModuleSem" {
						r.Infra("undecodable CASE record: %v", err)
						return
					}
					g.id = graphID(g.Kinds, g.Modes, g.Bodies)
					src := byID[g.id]
					if src == nil {
						r.Infra("ModuleSem ran a graph that was not selected: %s", string(raw))
						return
					}
					g.src = src.src
					g.labels = labelsOf(&g)
					cmu.Lock()
					cases = append(cases, &g)
					cmu.Unlock()
				}}
		}
		res := runTLC(r, fmt.Sprintf("run shard %d", sh), mk, func() {
			cmu.Lock()
			cases = nil
			cmu.Unlock()
		})
		if res == nil {
			return
		}
		mu.Lock()
		gen += res.Generated
		dist += res.Distinct
		mu.Unlock()
		r.Logf("TLC ModuleSem/run shard %d: %d graphs, %d generated, %d distinct, depth %d, %d inside the family, %.1fs", sh, n, res.Generated, res.Distinct, res.Depth, len(cases), res.Wall.Seconds())
		out[sh] = cases
	})
	var all []*graphCase
	seen := map[string]bool{}
	for _, cs := range out {
		for _, g := range cs {
			if !seen[g.id] {
				seen[g.id] = true
				all = append(all, g)
			}
		}
	}
	sort.Slice(all, func(i, j int) bool { return all[i].id < all[j].id })
	r.Set("tlc_run", map[string]interface{}{"graphs_given": len(sel), "generated": gen, "distinct": dist, "graphs_inside_family": len(all)})
	return all
}

// selectGraphs: feature-label coverage first, then seeded sampling.  For every
// feature label of the specification that the generated family inhabits,
// perLabel graphs carrying it are taken (seeded choice); then every generator
// contributes a seeded sample up to its quota.
func selectGraphs(r *core.Run, gens []genCfg, results [][]*graphSpec, perLabel int) ([]*graphSpec, map[string]int) {
	seen := map[string]bool{}
	var pool []*graphSpec
	for i := range gens {
		var own []*graphSpec
		for _, g := range results[i] {
			if !seen[g.id] {
				seen[g.id] = true
				own = append(own, g)
			}
		}
		results[i] = own
		pool = append(pool, own...)
	}
	sort.Slice(pool, func(i, j int) bool { return pool[i].id < pool[j].id })
	byFeat := map[string][]*graphSpec{}
	for _, g := range pool {
		for _, f := range g.Feat {
			byFeat[f] = append(byFeat[f], g)
		}
	}
	var feats []string
	inhabited := map[string]int{}
	for f, gs := range byFeat {
		feats = append(feats, f)
		inhabited[f] = len(gs)
	}
	sort.Strings(feats)
	rnd := rand.New(rand.NewSource(r.Seed*7919 + 17))
	picked := map[string]bool{}
	var sel []*graphSpec
	take := func(g *graphSpec) {
		if !picked[g.id] {
			picked[g.id] = true
			sel = append(sel, g)
		}
	}
	for _, f := range feats {
		gs := byFeat[f]
		// prefer small graphs (fewest statements) half of the time: they isolate the feature
		perm := rnd.Perm(len(gs))
		n := 0
		for _, k := range perm {
			want := perLabel
			if strings.HasPrefix(f, "starcyc:") || strings.HasPrefix(f, "mode:") {
				want = 2 * perLabel // thin cells of the families added in round 2
			}
			if n >= want {
				break
			}
			if !picked[gs[k].id] {
				take(gs[k])
				n++
			}
		}
	}
	nFeat := len(sel)
	for i, gc := range gens {
		own := results[i]
		rnd := rand.New(rand.NewSource(r.Seed*7919 + int64(len(own)) + int64(i)))
		perm := rnd.Perm(len(own))
		n := 0
		for _, k := range perm {
			if gc.Quota > 0 && n >= gc.Quota {
				break
			}
			if !picked[own[k].id] {
				take(own[k])
				n++
			}
		}
	}
	r.Logf("%d graphs generated, %d feature labels inhabited; selected %d by label + %d by seeded sampling", len(pool), len(feats), nFeat, len(sel)-nFeat)
	r.Set("graphs_generated_by_tlc", len(pool))
	r.Set("features_inhabited", inhabited)
	return sel, inhabited
}

// feature labels that every run must generate and replay: the demand-loaded
// (wrapped) module x statement kind x target class matrix; an empty cell here
// means the generator configurations no longer reach the class
func requiredFeatures() []string {
	var out []string
	for _, w := range []string{"dyn", "req", "dep"} {
		for _, op := range []string{"imp", "rns", "star", "starns"} {
			for _, c := range []string{"esm+lazy", "esmdyn+lazy", "cjs", "json"} {
				if w == "dep" && c == "json" {
					continue // needs a third generated module: thorough only (gwrapT)
				}
				out = append(out, w+":"+op+">"+c)
			}
		}
		out = append(out, w+":dyn>esm+lazy")
	}
	for _, op := range []string{"req", "dyn"} {
		for _, c := range []string{"esm+lazy", "esmdyn+lazy", "cjs", "json"} {
			out = append(out, "cjs:"+op+">"+c)
		}
	}
	// a module in a static cycle with a demand-loaded one; hoisted code that
	// mentions a demand-loaded module
	// export-star cycles read from outside through the member at which they are entered
	for _, op := range []string{"rd", "rns", "star"} {
		out = append(out, "starcyc:"+op+">leafelsewhere:cjs", "starcyc:"+op+">leafhere:cjs")
	}
	// one CommonJS module imported by importers of both interop modes, in both orders
	for _, first := range []string{"babel", "node"} {
		for _, op := range []string{"rd.default", "rns", "rd"} {
			for _, c := range []string{"Lcjs", "Lmark", "Lmarkx"} {
				out = append(out, "mode:"+first+"-first:"+op+">"+c)
			}
		}
	}
	for _, op := range []string{"imp", "rns", "star", "starns"} {
		out = append(out, "cyc:"+op+">esm+lazy", "hoisted:"+op+">esm+lazy", "hoisted:"+op+">esmdyn+lazy", "hoisted:"+op+">esmdyn")
	}
	return out
}

func Run(r *core.Run) {
	r.Assume("Node 20's ESM and CommonJS loaders are the native reference; a graph on which ModuleSem and Node disagree is excluded (SPEC-DRIFT), so a violation has two witnesses against esbuild")
	r.Assume("values are compared by rendering (strings, undefined, functions, objects by sorted own enumerable keys without __esModule, nesting cut at depth 3); the order of events is compared exactly, the error thrown by loading the entry point is compared by message")
	r.Assume("not generated: TDZ reads, more than one import() per run, require() of an ES module in a cycle with an import (ERR_REQUIRE_CYCLE_MODULE), CommonJS named exports that cjs-module-lexer does not detect or that change after they were snapshotted (also behind export *), top-level await, direct eval, import.meta, sloppy-only code")
	r.Assume("a CommonJS entry point bundled as esm exposes module.exports as the default export only (documented esbuild behaviour); only the default export is compared in that configuration")
	if r.Replay != "" {
		replayOne(r)
		return
	}
	// many short TLC runs side by side (<= 8 workers in total): keep every JVM's
	// helper threads (GC, JIT) few, the defaults are sized for the whole machine
	if os.Getenv("_JAVA_OPTIONS") == "" {
		os.Setenv("_JAVA_OPTIONS", "-XX:ParallelGCThreads=2 -XX:CICompilerCount=2")
	}
	// Stage 1 generator configs (Mode "gen": graphs with feature labels).
	gens := []genCfg{
		// quick: five JVMs side by side, 2+2+1+1+1 workers, DataLoad's JVM has the eighth
		{Config: "ModuleSem.gwrapE.cfg", Timeout: 900, Quota: r.Pick(260, 500), Workers: r.Pick(2, 0)},
		{Config: "ModuleSem.qmixed.cfg", Timeout: 900, Quota: 260, Quick: true, Workers: 2},
		{Config: "ModuleSem.qesm.cfg", Timeout: 900, Quota: 260, Quick: true, Workers: 1},
		{Config: "ModuleSem.gwrapC.cfg", Timeout: 900, Quota: r.Pick(140, 400), Workers: r.Pick(1, 0)},
		// export-star cycles with a CommonJS/JSON/run-time leaf entered through every member; importers of both interop modes
		{Config: "ModuleSem.gstarcyc.cfg", Timeout: 900, Quota: r.Pick(60, 300), Quick: true, Workers: 1},
		{Config: "ModuleSem.gstarcyc3.cfg", Timeout: 1500, Quota: 500, Thorough: true},
		{Config: "ModuleSem.gmode.cfg", Timeout: 900, Quota: r.Pick(40, 300), Workers: r.Pick(1, 0)},
		{Config: "ModuleSem.simmixed.cfg", Simulate: fmt.Sprintf("num=%d", r.Pick(100, 1200)), Depth: 40, Timeout: 1500, Quota: r.Pick(120, 400)},
		{Config: "ModuleSem.simesm.cfg", Simulate: "num=800", Depth: 40, Timeout: 1500, Thorough: true, Quota: 300},
		{Config: "ModuleSem.gwrapT.cfg", Timeout: 1500, Thorough: true, Quota: 900},
		{Config: "ModuleSem.esm2.cfg", Timeout: 1500, Thorough: true, Quota: 600},
		{Config: "ModuleSem.mixed2.cfg", Timeout: 1500, Thorough: true, Quota: 700},
		{Config: "ModuleSem.cyc3.cfg", Timeout: 1500, Thorough: true, Quota: 300},
		{Config: "ModuleSem.star3.cfg", Timeout: 1500, Thorough: true, Quota: 300},
		{Config: "ModuleSem.cjs3.cfg", Timeout: 1500, Thorough: true, Quota: 300},
	}
	var active []genCfg
	for _, gc := range gens {
		if (gc.Thorough && !r.Thorough()) || (gc.Quick && r.Thorough()) {
			continue
		}
		active = append(active, gc)
	}
	// the generators run side by side (<= 8 TLC workers in total)
	par, workers := 5, 2
	if r.Thorough() {
		par, workers = 2, 4
	}
	// DataLoad's enumeration runs side by side with stage 1
	contentsCh := make(chan []*content, 1)
	go func() { contentsCh <- enumerateContents(r) }()
	results := make([][]*graphSpec, len(active))
	core.Parallel(len(active), par, func(i int) {
		w := workers
		if active[i].Workers > 0 {
			w = active[i].Workers
		}
		results[i] = generate(r, active[i], w)
	})
	sel, inhabited := selectGraphs(r, active, results, r.Pick(2, 3))
	// Stage 2: the specification runs the selected graphs
	all := runSpec(r, sel, r.Pick(4, 4), 2)
	replayed := map[string]int{}
	for _, g := range all {
		for _, f := range g.Feat {
			replayed[f]++
		}
	}
	var thin []string
	for f := range inhabited {
		if replayed[f] == 0 {
			thin = append(thin, f)
		}
	}
	sort.Strings(thin)
	r.Set("features_replayed", replayed)
	r.Set("features_generated_but_not_replayed", thin)
	var missing []string
	for _, f := range requiredFeatures() {
		if replayed[f] == 0 {
			missing = append(missing, f)
		}
	}
	if len(missing) > 0 {
		r.Infra("feature labels that the generator configurations must reach are not replayed: %s", strings.Join(missing, " "))
	}
	r.Logf("%d graphs to replay (%d of %d selected are outside the generated family); %d feature labels replayed, %d generated only", len(all), len(sel)-len(all), len(sel), len(replayed), len(thin))
	runGraphs(r, all)
	runDataLoaders(r, <-contentsCh)
	r.Set("rule", "a case = one module graph of the bounded family generated by TLC from ModuleSem (<= N modules x <= K statements; kinds esm/cjs/json and preset leaves) whose spec-predicted trace agrees with Node's native loaders, replayed through api.Build in the selected format x platform x minify configurations; distinct by the hash of (kinds, bodies); non-trivial = the graph has a cycle or self-import, an export star, mixes ESM and CommonJS, or imports a data file.  Data-loader cases: one (loader, content, importing syntax) triple of the family enumerated by TLC from DataLoad, distinct by these three")
}

func runGraphs(r *core.Run, all []*graphCase) {
	st := &stats{byLabel: map[string]int{}, byCfg: map[string]int{}, bySrc: map[string]int{}, sampled: map[string]bool{}}
	cfgs := allCfgs()
	var preps []*prepared
	for i, g := range all {
		rnd := rand.New(rand.NewSource(r.Seed ^ int64(i)*2654435761))
		p := &prepared{g: g, scheme: rnd.Intn(3), dir: filepath.Join(r.Scratch, "g", g.id)}
		if hasBabel(g.Modes) {
			p.scheme = 0 // a plain .js file is only outside Node's interop mode when no package.json declares a type
		}
		p.files, p.entry = materialise(g, p.scheme)
		switch {
		case r.Thorough() && i%12 == 0:
			p.cfgs = cfgs // all 18 configurations
		case r.Thorough():
			// two configurations per format, platform and minify seeded
			for f := 0; f < 3; f++ {
				a := rnd.Intn(6)
				b := (a + 1 + rnd.Intn(5)) % 6
				p.cfgs = append(p.cfgs, cfgs[f*6+a], cfgs[f*6+b])
			}
		default:
			// one configuration per format, platform and minify seeded
			for f := 0; f < 3; f++ {
				p.cfgs = append(p.cfgs, cfgs[f*6+rnd.Intn(6)])
			}
		}
		preps = append(preps, p)
	}
	bsize := 120
	if r.Thorough() {
		bsize = 40
	}
	var batches [][]*prepared
	for i := 0; i < len(preps); i += bsize {
		j := i + bsize
		if j > len(preps) {
			j = len(preps)
		}
		batches = append(batches, preps[i:j])
	}
	core.Parallel(len(batches), 8, func(i int) {
		if r.Violations() > 20 {
			return
		}
		runBatch(r, batches[i], st, i)
	})
	r.Set("bundles_executed", st.bundlesRun)
	r.Set("graphs_by_label", st.byLabel)
	r.Set("bundles_by_config", st.byCfg)
	r.Set("graphs_by_generator", st.bySrc)
	r.Set("graphs_excluded_by_drift", st.excluded)
	if d := r.DriftCount(); d > 5 && d*50 > len(all) {
		r.Infra("specification and Node disagree on %d of %d graphs (budget 2%%): the oracle needs repair", d, len(all))
	}
	r.Logf("graphs: %d replayed, %d bundles executed, %d excluded by drift", len(all), st.bundlesRun, st.excluded)
}

func replayOne(r *core.Run) {
	data, err := os.ReadFile(r.Replay)
	if err != nil {
		r.Infra("cannot read replay file: %v", err)
		return
	}
	var rec struct {
		Detail struct {
			Scenario *graphCase `json:"scenario"`
			Scheme   int        `json:"naming_scheme"`
			Config   buildCfg   `json:"config"`
			Data     *dataCase  `json:"data_case"`
		} `json:"detail"`
	}
	if err := json.Unmarshal(data, &rec); err != nil {
		r.Infra("cannot decode replay file: %v", err)
		return
	}
	if rec.Detail.Data != nil {
		runDataCase(r, *rec.Detail.Data)
		r.Set("rule", "replay of one data-loader case")
		return
	}
	g := rec.Detail.Scenario
	if g == nil {
		r.Infra("replay file has no scenario")
		return
	}
	g.id = graphID(g.Kinds, g.Modes, g.Bodies)
	g.labels = labelsOf(g)
	g.src = "replay"
	p := &prepared{g: g, scheme: rec.Detail.Scheme, dir: filepath.Join(r.Scratch, "g", g.id), cfgs: []buildCfg{rec.Detail.Config}}
	p.files, p.entry = materialise(g, p.scheme)
	st := &stats{byLabel: map[string]int{}, byCfg: map[string]int{}, bySrc: map[string]int{}, sampled: map[string]bool{}}
	runBatch(r, []*prepared{p}, st, 0)
	r.Set("rule", "replay of one graph")
}

func init() {
	core.Register("C02", Run)
}

func firstLine(s string) string {
	if i := strings.IndexByte(s, '\n'); i >= 0 {
		return s[:i]
	}
	return s
}

func tailLines(s string, n int) string {
	lines := strings.Split(s, "\n")
	if len(lines) > n {
		lines = lines[len(lines)-n:]
	}
	return strings.Join(lines, "\n")
}
