package c02

import (
	"encoding/json"
	"fmt"
	"math/rand"
	"os"
	"path/filepath"
	"sort"
	"strings"
	"sync"
	"time"

	"github.com/evanw/esbuild/pkg/api"

	"verifharness/core"
	"verifharness/nodex"
	"verifharness/tlcrun"
)

// The data-loader clause: "the value obtained by importing a non-JavaScript
// file is exactly the file's bytes, text or JSON value".
//
// The family of file contents is enumerated by TLC from spec/DataLoad.tla
// (sequences of atoms over an alphabet of byte classes that interact with
// string escaping and embedding); the specification states the reference
// values (bytes; UTF-8 decoding without a leading BOM; the code units a JSON
// string body denotes) and TLC checks its decoders against the atom table on
// every content.  Here every content becomes a file (for the json loader: a
// JSON document with the content as a string value, an object key or the
// top-level value), is imported / required through every loader, bundled in
// format x minify x charset x target configurations and the value the bundle
// yields is compared with the reference (cross-validated with the platform's
// decoders: TextDecoder, JSON.parse, Buffer, fetch() of data: URLs).

// a CASE record of DataLoad
type content struct {
	Spec   string   `json:"spec"`
	Atoms  []string `json:"atoms"`
	Bytes  []int    `json:"bytes"`
	Text   []int    `json:"text"`
	InJSON bool     `json:"injson"`
	JSrc   []int    `json:"jsrc"`
	JText  []int    `json:"jtext"`
}

func (c *content) name() string {
	if len(c.Atoms) == 0 {
		return "empty"
	}
	return strings.Join(c.Atoms, ".")
}

// one file of a loader's project
type dataItem struct {
	Name  string `json:"name"`            // atoms (and the JSON context)
	File  string `json:"file"`            // file name in the project directory
	Ctx   string `json:"ctx,omitempty"`   // json: "top" | "val" | "key" | "doc" (a fixed document, no spec value)
	Units []int  `json:"units"`           // text / json: the code units the specification predicts
	Spec  bool   `json:"spec"`            // Units is meaningful
	bytes []byte
	atoms []string
}

func toBytes(v []int) []byte {
	b := make([]byte, len(v))
	for i, x := range v {
		b[i] = byte(x)
	}
	return b
}

// fixed JSON documents (values other than strings: numbers, nesting, special keys)
func jsonDocs() [][]byte {
	docs := []string{
		`null`, `true`, `false`, `0`, `-0`, `1e21`, `1.5`, `1e-7`, `0.1`, `9007199254740993`, `-1E+2`, `1e400`,
		`""`, `"A"`, `"\u0000"`, `"  "`, `"😀"`, `"\ud800"`, `"</script>"`, "\"é\"", `"\\\"\/\b\f\n\r\t"`, `"é"`,
		`[]`, `{}`, `[[],{}]`, `[1,[2,[3,[4]]]]`, ` [ 1 , 2 ] `, "\n{\n\t\"a\" : 1\n}\n",
		`{"a":1,"b":[true,null,"x"]}`, `{"__proto__":1}`, `{"__proto__":{"x":1}}`, `{"x":{"__proto__":null}}`,
		`{"default":1}`, `{"a-b":1,"":2,"0":3}`, `{"a":1,"a":2}`, `{"b":1,"a":2}`, `{"2":1,"1":2}`,
		`{"constructor":1,"toString":2,"hasOwnProperty":3}`, `{"await":1,"class":2,"var":3,"eval":4,"arguments":5}`,
		`{"é":1," ":2}`, `["__proto__"]`, `{"then":1}`, `{"exports":1,"module":2,"require":3}`,
		"\xef\xbb\xbf{\"bom\":1}",
	}
	var out [][]byte
	for _, d := range docs {
		out = append(out, []byte(d))
	}
	return out
}

// enumerate runs TLC on DataLoad and returns the contents in a stable order
func enumerateContents(r *core.Run) []*content {
	cfg := "DataLoad.quick.cfg"
	if r.Thorough() {
		cfg = "DataLoad.thorough.cfg"
	}
	var out []*content
	var mu sync.Mutex
	res, err := tlcrun.Run(r, tlcrun.Options{Module: "DataLoad", Config: cfg, Workers: r.Pick(1, 2), TimeoutSec: 900,
		OnCase: func(raw []byte) {
			var c content
			if err := json.Unmarshal(raw, &c); err != nil || c.Spec != "DataLoad" {
				r.Infra("undecodable CASE record of DataLoad: %v", err)
				return
			}
			mu.Lock()
			out = append(out, &c)
			mu.Unlock()
		}})
	if err != nil {
		r.Infra("%v", err)
		return nil
	}
	if res.Violated != "" {
		r.Infra("model DataLoad/%s violates %s on the design alone (spec error, not a verdict):\n%s", cfg, res.Violated, tailLines(res.Output, 40))
		return nil
	}
	seen := map[string]bool{}
	var uniq []*content
	for _, c := range out {
		if !seen[c.name()] {
			seen[c.name()] = true
			uniq = append(uniq, c)
		}
	}
	sort.Slice(uniq, func(i, j int) bool {
		if len(uniq[i].Atoms) != len(uniq[j].Atoms) {
			return len(uniq[i].Atoms) < len(uniq[j].Atoms)
		}
		return uniq[i].name() < uniq[j].name()
	})
	r.Logf("TLC DataLoad/%s: %d generated, %d distinct, depth %d, %d contents, %.1fs", cfg, res.Generated, res.Distinct, res.Depth, len(uniq), res.Wall.Seconds())
	r.Set("tlc_dataload", map[string]interface{}{"config": cfg, "generated": res.Generated, "distinct": res.Distinct, "contents": len(uniq), "wall_s": res.Wall.Seconds()})
	return uniq
}

// sample keeps every content of at most short atoms and a seeded sample of n longer ones
func sampleContents(all []*content, short, n int, rnd *rand.Rand) []*content {
	var out, long []*content
	for _, c := range all {
		if len(c.Atoms) <= short {
			out = append(out, c)
		} else {
			long = append(long, c)
		}
	}
	if n < 0 || n >= len(long) {
		return append(out, long...)
	}
	perm := rnd.Perm(len(long))[:n]
	sort.Ints(perm)
	for _, k := range perm {
		out = append(out, long[k])
	}
	return out
}

// itemsFor builds the file list of one loader
func itemsFor(r *core.Run, loader string, all []*content) []*dataItem {
	rnd := rand.New(rand.NewSource(r.Seed*131 + int64(len(loader))))
	var items []*dataItem
	add := func(name, ctx string, b []byte, units []int, spec bool, atoms []string) {
		ext := ".dat"
		if loader == "json" {
			ext = ".json"
		}
		it := &dataItem{Name: name, File: fmt.Sprintf("f%d%s", len(items), ext), Ctx: ctx, Units: units, Spec: spec, bytes: b, atoms: atoms}
		if it.Units == nil {
			it.Units = []int{}
		}
		items = append(items, it)
	}
	switch loader {
	case "text":
		for _, c := range sampleContents(all, 2, r.Pick(-1, 7000), rnd) {
			add(c.name(), "", toBytes(c.Bytes), c.Text, true, c.Atoms)
		}
	case "json":
		var js []*content
		for _, c := range all {
			if c.InJSON {
				js = append(js, c)
			}
		}
		doc := func(c *content, ctx string) []byte {
			src := toBytes(c.JSrc)
			switch ctx {
			case "val":
				return append(append([]byte(`{"a":"`), src...), []byte(`"}`)...)
			case "key":
				return append(append([]byte(`{"`), src...), []byte(`":1}`)...)
			}
			return append(append([]byte(`"`), src...), '"')
		}
		for _, c := range sampleContents(js, 2, r.Pick(-1, 7000), rnd) {
			add(c.name()+"@val", "val", doc(c, "val"), c.JText, true, c.Atoms)
		}
		for _, c := range sampleContents(js, 2, r.Pick(200, 1500), rnd) {
			add(c.name()+"@key", "key", doc(c, "key"), c.JText, true, c.Atoms)
		}
		for _, c := range sampleContents(js, 1, r.Pick(150, 1000), rnd) {
			add(c.name()+"@top", "top", doc(c, "top"), c.JText, true, c.Atoms)
		}
		for i, d := range jsonDocs() {
			add(fmt.Sprintf("doc%d", i), "doc", d, nil, false, nil)
		}
	default:
		// bytes loaders: what is embedded is a base64 / percent-encoded form or a copy of the file
		n := r.Pick(150, 2500)
		if loader == "dataurl" {
			n = r.Pick(400, 4000)
		}
		for _, c := range sampleContents(all, 2, n, rnd) {
			add(c.name(), "", toBytes(c.Bytes), nil, false, c.Atoms)
		}
	}
	return items
}

type dataCase struct {
	Loader   string `json:"loader"`
	Entry    string `json:"entry"` // "esm" (import default) | "cjs" (require)
	Format   string `json:"format"`
	Platform string `json:"platform"`
	Minify   bool   `json:"minify"`
	Charset  string `json:"charset"` // "ascii" (default) | "utf8"
	Target   string `json:"target"`  // "esnext" | "es2022" | "es2015" | "es5" | "notemplate" (esnext with supported: {template-literal: false})
}

var dataTargets = []string{"esnext", "es2022", "es2015", "es5", "notemplate"}

func (d dataCase) name() string {
	m := "plain"
	if d.Minify {
		m = "min"
	}
	return strings.Join([]string{d.Loader, d.Entry, d.Format, d.Platform, m, d.Charset, d.Target}, "-")
}

type dataRun struct {
	Name     string `json:"name"`
	Dir      string `json:"dir"`
	File     string `json:"file"`
	Format   string `json:"format"`
	Global   string `json:"global,omitempty"`
	Outdir   string `json:"outdir"`
	Loader   string `json:"loader"`
	Polyfill bool   `json:"polyfill"`
	Itemset  string `json:"itemset"`
	Subset   []int  `json:"subset,omitempty"` // indices into the item set (nil = all)
	dc       dataCase
}

type dataResult struct {
	Name    string  `json:"name"`
	Error   *string `json:"error"`
	Checked int     `json:"checked"`
	Bad     []struct {
		I    int    `json:"i"`
		Want string `json:"want"`
		Got  string `json:"got"`
	} `json:"bad"`
	Drift []struct {
		I    int    `json:"i"`
		Spec string `json:"spec"`
		Plat string `json:"platform"`
	} `json:"drift"`
}

type dataProject struct {
	loader string
	dir    string
	items  []*dataItem
}

func writeProject(r *core.Run, loader string, items []*dataItem) (*dataProject, error) {
	dir := filepath.Join(r.Scratch, "data", loader)
	if err := os.MkdirAll(dir, 0755); err != nil {
		return nil, err
	}
	for _, it := range items {
		if err := os.WriteFile(filepath.Join(dir, it.File), it.bytes, 0644); err != nil {
			return nil, err
		}
	}
	return &dataProject{loader: loader, dir: dir, items: items}, nil
}

// entrySource is the entry point that imports (or requires) the items idx and exports the values as an array
func entrySource(p *dataProject, entry string, idx []int) string {
	var sb strings.Builder
	if entry == "cjs" {
		sb.WriteString("module.exports = [\n")
		for _, i := range idx {
			fmt.Fprintf(&sb, "  require(\"./%s\"),\n", p.items[i].File)
		}
		sb.WriteString("];\n")
		return sb.String()
	}
	for _, i := range idx {
		fmt.Fprintf(&sb, "import v%d from \"./%s\";\n", i, p.items[i].File)
	}
	sb.WriteString("export default [")
	for _, i := range idx {
		fmt.Fprintf(&sb, "v%d,", i)
	}
	sb.WriteString("];\n")
	return sb.String()
}

// buildData builds one configuration over the items idx (nil = all) into outdir/<sub>
func buildData(p *dataProject, d dataCase, idx []int, sub string) (*dataRun, string) {
	subset := idx
	if idx == nil {
		idx = make([]int, len(p.items))
		for i := range idx {
			idx[i] = i
		}
	}
	outdir := filepath.Join("out", d.name(), sub)
	src := "entry.mjs"
	if d.Entry == "cjs" {
		src = "entry.cjs"
	}
	opts := api.BuildOptions{
		AbsWorkingDir: p.dir,
		Stdin:         &api.StdinOptions{Contents: entrySource(p, d.Entry, idx), ResolveDir: p.dir, Sourcefile: src, Loader: api.LoaderJS},
		Bundle:        true,
		Write:         true,
		Outdir:        outdir,
		LogLevel:      api.LogLevelSilent,
		Loader:        map[string]api.Loader{},
	}
	switch d.Loader {
	case "text":
		opts.Loader[".dat"] = api.LoaderText
	case "base64":
		opts.Loader[".dat"] = api.LoaderBase64
	case "binary":
		opts.Loader[".dat"] = api.LoaderBinary
	case "dataurl":
		opts.Loader[".dat"] = api.LoaderDataURL
	case "file":
		opts.Loader[".dat"] = api.LoaderFile
	case "json":
		opts.Loader[".json"] = api.LoaderJSON
	}
	run := &dataRun{Name: d.name() + "/" + sub, Dir: p.dir, Format: d.Format, Outdir: outdir, Loader: d.Loader,
		Polyfill: d.Target == "esnext" || d.Target == "notemplate", Itemset: d.Loader, Subset: subset, dc: d}
	switch d.Format {
	case "esm":
		opts.Format = api.FormatESModule
		opts.OutExtension = map[string]string{".js": ".mjs"}
		run.File = filepath.Join(outdir, "stdin.mjs")
	case "cjs":
		opts.Format = api.FormatCommonJS
		opts.OutExtension = map[string]string{".js": ".cjs"}
		run.File = filepath.Join(outdir, "stdin.cjs")
	case "iife":
		opts.Format = api.FormatIIFE
		opts.GlobalName = "D_" + strings.NewReplacer("-", "_", "/", "_").Replace(d.name()+"_"+sub)
		run.Global = opts.GlobalName
		run.File = filepath.Join(outdir, "stdin.js")
	}
	switch d.Platform {
	case "node":
		opts.Platform = api.PlatformNode
	case "browser":
		opts.Platform = api.PlatformBrowser
	case "neutral":
		opts.Platform = api.PlatformNeutral
	}
	switch d.Target {
	case "es2022":
		opts.Target = api.ES2022
	case "es2015":
		opts.Target = api.ES2015
	case "es5":
		opts.Target = api.ES5
	case "notemplate":
		opts.Supported = map[string]bool{"template-literal": false}
	}
	if d.Charset == "utf8" {
		opts.Charset = api.CharsetUTF8
	}
	if d.Minify {
		opts.MinifyWhitespace, opts.MinifyIdentifiers, opts.MinifySyntax = true, true, true
	}
	res := api.Build(opts)
	if len(res.Errors) > 0 {
		var msgs []string
		for i, e := range res.Errors {
			if i >= 3 {
				break
			}
			loc := ""
			if e.Location != nil {
				loc = e.Location.File + ": "
			}
			msgs = append(msgs, loc+e.Text)
		}
		return nil, strings.Join(msgs, "; ")
	}
	return run, ""
}

func dataKey(d dataCase) map[string]interface{} {
	return map[string]interface{}{"kind": "data", "loader": d.Loader, "entry": d.Entry, "format": d.Format, "platform": d.Platform, "minify": d.Minify, "charset": d.Charset, "target": d.Target}
}

// execRuns executes bundles in Node (chunks of runs side by side)
func execRuns(r *core.Run, projects map[string]*dataProject, runs []*dataRun) ([]dataResult, bool) {
	out := make([]dataResult, len(runs))
	const chunk = 12
	nchunks := (len(runs) + chunk - 1) / chunk
	failed := false
	var mu sync.Mutex
	core.Parallel(nchunks, 6, func(c int) {
		lo, hi := c*chunk, (c+1)*chunk
		if hi > len(runs) {
			hi = len(runs)
		}
		sets := map[string][]*dataItem{}
		for _, run := range runs[lo:hi] {
			sets[run.Itemset] = projects[run.Itemset].items
		}
		var part struct {
			Runs []dataResult `json:"runs"`
		}
		if err := nodex.Run(r, "run_data.js", map[string]interface{}{"itemsets": sets, "runs": runs[lo:hi]}, &part, 15*time.Minute, r.Scratch); err != nil || len(part.Runs) != hi-lo {
			r.Infra("data loaders: %v (%d results for %d runs)", err, len(part.Runs), hi-lo)
			mu.Lock()
			failed = true
			mu.Unlock()
			return
		}
		copy(out[lo:hi], part.Runs)
	})
	return out, !failed
}

func itemKey(d dataCase, it *dataItem) map[string]interface{} {
	key := dataKey(d)
	key["content"] = it.Name
	key["bytes"] = fmt.Sprintf("%x", it.bytes)
	if d.Loader == "json" && strings.Contains(string(it.bytes), `"__proto__":`) {
		key["json_proto_key"] = true // the document has an own property named __proto__
	}
	return key
}

// narrow finds the files that make a whole bundle fail to load: chunks of 48
// items first, then single items of the failing chunks
func narrow(r *core.Run, projects map[string]*dataProject, d dataCase, whole string) {
	p := projects[d.Loader]
	reported := 0
	report := func(it *dataItem, msg string) {
		key := itemKey(d, it)
		key["kind"] = "data-load"
		what := fmt.Sprintf("loader %s (%s): the bundle that imports the file %s (bytes %x) cannot be loaded: %s", d.Loader, d.name(), it.Name, it.bytes, msg)
		r.Violation(key, what, map[string]interface{}{"data_case": d, "content": it.Name, "atoms": it.atoms, "bytes_hex": fmt.Sprintf("%x", it.bytes), "what": what})
		reported++
	}
	level := func(groups [][]int, tag string) [][]int {
		var runs []*dataRun
		var kept [][]int
		for gi, g := range groups {
			run, berr := buildData(p, d, g, fmt.Sprintf("%s%d", tag, gi))
			if berr != "" {
				continue
			}
			runs = append(runs, run)
			kept = append(kept, g)
		}
		res, ok := execRuns(r, projects, runs)
		if !ok {
			return nil
		}
		var bad [][]int
		for i := range res {
			if res[i].Error != nil {
				bad = append(bad, kept[i])
			}
		}
		return bad
	}
	var groups [][]int
	for i := 0; i < len(p.items); i += 48 {
		var g []int
		for j := i; j < i+48 && j < len(p.items); j++ {
			g = append(g, j)
		}
		groups = append(groups, g)
	}
	bad := level(groups, "n")
	if len(bad) > 4 {
		bad = bad[:4]
	}
	var singles [][]int
	for _, g := range bad {
		for _, i := range g {
			singles = append(singles, []int{i})
		}
	}
	for _, g := range level(singles, "s") {
		if reported < 6 {
			report(p.items[g[0]], whole)
		}
	}
	if reported == 0 {
		what := fmt.Sprintf("data loader %s: %s", d.name(), whole)
		key := dataKey(d)
		key["kind"] = "data-load"
		r.Violation(key, what, map[string]interface{}{"data_case": d, "what": what})
	}
}

func runDataCases(r *core.Run, projects map[string]*dataProject, cases []dataCase) {
	built := make([]*dataRun, len(cases))
	berrs := make([]string, len(cases))
	core.Parallel(len(cases), 4, func(i int) {
		built[i], berrs[i] = buildData(projects[cases[i].Loader], cases[i], nil, "all")
	})
	var runs []*dataRun
	for i, d := range cases {
		if berrs[i] != "" {
			what := "esbuild rejects a project that only imports data files: " + berrs[i]
			key := dataKey(d)
			key["kind"] = "data-build"
			r.Violation(key, what, map[string]interface{}{"data_case": d, "what": what})
			continue
		}
		runs = append(runs, built[i])
	}
	results, ok := execRuns(r, projects, runs)
	if !ok {
		return
	}
	sampled := map[string]bool{}
	checked := 0
	byTarget, byCharset := map[string]int{}, map[string]int{}
	for i, res := range results {
		d := runs[i].dc
		items := projects[d.Loader].items
		byTarget[d.Target]++
		byCharset[d.Charset]++
		if res.Error != nil {
			narrow(r, projects, d, *res.Error)
			continue
		}
		for _, dr := range res.Drift {
			r.Drift("data loader %s file %s: DataLoad predicts %s, the platform decodes %s", d.Loader, items[dr.I].Name, dr.Spec, dr.Plat)
		}
		bad := map[int]bool{}
		for n, b := range res.Bad {
			bad[b.I] = true
			if n >= 8 {
				continue
			}
			it := items[b.I]
			key := itemKey(d, it)
			what := fmt.Sprintf("loader %s (%s): importing the file %s with bytes %x yields %s, expected %s", d.Loader, d.name(), it.Name, it.bytes, b.Got, b.Want)
			r.Violation(key, what, map[string]interface{}{"data_case": d, "content": it.Name, "atoms": it.atoms, "bytes_hex": fmt.Sprintf("%x", it.bytes), "want": b.Want, "got": b.Got, "what": what})
		}
		for j := range items {
			if !bad[j] {
				// a data import is non-trivial by the rule of A.6; distinct by (loader, content, how it is imported)
				r.Case("data:"+d.Loader+":"+d.Entry+":"+items[j].Name, true)
			}
		}
		checked += res.Checked
		r.AddTraces(1)
		if !sampled[d.Loader] {
			sampled[d.Loader] = true
			it := items[len(items)/2]
			r.Sample(map[string]interface{}{"data_loader": d.Loader, "config": d.name(), "files": len(items), "example_content": it.Name, "example_bytes_hex": fmt.Sprintf("%x", it.bytes)})
		}
	}
	r.Set("data_bundles_by_target", byTarget)
	r.Set("data_bundles_by_charset", byCharset)
	r.Logf("data loaders: %d bundles, %d imports checked", len(runs), checked)
}

func dataProjects(r *core.Run, loaders []string, all []*content) map[string]*dataProject {
	if all == nil {
		return nil
	}
	projects := map[string]*dataProject{}
	files := map[string]int{}
	for _, l := range loaders {
		p, err := writeProject(r, l, itemsFor(r, l, all))
		if err != nil {
			r.Infra("cannot write the data project: %v", err)
			return nil
		}
		projects[l] = p
		files[l] = len(p.items)
	}
	r.Set("data_files_by_loader", files)
	return projects
}

func runDataLoaders(r *core.Run, all []*content) {
	loaders := []string{"text", "json", "dataurl", "base64", "binary", "file"}
	projects := dataProjects(r, loaders, all)
	if projects == nil {
		return
	}
	platforms := []string{"node", "browser", "neutral"}
	var cases []dataCase
	for li, l := range loaders {
		stringy := l == "text" || l == "json" || l == "dataurl"
		if !r.Thorough() {
			// quick: every loader x entry x format once; within a loader the six
			// bundles go through all of minify x charset and all targets (seeded rotation)
			o1, o2, o3 := r.Rand.Intn(4), r.Rand.Intn(5), r.Rand.Intn(3)
			j := 0
			for _, entry := range []string{"esm", "cjs"} {
				for _, f := range []string{"esm", "cjs", "iife"} {
					mc := (j + o1) % 4
					cs := "ascii"
					if mc/2 == 1 {
						cs = "utf8"
					}
					cases = append(cases, dataCase{l, entry, f, platforms[(j+o3+li)%3], mc%2 == 1, cs, dataTargets[(j+o2)%5]})
					j++
				}
			}
			continue
		}
		// thorough: format x minify x target in full; the charset alternates so that
		// every (minify, target) pair meets both charsets (in different formats)
		j := 0
		for fi, f := range []string{"esm", "cjs", "iife"} {
			for mi, m := range []bool{false, true} {
				for ti, t := range dataTargets {
					cs := "ascii"
					if stringy && (fi+mi+ti)%2 == 1 {
						cs = "utf8"
					}
					if !stringy && (t == "es2015" || t == "notemplate") {
						continue // template literals only matter where a string is embedded
					}
					entry := "esm"
					if j%2 == 1 {
						entry = "cjs"
					}
					cases = append(cases, dataCase{l, entry, f, platforms[j%3], m, cs, t})
					j++
				}
			}
		}
	}
	runDataCases(r, projects, cases)
	r.Set("data_loader_bundles", len(cases))
}

func runDataCase(r *core.Run, d dataCase) {
	projects := dataProjects(r, []string{d.Loader}, enumerateContents(r))
	if projects == nil {
		return
	}
	runDataCases(r, projects, []dataCase{d})
}
