package c02

import "verifharness/core"

type dataCase struct {
	Loader string `json:"loader"`
}

func runDataLoaders(r *core.Run) {}
func runDataCase(r *core.Run, d dataCase) {}
