package c02

import (
	"encoding/base64"
	"fmt"
	"os"
	"path/filepath"
	"strings"
	"time"

	"github.com/evanw/esbuild/pkg/api"

	"verifharness/core"
	"verifharness/nodex"
)

// The data-loader clause: "the value obtained by importing a non-JavaScript
// file is exactly the file's bytes, text or JSON value".

// every byte string of length <= 3 over the alphabet of the property
func byteStrings() [][]byte {
	alphabet := [][]byte{{0x00}, {0x41}, {0x80}, {0xEF, 0xBB, 0xBF}, {0xFF}, {0x0A}}
	out := [][]byte{{}}
	level := [][]byte{{}}
	for n := 1; n <= 3; n++ {
		var next [][]byte
		for _, p := range level {
			for _, a := range alphabet {
				b := append(append([]byte{}, p...), a...)
				next = append(next, b)
			}
		}
		out = append(out, next...)
		level = next
	}
	return out
}

// valid JSON documents (the byte alphabet above contains none)
func jsonDocs() [][]byte {
	docs := []string{
		`null`, `true`, `false`, `0`, `-0`, `1e21`, `1.5`, `1e-7`, `0.1`, `9007199254740993`, `-1E+2`, `1e400`,
		`""`, `"A"`, `"\u0000"`, `"  "`, `"😀"`, `"\ud800"`, `"</script>"`, "\"é\"", `"\\\"\/\b\f\n\r\t"`, `"é"`,
		`[]`, `{}`, `[[],{}]`, `[1,[2,[3,[4]]]]`, ` [ 1 , 2 ] `, "\n{\n\t\"a\" : 1\n}\n",
		`{"a":1,"b":[true,null,"x"]}`, `{"__proto__":1}`, `{"__proto__":{"x":1}}`, `{"x":{"__proto__":null}}`,
		`{"default":1}`, `{"a-b":1,"":2,"0":3}`, `{"a":1,"a":2}`, `{"b":1,"a":2}`, `{"2":1,"1":2}`,
		`{"constructor":1,"toString":2,"hasOwnProperty":3}`, `{"await":1,"class":2,"var":3,"eval":4,"arguments":5}`,
		`{"é":1," ":2}`, `["__proto__"]`, `{"then":1}`, `{"exports":1,"module":2,"require":3}`,
		"\xef\xbb\xbf{\"bom\":1}",
	}
	var out [][]byte
	for _, d := range docs {
		out = append(out, []byte(d))
	}
	return out
}

type dataCase struct {
	Loader   string `json:"loader"`
	Entry    string `json:"entry"` // "esm" (import default) | "cjs" (require)
	Format   string `json:"format"`
	Platform string `json:"platform"`
	Minify   bool   `json:"minify"`
	Target   bool   `json:"target"` // es2022 target (otherwise esnext, with a Uint8Array.fromBase64 polyfill in the runner)
}

func (d dataCase) name() string {
	m, t := "plain", "esnext"
	if d.Minify {
		m = "min"
	}
	if d.Target {
		t = "es2022"
	}
	return strings.Join([]string{d.Loader, d.Entry, d.Format, d.Platform, m, t}, "-")
}

type dataRun struct {
	Name     string              `json:"name"`
	Dir      string              `json:"dir"`
	File     string              `json:"file"`
	Format   string              `json:"format"`
	Global   string              `json:"global,omitempty"`
	Outdir   string              `json:"outdir"`
	Loader   string              `json:"loader"`
	Polyfill bool                `json:"polyfill"`
	Items    []map[string]string `json:"items"`
	dc       dataCase
}

type dataResult struct {
	Name    string  `json:"name"`
	Error   *string `json:"error"`
	Checked int     `json:"checked"`
	Bad     []struct {
		I    int    `json:"i"`
		Want string `json:"want"`
		Got  string `json:"got"`
	} `json:"bad"`
}

func dataItems(loader string) [][]byte {
	if loader == "json" {
		return jsonDocs()
	}
	return byteStrings()
}

// prepareData writes the project of one loader and builds one configuration
func prepareData(r *core.Run, d dataCase) (*dataRun, string) {
	items := dataItems(d.Loader)
	dir := filepath.Join(r.Scratch, "data", d.Loader)
	ext := ".dat"
	if d.Loader == "json" {
		ext = ".json"
	}
	if _, err := os.Stat(filepath.Join(dir, "entry.mjs")); err != nil {
		os.MkdirAll(dir, 0755)
		var esm, cjs strings.Builder
		cjs.WriteString("module.exports = [\n")
		for i, b := range items {
			name := fmt.Sprintf("f%d%s", i, ext)
			os.WriteFile(filepath.Join(dir, name), b, 0644)
			fmt.Fprintf(&esm, "import v%d from \"./%s\";\n", i, name)
			fmt.Fprintf(&cjs, "  require(\"./%s\"),\n", name)
		}
		esm.WriteString("export default [")
		for i := range items {
			fmt.Fprintf(&esm, "v%d,", i)
		}
		esm.WriteString("];\n")
		cjs.WriteString("];\n")
		os.WriteFile(filepath.Join(dir, "entry.mjs"), []byte(esm.String()), 0644)
		os.WriteFile(filepath.Join(dir, "entry.cjs"), []byte(cjs.String()), 0644)
	}
	outdir := filepath.Join("out", d.name())
	opts := api.BuildOptions{
		AbsWorkingDir: dir,
		EntryPoints:   []string{"entry.mjs"},
		Bundle:        true,
		Write:         true,
		Outdir:        outdir,
		LogLevel:      api.LogLevelSilent,
		Loader:        map[string]api.Loader{},
	}
	if d.Entry == "cjs" {
		opts.EntryPoints = []string{"entry.cjs"}
	}
	switch d.Loader {
	case "text":
		opts.Loader[".dat"] = api.LoaderText
	case "base64":
		opts.Loader[".dat"] = api.LoaderBase64
	case "binary":
		opts.Loader[".dat"] = api.LoaderBinary
	case "dataurl":
		opts.Loader[".dat"] = api.LoaderDataURL
	case "file":
		opts.Loader[".dat"] = api.LoaderFile
	case "json":
		opts.Loader[".json"] = api.LoaderJSON
	}
	run := &dataRun{Name: d.name(), Dir: dir, Format: d.Format, Outdir: outdir, Loader: d.Loader, Polyfill: !d.Target, dc: d}
	switch d.Format {
	case "esm":
		opts.Format = api.FormatESModule
		opts.OutExtension = map[string]string{".js": ".mjs"}
		run.File = filepath.Join(outdir, "entry.mjs")
	case "cjs":
		opts.Format = api.FormatCommonJS
		opts.OutExtension = map[string]string{".js": ".cjs"}
		run.File = filepath.Join(outdir, "entry.cjs")
	case "iife":
		opts.Format = api.FormatIIFE
		opts.GlobalName = "D_" + strings.ReplaceAll(d.name(), "-", "_")
		run.Global = opts.GlobalName
		run.File = filepath.Join(outdir, "entry.js")
	}
	switch d.Platform {
	case "node":
		opts.Platform = api.PlatformNode
	case "browser":
		opts.Platform = api.PlatformBrowser
	case "neutral":
		opts.Platform = api.PlatformNeutral
	}
	if d.Target {
		opts.Target = api.ES2022
	}
	if d.Minify {
		opts.MinifyWhitespace, opts.MinifyIdentifiers, opts.MinifySyntax = true, true, true
	}
	res := api.Build(opts)
	if len(res.Errors) > 0 {
		var msgs []string
		for _, e := range res.Errors {
			loc := ""
			if e.Location != nil {
				loc = e.Location.File + ": "
			}
			msgs = append(msgs, loc+e.Text)
		}
		return nil, strings.Join(msgs, "; ")
	}
	for _, b := range items {
		run.Items = append(run.Items, map[string]string{"b64": base64.StdEncoding.EncodeToString(b)})
	}
	return run, ""
}

func dataKey(d dataCase) map[string]interface{} {
	return map[string]interface{}{"kind": "data", "loader": d.Loader, "entry": d.Entry, "format": d.Format, "platform": d.Platform, "minify": d.Minify, "target": d.Target}
}

func runDataCases(r *core.Run, cases []dataCase) {
	var runs []*dataRun
	for _, d := range cases {
		run, berr := prepareData(r, d)
		if berr != "" {
			what := "esbuild rejects a project that only imports data files: " + berr
			r.Violation(dataKey(d), what, map[string]interface{}{"data_case": d, "what": what})
			continue
		}
		runs = append(runs, run)
	}
	var out struct {
		Runs []dataResult `json:"runs"`
	}
	out.Runs = make([]dataResult, len(runs))
	const chunk = 24
	nchunks := (len(runs) + chunk - 1) / chunk
	failed := false
	core.Parallel(nchunks, 6, func(c int) {
		lo, hi := c*chunk, (c+1)*chunk
		if hi > len(runs) {
			hi = len(runs)
		}
		var part struct {
			Runs []dataResult `json:"runs"`
		}
		if err := nodex.Run(r, "run_data.js", map[string]interface{}{"runs": runs[lo:hi]}, &part, 10*time.Minute, r.Scratch); err != nil || len(part.Runs) != hi-lo {
			r.Infra("data loaders: %v (%d results for %d runs)", err, len(part.Runs), hi-lo)
			failed = true
			return
		}
		copy(out.Runs[lo:hi], part.Runs)
	})
	if failed {
		return
	}
	sampled := map[string]bool{}
	for i, res := range out.Runs {
		d := runs[i].dc
		items := dataItems(d.Loader)
		if res.Error != nil {
			what := fmt.Sprintf("data loader %s: %s", d.name(), *res.Error)
			r.Violation(dataKey(d), what, map[string]interface{}{"data_case": d, "what": what})
			continue
		}
		bad := map[int]bool{}
		for _, b := range res.Bad {
			bad[b.I] = true
			key := dataKey(d)
			key["bytes"] = fmt.Sprintf("%x", items[b.I])
			what := fmt.Sprintf("loader %s (%s): importing the file with bytes %x yields %s, expected %s", d.Loader, d.name(), items[b.I], b.Got, b.Want)
			r.Violation(key, what, map[string]interface{}{"data_case": d, "bytes_hex": fmt.Sprintf("%x", items[b.I]), "want": b.Want, "got": b.Got, "what": what})
		}
		for j := range items {
			if !bad[j] {
				// a data import is non-trivial by the rule of A.6; distinct by (loader, bytes, how it is imported)
				r.Case(fmt.Sprintf("data:%s:%s:%x", d.Loader, d.Entry, items[j]), true)
			}
		}
		r.AddTraces(1)
		if !sampled[d.Loader] {
			sampled[d.Loader] = true
			r.Sample(map[string]interface{}{"data_loader": d.Loader, "config": d.name(), "files": len(items), "example_bytes_hex": fmt.Sprintf("%x", items[len(items)/2])})
		}
	}
	r.Logf("data loaders: %d bundles, %d imports checked", len(runs), func() (n int) {
		for _, x := range out.Runs {
			n += x.Checked
		}
		return
	}())
}

func runDataLoaders(r *core.Run) {
	var cases []dataCase
	loaders := []string{"text", "base64", "binary", "dataurl", "file", "json"}
	platforms := []string{"node", "browser", "neutral"}
	for _, l := range loaders {
		for _, entry := range []string{"esm", "cjs"} {
			for _, f := range []string{"esm", "cjs", "iife"} {
				if !r.Thorough() {
					// quick: every loader x entry x format once; platform, minify and target seeded
					cases = append(cases, dataCase{l, entry, f, platforms[r.Rand.Intn(3)], r.Rand.Intn(2) == 0, r.Rand.Intn(2) == 0})
					continue
				}
				for _, p := range platforms {
					for _, m := range []bool{false, true} {
						for _, t := range []bool{true, false} {
							if !t && l != "binary" && l != "base64" {
								continue // the language target only matters for how bytes are embedded
							}
							cases = append(cases, dataCase{l, entry, f, p, m, t})
						}
					}
				}
			}
		}
	}
	runDataCases(r, cases)
	r.Set("data_loader_bundles", len(cases))
}

func runDataCase(r *core.Run, d dataCase) {
	runDataCases(r, []dataCase{d})
}
