// Package c13: accepted input yields valid, stable output; valid input is accepted.
//
// Spec: spec/JsGrammar.tla — a grammar-derivation machine (state = sentential
// form, action = one production applied to the leftmost non-terminal) for
// focused sub-grammars of ECMA-262 (ASI boundaries, regexp-vs-division,
// contextual keywords as identifiers, cover grammars, Annex B labelled
// functions and HTML-like comments, numeric separators, escapes in
// identifier names, class elements) and three structural sub-grammars
// (forhead: for / for-in / for-of / for-await heads with `in`-carrying and
// closure leaves in every clause; inop: the [In]-parameterised productions
// through every forwarding / resetting operator; scopes: every scope-opening
// statement kind x scope-bearing expressions in every clause position, two at
// a time).  TLC enumerates every terminal string of at most MaxLen tokens and
// derivation weight <= MaxCost together with the productions used.
// Binding (R): for each string and goal (script / module) V8 (compile only)
// and acorn decide validity of the INPUT; esbuild must accept what both
// accept; whatever esbuild accepts must compile in V8 and parse in acorn, and
// Transform(Transform(x)) must equal Transform(x) byte for byte.
package c13

import (
	"encoding/json"
	"fmt"
	"os"
	"sort"
	"strings"
	"sync"
	"time"

	"github.com/evanw/esbuild/pkg/api"

	"verifharness/core"
	"verifharness/nodex"
	"verifharness/tlcrun"
)

func init() { core.Register("C13", Run) }

type gramCase struct {
	Grammar   string   `json:"grammar"`
	Toks      []string `json:"toks"`
	Prods     []string `json:"prods"`
	Rare      []string `json:"rare"`
	Heavy     []string `json:"heavy"` // weighted productions used (scope-bearing / in-carrying alternatives, operators)
	Cost      int      `json:"cost"`  // summed weight of the derivation
	AllProds  []string `json:"allprods"`
	RareProds []string `json:"rareprods"`
}

type config struct {
	Goal     string `json:"goal"` // script | module
	MinifyWS bool   `json:"minify_whitespace"`
	Charset  string `json:"charset"`
}

func (c config) Name() string {
	mw := "pretty"
	if c.MinifyWS {
		mw = "minws"
	}
	return c.Goal + "/" + mw + "/" + c.Charset
}

func (c config) options() api.TransformOptions {
	o := api.TransformOptions{Loader: api.LoaderJS, MinifyWhitespace: c.MinifyWS, LogLevel: api.LogLevelSilent, Target: api.ESNext, Sourcefile: "in.js"}
	if c.Charset == "utf8" {
		o.Charset = api.CharsetUTF8
	} else {
		o.Charset = api.CharsetASCII
	}
	if c.Goal == "module" {
		o.Format = api.FormatESModule
	}
	return o
}

type pItem struct {
	Src  string `json:"src"`
	Kind string `json:"kind"`
	Want string `json:"want"`
	V8   bool   `json:"v8"`
}

type pRes struct {
	Acorn bool   `json:"acorn"`
	AErr  string `json:"aerr"`
	V8    bool   `json:"v8"`
	VErr  string `json:"verr"`
}

type parser struct {
	r     *core.Run
	mu    sync.Mutex
	index map[string]int
	items []pItem
	res   []pRes
}

func newParser(r *core.Run) *parser { return &parser{r: r, index: map[string]int{}} }

func (p *parser) add(src, kind string) int {
	k := kind + "\x00" + src
	p.mu.Lock()
	defer p.mu.Unlock()
	if i, ok := p.index[k]; ok {
		return i
	}
	p.items = append(p.items, pItem{Src: src, Kind: kind, Want: "valid", V8: true})
	p.index[k] = len(p.items) - 1
	return len(p.items) - 1
}

func (p *parser) run(batch, procs int) bool {
	n := len(p.items)
	p.res = make([]pRes, n)
	nb := (n + batch - 1) / batch
	ok := true
	var mu sync.Mutex
	core.Parallel(nb, procs, func(b int) {
		lo, hi := b*batch, (b+1)*batch
		if hi > n {
			hi = n
		}
		var out struct {
			Results []pRes `json:"results"`
		}
		err := nodex.Run(p.r, "acorn_parse.js", map[string]interface{}{"items": p.items[lo:hi]}, &out, 10*time.Minute, "", "--expose-internals", "--experimental-vm-modules", "--no-warnings", "--stack-size=4000")
		if err != nil || len(out.Results) != hi-lo {
			mu.Lock()
			ok = false
			mu.Unlock()
			p.r.Infra("acorn_parse batch %d failed: %v", b, err)
			return
		}
		copy(p.res[lo:hi], out.Results)
	})
	return ok
}

func (p *parser) valid(i int) bool { return p.res[i].Acorn && p.res[i].V8 }

func join(toks []string) string {
	var sb strings.Builder
	for i, t := range toks {
		if t == "<NL>" {
			sb.WriteString("\n")
			continue
		}
		if i > 0 && toks[i-1] != "<NL>" {
			sb.WriteString(" ")
		}
		sb.WriteString(t)
	}
	return sb.String()
}

// longest TLC runs first (the JVMs run side by side)
var grammars = []string{"forhead", "asi", "cover", "class", "scopes", "inop", "idents", "regexdiv", "annexb", "numsep", "escapes"}

// structural grammars: production names of the weighted alternatives become key fields ("p:<name>": true) so that a
// known finding can be identified by the construct and its clause position instead of by one string
var structural = map[string]bool{"forhead": true, "inop": true, "scopes": true}

// quick tier: seeded sub-sampling.  Every string of a small grammar and every string whose derivation weight is below the
// grammar's bound is evaluated; of the others (all strings of the three big lexical grammars, the maximum-weight strings of
// the structural grammars: two heavy alternatives / depth-2 nestings) a seeded fraction, always keeping at least one string
// per production.  The thorough tier evaluates everything.
var quickRate = map[string]float64{"asi": 0.3, "cover": 0.3, "class": 0.3, "forhead": 0.3, "scopes": 0.5, "inop": 0.6}

func subsample(r *core.Run, byText map[string]*gramCase, order []string) []string {
	maxCost := map[string]int{}
	for _, k := range order {
		c := byText[k]
		if c.Cost > maxCost[c.Grammar] {
			maxCost[c.Grammar] = c.Cost
		}
	}
	perm := r.Rand.Perm(len(order))
	covered := map[string]bool{}
	keep := make([]bool, len(order))
	for _, i := range perm {
		c := byText[order[i]]
		rate, sampled := quickRate[c.Grammar]
		take := !sampled || c.Cost < maxCost[c.Grammar] || r.Rand.Float64() < rate
		for _, pn := range c.Prods {
			if !covered[c.Grammar+":"+pn] {
				take = true
			}
		}
		if take {
			keep[i] = true
			for _, pn := range c.Prods {
				covered[c.Grammar+":"+pn] = true
			}
		}
	}
	var out []string
	for i, k := range order {
		if keep[i] {
			out = append(out, k)
		}
	}
	return out
}

func isASCII(s string) bool {
	for i := 0; i < len(s); i++ {
		if s[i] >= 0x80 {
			return false
		}
	}
	return true
}

func isPanic(msg string) bool {
	return strings.Contains(msg, "panic:") || strings.Contains(msg, "Internal error") || strings.Contains(msg, "Expected scope") ||
		strings.Contains(msg, "runtime error")
}

// Forms esbuild deliberately does not support although V8 accepts them (analysed at first occurrence; see
// the report).  A string is exempted from the "valid input is accepted" clause only if the esbuild error
// text matches one of these documented limitations.
var deliberate = []struct{ errSub, why string }{}

type outRef struct {
	cfg    int
	cf     config
	in     int // parser item: input validity for the goal
	err    string
	code   string
	out    int // parser item: output validity for the goal
	outAlt int // output parsed under the other goal (only used when the input is not valid for the goal)
	err2   string
	code2  string
}

type strEval struct {
	c    *gramCase
	src  string
	outs []outRef
}

func Run(r *core.Run) {
	if r.Replay != "" {
		data, err := os.ReadFile(r.Replay)
		var rec struct {
			Detail struct {
				Case   gramCase `json:"case"`
				Config config   `json:"config"`
			} `json:"detail"`
		}
		if err != nil || json.Unmarshal(data, &rec) != nil {
			r.Infra("cannot read replay file %s: %v", r.Replay, err)
			return
		}
		c := rec.Detail.Case
		evalStrings(r, map[string]*gramCase{"k": &c}, []string{"k"}, []config{rec.Detail.Config}, nil)
		return
	}
	r.Set("rule", "strings are the terminal strings derivable in the eleven sub-grammars of spec/JsGrammar.tla (<= MaxLen tokens, derivation weight <= MaxCost), enumerated exhaustively by TLC (state = sentential form + weight, action = production at the leftmost non-terminal); the thorough tier evaluates every string, the quick tier a VERIF_SEED-determined sub-sample (all strings of the small grammars and all strings below the weight bound, a fixed fraction of the rest, at least one string per production); a string is non-trivial iff its derivation uses >= 1 production marked rare (line terminator in an ASI-sensitive place, regexp/division ambiguity, contextual keyword as identifier, cover-grammar refinement, Annex B form, separator/escape form, class-element modifier/name combination, an `in`-carrying or scope-bearing alternative in a clause position, an [In]-forwarding/resetting operator, a scope-opening statement kind); distinct = distinct token sequences")
	r.Assume("validity of an input for a goal = V8 (vm.Script / vm.SourceTextModule, compile only) AND acorn 8.16 (ecmaVersion latest) both accept it; strings on which they disagree carry no acceptance requirement")
	r.Assume("script goal = no output format; module goal = format esm; clause 'output is valid for the requested kind' is applied to inputs that are valid for that goal; for inputs that are NOT valid for the goal but that esbuild accepts, the output must be valid for at least one goal")
	r.Assume("not generated (analysed at first occurrence): `await` used as an identifier at the top level of a file (esbuild parses every file as a potential ES module with top-level await and rejects it deliberately: js_parser.go 'Allow top-level await'); the `accessor` class-member modifier (esbuild implements the auto-accessor proposal, which Node 20's V8 and acorn 8.16 do not know, so there is no reference); top-level `this` under format=esm (esbuild treats the file as CommonJS and wraps it, a format conversion outside this property)")
	r.Assume("mutations of the repository's own test inputs are C16's subject and are not generated here")
	r.Assume("the structural grammars (forhead, inop, scopes) derive pure-ASCII programs, on which the charset option cannot act: they run under {pretty, minify-whitespace} x charset=ascii for each goal; the strings with an escaped astral identifier run under every selected configuration")
	r.Assume("programs are compiled, not executed: the console trace of input vs output is not compared (C02/C15 execute programs)")

	var cfgs []config
	for _, g := range []string{"script", "module"} {
		all := []config{{g, false, "ascii"}, {g, true, "ascii"}, {g, false, "utf8"}, {g, true, "utf8"}}
		if r.Thorough() {
			cfgs = append(cfgs, all...)
		} else {
			cfgs = append(cfgs, all[0], all[1+r.Rand.Intn(3)])
		}
	}
	names := []string{}
	for _, c := range cfgs {
		names = append(names, c.Name())
	}
	r.Set("configurations", names)

	// 1. TLC: derive the strings
	tier := "quick"
	if r.Thorough() {
		tier = "thorough"
	}
	var mu sync.Mutex
	var cases []gramCase
	allProds := map[string]map[string]bool{}
	grammars := grammars
	if only := os.Getenv("VERIF_C13_ONLY"); only != "" { // development aid: restrict the run to some sub-grammars
		grammars = strings.Split(only, ",")
		r.Assume("DEVELOPMENT RUN restricted to the sub-grammars " + only)
	}
	jvm := "-XX:TieredStopAtLevel=1 -XX:ParallelGCThreads=2 -XX:CICompilerCount=1"
	if r.Thorough() {
		jvm = "-XX:ParallelGCThreads=2"
	}
	core.Parallel(len(grammars), 8, func(i int) {
		g := grammars[i]
		var local []gramCase
		tlcrun.MustHold(r, tlcrun.Options{
			Module: "JsGrammar", Config: fmt.Sprintf("JsGrammar.%s.%s.cfg", g, tier), Workers: 1, TimeoutSec: r.Pick(1800, 3600), HeapGB: 4,
			// many short JVMs side by side: C1 only and two GC threads each (measured: 76 s -> 22 s CPU for forhead.quick)
			JavaOpts: jvm,
			OnCase: func(raw []byte) {
				var c gramCase
				if err := json.Unmarshal(raw, &c); err != nil {
					r.Infra("undecodable CASE: %v", err)
					return
				}
				local = append(local, c)
			},
		})
		mu.Lock()
		defer mu.Unlock()
		for _, c := range local {
			if len(c.AllProds) > 0 {
				m := map[string]bool{}
				for _, p := range c.AllProds {
					m[p] = false
				}
				allProds[g] = m
				continue
			}
			cases = append(cases, c)
		}
	})
	// de-duplicate by text (ambiguous derivations), keep the union of productions
	byText := map[string]*gramCase{}
	var order []string
	for i := range cases {
		c := &cases[i]
		k := c.Grammar + "\x00" + join(c.Toks)
		if old, ok := byText[k]; ok {
			old.Prods = append(old.Prods, c.Prods...)
			old.Rare = append(old.Rare, c.Rare...)
			old.Heavy = append(old.Heavy, c.Heavy...)
			continue
		}
		byText[k] = c
		order = append(order, k)
	}
	sort.Strings(order)
	r.Logf("TLC derived %d strings (%d distinct)", len(cases), len(order))
	if len(order) == 0 {
		r.Infra("no strings derived")
		return
	}

	derived := map[string]int{}
	for _, k := range order {
		derived[byText[k].Grammar]++
	}
	r.Set("strings_derived_per_grammar", derived)
	if !r.Thorough() {
		order = subsample(r, byText, order)
		r.Logf("quick tier: seeded sub-sample of %d strings", len(order))
	}

	evalStrings(r, byText, order, cfgs, allProds)
}

// 2. esbuild + reference parsers, 3. verdicts
func evalStrings(r *core.Run, byText map[string]*gramCase, order []string, cfgs []config, allProds map[string]map[string]bool) {
	p := newParser(r)
	evals := make([]strEval, len(order))
	core.Parallel(len(order), 8, func(i int) {
		c := byText[order[i]]
		ev := strEval{c: c, src: join(c.Toks)}
		// the structural grammars derive pure-ASCII programs (except the marked astral-identifier forms): the charset
		// setting cannot act on them, so they run under {pretty, minify-whitespace} x charset=ascii for each goal
		asciiStruct := structural[c.Grammar] && !strings.Contains(ev.src, "\\u") && isASCII(ev.src) && len(cfgs) > 1
		seen := map[string]bool{}
		for ci, cf := range cfgs {
			if asciiStruct {
				if cf.Charset == "utf8" {
					cf.Charset = "ascii"
					cf.MinifyWS = true
				}
				if seen[cf.Name()] {
					continue
				}
				seen[cf.Name()] = true
			}
			o := outRef{cfg: ci, cf: cf, out: -1, outAlt: -1}
			o.in = p.add(ev.src, cf.Goal)
			res := api.Transform(ev.src, cf.options())
			if len(res.Errors) > 0 {
				o.err = res.Errors[0].Text
			} else {
				o.code = string(res.Code)
				o.out = p.add(o.code, cf.Goal)
				other := "script"
				if cf.Goal == "script" {
					other = "module"
				}
				o.outAlt = p.add(o.code, other)
				res2 := api.Transform(o.code, cf.options())
				if len(res2.Errors) > 0 {
					o.err2 = res2.Errors[0].Text
				} else {
					o.code2 = string(res2.Code)
				}
			}
			ev.outs = append(ev.outs, o)
		}
		evals[i] = ev
	})
	r.Logf("%d strings x %d configurations -> %d texts for V8 + acorn", len(order), len(cfgs), len(p.items))
	if !p.run(5000, 8) {
		return
	}

	// 3. verdicts
	var nValid, nAccepted, nRejectedInvalid, nDisagree, nOut int
	perGrammar := map[string]int{}
	validPerGrammar := map[string]int{}
	for i := range evals {
		ev := &evals[i]
		c := ev.c
		for _, pn := range c.Prods {
			if m := allProds[c.Grammar]; m != nil {
				m[pn] = true
			}
		}
		r.Case(c.Grammar+":"+ev.src, len(c.Rare) > 0)
		perGrammar[c.Grammar]++
		anyValid := false
		if i%(len(evals)/6+1) == 0 {
			r.Sample(map[string]interface{}{"grammar": c.Grammar, "input": ev.src, "productions": c.Prods, "rare": c.Rare,
				"valid_script": p.valid(ev.outs[0].in), "esbuild_error": ev.outs[0].err, "output": ev.outs[0].code})
		}
		for _, o := range ev.outs {
			cf := o.cf
			in := &p.res[o.in]
			inValid := in.Acorn && in.V8
			if in.Acorn != in.V8 {
				nDisagree++
			}
			key := map[string]interface{}{"grammar": c.Grammar, "input": ev.src, "config": cf.Name(), "error": "", "output_error": ""}
			if structural[c.Grammar] {
				for _, pn := range c.Prods {
					key["p:"+pn] = true
				}
			}
			detail := map[string]interface{}{"case": c, "input": ev.src, "config": cf, "input_valid_acorn": in.Acorn, "input_valid_v8": in.V8,
				"acorn_error": in.AErr, "v8_error": in.VErr}
			if inValid {
				anyValid = true
				nValid++
			}
			if o.err != "" {
				if !inValid {
					nRejectedInvalid++
					if isPanic(o.err) {
						r.Inc("panics_on_inputs_the_references_reject", 1)
					}
					continue
				}
				exempt := false
				for _, d := range deliberate {
					if strings.Contains(o.err, d.errSub) {
						exempt = true
					}
				}
				if exempt {
					r.Inc("deliberately_unsupported_inputs", 1)
					continue
				}
				key["check"] = "accepts-valid-input"
				key["error"] = o.err
				detail["esbuild_error"] = o.err
				how := "rejects"
				if isPanic(o.err) {
					// an internal failure (scope stack mismatch between the parse and visit passes, nil dereference ...) reported as a
					// build error: a rejection of valid input; the message carries addresses, so the key gets a stable text
					key["error"] = "internal error (panic)"
					how = "fails with an internal error on"
				}
				r.Violation(key, fmt.Sprintf("esbuild %s a program that V8 and acorn accept as %s: %q: %s", how, cf.Goal, ev.src, o.err), detail)
				continue
			}
			nAccepted++
			nOut++
			detail["output"] = o.code
			out := &p.res[o.out]
			outValid := out.Acorn && out.V8
			if !outValid {
				alt := &p.res[o.outAlt]
				if inValid || !(alt.Acorn && alt.V8) {
					key["check"] = "output-valid"
					// signature of the failure: V8's message for the script goal, or for the module goal when the
					// text has import/export (or is only invalid as a module)
					errS, errM := out.VErr, alt.VErr
					if cf.Goal == "module" {
						errS, errM = alt.VErr, out.VErr
					}
					sig := errS
					if errS == "" || strings.HasPrefix(errS, "Cannot use import statement") || strings.Contains(errS, "'export'") {
						sig = errM
					}
					key["output_error"] = sig
					detail["output_acorn_error"], detail["output_v8_error"] = out.AErr, out.VErr
					r.Violation(key, fmt.Sprintf("esbuild accepted %q but its output is not a valid %s: %q (acorn: %s; v8: %s)", ev.src, cf.Goal, o.code, out.AErr, out.VErr), detail)
					continue
				}
			}
			if o.err2 != "" {
				key["check"] = "fixed-point"
				key["error"] = o.err2
				detail["second_error"] = o.err2
				r.Violation(key, fmt.Sprintf("esbuild rejects its own output: %q -> %q: %s", ev.src, o.code, o.err2), detail)
				continue
			}
			if o.code2 != o.code {
				key["check"] = "fixed-point"
				detail["second_output"] = o.code2
				r.Violation(key, fmt.Sprintf("output is not a fixed point: %q -> %q -> %q", ev.src, o.code, o.code2), detail)
				continue
			}
		}
		if anyValid {
			validPerGrammar[c.Grammar]++
		}
	}
	r.AddTraces(int64(nOut))
	r.Set("strings_per_grammar", perGrammar)
	r.Set("strings_valid_for_some_goal_per_grammar", validPerGrammar)
	r.Set("input_config_pairs_valid", nValid)
	r.Set("input_config_pairs_accepted_by_esbuild", nAccepted)
	r.Set("input_config_pairs_invalid_and_rejected", nRejectedInvalid)
	r.Set("input_config_pairs_where_v8_and_acorn_disagree", nDisagree)
	// per-production coverage
	total, covered := 0, 0
	uncovered := []string{}
	for g, m := range allProds {
		for pn, hit := range m {
			total++
			if hit {
				covered++
			} else {
				uncovered = append(uncovered, g+":"+pn)
			}
		}
	}
	sort.Strings(uncovered)
	r.Set("productions_total", total)
	r.Set("productions_covered", covered)
	r.Set("productions_uncovered", uncovered)
	if allProds != nil && covered < total {
		r.Infra("spec non-vacuity: %d productions never used in an exported string: %v", total-covered, uncovered)
	}
}
