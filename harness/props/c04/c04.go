// Package c04: tree shaking removes only code whose removal is unobservable.
//
// Spec: Shake.tla (the liveness design: least fixed point of markFileLive /
// markPartLive over parts, dependencies, import records and sideEffects
// annotations; LiveClosed, EffectsKept, NoDanglingUse, AnnotationMonotone
// model-checked on a bounded graph family in ShakeMC.tla), ShakeGen.tla (the
// form table, neutral contexts and graph shapes as spec data, with the probe
// events that must survive / may vanish computed from the abstract graph),
// ShakeState.tla (the same invariants + classifier soundness + the trace
// relation evaluated by TLC on records of real builds).
//
// Binding: (S) the link.done projection of every build (IsLive and
// CanBeRemovedIfUnused per part, dependencies, import records) is validated
// against ShakeState.tla; the sharpest check is the soundness of the purity
// classifier against the native ground truth of each statement.  (R) the
// native module graph, the bundle with tree shaking on, off and default are
// executed in Node (node/run_shake.js) and the probe traces compared.
package c04

import (
	"encoding/json"
	"fmt"
	"os"
	"path/filepath"
	"regexp"
	"sort"
	"strconv"
	"strings"
	"sync"
	"time"

	"github.com/evanw/esbuild/pkg/api"

	"verifharness/core"
	"verifharness/nodex"
	"verifharness/tlcrun"
)

// ---- records exported by ShakeGen.tla

type stmtRec struct {
	Form      string `json:"form"`
	Syn       string `json:"syn"`
	Label     string `json:"label"`
	Outer     string `json:"outer"`
	Inner     string `json:"inner"`
	Text      string `json:"text"`
	Truth     string `json:"truth"`
	Thr       bool   `json:"thr"`
	FormTruth string `json:"formTruth"`
}

type shapeFile struct {
	Path string `json:"path"`
	Text string `json:"text"`
}

type shapeDims struct {
	Rk   string `json:"rk"`
	Se   string `json:"se"`
	Wrap string `json:"wrap"`
	Use  bool   `json:"use"`
}

type shapeRec struct {
	ID          string      `json:"id"`
	SlotFile    string      `json:"slotFile"`
	Paths       []string    `json:"paths"`
	Files       []shapeFile `json:"files"`
	Annotated   []string    `json:"annotated"`
	Cjs         []string    `json:"cjs"`
	ReadExports bool        `json:"readExports"`
	Dims        shapeDims   `json:"dims"`
}

// the global the exports of an iife bundle are assigned to (re-export family only)
const globalName = "__c04exports"

type graphRec struct {
	Shape     string   `json:"shape"`
	Truth     string   `json:"truth"`
	IgnoreAnn bool     `json:"ignoreAnn"`
	MustKeep  []string `json:"mustKeep"`
	MayVanish []string `json:"mayVanish"`
	Native    []string `json:"native"`
	AnnKeep   bool     `json:"annKeep"`
	SlotKept  bool     `json:"slotKept"`
	// re-export family: the model's verdict on its own graph, the wrap kind per file, the entry's export names
	ExportsInit bool     `json:"exportsInit"`
	Wrap        []string `json:"wrap"`
	ExportNames []string `json:"exportNames"`
}

// ---- one scenario and its builds

type scenario struct {
	Stmt      *stmtRec  `json:"stmt"`
	Shape     *shapeRec `json:"-"`
	ShapeID   string    `json:"shape"`
	Format    string    `json:"format"`
	Minify    bool      `json:"minify"`
	IgnoreAnn bool      `json:"ignoreAnn"`
	Modes     []string  `json:"modes"`
}

func (s *scenario) id() string {
	return fmt.Sprintf("%s/%s/%s/%s/%s/min%v/ign%v", s.Stmt.Form, s.Stmt.Outer, s.Stmt.Inner, s.ShapeID, s.Format, s.Minify, s.IgnoreAnn)
}

type build struct {
	mode   string
	ok     bool
	errs   []string
	code   string
	link   map[string]interface{}
	root   string
	hasLnk bool
}

type caseRun struct {
	idx    int
	scen   *scenario
	text   string            // the statement with the probe holes filled
	files  map[string]string // JS module texts (native graph)
	builds []*build
	node   *nodeResult
}

// ---- node runner protocol

type nodeBundle struct {
	Name   string `json:"name"`
	Format string `json:"format"`
	Code   string `json:"code"`
}
type nodeCase struct {
	ID          string            `json:"id"`
	Alone       string            `json:"alone"`
	Files       map[string]string `json:"files"`
	Entry       string            `json:"entry"`
	Cjs         []string          `json:"cjs,omitempty"`
	ReadExports bool              `json:"readExports,omitempty"`
	GlobalName  string            `json:"globalName,omitempty"`
	Bundles     []nodeBundle      `json:"bundles"`
}
type nodeTrace struct {
	Trace   []string `json:"trace"`
	Err     string   `json:"err"`
	Timeout bool     `json:"timeout"`
	Exports []string `json:"exports"` // nil = not observed
}
type nodeBundleResult struct {
	Name       string   `json:"name"`
	Trace      []string `json:"trace"`
	Err        string   `json:"err"`
	Dangling   []string `json:"dangling"`
	Scanned    bool     `json:"scanned"`
	ParseError string   `json:"parseError"`
	Timeout    bool     `json:"timeout"`
	Exports    []string `json:"exports"` // nil = not observed
}
type nodeResult struct {
	ID        string             `json:"id"`
	Alone     *nodeTrace         `json:"alone"`
	Native    *nodeTrace         `json:"native"`
	InputFree []string           `json:"inputFree"`
	Bundles   []nodeBundleResult `json:"bundles"`
	Fatal     string             `json:"fatal"`
}

// ---- records validated by ShakeState.tla

type partOut struct {
	I     int     `json:"i"`
	Live  bool    `json:"live"`
	Rem   bool    `json:"rem"`
	Force bool    `json:"force"`
	Deps  [][]int `json:"deps"`
	Srecs []int   `json:"srecs"`
}
type expOut struct {
	Alias     string  `json:"alias"`
	File      int     `json:"file"`
	Decl      [][]int `json:"decl"`
	ReExports [][]int `json:"reExports"`
}
type fileOut struct {
	ID        int       `json:"id"`
	Path      string    `json:"path"`
	Live      bool      `json:"live"`
	Entry     bool      `json:"entry"`
	SeFree    bool      `json:"seFree"`
	Annotated bool      `json:"annotated"`
	Wrap      string    `json:"wrap"`
	Exps      []expOut  `json:"exps"` // what an entry point exports: resolved file, declaring parts, re-export statements passed
	Parts     []partOut `json:"parts"`
}
type slotOut struct {
	Present bool  `json:"present"`
	File    int   `json:"file"`
	Parts   []int `json:"parts"`
}
type record struct {
	ID         int       `json:"id"`
	Case       string    `json:"case"`
	Mode       string    `json:"mode"`
	Linked     bool      `json:"linked"`
	Built      bool      `json:"built"`
	Ts         bool      `json:"ts"`
	IgnoreAnn  bool      `json:"ignoreAnn"`
	Files      []fileOut `json:"files"`
	Slot       slotOut   `json:"slot"`
	Truth      string    `json:"truth"`
	RawTruth   string    `json:"rawTruth"`
	SpecTruth  string    `json:"specTruth"`
	SpecThr    bool      `json:"specThr"`
	AloneThrew bool      `json:"aloneThrew"`
	Nat        []string  `json:"nat"`
	NatId      []string  `json:"natId"`
	NatThrew   bool      `json:"natThrew"`
	Bun        []string  `json:"bun"`
	MayVanish  []string  `json:"mayVanish"`
	Predicted  []string  `json:"predicted"`
	Rskip      bool      `json:"rskip"`
	Dangling   []string  `json:"dangling"`
	NatX       []string  `json:"natX"` // exports of the entry point read after loading: native graph / bundle
	BunX       []string  `json:"bunX"`
	Xcmp       bool      `json:"xcmp"` // both observed
	cr         *caseRun
	b          *build
}

var reP = regexp.MustCompile(`\bP\(\)`)
var reA = regexp.MustCompile(`\bA\(`)
var reSimStates = regexp.MustCompile(`The number of states generated: (\d+)`)

func fill(text string) string {
	text = reP.ReplaceAllString(text, "P('F')")
	// an annotated probe: A(args) -> PA(args), a global that records "F.ann"
	return reA.ReplaceAllString(text, "PA(")
}

func hasAnnotation(text string) bool {
	return strings.Contains(text, "PU(") || strings.Contains(text, "PA(") || strings.Contains(text, "__PURE__") || strings.Contains(text, "__NO_SIDE_EFFECTS__")
}

func eventID(ev string) string {
	if strings.HasPrefix(ev, "threw:") {
		return "F"
	}
	if i := strings.Index(ev, ":"); i >= 0 {
		return ev[:i]
	}
	return ev
}

func threw(tr []string) bool {
	for _, e := range tr {
		if strings.HasPrefix(e, "threw:") || strings.HasPrefix(e, "e.catch:") {
			return true
		}
	}
	return false
}

// ground truth class of a statement from its native run alone
func truthOf(tr []string) string {
	ann := false
	for _, e := range tr {
		if e == "F.ann" {
			ann = true
			continue
		}
		return "yes"
	}
	if ann {
		return "ann"
	}
	return "no"
}

// ---- link.done routing

var linkMu sync.Mutex
var linkSink = map[string]map[string]interface{}{}

func installLinkProc() {
	api.VerifSetProc("link.done", func(data interface{}) {
		m, ok := data.(map[string]interface{})
		if !ok {
			return
		}
		cwd, _ := m["cwd"].(string)
		linkMu.Lock()
		linkSink[cwd] = m
		linkMu.Unlock()
	})
}

func takeLink(cwd string) map[string]interface{} {
	linkMu.Lock()
	defer linkMu.Unlock()
	m := linkSink[cwd]
	delete(linkSink, cwd)
	return m
}

func formatOf(s string) api.Format {
	switch s {
	case "cjs":
		return api.FormatCommonJS
	case "iife":
		return api.FormatIIFE
	}
	return api.FormatESModule
}

func runBuilds(r *core.Run, cr *caseRun) {
	s := cr.scen
	root0 := filepath.Join(r.Scratch, fmt.Sprintf("c%d", cr.idx))
	os.MkdirAll(root0, 0755)
	root, err := filepath.EvalSymlinks(root0)
	if err != nil {
		root = root0
	}
	defer os.RemoveAll(root0)
	files := map[string]string{}
	cr.files = map[string]string{}
	for _, f := range s.Shape.Files {
		t := strings.ReplaceAll(f.Text, "@S@", cr.text)
		files[f.Path] = t
		if strings.HasSuffix(f.Path, ".js") {
			cr.files[f.Path] = t
		}
	}
	core.WriteTree(root, files)
	for _, mode := range s.Modes {
		opts := api.BuildOptions{
			AbsWorkingDir:     root,
			EntryPoints:       []string{"entry.js"},
			Outfile:           "out.js",
			Bundle:            true,
			Write:             false,
			Format:            formatOf(s.Format),
			MinifySyntax:      s.Minify,
			MinifyWhitespace:  s.Minify,
			MinifyIdentifiers: s.Minify,
			IgnoreAnnotations: s.IgnoreAnn,
			Pure:              []string{"PU"},
			LogLevel:          api.LogLevelSilent,
		}
		if s.Shape.ReadExports && s.Format == "iife" {
			opts.GlobalName = globalName
		}
		switch mode {
		case "true":
			opts.TreeShaking = api.TreeShakingTrue
		case "false":
			opts.TreeShaking = api.TreeShakingFalse
		}
		res := api.Build(opts)
		b := &build{mode: mode, root: root}
		b.link = takeLink(root)
		b.hasLnk = b.link != nil
		for _, e := range res.Errors {
			b.errs = append(b.errs, e.Text)
		}
		if len(res.Errors) == 0 && len(res.OutputFiles) == 1 {
			b.ok = true
			b.code = string(res.OutputFiles[0].Contents)
		}
		cr.builds = append(cr.builds, b)
	}
}

func asInt(v interface{}) int {
	switch x := v.(type) {
	case int:
		return x
	case int64:
		return int(x)
	case uint32:
		return int(x)
	case float64:
		return int(x)
	}
	return -1
}

// project the link.done data onto the record validated by ShakeState.tla
func project(rc *record, link map[string]interface{}, root string, shape *shapeRec) {
	annotated := map[string]bool{}
	for _, p := range shape.Annotated {
		annotated[p] = true
	}
	filesIn, _ := link["files"].([]interface{})
	inRecord := map[int]bool{}
	type fin struct {
		m   map[string]interface{}
		rel string
	}
	var keep []fin
	for _, fv := range filesIn {
		f, _ := fv.(map[string]interface{})
		if f == nil || f["kind"] != "js" {
			continue
		}
		path, _ := f["path"].(string)
		if !strings.HasPrefix(path, root+string(filepath.Separator)) {
			continue // the runtime
		}
		rel, _ := filepath.Rel(root, path)
		keep = append(keep, fin{f, filepath.ToSlash(rel)})
		inRecord[asInt(f["idx"])] = true
	}
	rc.Ts, _ = link["treeShaking"].(bool)
	for _, k := range keep {
		f := k.m
		fo := fileOut{ID: asInt(f["idx"]), Path: k.rel, Annotated: annotated[k.rel], Parts: []partOut{}, Exps: []expOut{}, Wrap: "none"}
		if w, ok := f["wrap"].(string); ok {
			fo.Wrap = w
		}
		pairs := func(v interface{}) [][]int {
			out := [][]int{}
			if xs, ok := v.([]interface{}); ok {
				for _, x := range xs {
					if d, ok := x.([]int); ok && len(d) == 2 && inRecord[d[0]] {
						out = append(out, []int{d[0], d[1]})
					}
				}
			}
			return out
		}
		if xs, ok := f["entryExports"].([]interface{}); ok {
			for _, xv := range xs {
				x, _ := xv.(map[string]interface{})
				if x == nil || !inRecord[asInt(x["file"])] {
					continue
				}
				alias, _ := x["alias"].(string)
				fo.Exps = append(fo.Exps, expOut{Alias: alias, File: asInt(x["file"]), Decl: pairs(x["decl"]), ReExports: pairs(x["reExports"])})
			}
		}
		fo.Live, _ = f["isLive"].(bool)
		fo.Entry, _ = f["isEntry"].(bool)
		fo.SeFree, _ = f["sideEffectsFree"].(bool)
		recs, _ := f["records"].([]interface{})
		parts, _ := f["parts"].([]interface{})
		before, after := -1, -1
		for _, pv := range parts {
			p, _ := pv.(map[string]interface{})
			po := partOut{I: asInt(p["i"]), Deps: [][]int{}, Srecs: []int{}}
			po.Live, _ = p["isLive"].(bool)
			po.Rem, _ = p["canBeRemovedIfUnused"].(bool)
			po.Force, _ = p["forceTreeShaking"].(bool)
			if deps, ok := p["deps"].([]interface{}); ok {
				for _, dv := range deps {
					if d, ok := dv.([]int); ok && len(d) == 2 && inRecord[d[0]] {
						po.Deps = append(po.Deps, []int{d[0], d[1]})
					}
				}
			}
			if ris, ok := p["records"].([]int); ok {
				for _, ri := range ris {
					if ri < 0 || ri >= len(recs) {
						continue
					}
					rm, _ := recs[ri].(map[string]interface{})
					if asInt(rm["kind"]) == 1 { // ast.ImportStmt
						if t := asInt(rm["target"]); t >= 0 && inRecord[t] {
							po.Srecs = append(po.Srecs, t)
						}
					}
				}
			}
			if names, ok := p["declared"].([]string); ok {
				for _, n := range names {
					if n == "before" && before < 0 {
						before = po.I
					}
					if n == "after" && after < 0 {
						after = po.I
					}
				}
			}
			fo.Parts = append(fo.Parts, po)
		}
		if k.rel == shape.SlotFile {
			rc.Slot.File = fo.ID
			if before >= 0 && after >= 0 {
				rc.Slot.Present = true
				if before == after {
					rc.Slot.Parts = []int{before}
				} else {
					for i := before + 1; i < after; i++ {
						rc.Slot.Parts = append(rc.Slot.Parts, i)
					}
				}
			}
		}
		rc.Files = append(rc.Files, fo)
	}
	rc.Linked = len(rc.Files) > 0
}

type verdict struct {
	I           int      `json:"i"`
	Failing     []string `json:"failing"`
	Drift       []string `json:"drift"`
	Transcribed bool     `json:"transcribed"`
}

type stats struct {
	mu             sync.Mutex
	notTranscribed int
	driftKinds     map[string]int
	violByInv      map[string]int
}

func validate(r *core.Run, recs []*record, st *stats) {
	var sb strings.Builder
	for _, rc := range recs {
		b, _ := json.Marshal(rc)
		sb.Write(b)
		sb.WriteByte('\n')
	}
	var verdicts []verdict
	res, err := tlcrun.Run(r, tlcrun.Options{Module: "ShakeState", Config: "ShakeState.cfg", Workers: 1, TimeoutSec: 1200,
		Files: map[string]string{"c04records.ndjson": sb.String()},
		OnCase: func(raw []byte) {
			var v verdict
			if json.Unmarshal(raw, &v) == nil {
				verdicts = append(verdicts, v)
			}
		}})
	if err != nil {
		r.Infra("state validation failed to run: %v", err)
		return
	}
	if res.Violated != "" || len(verdicts) != len(recs) {
		r.Infra("state validation incomplete: %d verdicts for %d records (violated=%q)\n%s", len(verdicts), len(recs), res.Violated, res.Output)
		return
	}
	r.AddTraces(int64(len(recs)))
	for _, v := range verdicts {
		if v.I < 1 || v.I > len(recs) {
			continue
		}
		rc := recs[v.I-1]
		s := rc.cr.scen
		st.mu.Lock()
		if !v.Transcribed {
			st.notTranscribed++
		}
		st.mu.Unlock()
		if len(v.Drift) > 0 {
			// spec table vs native reference disagree: excluded from the verdict
			for _, d := range v.Drift {
				st.mu.Lock()
				st.driftKinds[d]++
				st.mu.Unlock()
			}
			r.Drift("%s mode=%s: spec vs native disagree on %v (spec truth %s thr %v predicted %v; native alone %s threw %v; native graph %v)",
				s.id(), rc.Mode, v.Drift, rc.SpecTruth, rc.SpecThr, rc.Predicted, rc.RawTruth, rc.AloneThrew, rc.Nat)
			continue
		}
		for _, inv := range v.Failing {
			st.mu.Lock()
			st.violByInv[inv]++
			st.mu.Unlock()
			if inv == "ExportDepsLive" {
				// the design keeps EVERY declaring part and re-export statement of an entry export live; a dead one that
				// initialises nothing is harmless: observed and counted, the verdict is ExportsInitialised / the traces
				r.Logf("design deviation (not a verdict): %s mode=%s: a re-export statement / declaring part of an entry export is not live", s.id(), rc.Mode)
				continue
			}
			key := map[string]interface{}{"invariant": inv, "form": s.Stmt.Form, "outer": s.Stmt.Outer, "inner": s.Stmt.Inner,
				"shape": s.ShapeID, "format": s.Format, "minify": s.Minify, "ignoreAnn": s.IgnoreAnn, "mode": rc.Mode}
			r.Violation(key,
				fmt.Sprintf("real build violates %s: statement `%s` (ground truth %s) in shape %s, treeShaking=%s format=%s minify=%v ignoreAnnotations=%v: slot parts %v; native %v; bundle %v; mayVanish %v; dangling %v",
					inv, rc.cr.text, rc.Truth, s.ShapeID, rc.Mode, s.Format, s.Minify, s.IgnoreAnn, rc.Slot.Parts, rc.Nat, rc.Bun, rc.MayVanish, rc.Dangling),
				map[string]interface{}{"case": s, "statement": rc.cr.text, "files": rc.cr.files, "record": rc, "output": rc.b.code})
		}
	}
}

func contains(xs []string, x string) bool {
	for _, y := range xs {
		if y == x {
			return true
		}
	}
	return false
}

func Run(r *core.Run) {
	r.Assume("the global environment is a standard ECMAScript realm (fresh Node vm context): the known globals of internal/config/globals.go exist and have no getters; GX does not exist; GP is a callable Proxy whose traps are observable")
	r.Assume("excluded at generation: TDZ-dependent reads, direct eval, with, getters on imported CommonJS namespaces, platform globals that are absent in a bare realm (window, document, ...)")
	r.Assume("with annotations the must-keep set is computed for tree shaking ON with the ideal sound classifier (Shake.tla MustKeepParts); a sideEffects:false file that is only passed through by a re-export may vanish")
	r.Assume("throwing statements whose removal an annotation licenses are not compared end to end (the rest of the trace depends on the throw)")

	// ---- design: TLC on the bounded graph family (started after the scenario export, runs concurrently with the replay)
	var designWG sync.WaitGroup
	startDesign := func() {
		designWG.Add(3)
		cfg := "Shake.quick.cfg"
		if r.Thorough() {
			cfg = "Shake.thorough.cfg"
		}
		go func() {
			defer designWG.Done()
			tlcrun.MustHold(r, tlcrun.Options{Module: "ShakeMC", Config: cfg, Workers: r.Pick(3, 4), TimeoutSec: r.Pick(600, 2400)})
		}()
		go func() {
			defer designWG.Done()
			res := tlcrun.MustHold(r, tlcrun.Options{Module: "ShakeMC", Config: "Shake.sim.cfg", Workers: r.Pick(1, 4), TimeoutSec: r.Pick(600, 2400),
				Simulate: fmt.Sprintf("num=%d", r.Pick(150, 600)), Depth: 20, Seed: r.Seed})
			if res != nil {
				// simulation mode reports its state count differently
				if m := reSimStates.FindStringSubmatch(res.Output); m != nil {
					n, _ := strconv.ParseInt(m[1], 10, 64)
					r.AddStates(n, n)
					r.Set("simulated_states", n)
				}
			}
		}()
		// necessity of every edge kind of scanImportsAndExports step 6 (useDecl, usePass, entryDecl, entryPass,
		// entryPassSelf, wrapUse, lazyFile): the mutant of the dependency construction that leaves the kind out must
		// break a semantic invariant on some graph of the family (the failing graphs are exported, never verdicts)
		var necMu sync.Mutex
		necessity := map[string]int{}
		var necWG sync.WaitGroup
		dropCfg := "Shake.dropq.cfg"
		if r.Thorough() {
			dropCfg = "Shake.drop.cfg"
		}
		for _, cfg := range []string{dropCfg, "Shake.drop3.cfg"} {
			designWG.Add(1)
			necWG.Add(1)
			go func(cfg string) {
				defer designWG.Done()
				defer necWG.Done()
				tlcrun.MustHold(r, tlcrun.Options{Module: "ShakeMC", Config: cfg, Workers: 2, TimeoutSec: r.Pick(900, 2400), OnCase: func(raw []byte) {
					var c struct {
						Rec   string   `json:"rec"`
						Kinds []string `json:"kinds"`
					}
					if json.Unmarshal(raw, &c) != nil || c.Rec != "nec" {
						return
					}
					necMu.Lock()
					for _, k := range c.Kinds {
						necessity[k]++
					}
					necMu.Unlock()
				}})
			}(cfg)
		}
		designWG.Add(1)
		go func() {
			defer designWG.Done()
			necWG.Wait()
			necMu.Lock()
			defer necMu.Unlock()
			for _, k := range []string{"useDecl", "usePass", "entryDecl", "entryPass", "entryPassSelf", "wrapUse", "lazyFile"} {
				if necessity[k] == 0 {
					r.Infra("necessity: leaving out the edge kind %s of step 6 violates no invariant on any graph of the model family: the design check does not constrain it", k)
				}
			}
			r.Set("edge_kind_necessity_graphs_where_the_mutant_fails", necessity)
		}()
		go func() {
			defer designWG.Done()
			// non-vacuity: an unsound classifier cell MUST break EffectsKept on the model
			res, err := tlcrun.Run(r, tlcrun.Options{Module: "ShakeMC", Config: "Shake.unsound.cfg", Workers: 1, TimeoutSec: 600})
			if err != nil {
				r.Infra("non-vacuity config failed to run: %v", err)
				return
			}
			if res.Violated != "InvEffectsKeptUnconditional" {
				r.Infra("non-vacuity: the unsound classifier did not violate EffectsKept on the model (violated=%q): the design check is vacuous", res.Violated)
				return
			}
			r.Set("nonvacuity_unsound_classifier_violates_EffectsKept", true)
			r.Logf("TLC ShakeMC/Shake.unsound.cfg: EffectsKept violated as expected after %d states", res.Generated)
		}()
	}

	// ---- scenario space from the spec
	var stmts []*stmtRec
	shapes := map[string]*shapeRec{}
	var shapeIDs []string
	graphs := map[string]*graphRec{}
	res := tlcrun.MustHold(r, tlcrun.Options{Module: "ShakeGen", Config: "ShakeGen.cfg", Workers: 1, TimeoutSec: 600, OnCase: func(raw []byte) {
		var k struct {
			Rec string `json:"rec"`
		}
		if json.Unmarshal(raw, &k) != nil {
			return
		}
		switch k.Rec {
		case "stmt":
			var s stmtRec
			if json.Unmarshal(raw, &s) == nil {
				stmts = append(stmts, &s)
			}
		case "shape":
			var s shapeRec
			if json.Unmarshal(raw, &s) == nil {
				shapes[s.ID] = &s
				shapeIDs = append(shapeIDs, s.ID)
			}
		case "graph":
			var g graphRec
			if json.Unmarshal(raw, &g) == nil {
				graphs[fmt.Sprintf("%s/%s/%v", g.Shape, g.Truth, g.IgnoreAnn)] = &g
			}
		}
	}})
	if res == nil || len(stmts) == 0 || len(shapes) == 0 || len(graphs) == 0 {
		r.Infra("ShakeGen exported no scenario space (%d stmts, %d shapes, %d graphs)", len(stmts), len(shapes), len(graphs))
		designWG.Wait()
		return
	}
	if r.Replay == "" {
		startDesign()
	}
	sort.Slice(stmts, func(i, j int) bool {
		a, b := stmts[i], stmts[j]
		if a.Form != b.Form {
			return a.Form < b.Form
		}
		if a.Outer != b.Outer {
			return a.Outer < b.Outer
		}
		return a.Inner < b.Inner
	})
	sort.Strings(shapeIDs)
	// the base shapes (statement-form scenarios rotate over them) and the entry point re-export family
	var baseIDs, exIDs []string
	for _, id := range shapeIDs {
		if shapes[id].ReadExports {
			exIDs = append(exIDs, id)
		} else {
			baseIDs = append(baseIDs, id)
		}
	}
	// the model must keep the exported bindings initialised on every graph it exports
	for k, g := range graphs {
		if !g.ExportsInit {
			r.Infra("spec error: ExportsInitialised fails on the model's own graph %s", k)
		}
	}
	// sanity of the spec data: without annotations (none in the shape, or ignored) nothing may vanish
	for _, g := range graphs {
		if (g.IgnoreAnn || len(shapes[g.Shape].Annotated) == 0) && g.Truth != "ann" && len(g.MayVanish) > 0 {
			r.Infra("spec error: shape %s truth %s ignoreAnn %v lets %v vanish although no annotation applies", g.Shape, g.Truth, g.IgnoreAnn, g.MayVanish)
		}
	}
	forms := map[string]bool{}
	for _, s := range stmts {
		forms[s.Form] = true
	}
	r.Set("forms", len(forms))
	r.Set("statements_enumerated", len(stmts))
	r.Set("shapes", len(shapeIDs))
	r.Set("shapes_reexport_family", len(exIDs))
	formats := []string{"esm", "cjs", "iife"}

	// ---- choose the scenarios of this run
	var scens []*scenario
	mk := func(s *stmtRec, shape string) *scenario {
		sc := &scenario{Stmt: s, Shape: shapes[shape], ShapeID: shape, Format: formats[r.Rand.Intn(3)], Minify: r.Rand.Intn(2) == 0,
			IgnoreAnn: r.Rand.Intn(5) == 0, Modes: []string{"true", "false"}}
		if r.Rand.Intn(4) == 0 {
			sc.Modes = append(sc.Modes, "default")
		}
		return sc
	}
	if r.Replay != "" {
		var rp struct {
			Detail struct {
				Case scenario `json:"case"`
			} `json:"detail"`
		}
		b, err := os.ReadFile(r.Replay)
		if err != nil || json.Unmarshal(b, &rp) != nil || rp.Detail.Case.Stmt == nil || shapes[rp.Detail.Case.ShapeID] == nil {
			r.Infra("cannot read replay file %s", r.Replay)
			designWG.Wait()
			return
		}
		sc := rp.Detail.Case
		sc.Shape = shapes[sc.ShapeID]
		scens = append(scens, &sc)
	} else {
		// (1) every form once in its plainest context (all outer contexts in the thorough tier), shapes rotating
		k := int(r.Seed)
		for _, s := range stmts {
			plain := s.Inner == "" && (s.Outer == "stmt" || s.Outer == "plain")
			if plain || (r.Thorough() && s.Inner == "") {
				scens = append(scens, mk(s, baseIDs[k%len(baseIDs)]))
				k++
			}
		}
		// (2) a seeded sample of the whole product
		extra := r.Pick(150, 3000)
		for n := 0; n < extra; n++ {
			pool := baseIDs
			if len(exIDs) > 0 && r.Rand.Intn(4) == 0 {
				pool = exIDs
			}
			scens = append(scens, mk(stmts[r.Rand.Intn(len(stmts))], pool[r.Rand.Intn(len(pool))]))
		}
		// (3) label-first covering of the entry point re-export family: every shape (re-export kind x sideEffects x
		// wrap x use) once per run, the format rotating with the seed (all three formats in the thorough tier),
		// tree shaking default, true and false always
		var plainStmts []*stmtRec
		for _, s := range stmts {
			if s.Inner == "" && (s.Outer == "stmt" || s.Outer == "plain" || s.Outer == "export") {
				plainStmts = append(plainStmts, s)
			}
		}
		for i, id := range exIDs {
			for f := 0; f < 3; f++ {
				if !r.Thorough() && f != (i+int(r.Seed)%3+3)%3 {
					continue
				}
				sc := mk(plainStmts[r.Rand.Intn(len(plainStmts))], id)
				sc.Format = formats[f]
				sc.Modes = []string{"true", "false", "default"}
				scens = append(scens, sc)
			}
		}
	}
	r.Logf("%d forms, %d statements, %d shapes enumerated by TLC; %d scenarios chosen", len(forms), len(stmts), len(shapeIDs), len(scens))

	// ---- real builds
	installLinkProc()
	runs := make([]*caseRun, len(scens))
	nbuilds := 0
	core.Parallel(len(scens), 8, func(i int) {
		cr := &caseRun{idx: i, scen: scens[i], text: fill(scens[i].Stmt.Text)}
		runBuilds(r, cr)
		runs[i] = cr
	})
	for _, cr := range runs {
		nbuilds += len(cr.builds)
	}
	r.Set("builds", nbuilds)
	r.Logf("%d builds done", nbuilds)

	// ---- Node: ground truth of each statement alone, native graph, bundles
	const chunk = 120
	nchunks := (len(runs) + chunk - 1) / chunk
	core.Parallel(nchunks, 8, func(c int) {
		lo, hi := c*chunk, (c+1)*chunk
		if hi > len(runs) {
			hi = len(runs)
		}
		var in struct {
			Cases []nodeCase `json:"cases"`
		}
		for _, cr := range runs[lo:hi] {
			nc := nodeCase{ID: fmt.Sprint(cr.idx), Alone: cr.text + "\n", Files: cr.files, Entry: "entry.js",
				Cjs: cr.scen.Shape.Cjs, ReadExports: cr.scen.Shape.ReadExports}
			if nc.ReadExports && cr.scen.Format == "iife" {
				nc.GlobalName = globalName
			}
			for _, b := range cr.builds {
				if b.ok {
					nc.Bundles = append(nc.Bundles, nodeBundle{Name: b.mode, Format: cr.scen.Format, Code: b.code})
				}
			}
			in.Cases = append(in.Cases, nc)
		}
		var out struct {
			Results []nodeResult `json:"results"`
		}
		if err := nodex.Run(r, "run_shake.js", in, &out, 10*time.Minute, "", "--experimental-vm-modules", "--expose-internals", "--no-warnings"); err != nil {
			r.Infra("node runner failed: %v", err)
			return
		}
		for k := range out.Results {
			nr := &out.Results[k]
			var idx int
			fmt.Sscan(nr.ID, &idx)
			if idx >= 0 && idx < len(runs) {
				runs[idx].node = nr
			}
		}
	})
	r.Logf("node runs done")

	// ---- compose the records
	var all []*record
	buildFailed, nodeMissing, rskipped, unscanned, nodeTimeouts := 0, 0, 0, 0, 0
	slotSeen, slotRemovable, slotKeptEffect, annotatedFiles := 0, 0, 0, 0
	truthCount := map[string]int{}
	labelCount := map[string]int{}
	sampled := 0
	exportsCompared, exportValues, exportsUnobserved, wrapChecked := 0, 0, 0, 0
	dimCount := map[string]int{}
	wrapCount := map[string]int{}
	for _, cr := range runs {
		s := cr.scen
		if cr.node == nil || cr.node.Fatal != "" || cr.node.Alone == nil || cr.node.Native == nil {
			nodeMissing++
			continue
		}
		timedOut := cr.node.Alone.Timeout || cr.node.Native.Timeout
		for k := range cr.node.Bundles {
			timedOut = timedOut || cr.node.Bundles[k].Timeout
		}
		if timedOut {
			// a run that hit the vm time limit (overloaded machine) says nothing about the program
			nodeTimeouts++
			continue
		}
		rawTruth := truthOf(cr.node.Alone.Trace)
		truth := rawTruth
		if truth == "ann" && s.IgnoreAnn {
			truth = "yes"
		}
		g := graphs[fmt.Sprintf("%s/%s/%v", s.ShapeID, rawTruth, s.IgnoreAnn)]
		if g == nil {
			r.Infra("no graph record for %s/%s/%v", s.ShapeID, rawTruth, s.IgnoreAnn)
			continue
		}
		mayVanish := append([]string{}, g.MayVanish...)
		if !g.AnnKeep && !contains(mayVanish, "F.ann") {
			mayVanish = append(mayVanish, "F.ann")
		}
		predicted := append([]string{}, g.Native...)
		if s.Shape.SlotFile != "" && hasAnnotation(cr.text) && !contains(predicted, "F.ann") && rawTruth == "yes" {
			// a statement with both plain and annotated probes: whether the annotated one fires is read off the native run
			for _, e := range cr.node.Alone.Trace {
				if e == "F.ann" {
					predicted = append(predicted, "F.ann")
					break
				}
			}
		}
		natThrew := threw(cr.node.Native.Trace)
		nontrivial := truth == "yes" || rawTruth == "ann" || hasAnnotation(cr.text) || len(s.Shape.Annotated) > 0
		r.Case(s.id(), nontrivial)
		truthCount[rawTruth]++
		labelCount[s.Stmt.Label]++
		if s.Shape.ReadExports {
			d := s.Shape.Dims
			dimCount["rk="+d.Rk]++
			dimCount["se="+d.Se]++
			dimCount["wrap="+d.Wrap]++
			dimCount[fmt.Sprintf("use=%v", d.Use)]++
			dimCount["format="+s.Format]++
			dimCount[fmt.Sprintf("%s/%s/%s/%v/%s", d.Rk, d.Se, d.Wrap, d.Use, s.Format)]++
		}
		byName := map[string]*nodeBundleResult{}
		for k := range cr.node.Bundles {
			byName[cr.node.Bundles[k].Name] = &cr.node.Bundles[k]
		}
		for _, b := range cr.builds {
			rc := &record{ID: len(all) + 1, Case: s.id(), Mode: b.mode, IgnoreAnn: s.IgnoreAnn, Files: []fileOut{}, Slot: slotOut{Parts: []int{}},
				Truth: truth, RawTruth: rawTruth, SpecTruth: s.Stmt.Truth, SpecThr: s.Stmt.Thr, AloneThrew: threw(cr.node.Alone.Trace),
				Nat: cr.node.Native.Trace, NatId: []string{}, NatThrew: natThrew, Bun: []string{}, MayVanish: mayVanish, Predicted: predicted,
				Dangling: []string{}, NatX: []string{}, BunX: []string{}, cr: cr, b: b}
			if rc.Nat == nil {
				rc.Nat = []string{}
			}
			for _, e := range rc.Nat {
				rc.NatId = append(rc.NatId, eventID(e))
			}
			if b.hasLnk {
				project(rc, b.link, b.root, s.Shape)
				b.link = nil
				if rc.Slot.Present {
					slotSeen++
					allRem := true
					for _, f := range rc.Files {
						if f.ID != rc.Slot.File {
							continue
						}
						for _, pi := range rc.Slot.Parts {
							if pi < len(f.Parts) && !f.Parts[pi].Rem {
								allRem = false
							}
						}
					}
					if allRem {
						slotRemovable++
					} else if truth == "yes" {
						slotKeptEffect++
					}
				}
				for _, f := range rc.Files {
					if f.SeFree {
						annotatedFiles++
					}
					wrapCount[f.Wrap]++
					// the wrap kind the model derives for the file vs the one the linker chose (spec vs code: drift, not a verdict)
					for i, p := range s.Shape.Paths {
						if p == f.Path && i < len(g.Wrap) {
							wrapChecked++
							if g.Wrap[i] != f.Wrap {
								r.Drift("%s mode=%s: model wraps %s as %q, the linker as %q", s.id(), b.mode, p, g.Wrap[i], f.Wrap)
							}
						}
					}
				}
			}
			if !b.ok {
				buildFailed++
				if buildFailed <= 5 {
					r.Logf("build failed for %s mode=%s: %v", s.id(), b.mode, b.errs)
				}
			} else if nb := byName[b.mode]; nb != nil {
				rc.Built = true
				if nb.Trace != nil {
					rc.Bun = nb.Trace
				}
				if nb.Dangling != nil {
					rc.Dangling = nb.Dangling
				}
				// the exports of the entry point, read synchronously after loading (re-export family)
				if s.Shape.ReadExports && cr.node.Native.Exports != nil && !natThrew {
					if nb.Exports != nil {
						rc.NatX, rc.BunX, rc.Xcmp = cr.node.Native.Exports, nb.Exports, true
						exportsCompared++
						exportValues += len(rc.NatX)
					} else if !threw(nb.Trace) {
						exportsUnobserved++
					}
				}
				if !nb.Scanned {
					unscanned++
				}
				// a throwing statement that an annotation allows to vanish changes the rest of the trace: not compared
				if natThrew && contains(mayVanish, "F") {
					rc.Rskip = true
					rskipped++
				}
			}
			all = append(all, rc)
		}
		if sampled < 8 && (cr.idx%97 == 0) {
			sampled++
			smp := map[string]interface{}{"case": s.id(), "statement": cr.text, "specTruth": s.Stmt.Truth, "nativeAlone": cr.node.Alone.Trace, "native": cr.node.Native.Trace}
			for _, b := range cr.builds {
				if nb := byName[b.mode]; nb != nil {
					smp["bundle_"+b.mode] = nb.Trace
				}
			}
			r.Sample(smp)
		}
	}
	r.Set("records", len(all))
	r.Set("ground_truth_classes", truthCount)
	r.Set("position_labels", labelCount)
	r.Set("records_with_statement_located", slotSeen)
	r.Set("records_statement_classified_removable", slotRemovable)
	r.Set("records_effectful_statement_classified_unremovable", slotKeptEffect)
	r.Set("files_marked_side_effect_free", annotatedFiles)
	r.Set("reexport_family_coverage", dimCount)
	r.Set("records_entry_exports_compared_with_native", exportsCompared)
	r.Set("export_values_compared", exportValues)
	r.Set("records_entry_exports_not_observed", exportsUnobserved)
	r.Set("file_wrap_kinds_recorded", wrapCount)
	r.Set("file_wrap_kinds_checked_against_model", wrapChecked)
	r.Set("builds_failed", buildFailed)
	r.Set("end_to_end_not_compared_throwing_and_licensed", rskipped)
	r.Set("bundles_not_statically_scanned", unscanned)
	r.Set("scenarios_skipped_node_time_limit", nodeTimeouts)
	if nodeTimeouts > len(runs)/20+2 {
		r.Infra("%d scenarios hit the vm time limit", nodeTimeouts)
	}
	if nodeMissing > 0 {
		r.Infra("%d scenarios have no node result", nodeMissing)
	}
	if buildFailed > len(all)/50+2 {
		r.Infra("%d of %d builds failed", buildFailed, len(all))
	}

	// ---- TLC evaluates ShakeState.tla on every record
	st := &stats{driftKinds: map[string]int{}, violByInv: map[string]int{}}
	batch := 1200
	nb := (len(all) + batch - 1) / batch
	core.Parallel(nb, 3, func(k int) {
		lo, hi := k*batch, (k+1)*batch
		if hi > len(all) {
			hi = len(all)
		}
		validate(r, all[lo:hi], st)
	})
	designWG.Wait()
	r.Set("records_whose_liveness_is_not_the_least_fixed_point_of_the_transcription", st.notTranscribed)
	r.Set("drift_kinds", st.driftKinds)
	r.Set("violations_by_invariant", st.violByInv)
	if d := r.DriftCount(); d > len(all)/20+5 {
		r.Infra("spec drift on %d of %d records: the form table / shapes disagree with the native reference too often", d, len(all))
	}
	r.Set("rule", "case = one statement of ShakeGen.tla (form x <=2 neutral contexts) placed as the unused part of one graph shape, x format x minify x ignoreAnnotations, built with tree shaking true/false(/default); non-trivial = the statement has a ground-truth effect (native run alone) or an annotation (pure comment, no-side-effects comment, pure option, package.json sideEffects) is present; every build becomes one record (link.done projection + native/bundle traces) validated by TLC against ShakeState.tla")
}

func init() { core.Register("C04", Run) }
