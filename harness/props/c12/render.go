package c12

import (
	"fmt"
	"reflect"
	"strings"
)

// Style = the lexical choices of the rendering (they do not change the abstract sheet)
type Style struct {
	Group     bool `json:"group"`     // consecutive items sharing a path prefix share the blocks
	Compact   bool `json:"compact"`   // no optional white space
	LastSemi  bool `json:"lastSemi"`  // `;` after the last declaration
	UpperProp bool `json:"upperProp"` // property names in upper case
	Comments  bool `json:"comments"`  // sprinkle comments
	ImpSpace  bool `json:"impSpace"`  // `! important`
	Escapes   bool `json:"escapes"`   // simple selectors spelled with CSS escapes
	Noise     bool `json:"noise"`     // @charset/@keyframes/@font-face/@page between the top-level rules
}

var escaped = map[string]string{".a": ".\\61 ", ".b": ".\\000062", "#s": "#\\73 ", "p": "\\70 ", ".c": ".\\63 ", "div": "d\\69v"}

var noise = []string{
	"@keyframes k{from{top:0;color:red}to{top:1px;color:blue}}",
	"@font-face{font-family:\"F\";src:local(\"F\")}",
	"@page{margin:1px}",
	"@property --p{syntax:\"<length>\";inherits:false;initial-value:0px}",
}

func (v *Vocab) atomText(a AtomRef) string {
	at := v.Atoms[a.A]
	i := a.Sp - 1
	if i < 0 || i >= len(at.Sp) {
		i = 0
	}
	return at.Sp[i].T
}

func isMediaType(s string) bool { return !strings.HasPrefix(s, "(") }

func (v *Vocab) condText(c Cond) string {
	var qs []string
	for _, q := range c.Qs {
		var parts []string
		for _, a := range q.Atoms {
			parts = append(parts, v.atomText(a))
		}
		switch c.R {
		case "media":
			s := strings.Join(parts, " and ")
			if q.Neg {
				if isMediaType(parts[0]) {
					s = "not " + s
				} else {
					s = "not all and " + s
				}
			}
			qs = append(qs, s)
		default: // supports, container
			s := strings.Join(parts, " and ")
			if q.Neg {
				if len(parts) > 1 {
					s = "not (" + s + ")"
				} else {
					s = "not " + s
				}
			}
			if len(c.Qs) > 1 && (q.Neg || len(parts) > 1) {
				s = "(" + s + ")"
			}
			qs = append(qs, s)
		}
	}
	if c.R == "media" {
		return strings.Join(qs, ", ")
	}
	return strings.Join(qs, " or ")
}

func (v *Vocab) declText(d Decl, st Style) string {
	var parts []string
	for i, id := range d.V {
		val := v.Vals[id]
		k := 0
		if i < len(d.Sp) {
			k = d.Sp[i] - 1
		}
		if k < 0 || k >= len(val.Sp) {
			k = 0
		}
		parts = append(parts, val.Sp[k].T)
	}
	val := strings.Join(parts, " ")
	if d.P == "font" {
		val = strings.ReplaceAll(val, " / ", "/")
	}
	p := d.P
	if st.UpperProp && !strings.HasPrefix(p, "--") {
		p = strings.ToUpper(p)
	}
	sep := ": "
	if st.Compact {
		sep = ":"
	}
	s := p + sep + val
	if d.I {
		switch {
		case st.ImpSpace:
			s += " ! important"
		case st.Compact:
			s += "!important"
		default:
			s += " !important"
		}
	}
	return s
}

func (v *Vocab) openText(pe PathEl) string {
	switch pe.T {
	case "sel":
		return pe.S
	case "layer":
		if len(pe.N) == 0 {
			return "@layer"
		}
		return "@layer " + strings.Join(pe.N, ".")
	default:
		return "@" + pe.T + " " + v.condText(pe.C)
	}
}

func anonLayer(pe PathEl) bool { return pe.T == "layer" && len(pe.N) == 0 }

// Render turns the abstract sheet into CSS text.
func (v *Vocab) Render(items []Item, st Style) string {
	var sb strings.Builder
	var open []PathEl
	nl, ind := "\n", "  "
	if st.Compact {
		nl, ind = "", ""
	}
	indent := func(n int) string { return strings.Repeat(ind, n) }
	closeTo := func(n int) {
		for len(open) > n {
			open = open[:len(open)-1]
			sb.WriteString(indent(len(open)) + "}" + nl)
		}
	}
	ncomment := 0
	nnoise := 0
	needSemi := false
	for _, it := range items {
		limit := len(it.Path)
		if it.K == "rule" {
			limit = len(it.Path) - 1
		}
		l := 0
		if st.Group {
			for l < len(open) && l < limit && reflect.DeepEqual(open[l], it.Path[l]) && !anonLayer(open[l]) {
				l++
			}
		}
		if needSemi && l == len(open) {
			sb.WriteString(";")
		}
		needSemi = false
		closeTo(l)
		for k := l; k < len(it.Path); k++ {
			sp := " "
			if st.Compact {
				sp = ""
			}
			txt := v.openText(it.Path[k])
			if st.Escapes && it.Path[k].T == "sel" {
				if e, ok := escaped[txt]; ok {
					txt = e
				}
			}
			if st.Noise && len(open) == 0 && nnoise < 2 && (len(sb.String())+k)%3 == 0 {
				sb.WriteString(noise[(len(sb.String())+nnoise)%len(noise)] + "\n")
				nnoise++
			}
			sb.WriteString(indent(len(open)) + txt + sp + "{" + nl)
			open = append(open, it.Path[k])
		}
		if it.K == "layer" {
			var names []string
			for _, n := range it.Names {
				names = append(names, strings.Join(n, "."))
			}
			sep := ", "
			if st.Compact {
				sep = ","
			}
			sb.WriteString(indent(len(open)) + "@layer " + strings.Join(names, sep) + ";" + nl)
			continue
		}
		for i, d := range it.Decls {
			sb.WriteString(indent(len(open)) + v.declText(d, st))
			if i < len(it.Decls)-1 || st.LastSemi {
				sb.WriteString(";")
			} else {
				needSemi = true
			}
			if st.Comments && ncomment < 3 {
				ncomment++
				sb.WriteString(fmt.Sprintf("/* c%d */", ncomment))
			}
			sb.WriteString(nl)
		}
	}
	closeTo(0)
	return sb.String()
}
