package c12

import (
	"fmt"
	"os"
	"path/filepath"
	"sort"
	"strings"
	"time"

	"github.com/evanw/esbuild/pkg/api"

	"verifharness/core"
	"verifharness/nodex"
)

// CSS modules (loader local-css).  The sheet of a case is bundled as
// x.module.css behind a JavaScript entry that re-exports the module; the
// JavaScript bundle is run in Node to see the names JavaScript gets.  Required:
// (1) distinct local names get distinct emitted names, named and default
// exports agree; (2) with the document's classes and ids renamed through the
// EXPORTED names, the emitted CSS has the specification's winners - so the
// names in the CSS are the exported ones and the cascade is preserved.

type modNames struct {
	ID      string            `json:"id"`
	Named   map[string]string `json:"named"`
	Default map[string]string `json:"default"`
	Error   *string           `json:"error"`
}

func buildModule(dir string, css string, cfg config) (js, out string, errs []string, warnIs bool) {
	core.WriteTree(dir, map[string]string{"x.module.css": css, "entry.js": "import * as m from './x.module.css'\nmodule.exports = m\n"})
	defer os.RemoveAll(dir)
	o := api.BuildOptions{AbsWorkingDir: dir, EntryPoints: []string{"entry.js"}, Bundle: true, Write: false, Outdir: "out", Format: api.FormatCommonJS, LogLevel: api.LogLevelSilent}
	if cfg.Minify == "all" {
		o.MinifyWhitespace, o.MinifySyntax, o.MinifyIdentifiers = true, true, true
	}
	o.Engines = targetByName(cfg.Target).engines
	res := api.Build(o)
	warnIs = needsIs(res.Warnings)
	for _, e := range res.Errors {
		errs = append(errs, e.Text)
	}
	for _, f := range res.OutputFiles {
		if strings.HasSuffix(f.Path, ".css") {
			out = string(f.Contents)
		} else if strings.HasSuffix(f.Path, ".js") {
			js = string(f.Contents)
		}
	}
	if len(errs) == 0 && (js == "" || out == "") {
		errs = []string{"missing js or css output"}
	}
	return
}

func checkLocal(r *core.Run, voc *Vocab, cases []*Case, st *stats) {
	type lw struct {
		w    *work
		js   []string
		dirs []string
	}
	var works []*lw
	for i, c := range cases {
		x := &lw{w: &work{c: c, style: Style{Group: true, LastSemi: i%2 == 0, Compact: i%3 == 0}}}
		x.w.text = voc.Render(c.Items, x.w.style)
		old := targets[1+i%(len(targets)-1)].name
		for _, cfg := range []config{{"off", "none", "local-css"}, {"all", "none", "local-css"}, {"all", old, "local-css"}} {
			x.w.outs = append(x.w.outs, &outcome{cfg: cfg})
		}
		x.js = make([]string, len(x.w.outs))
		works = append(works, x)
	}
	core.Parallel(len(works), 8, func(i int) {
		x := works[i]
		for k, o := range x.w.outs {
			x.js[k], o.text, o.errs, o.warnIs = buildModule(filepath.Join(r.Scratch, fmt.Sprintf("mod%d_%d", i, k)), x.w.text, o.cfg)
		}
	})
	// what JavaScript sees
	type mjob struct {
		ID string `json:"id"`
		JS string `json:"js"`
	}
	var mjobs []mjob
	for i, x := range works {
		for k, o := range x.w.outs {
			if len(o.errs) == 0 {
				mjobs = append(mjobs, mjob{ID: fmt.Sprintf("%d/%d", i, k), JS: x.js[k]})
			}
		}
	}
	var mres struct {
		Results []modNames `json:"results"`
	}
	if len(mjobs) > 0 {
		if err := nodex.Run(r, "css_modnames.js", map[string]interface{}{"jobs": mjobs}, &mres, 5*time.Minute, ""); err != nil {
			r.Infra("css_modnames.js failed: %v", err)
			return
		}
	}
	names := map[string]modNames{}
	for _, m := range mres.Results {
		names[m.ID] = m
	}
	dom := voc.domJSON(nil)
	var jobs []nodeJob
	for i, x := range works {
		c := x.w.c
		in := nodeJob{ID: fmt.Sprintf("%d/in", i), CSS: x.w.text}
		for _, e := range c.Envs {
			in.Envs = append(in.Envs, nodeEnv{Conds: voc.nodeConds(c, e), Feats: append([]string{}, e.Feats...)})
		}
		jobs = append(jobs, in)
		for k, o := range x.w.outs {
			if len(o.errs) > 0 {
				continue
			}
			m, ok := names[fmt.Sprintf("%d/%d", i, k)]
			if !ok || m.Error != nil {
				r.Infra("case %s %s: the JavaScript bundle of the CSS module could not be evaluated", c.Name, o.cfg)
				o.errs = []string{"js"}
				continue
			}
			// (1) consistency and injectivity of the exported names
			key := map[string]interface{}{"css": x.w.text, "minify": o.cfg.Minify, "target": o.cfg.Target, "loader": o.cfg.Loader}
			own := map[string]string{}
			var ks []string
			for n := range m.Default {
				ks = append(ks, n)
			}
			sort.Strings(ks)
			bad := ""
			for _, n := range ks {
				v := m.Default[n]
				if nv, ok := m.Named[n]; ok && nv != v {
					bad = fmt.Sprintf("named export %s = %q but default.%s = %q", n, nv, n, v)
				}
				parts := strings.Fields(v)
				if len(parts) == 0 {
					bad = fmt.Sprintf("export %s is empty", n)
					continue
				}
				last := parts[len(parts)-1]
				if prev, dup := own[last]; dup {
					bad = fmt.Sprintf("local names %s and %s are both emitted as %q", prev, n, last)
				}
				own[last] = n
			}
			if bad != "" {
				r.Violation(key, fmt.Sprintf("CSS module names (%s): %s\n--- input\n%s\n--- css\n%s", o.cfg, bad, x.w.text, o.text),
					map[string]interface{}{"case": c.Name, "family": "local", "items": c.Items, "style": x.w.style, "config": o.cfg, "input": x.w.text, "output": o.text, "exports": m, "what": bad})
				o.errs = []string{"names"}
				continue
			}
			// (2) the document as JavaScript would write it
			rename := func(kind, n string) string {
				if v, ok := m.Default[n]; ok {
					return v // may be several classes (composes)
				}
				return "unreferenced-" + n // not a local name of the sheet: must not meet an emitted name by accident
			}
			rd := voc.domJSON(rename)
			for _, el := range rd { // a composed value is several classes
				var cls []string
				for _, c := range el["classes"].([]string) {
					cls = append(cls, strings.Fields(c)...)
				}
				el["classes"] = cls
			}
			tg := targetByName(o.cfg.Target)
			j := nodeJob{ID: fmt.Sprintf("%d/out%d", i, k), CSS: o.text, Universe: c.Props, Dom: rd}
			for ix, e := range c.Envs {
				if f, ok := outEnv(c, e, tg); ok && !(o.warnIs && !subset([]string{"is"}, f)) {
					o.envIx = append(o.envIx, ix)
					j.Envs = append(j.Envs, nodeEnv{Conds: voc.nodeConds(c, e), Feats: f})
				}
			}
			o.jobID = j.ID
			jobs = append(jobs, j)
		}
	}
	results := evalJobs(r, dom, jobs, 4)
	for i, x := range works {
		cc := *x.w.c
		cc.Family = "local"
		x.w.c = &cc
		judge(r, voc, i, x.w, results, st)
	}
}
