package c12

import (
	"fmt"
	"math/rand"
	"sort"
)

// The sheet families drawn by seed.  A family fixes which part of the
// vocabulary of Css.tla is used and how items are composed; the draw itself
// is a sequence of index choices.  Pools (a few selectors, values and
// wrappers per sheet) make rules compete and repeat, which is what merging,
// duplicate removal and shorthand collapsing feed on.

var families = []string{"merge", "box", "radius", "font", "color", "wrap", "nest", "mixed"}

type gen struct {
	voc *Vocab
	rng *rand.Rand
}

func (g *gen) pick(xs []string) string { return xs[g.rng.Intn(len(xs))] }
func (g *gen) chance(p float64) bool   { return g.rng.Float64() < p }

func (g *gen) subset(xs []string, n int) []string {
	if n > len(xs) {
		n = len(xs)
	}
	idx := g.rng.Perm(len(xs))[:n]
	sort.Ints(idx)
	out := make([]string, n)
	for i, k := range idx {
		out[i] = xs[k]
	}
	return out
}

var simpleTop = []string{"div", "p", "span", "a", ".a", ".b", ".c", "#s", "p.a", ".a.b", "span.a", "[title]", "[title=t]", "*", ".a,.b", "p,#s", "span,a"}
var combTop = []string{"div p", "div>p", ".a .c", ".b>.a", "p+p", "p~div", ".a+.c", "#r .c", "div>p>span", "div>p,.c", "#r"}

func (g *gen) spellings(vals []string, modern float64) []int {
	sp := make([]int, len(vals))
	for i, id := range vals {
		ss := g.voc.Vals[id].Sp
		// prefer feature-free spellings unless asked for modern syntax
		var plain, feat []int
		for k, s := range ss {
			if len(s.F) == 0 {
				plain = append(plain, k+1)
			} else {
				feat = append(feat, k+1)
			}
		}
		if len(feat) > 0 && (len(plain) == 0 || g.chance(modern)) {
			sp[i] = feat[g.rng.Intn(len(feat))]
		} else {
			sp[i] = plain[g.rng.Intn(len(plain))]
		}
	}
	return sp
}

func (g *gen) decl(p string, vals []string, modern float64, imp float64) Decl {
	return Decl{P: p, V: vals, Sp: g.spellings(vals, modern), I: g.chance(imp)}
}

type pools struct {
	colors, lens, props []string
}

// one declaration of the theme
func (g *gen) themedDecl(theme string, pl *pools, modern float64) Decl {
	v := g.voc
	imp := 0.12
	wide := func(p string) (Decl, bool) {
		if g.chance(0.05) {
			return g.decl(p, []string{g.pick(v.valsByKind["wide"])}, 0, imp), true
		}
		return Decl{}, false
	}
	switch theme {
	case "box":
		fam := pl.props[0] // margin | padding | inset
		sides := map[string][]string{"margin": {"margin-top", "margin-right", "margin-bottom", "margin-left"},
			"padding": {"padding-top", "padding-right", "padding-bottom", "padding-left"}, "inset": {"top", "right", "bottom", "left"}}[fam]
		if g.chance(0.4) {
			if d, ok := wide(fam); ok {
				return d
			}
			if fam != "inset" && g.chance(0.08) { // `inset: var()` cannot be lowered at all: only in the regression sheet
				return g.decl(fam, []string{"varx"}, 0, imp)
			}
			n := 1 + g.rng.Intn(4)
			vals := make([]string, n)
			for i := range vals {
				vals[i] = g.pick(pl.lens)
				if g.chance(0.06) {
					vals[i] = g.pick(v.valsByKind["lenfn"])
				}
			}
			return g.decl(fam, vals, modern, imp)
		}
		p := g.pick(sides)
		if d, ok := wide(p); ok {
			return d
		}
		if g.chance(0.05) {
			return g.decl(p, []string{"varx"}, 0, imp)
		}
		if g.chance(0.08) { // env(), min(), max(): opaque functions, min()/max() only where the browser knows them
			return g.decl(p, []string{g.pick(v.valsByKind["lenfn"])}, 1, imp)
		}
		return g.decl(p, []string{g.pick(pl.lens)}, modern, imp)
	case "radius":
		lens := []string{}
		for _, l := range pl.lens {
			if l != "auto" {
				lens = append(lens, l)
			}
		}
		if len(lens) == 0 {
			lens = []string{"l1"}
		}
		if g.chance(0.45) {
			n := 1 + g.rng.Intn(4)
			vals := make([]string, n)
			for i := range vals {
				vals[i] = g.pick(lens)
			}
			if g.chance(0.3) {
				vals = append(vals, "slash")
				m := 1 + g.rng.Intn(4)
				for i := 0; i < m; i++ {
					vals = append(vals, g.pick(lens))
				}
			}
			return g.decl("border-radius", vals, modern, imp)
		}
		corner := g.pick([]string{"border-top-left-radius", "border-top-right-radius", "border-bottom-right-radius", "border-bottom-left-radius"})
		vals := []string{g.pick(lens)}
		if g.chance(0.3) {
			vals = append(vals, g.pick(lens))
		}
		return g.decl(corner, vals, modern, imp)
	case "font":
		switch g.rng.Intn(7) {
		case 0, 1, 2:
			var vals []string
			if g.chance(0.4) {
				vals = append(vals, "italic")
			}
			if g.chance(0.6) {
				vals = append(vals, g.pick(v.valsByKind["weight"]))
			}
			vals = append(vals, g.pick([]string{"l1", "l2", "em15", "pct"}))
			if g.chance(0.5) {
				vals = append(vals, "slash", g.pick([]string{"lh15", "l2", "pct"}))
			}
			vals = append(vals, g.pick(v.valsByKind["family"]))
			return g.decl("font", vals, modern, imp)
		case 3:
			return g.decl("font-weight", []string{g.pick(v.valsByKind["weight"])}, 0, imp)
		case 4:
			return g.decl("font-family", []string{g.pick(v.valsByKind["family"])}, 0, imp)
		case 5:
			return g.decl("font-size", []string{g.pick([]string{"l1", "l2", "em15", "pct", "lhalf"})}, 0, imp)
		default:
			return g.decl("line-height", []string{g.pick([]string{"lh15", "l2", "pct", "l0"})}, 0, imp)
		}
	case "color":
		p := g.pick(pl.props)
		if p == "all" {
			return g.decl("all", []string{g.pick(v.valsByKind["wide"])}, 0, imp)
		}
		if d, ok := wide(p); ok {
			return d
		}
		if p == "--x" {
			return g.decl(p, []string{g.pick([]string{"cust1", "cust2", "cust3", "cust4", "cust5", "varx"})}, modern, imp)
		}
		return g.decl(p, []string{g.pick(pl.colors)}, modern, imp)
	default: // misc: display, width, height, color
		p := g.pick([]string{"display", "width", "height", "color"})
		switch p {
		case "display":
			return g.decl(p, []string{g.pick(v.valsByKind["display"])}, 0, imp)
		case "color":
			return g.decl(p, []string{g.pick(pl.colors)}, modern, imp)
		default:
			return g.decl(p, []string{g.pick(pl.lens)}, modern, imp)
		}
	}
}

func (g *gen) cond(rule string, atomPool []string, modern float64) Cond {
	var mine []string
	for _, a := range atomPool {
		if g.voc.Atoms[a].R == rule {
			mine = append(mine, a)
		}
	}
	if len(mine) == 0 {
		for _, a := range g.voc.atomKeys {
			if g.voc.Atoms[a].R == rule {
				mine = append(mine, a)
				break
			}
		}
	}
	ref := func(a string) AtomRef {
		ss := g.voc.Atoms[a].Sp
		var plain, feat []int
		for k, s := range ss {
			if len(s.F) == 0 {
				plain = append(plain, k+1)
			} else {
				feat = append(feat, k+1)
			}
		}
		if len(feat) > 0 && g.chance(modern) {
			return AtomRef{A: a, Sp: feat[g.rng.Intn(len(feat))]}
		}
		return AtomRef{A: a, Sp: plain[g.rng.Intn(len(plain))]}
	}
	q := func() Query {
		atoms := []AtomRef{ref(g.pick(mine))}
		if len(mine) > 1 && g.chance(0.2) {
			b := g.pick(mine)
			// a media type may only come first
			if b != atoms[0].A && !(rule == "media" && isMediaType(g.voc.Atoms[b].Sp[0].T)) {
				atoms = append(atoms, ref(b))
			}
		}
		return Query{Neg: g.chance(0.2), Atoms: atoms}
	}
	c := Cond{R: rule, Qs: []Query{q()}}
	if g.chance(0.15) {
		c.Qs = append(c.Qs, q())
	}
	return c
}

// Sheet draws one abstract sheet of the family.
func (g *gen) Sheet(family string) []Item {
	v := g.voc
	theme := family
	modern := 0.25
	nestP, wrapP, stmtP := 0.0, 0.0, 0.0
	selPool := g.subset(simpleTop, 2+g.rng.Intn(2))
	switch family {
	case "merge":
		theme = g.pick([]string{"color", "misc", "box"})
		if g.chance(0.5) {
			selPool = append(selPool, g.pick(combTop))
		}
		if g.chance(0.5) {
			selPool = append(selPool, g.pick(v.topKeys))
		}
		wrapP = 0.1
	case "box", "radius", "font", "color":
		if g.chance(0.3) {
			selPool = selPool[:1]
		}
		wrapP = 0.1
	case "wrap":
		theme = g.pick([]string{"color", "misc", "box"})
		wrapP, stmtP = 0.7, 0.3
	case "nest":
		theme = g.pick([]string{"color", "misc", "box"})
		nestP, wrapP = 0.6, 0.15
		selPool = append(selPool, g.pick(combTop))
	case "mixed":
		theme = g.pick([]string{"color", "misc", "box", "radius", "font"})
		nestP, wrapP, stmtP = 0.25, 0.35, 0.15
		selPool = append(selPool, g.pick(v.topKeys), g.pick(combTop))
	}
	pl := &pools{
		colors: g.subset(v.valsByKind["color"], 2+g.rng.Intn(2)),
		lens:   g.subset(v.valsByKind["length"], 2+g.rng.Intn(2)),
	}
	switch theme {
	case "box":
		pl.props = []string{g.pick([]string{"margin", "padding", "inset"})}
	case "color":
		pl.props = g.subset([]string{"color", "background-color", "background", "all", "--x", "border-top-color"}, 1+g.rng.Intn(3))
	}
	atomPool := g.subset(v.atomKeys, 2)
	layerPool := [][]string{{"a"}, {"b"}, {"a", "b"}, {}}
	wrapPool := [][]PathEl{}
	for i := 0; i < 2; i++ {
		var w []PathEl
		switch g.rng.Intn(8) {
		case 0, 1:
			w = []PathEl{layerEl(layerPool[g.rng.Intn(len(layerPool))]...)}
		case 2, 3:
			w = []PathEl{condEl("media", g.cond("media", atomPool, modern))}
		case 4:
			w = []PathEl{condEl("supports", g.cond("supports", atomPool, 0))}
		case 5:
			w = []PathEl{condEl("container", g.cond("container", atomPool, 0))}
		case 6:
			w = []PathEl{layerEl(layerPool[g.rng.Intn(3)]...), condEl("media", g.cond("media", atomPool, modern))}
		default:
			w = []PathEl{condEl("media", g.cond("media", atomPool, modern)), layerEl(layerPool[g.rng.Intn(len(layerPool))]...)}
		}
		wrapPool = append(wrapPool, w)
	}
	if g.chance(0.3) {
		wrapPool = append(wrapPool, []PathEl{layerEl("a"), layerEl("b")})
	}
	n := 2 + g.rng.Intn(3)
	if g.chance(0.15) {
		n = 1
	}
	var items []Item
	for i := 0; i < n; i++ {
		if g.chance(stmtP) {
			names := [][]string{}
			for _, k := range g.rng.Perm(3)[:1+g.rng.Intn(2)] {
				names = append(names, layerPool[k])
			}
			var path []PathEl
			if g.chance(0.2) {
				path = []PathEl{layerEl("a")}
				names = [][]string{{"b"}, {"c"}}[:1+g.rng.Intn(2)]
			} else if g.chance(0.15) {
				path = []PathEl{condEl("media", g.cond("media", atomPool, 0))}
			}
			items = append(items, Item{K: "layer", Path: path, Names: names})
		}
		var path []PathEl
		if g.chance(wrapP) {
			path = append(path, wrapPool[g.rng.Intn(len(wrapPool))]...)
		}
		path = append(path, selEl(g.pick(selPool)))
		var first *Item
		if g.chance(nestP) {
			// the parent's own declarations first (as a separate flat item), then the nested rule
			if g.chance(0.6) {
				it := Item{K: "rule", Path: append([]PathEl{}, path...), Decls: []Decl{g.themedDecl(theme, pl, modern)}}
				first = &it
			}
			if g.chance(0.15) {
				path = append(path, condEl("media", g.cond("media", atomPool, 0)))
			}
			path = append(path, selEl(g.pick(v.nestKeys)))
			if g.chance(0.2) {
				path = append(path, selEl(g.pick(v.nestKeys)))
			} else if g.chance(0.1) {
				path = append(path, condEl("media", g.cond("media", atomPool, 0)))
			}
		}
		nd := 1 + g.rng.Intn(3)
		if theme == "box" || theme == "radius" {
			nd = 1 + g.rng.Intn(4)
		}
		var decls []Decl
		for k := 0; k < nd; k++ {
			decls = append(decls, g.themedDecl(theme, pl, modern))
		}
		// repeat an earlier item verbatim now and then (duplicate removal)
		if first != nil {
			items = append(items, *first)
		}
		if len(items) > 0 && g.chance(0.12) {
			prev := items[g.rng.Intn(len(items))]
			if prev.K == "rule" {
				if g.chance(0.5) {
					items = append(items, prev)
					continue
				}
				decls = prev.Decls // same body, other selector: merge candidate
			}
		}
		items = append(items, Item{K: "rule", Path: path, Decls: decls})
	}
	for i := range items {
		items[i].fix()
	}
	return items
}

// cost = number of environments the spec will enumerate (2^(features+atoms)), estimated from the vocabulary
func (v *Vocab) envBits(items []Item) int {
	feats := map[string]bool{}
	atoms := map[string]bool{}
	for _, it := range items {
		nsel := 0
		for k, pe := range it.Path {
			switch pe.T {
			case "sel":
				nsel++
				var fs []string
				if nsel == 1 {
					fs = v.Top[pe.S]
				} else {
					fs = v.Nest[pe.S]
					feats["nesting"] = true
				}
				for _, f := range fs {
					feats[f] = true
				}
			case "layer":
			default:
				if nsel > 0 {
					feats["nesting"] = true
				}
				for _, q := range pe.C.Qs {
					for _, a := range q.Atoms {
						atoms[a.A] = true
						if at, ok := v.Atoms[a.A]; ok && a.Sp >= 1 && a.Sp <= len(at.Sp) {
							for _, f := range at.Sp[a.Sp-1].F {
								feats[f] = true
							}
						}
					}
				}
			}
			_ = k
		}
		for _, d := range it.Decls {
			if d.P == "inset" {
				feats["inset"] = true
			}
			for i, id := range d.V {
				if val, ok := v.Vals[id]; ok && i < len(d.Sp) && d.Sp[i] >= 1 && d.Sp[i] <= len(val.Sp) {
					for _, f := range val.Sp[d.Sp[i]-1].F {
						feats[f] = true
					}
				}
			}
		}
	}
	return len(feats) + len(atoms)
}

// fixed sheets that are always part of the run: witnesses of the listed known findings
func witnesses() []genInput {
	color := func(v string) []Decl { return []Decl{{P: "color", V: []string{v}, Sp: []int{1}}} }
	w := []genInput{
		// nesting under a list of mixed specificity, lowered for a target without :is()
		{ID: "witness-0", Items: []Item{
			{K: "rule", Path: []PathEl{selEl("p,#s"), selEl(".a")}, Decls: color("red")},
			{K: "rule", Path: []PathEl{selEl("#s")}, Decls: color("blue")}}},
		// the minifier inlines `& {}` under a list of mixed specificity (run with minify, any target)
		{ID: "witness-2", Items: []Item{
			{K: "rule", Path: []PathEl{selEl("[title]")}, Decls: color("blue")},
			{K: "rule", Path: []PathEl{selEl("p,#s"), selEl("&")}, Decls: color("red")}}},
		// `&` inside :not() under a list, lowered for a target without :is()
		{ID: "witness-1", Items: []Item{
			{K: "rule", Path: []PathEl{selEl(".a,.b"), selEl(":not(&) .c")}, Decls: color("red")}}},
		// `&` inside :not() under a parent with a combinator, lowered for a target without complex :not(),
		// next to a rule whose lowered form such browsers do understand
		{ID: "witness-3", Items: []Item{
			{K: "rule", Path: []PathEl{selEl("p"), selEl(":not(&) .c")}, Decls: color("blue")},
			{K: "rule", Path: []PathEl{selEl("p+p"), selEl(":not(&) .c")}, Decls: color("red")}}},
	}
	// regression sheets of the defects this check found and that were fixed in /repo
	one := func(p string, imp bool, vals ...string) Decl {
		sp := make([]int, len(vals))
		for i := range sp {
			sp[i] = 1
		}
		return Decl{P: p, V: vals, Sp: sp, I: imp}
	}
	// an inset shorthand with a max() value, lowered for a target without inset; the !important longhand makes the
	// input's winner differ from the lowered `left` wherever the input is understood
	w = append(w, genInput{ID: "witness-4", Items: []Item{
		{K: "rule", Path: []PathEl{selEl(".c")}, Decls: []Decl{one("top", false, "mix"), one("left", true, "min12"), one("inset", false, "max12", "l1", "l2", "pct")}}}})
	w = append(w,
		// `&` inside a pseudo-class under a parent with a combinator (6bb4c85)
		genInput{ID: "regress-0", Items: []Item{
			{K: "rule", Path: []PathEl{selEl("div>p"), selEl(".c:is(&)")}, Decls: color("red")},
			{K: "rule", Path: []PathEl{selEl("p~div"), selEl(":is(&,#s)>span")}, Decls: color("blue")},
			{K: "rule", Path: []PathEl{selEl(".b>.a"), selEl(":not(&) .c")}, Decls: color("tan")}}},
		// `&` inside a pseudo-class under a parent list without :is(): every copy gets its own member (a90b7f5)
		genInput{ID: "regress-3", Items: []Item{
			{K: "rule", Path: []PathEl{selEl("span,a"), selEl(".c:is(&)")}, Decls: color("tan")}}},
		// an inset that cannot be lowered must not delete the sides before it (c8e39a6)
		genInput{ID: "regress-1", Items: []Item{
			{K: "rule", Path: []PathEl{selEl(".a")}, Decls: []Decl{one("top", false, "l1"), one("left", false, "l2"), one("inset", false, "varx")}}}},
		// every inset of a sheet is lowered, or none (c8e39a6)
		genInput{ID: "regress-2", Items: []Item{
			{K: "rule", Path: []PathEl{selEl("p")}, Decls: []Decl{one("inset", true, "l1", "auto")}},
			{K: "rule", Path: []PathEl{selEl("p")}, Decls: []Decl{one("inset", false, "l2")}},
			{K: "rule", Path: []PathEl{selEl(".b")}, Decls: []Decl{one("inset", false, "inherit")}},
			{K: "rule", Path: []PathEl{selEl(".b")}, Decls: []Decl{one("top", false, "l0"), one("inset", false, "mix", "l1")}}}},
	)
	for i := range w {
		for k := range w[i].Items {
			w[i].Items[k].fix()
		}
	}
	return w
}

func (g *gen) Sheets(n int, maxBits int) []genInput {
	out := witnesses()
	for i := 0; len(out) < n && i < n*20; i++ {
		fam := families[i%len(families)]
		items := g.Sheet(fam)
		if g.voc.envBits(items) > maxBits {
			continue
		}
		out = append(out, genInput{ID: fmt.Sprintf("%s-%d", fam, len(out)), Items: items})
	}
	return out
}
