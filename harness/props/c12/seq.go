package c12

import (
	"crypto/sha1"
	"encoding/hex"
	"encoding/json"
	"math/rand"
	"os"
	"path/filepath"
	"sort"
	"strings"

	"verifharness/core"
)

// The sequence families of spec/CssSeq.tla (declaration sequences of one shorthand family in one rule;
// three rules in stacks of conditional wrappers).  TLC model-checks every member (CssMC: SeqLaw,
// DupWrapperLaw, WinnerUnique) and exports one LABEL record per member; the harness draws, by seed, a
// label-first covering sample (every label at least once, then a seeded surplus) and lets CssGen build the
// sheets of the drawn choice vectors and compute their cases.

type seqMember struct {
	Lab bool            `json:"lab,omitempty"`
	C   []interface{}   `json:"c"`
	L   [][]interface{} `json:"l"`
	key string
	fam string
}

func labelKey(fam string, l []interface{}) string {
	b, _ := json.Marshal(l)
	return fam + string(b)
}

// coverSample: every label gets the first member (in seeded order) that carries it, labels visited in seeded order
func coverSample(members []*seqMember, rng *rand.Rand, extra int) ([]*seqMember, int) {
	sort.Slice(members, func(i, j int) bool { return members[i].key < members[j].key })
	rng.Shuffle(len(members), func(i, j int) { members[i], members[j] = members[j], members[i] })
	byLabel := map[string][]int{}
	var labels []string
	for i, m := range members {
		for _, l := range m.L {
			k := labelKey(m.fam, l)
			if _, ok := byLabel[k]; !ok {
				labels = append(labels, k)
			}
			byLabel[k] = append(byLabel[k], i)
		}
	}
	sort.Strings(labels)
	rng.Shuffle(len(labels), func(i, j int) { labels[i], labels[j] = labels[j], labels[i] })
	covered := map[string]bool{}
	taken := map[int]bool{}
	var out []*seqMember
	take := func(i int) {
		taken[i] = true
		out = append(out, members[i])
		for _, l := range members[i].L {
			covered[labelKey(members[i].fam, l)] = true
		}
	}
	for _, k := range labels {
		if !covered[k] {
			take(byLabel[k][0])
		}
	}
	for i := 0; i < len(members) && extra > 0; i++ {
		if !taken[i] {
			take(i)
			extra--
		}
	}
	return out, len(labels)
}

// The labels are a constant of the specification (they depend on neither esbuild nor the seed):
// spec/css_seq_labels.quick.json holds what the quick configuration of CssMC exports, with a hash of the
// modules and the configuration.  With a fresh file the sample is drawn before TLC runs and its cases are
// computed by the same CssGen run as the seeded sheets, while CssMC model-checks the family in parallel
// (CssMC.quick.cfg: the laws, no label export).  Stale or absent file (CssMC.quick.labels.cfg) and the
// thorough tier: the labels come from the model-checking run and the sample is drawn after it has finished
// (C12_WRITE_VOCAB=1 rewrites the file).
func seqHash(r *core.Run) string {
	h := sha1.New()
	for _, f := range []string{"Css.tla", "CssVals.tla", "CssSeq.tla", "CssMC.tla", "cfg/CssMC.quick.cfg", "cfg/CssMC.quick.labels.cfg"} {
		b, _ := os.ReadFile(filepath.Join(r.Verif, "spec", f))
		h.Write(b)
	}
	return hex.EncodeToString(h.Sum(nil))
}

func seqLabelPath(r *core.Run) string { return filepath.Join(r.Verif, "spec", "css_seq_labels.quick.json") }

func (m *seqMember) index() {
	b, _ := json.Marshal(m.C)
	m.key = string(b)
	m.fam, _ = m.C[0].(string)
}

func loadSeqLabels(r *core.Run) []*seqMember {
	if r.Thorough() {
		return nil
	}
	b, err := os.ReadFile(seqLabelPath(r))
	if err != nil {
		return nil
	}
	var f struct {
		Hash    string       `json:"hash"`
		Members []*seqMember `json:"members"`
	}
	if json.Unmarshal(b, &f) != nil || f.Hash != seqHash(r) || len(f.Members) == 0 {
		return nil
	}
	for _, m := range f.Members {
		m.index()
	}
	return f.Members
}

func writeSeqLabels(r *core.Run, members []*seqMember) {
	ms := append([]*seqMember{}, members...)
	sort.Slice(ms, func(i, j int) bool { return ms[i].key < ms[j].key })
	b, _ := json.Marshal(map[string]interface{}{"hash": seqHash(r), "members": ms})
	os.WriteFile(seqLabelPath(r), b, 0644)
}


// seqSample draws the covering sample; the result is input for CssGen (choice vectors) and the family of each id
func seqSample(r *core.Run, members []*seqMember) ([]genInput, map[string]string) {
	rng := rand.New(rand.NewSource(r.Seed + 4242))
	var d, rs []*seqMember
	for _, m := range members {
		if m.fam == "dseq" {
			d = append(d, m)
		} else {
			rs = append(rs, m)
		}
	}
	ds, nd := coverSample(d, rng, r.Pick(10, 300))
	rsS, nr := coverSample(rs, rng, r.Pick(0, 100))
	r.Set("seq_families", map[string]int{"dseq_members": len(d), "dseq_labels": nd, "dseq_sampled": len(ds), "rseq_members": len(rs), "rseq_labels": nr, "rseq_sampled": len(rsS)})
	var in []genInput
	fam := map[string]string{}
	for _, m := range append(ds, rsS...) {
		id := "seq" + strings.NewReplacer("\"", "", "[", "-", "]", "", ",", ".").Replace(m.key)
		fam[id] = map[string]string{"dseq": "seq-d", "rseq": "seq-r"}[m.fam]
		in = append(in, genInput{ID: id, Choice: m.C})
	}
	return in, fam
}

func seqCasesOf(r *core.Run, in []genInput, fam map[string]string, got map[string]*Case) []*Case {
	var out []*Case
	for _, g := range in {
		c := got[g.ID]
		if c == nil || !c.WF || len(c.Items) == 0 {
			r.Infra("sequence family member %s: the specification produced no well-formed case", g.ID)
			continue
		}
		c.Family = fam[g.ID]
		out = append(out, c)
	}
	return out
}
