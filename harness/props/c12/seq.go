package c12

import (
	"encoding/json"
	"fmt"
	"math/rand"
	"sort"
	"strings"
	"sync"

	"verifharness/core"
	"verifharness/tlcrun"
)

// The sequence families of spec/CssSeq.tla (declaration sequences of one shorthand family in one rule;
// three rules in stacks of conditional wrappers).  TLC model-checks every member (CssMC: SeqLaw,
// DupWrapperLaw, WinnerUnique) and exports one LABEL record per member; the harness draws, by seed, a
// label-first covering sample (every label at least once, then a seeded surplus) and lets CssGen build the
// sheets of the drawn choice vectors and compute their cases.

type seqMember struct {
	C []interface{}   `json:"c"`
	L [][]interface{} `json:"l"`
	key string
	fam string
}

func labelKey(fam string, l []interface{}) string {
	b, _ := json.Marshal(l)
	return fam + string(b)
}

// coverSample: every label gets the first member (in seeded order) that carries it, labels visited in seeded order
func coverSample(members []*seqMember, rng *rand.Rand, extra int) ([]*seqMember, int) {
	sort.Slice(members, func(i, j int) bool { return members[i].key < members[j].key })
	rng.Shuffle(len(members), func(i, j int) { members[i], members[j] = members[j], members[i] })
	byLabel := map[string][]int{}
	var labels []string
	for i, m := range members {
		for _, l := range m.L {
			k := labelKey(m.fam, l)
			if _, ok := byLabel[k]; !ok {
				labels = append(labels, k)
			}
			byLabel[k] = append(byLabel[k], i)
		}
	}
	sort.Strings(labels)
	rng.Shuffle(len(labels), func(i, j int) { labels[i], labels[j] = labels[j], labels[i] })
	covered := map[string]bool{}
	taken := map[int]bool{}
	var out []*seqMember
	take := func(i int) {
		taken[i] = true
		out = append(out, members[i])
		for _, l := range members[i].L {
			covered[labelKey(members[i].fam, l)] = true
		}
	}
	for _, k := range labels {
		if !covered[k] {
			take(byLabel[k][0])
		}
	}
	for i := 0; i < len(members) && extra > 0; i++ {
		if !taken[i] {
			take(i)
			extra--
		}
	}
	return out, len(labels)
}

func runSeq(r *core.Run) []*Case {
	var mu sync.Mutex
	var members []*seqMember
	res := tlcrun.MustHold(r, tlcrun.Options{Module: "CssMC", Config: pickS(r, "CssMC.seq.quick.cfg", "CssMC.seq.thorough.cfg"), Workers: r.Pick(2, 3),
		TimeoutSec: r.Pick(600, 1500), HeapGB: 4,
		OnCase: func(raw []byte) {
			var m seqMember
			if err := json.Unmarshal(raw, &m); err != nil || len(m.C) == 0 {
				r.Logf("seq label decode: %v: %.200s", err, raw)
				return
			}
			b, _ := json.Marshal(m.C)
			m.key = string(b)
			m.fam, _ = m.C[0].(string)
			mu.Lock()
			members = append(members, &m)
			mu.Unlock()
		}})
	if res == nil || len(members) == 0 {
		r.Infra("CssMC seq families: no members exported")
		return nil
	}
	rng := rand.New(rand.NewSource(r.Seed + 4242))
	var d, rs []*seqMember
	for _, m := range members {
		if m.fam == "dseq" {
			d = append(d, m)
		} else {
			rs = append(rs, m)
		}
	}
	ds, nd := coverSample(d, rng, r.Pick(20, 1200))
	rsS, nr := coverSample(rs, rng, r.Pick(0, 400))
	r.Set("seq_families", map[string]int{"dseq_members": len(d), "dseq_labels": nd, "dseq_sampled": len(ds), "rseq_members": len(rs), "rseq_labels": nr, "rseq_sampled": len(rsS)})
	var in []genInput
	fam := map[string]string{}
	for _, m := range append(ds, rsS...) {
		id := "seq" + strings.NewReplacer("\"", "", "[", "-", "]", "", ",", ".").Replace(m.key)
		fam[id] = map[string]string{"dseq": "seq-d", "rseq": "seq-r"}[m.fam]
		in = append(in, genInput{ID: id, Choice: m.C})
	}
	got := runGen(r, in, 1, r.Pick(2, 3))
	var out []*Case
	for _, g := range in {
		c := got[g.ID]
		if c == nil || !c.WF || len(c.Items) == 0 {
			r.Infra("sequence family member %s: the specification produced no well-formed case", g.ID)
			continue
		}
		c.Family = fam[g.ID]
		out = append(out, c)
	}
	r.Logf("sequence families: %d members (%d+%d labels), %d cases", len(members), nd, nr, len(out))
	_ = fmt.Sprint
	return out
}
