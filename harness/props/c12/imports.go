package c12

import (
	"encoding/json"
	"fmt"
	"math/rand"
	"os"
	"path/filepath"
	"sort"
	"strings"
	"sync"

	"github.com/evanw/esbuild/pkg/api"

	"verifharness/core"
	"verifharness/tlcrun"
)

// Bundled @import graphs.  The reference is CssImport!Inline (every import
// replaced where it appears, wrapped in its conditions/layer; imports of a
// file that is on the chain ignored); TLC computes the inlined sheet and its
// winners; the real api.Build bundles real files; css_eval.js evaluates the
// file set natively (its own inlining: drift check) and the bundle.

type fileItem struct {
	K     string     `json:"k"`
	Path  []PathEl   `json:"path"`
	Decls []Decl     `json:"decls"`
	Names [][]string `json:"names"`
	File  string     `json:"file"`
	Wrap  []PathEl   `json:"wrap"`
}
type graphFile struct {
	Name  string     `json:"name"`
	Items []fileItem `json:"items"`
}
type graph struct {
	ID    string      `json:"id"`
	Entry string      `json:"entry"`
	Files []graphFile `json:"files"`
}

func ruleFileItem(it Item) fileItem {
	it.fix()
	return fileItem{K: it.K, Path: it.Path, Decls: it.Decls, Names: it.Names, Wrap: []PathEl{}}
}

func (g *gen) graph(id string) graph {
	v := g.voc
	names := []string{"a", "b", "c", "d"}[:2+g.rng.Intn(3)]
	pl := &pools{colors: g.subset(v.valsByKind["color"], 3), lens: g.subset(v.valsByKind["length"], 2), props: []string{"color", "background-color"}}
	selPool := g.subset(simpleTop, 2)
	atomPool := []string{"print", "grid", "w100"}
	gr := graph{ID: id, Entry: "a"}
	if g.chance(0.3) {
		return g.layeredDuplicate(gr, pl)
	}
	anon := 0
	for fi, name := range names {
		f := graphFile{Name: name}
		if g.chance(0.15) {
			f.Items = append(f.Items, ruleFileItem(Item{K: "layer", Names: [][]string{{"x"}, {"y"}}[:1+g.rng.Intn(2)]}))
		}
		nimp := g.rng.Intn(3)
		if fi == 0 && nimp == 0 {
			nimp = 1
		}
		for k := 0; k < nimp; k++ {
			target := g.pick(names) // self-imports and cycles included
			var wrap []PathEl
			if g.chance(0.3) {
				wrap = append(wrap, condEl("media", g.cond("media", atomPool, 0)))
			}
			if g.chance(0.2) {
				c := Cond{R: "supports", Qs: []Query{{Neg: g.chance(0.2), Atoms: []AtomRef{{A: "grid", Sp: 1}}}}}
				wrap = append(wrap, condEl("supports", c))
			}
			if g.chance(0.3) {
				switch {
				case fi == 0 && g.chance(0.3):
					anon++
					wrap = append(wrap, layerEl(fmt.Sprintf("<i%d>", anon)))
				case g.chance(0.3):
					wrap = append(wrap, layerEl("x", "z"))
				default:
					wrap = append(wrap, layerEl(g.pick([]string{"x", "y"})))
				}
			}
			if wrap == nil {
				wrap = []PathEl{}
			}
			f.Items = append(f.Items, fileItem{K: "import", Path: []PathEl{}, Decls: []Decl{}, Names: [][]string{}, File: target, Wrap: wrap})
		}
		nr := 1 + g.rng.Intn(2)
		for k := 0; k < nr; k++ {
			var path []PathEl
			if g.chance(0.2) {
				path = append(path, layerEl(g.pick([]string{"x", "y"})))
			}
			path = append(path, selEl(g.pick(selPool)))
			f.Items = append(f.Items, ruleFileItem(Item{K: "rule", Path: path, Decls: []Decl{g.themedDecl("color", pl, 0.1)}}))
		}
		gr.Files = append(gr.Files, f)
	}
	return gr
}

// a file imported twice with another layer declared in between: the first copy may be dropped
// by a bundler, the layers it declares may not (layers keep first-declaration order)
func (g *gen) layeredDuplicate(gr graph, pl *pools) graph {
	sel := g.pick([]string{".a", "p", ".b", "span"})
	imp := func(file string, wrap ...PathEl) fileItem {
		if wrap == nil {
			wrap = []PathEl{}
		}
		return fileItem{K: "import", Path: []PathEl{}, Decls: []Decl{}, Names: [][]string{}, File: file, Wrap: wrap}
	}
	rule := func(layer string) fileItem {
		var path []PathEl
		if layer != "" {
			path = append(path, layerEl(layer))
		}
		path = append(path, selEl(sel))
		return ruleFileItem(Item{K: "rule", Path: path, Decls: []Decl{g.decl("color", []string{g.pick(pl.colors)}, 0, 0.2)}})
	}
	a := graphFile{Name: "a"}
	b := graphFile{Name: "b"}
	c := graphFile{Name: "c"}
	switch g.rng.Intn(3) {
	case 0: // the layers are inside the files
		a.Items = []fileItem{imp("b"), imp("c"), imp("b")}
		b.Items = []fileItem{rule("x")}
		c.Items = []fileItem{rule("y"), rule("x")}
	case 1: // the layers come from the imports
		a.Items = []fileItem{imp("b", layerEl("x")), imp("c", layerEl("y")), imp("b", layerEl("x"))}
		b.Items = []fileItem{rule("")}
		c.Items = []fileItem{rule(""), rule("x")}
	default: // a statement in the duplicated file, a conditional second copy
		a.Items = []fileItem{imp("b"), imp("c"), imp("b", condEl("media", Cond{R: "media", Qs: []Query{{Atoms: []AtomRef{{A: "print", Sp: 1}}}}}))}
		b.Items = []fileItem{ruleFileItem(Item{K: "layer", Names: [][]string{{"x"}, {"y"}}}), rule("x")}
		c.Items = []fileItem{rule("y"), rule("x")}
	}
	if g.chance(0.5) {
		a.Items = append(a.Items, rule(g.pick([]string{"", "x", "y"})))
	}
	gr.Files = []graphFile{a, b, c}
	return gr
}

func (v *Vocab) importText(it fileItem, st Style) string {
	s := `@import "./` + it.File + `.css"`
	var media, supports, layer string
	for _, w := range it.Wrap {
		switch w.T {
		case "media":
			media = v.condText(w.C)
		case "supports":
			t := v.condText(w.C)
			if len(w.C.Qs) == 1 && !w.C.Qs[0].Neg && len(w.C.Qs[0].Atoms) == 1 && st.Compact {
				t = strings.TrimSuffix(strings.TrimPrefix(t, "("), ")") // the declaration form
			}
			supports = "supports(" + t + ")"
		case "layer":
			if strings.HasPrefix(w.N[0], "<") {
				layer = "layer"
			} else {
				layer = "layer(" + strings.Join(w.N, ".") + ")"
			}
		}
	}
	for _, x := range []string{layer, supports, media} {
		if x != "" {
			s += " " + x
		}
	}
	return s + ";\n"
}

func (v *Vocab) renderGraph(gr graph, st Style) map[string]string {
	out := map[string]string{}
	for _, f := range gr.Files {
		var sb strings.Builder
		var rest []Item
		for _, it := range f.Items {
			switch {
			case it.K == "import":
				sb.WriteString(v.importText(it, st))
			case it.K == "layer" && len(rest) == 0:
				sb.WriteString(v.Render([]Item{{K: it.K, Path: it.Path, Names: it.Names}}, st))
				if st.Compact {
					sb.WriteString("\n")
				}
			default:
				rest = append(rest, Item{K: it.K, Path: it.Path, Decls: it.Decls, Names: it.Names})
			}
		}
		sb.WriteString(v.Render(rest, st))
		out[f.Name+".css"] = sb.String()
	}
	return out
}

func bundle(dir string, cfg config) (string, []string) {
	o := api.BuildOptions{AbsWorkingDir: dir, EntryPoints: []string{"a.css"}, Bundle: true, Write: false, Outfile: "out.css", LogLevel: api.LogLevelSilent}
	switch cfg.Minify {
	case "all":
		o.MinifyWhitespace, o.MinifySyntax, o.MinifyIdentifiers = true, true, true
	case "syntax":
		o.MinifySyntax = true
	}
	o.Engines = targetByName(cfg.Target).engines
	res := api.Build(o)
	var errs []string
	for _, e := range res.Errors {
		errs = append(errs, e.Text)
	}
	for _, f := range res.OutputFiles {
		if strings.HasSuffix(f.Path, ".css") {
			return string(f.Contents), errs
		}
	}
	if len(errs) == 0 {
		errs = []string{"no css output"}
	}
	return "", errs
}

// runImportTLC: the bounded-exhaustive graph family (model checking) and the cases of the seeded graphs, one JVM
func runImportTLC(r *core.Run, graphs []graph, workers int) map[string]*Case {
	var sb strings.Builder
	for _, g := range graphs {
		b, _ := json.Marshal(g)
		sb.Write(b)
		sb.WriteByte('\n')
	}
	out := map[string]*Case{}
	var mu sync.Mutex
	res := tlcrun.MustHold(r, tlcrun.Options{Module: "CssImport", Config: pickS(r, "CssImport.quick.cfg", "CssImport.thorough.cfg"), Workers: workers,
		TimeoutSec: r.Pick(600, 1500), HeapGB: 4, Files: map[string]string{"cssimp_in.ndjson": sb.String()},
		OnCase: func(raw []byte) {
			var c Case
			if err := json.Unmarshal(raw, &c); err != nil {
				r.Logf("import case decode: %v: %.300s", err, raw)
				return
			}
			var id string
			json.Unmarshal(c.ID, &id)
			c.Name = id
			mu.Lock()
			out[id] = &c
			mu.Unlock()
		}})
	_ = res
	return out
}

func checkImports(r *core.Run, voc *Vocab, graphs []graph, cases map[string]*Case, st *stats) {
	dom := voc.domJSON(nil)
	type gw struct {
		g     graph
		c     *Case
		style Style
		files map[string]string
		dir   string
		outs  []*outcome
	}
	var works []*gw
	for i, g := range graphs {
		c := cases[g.ID]
		if c == nil {
			r.Infra("no case for import graph %s", g.ID)
			continue
		}
		if !c.WF {
			b, _ := json.Marshal(g)
			r.Infra("inlined graph %s is not well formed: %s", g.ID, b)
			continue
		}
		c.Family = "import"
		rng := rand.New(rand.NewSource(r.Seed*7919 + int64(i)))
		w := &gw{g: g, c: c, style: randStyle(rng)}
		w.style.Group = true
		w.style.Noise = false
		w.files = voc.renderGraph(g, w.style)
		w.dir = filepath.Join(r.Scratch, fmt.Sprintf("imp%d", i))
		core.WriteTree(w.dir, w.files)
		old := targets[1+rng.Intn(len(targets)-1)].name
		for _, cfg := range []config{{"off", "none", "bundle"}, {"all", "none", "bundle"}, {"all", old, "bundle"}} {
			w.outs = append(w.outs, &outcome{cfg: cfg})
		}
		works = append(works, w)
	}
	core.Parallel(len(works), 8, func(i int) {
		w := works[i]
		for _, o := range w.outs {
			o.text, o.errs = bundle(w.dir, o.cfg)
		}
		os.RemoveAll(w.dir)
	})
	var jobs []nodeJob
	for i, w := range works {
		c := w.c
		files := map[string]string{}
		for n, t := range w.files {
			files["/"+n] = t
		}
		in := nodeJob{ID: fmt.Sprintf("g%d/in", i), Files: files, Entry: "/a.css"}
		for _, e := range c.Envs {
			in.Envs = append(in.Envs, nodeEnv{Conds: voc.nodeConds(c, e), Feats: append([]string{}, e.Feats...)})
		}
		jobs = append(jobs, in)
		for k, o := range w.outs {
			if len(o.errs) > 0 {
				continue
			}
			tg := targetByName(o.cfg.Target)
			j := nodeJob{ID: fmt.Sprintf("g%d/out%d", i, k), CSS: o.text, Universe: c.Props}
			for ix, e := range c.Envs {
				if f, ok := outEnv(c, e, tg); ok && !(o.warnIs && !subset([]string{"is"}, f)) {
					o.envIx = append(o.envIx, ix)
					j.Envs = append(j.Envs, nodeEnv{Conds: voc.nodeConds(c, e), Feats: f})
				}
			}
			o.jobID = j.ID
			jobs = append(jobs, j)
		}
	}
	results := evalJobs(r, dom, jobs, 4)
	for i, w := range works {
		var names []string
		for n := range w.files {
			names = append(names, n)
		}
		sort.Strings(names)
		var sb strings.Builder
		for _, n := range names {
			sb.WriteString("/* ==== " + n + " */\n" + w.files[n])
		}
		ww := &work{c: w.c, style: w.style, text: sb.String(), outs: w.outs, files: w.files, graph: &w.g}
		// judge() looks the input job up by index: give it the id used above
		results[fmt.Sprintf("%d/in", -1-i)] = results[fmt.Sprintf("g%d/in", i)]
		judge(r, voc, -1-i, ww, results, st)
	}
}
