// Package c12: CSS parsing, minification, lowering and bundling preserve the
// cascade.  Spec: Css.tla (selectors with match sets over a fixed document,
// nesting by desugaring, conditions, layers, shorthands, values with
// canonical forms, the cascade Winner), CssMC.tla (bounded-exhaustive
// families on which TLC checks the specification's own properties and which
// are exported as cases), CssGen.tla (abstract sheets drawn by seed over the
// vocabulary -> cases with the table of winners for every environment),
// CssImport.tla (import graphs, Inline).  This file: the abstract sheet as Go
// data, the vocabulary exported by the spec, and the TLC runs.
package c12

import (
	"crypto/sha1"
	"encoding/hex"
	"encoding/json"
	"fmt"
	"os"
	"path/filepath"
	"sort"
	"strings"
	"sync"

	"verifharness/core"
	"verifharness/tlcrun"
)

type AtomRef struct {
	A  string `json:"a"`
	Sp int    `json:"sp"`
}
type Query struct {
	Neg   bool      `json:"neg"`
	Atoms []AtomRef `json:"atoms"`
}
type Cond struct {
	R  string  `json:"r"`
	Qs []Query `json:"qs"`
}
type PathEl struct {
	T string   `json:"t"` // sel | media | supports | container | layer
	S string   `json:"s"` // selector key (its CSS text)
	C Cond     `json:"c"`
	N []string `json:"n"` // layer name segments ([] = anonymous)
}
type Decl struct {
	P  string   `json:"p"`
	V  []string `json:"v"`
	Sp []int    `json:"sp"`
	I  bool     `json:"i"`
}
type Item struct {
	K     string     `json:"k"` // rule | layer
	Path  []PathEl   `json:"path"`
	Decls []Decl     `json:"decls"`
	Names [][]string `json:"names"`
}

func noCond() Cond { return Cond{R: "", Qs: []Query{}} }
func selEl(s string) PathEl {
	return PathEl{T: "sel", S: s, C: noCond(), N: []string{}}
}
func condEl(t string, c Cond) PathEl { return PathEl{T: t, C: c, N: []string{}} }
func layerEl(n ...string) PathEl {
	if n == nil {
		n = []string{}
	}
	return PathEl{T: "layer", C: noCond(), N: n}
}

// normalise nil slices so that the JSON given to TLC has [] everywhere
func (it *Item) fix() {
	if it.Path == nil {
		it.Path = []PathEl{}
	}
	if it.Decls == nil {
		it.Decls = []Decl{}
	}
	if it.Names == nil {
		it.Names = [][]string{}
	}
	for i := range it.Path {
		if it.Path[i].N == nil {
			it.Path[i].N = []string{}
		}
		if it.Path[i].C.Qs == nil {
			it.Path[i].C.Qs = []Query{}
		}
	}
}

// ---- vocabulary exported by CssGen.tla

type spelling struct {
	T string   `json:"t"`
	F []string `json:"f"`
}
type vocAtom struct {
	R   string     `json:"r"`
	Key string     `json:"key"`
	Sp  []spelling `json:"sp"`
}
type vocVal struct {
	Kind  string     `json:"kind"`
	Canon []string   `json:"canon"`
	Sp    []spelling `json:"sp"`
}
type vocElem struct {
	Tag  string     `json:"tag"`
	ID   string     `json:"id"`
	Cls  []string   `json:"cls"`
	Attr [][]string `json:"attr"`
	Par  int        `json:"par"`
}
type Vocab struct {
	Dom   []vocElem           `json:"dom"`
	Top   map[string][]string `json:"top"`
	Nest  map[string][]string `json:"nest"`
	Atoms map[string]vocAtom  `json:"atoms"`
	Vals  map[string]vocVal   `json:"vals"`
	Props map[string]string   `json:"props"`

	topKeys, nestKeys, atomKeys, propKeys []string
	valsByKind                            map[string][]string
}

func (v *Vocab) index() {
	for k := range v.Top {
		v.topKeys = append(v.topKeys, k)
	}
	for k := range v.Nest {
		v.nestKeys = append(v.nestKeys, k)
	}
	for k := range v.Atoms {
		v.atomKeys = append(v.atomKeys, k)
	}
	for k := range v.Props {
		v.propKeys = append(v.propKeys, k)
	}
	sort.Strings(v.topKeys)
	sort.Strings(v.nestKeys)
	sort.Strings(v.atomKeys)
	sort.Strings(v.propKeys)
	v.valsByKind = map[string][]string{}
	ks := []string{}
	for k := range v.Vals {
		ks = append(ks, k)
	}
	sort.Strings(ks)
	for _, k := range ks {
		v.valsByKind[v.Vals[k].Kind] = append(v.valsByKind[v.Vals[k].Kind], k)
	}
}

// DOM in the format of node/css_eval.js
func (v *Vocab) domJSON(rename func(kind, name string) string) []map[string]interface{} {
	out := []map[string]interface{}{}
	for i, e := range v.Dom {
		attrs := map[string]string{}
		for _, a := range e.Attr {
			if len(a) == 2 {
				attrs[a[0]] = a[1]
			}
		}
		cls := []string{}
		for _, c := range e.Cls {
			if rename != nil {
				c = rename("class", c)
			}
			cls = append(cls, c)
		}
		id := e.ID
		if id != "" && rename != nil {
			id = rename("id", id)
		}
		m := map[string]interface{}{"id": fmt.Sprintf("e%d", i+1), "tag": e.Tag, "idattr": id, "classes": cls, "attrs": attrs}
		if e.Par == 0 {
			m["parent"] = nil
		} else {
			m["parent"] = fmt.Sprintf("e%d", e.Par)
		}
		out = append(out, m)
	}
	return out
}

// The vocabulary is a constant of the specification: spec/css_vocab.json holds what
// CssGen.vocab.cfg exported together with a hash of the spec modules it came from; when the
// modules changed it is exported again by TLC (C12_WRITE_VOCAB=1 rewrites the file).
func specHash(r *core.Run) string {
	h := sha1.New()
	for _, f := range []string{"Css.tla", "CssGen.tla", "CssVals.tla"} {
		b, _ := os.ReadFile(filepath.Join(r.Verif, "spec", f))
		h.Write(b)
	}
	return hex.EncodeToString(h.Sum(nil))
}

func loadVocab(r *core.Run) *Vocab {
	path := filepath.Join(r.Verif, "spec", "css_vocab.json")
	want := specHash(r)
	if b, err := os.ReadFile(path); err == nil {
		var f struct {
			Hash  string `json:"hash"`
			Vocab Vocab  `json:"vocab"`
		}
		if json.Unmarshal(b, &f) == nil && f.Hash == want && len(f.Vocab.Dom) > 0 {
			f.Vocab.index()
			return &f.Vocab
		}
	}
	var voc *Vocab
	var rawVoc json.RawMessage
	res, err := tlcrun.Run(r, tlcrun.Options{Module: "CssGen", Config: "CssGen.vocab.cfg", Workers: 1, TimeoutSec: 300, OnCase: func(raw []byte) {
		var v Vocab
		if err := json.Unmarshal(raw, &v); err == nil && len(v.Dom) > 0 {
			voc = &v
			rawVoc = append(json.RawMessage{}, raw...)
		} else if err != nil {
			r.Logf("vocab decode: %v", err)
		}
	}})
	if err != nil || voc == nil {
		r.Infra("CssGen vocabulary export failed: %v %s", err, tail(res))
		return nil
	}
	if os.Getenv("C12_WRITE_VOCAB") != "" {
		b, _ := json.Marshal(map[string]interface{}{"hash": want, "vocab": rawVoc})
		os.WriteFile(path, b, 0644)
	} else {
		r.Logf("spec/css_vocab.json is stale; vocabulary exported by TLC")
	}
	voc.index()
	return voc
}

func tail(res *tlcrun.Result) string {
	if res == nil {
		return ""
	}
	o := res.Output
	if len(o) > 3000 {
		o = o[len(o)-3000:]
	}
	return o
}

// ---- cases computed by TLC

type lhMap map[string]string

func (m *lhMap) UnmarshalJSON(b []byte) error {
	*m = lhMap{}
	s := strings.TrimSpace(string(b))
	if strings.HasPrefix(s, "[") { // the empty function
		return nil
	}
	var raw map[string][]string
	if err := json.Unmarshal(b, &raw); err != nil {
		return err
	}
	for k, v := range raw {
		(*m)[k] = strings.Join(v, " ")
	}
	return nil
}

type condMap map[string]bool

func (m *condMap) UnmarshalJSON(b []byte) error {
	*m = condMap{}
	s := strings.TrimSpace(string(b))
	if strings.HasPrefix(s, "[") {
		return nil
	}
	var raw map[string]bool
	if err := json.Unmarshal(b, &raw); err != nil {
		return err
	}
	*m = raw
	return nil
}

type Env struct {
	Feats  []string `json:"feats"`
	Conds  condMap  `json:"conds"`
	Layers int      `json:"layers"`
}

func (e Env) has(f string) bool {
	for _, x := range e.Feats {
		if x == f {
			return true
		}
	}
	return false
}

type Case struct {
	ID      json.RawMessage `json:"id"`
	WF      bool            `json:"wf"`
	Feats   []string        `json:"feats"`
	Atoms   []string        `json:"atoms"`
	Props   []string        `json:"props"`
	Envs    []Env           `json:"envs"`
	Win     [][]lhMap       `json:"win"` // [env][element-1] -> longhand -> canonical value
	Items   []Item          `json:"items"`
	Compete bool            `json:"compete"`
	Mixed   bool            `json:"mixed"`
	NotAmp  bool            `json:"notamp"`
	InsetMix bool           `json:"insetmix"` // an `inset` shorthand with a value of newer syntax (min()/max())
	NotAmpC bool            `json:"notampc"` // `&` inside :not() under a parent that is complex after substitution

	Family string `json:"-"`
	Name   string `json:"-"`
}

type genInput struct {
	ID     string        `json:"id"`
	Items  []Item        `json:"items,omitempty"`
	Choice []interface{} `json:"choice,omitempty"` // a member of the sequence families of CssSeq.tla: the specification builds the sheet
}

// runGen lets TLC compute the cases of the given abstract sheets (sharded over JVMs)
func runGen(r *core.Run, sheets []genInput, jvms, workers int) map[string]*Case {
	out := map[string]*Case{}
	var mu sync.Mutex
	if len(sheets) == 0 {
		return out
	}
	if jvms < 1 {
		jvms = 1
	}
	per := (len(sheets) + jvms - 1) / jvms
	core.Parallel(jvms, jvms, func(j int) {
		lo, hi := j*per, (j+1)*per
		if lo >= len(sheets) {
			return
		}
		if hi > len(sheets) {
			hi = len(sheets)
		}
		var sb strings.Builder
		for _, s := range sheets[lo:hi] {
			for i := range s.Items {
				s.Items[i].fix()
			}
			b, _ := json.Marshal(s)
			sb.Write(b)
			sb.WriteByte('\n')
		}
		if d := os.Getenv("C12_DUMP"); d != "" { // development only
			os.WriteFile(d, []byte(sb.String()), 0644)
		}
		res, err := tlcrun.Run(r, tlcrun.Options{Module: "CssGen", Config: "CssGen.cfg", Workers: workers, TimeoutSec: r.Pick(600, 1500), HeapGB: 6,
			Files: map[string]string{"cssgen_in.ndjson": sb.String()},
			OnCase: func(raw []byte) {
				var c Case
				if err := json.Unmarshal(raw, &c); err != nil {
					r.Logf("case decode: %v: %.300s", err, raw)
					return
				}
				var id string
				json.Unmarshal(c.ID, &id)
				c.Name = id
				mu.Lock()
				out[id] = &c
				mu.Unlock()
			}})
		if err != nil {
			r.Infra("CssGen failed: %v\n%s", err, tail(res))
			return
		}
		if res.Violated != "" {
			r.Infra("CssGen reported %s\n%s", res.Violated, tail(res))
		}
	})
	return out
}

// runMC model-checks one family of CssMC.tla; with export the enumerated sheets come back as cases
func runMC(r *core.Run, cfg string, workers int, onCase func(*Case), onLabel func(*seqMember)) *tlcrun.Result {
	res := tlcrun.MustHold(r, tlcrun.Options{Module: "CssMC", Config: cfg, Workers: workers, TimeoutSec: r.Pick(600, 1500), HeapGB: 6,
		OnCase: func(raw []byte) {
			if onCase == nil {
				return
			}
			if onLabel != nil && strings.HasPrefix(string(raw), `{"lab":true`) {
				var m seqMember
				if err := json.Unmarshal(raw, &m); err != nil || len(m.C) == 0 {
					r.Logf("seq label decode: %v: %.200s", err, raw)
					return
				}
				m.index()
				onLabel(&m)
				return
			}
			var c Case
			if err := json.Unmarshal(raw, &c); err != nil {
				r.Logf("mc case decode: %v: %.300s", err, raw)
				return
			}
			c.Name = "mc" + strings.NewReplacer("\"", "", "[", "-", "]", "", ",", ".").Replace(string(c.ID))
			onCase(&c)
		}})
	return res
}
