package c12

import (
	"encoding/json"
	"fmt"
	"math/rand"
	"os"
	"sort"
	"strings"
	"sync"
	"time"

	"github.com/evanw/esbuild/pkg/api"

	"verifharness/core"
	"verifharness/nodex"
)

// ---- targets: which of the modelled syntax features esbuild assumes the target understands

var allFeats = []string{"nesting", "is", "where", "not-list", "inset", "hex-alpha", "rgb-space", "media-range", "math-fn"}

type target struct {
	name    string
	engines []api.Engine
	feats   []string // every browser the target stands for understands these
}

var targets = []target{
	{"none", nil, allFeats},
	{"chrome50", []api.Engine{{Name: api.EngineChrome, Version: "50"}}, nil},
	{"firefox60", []api.Engine{{Name: api.EngineFirefox, Version: "60"}}, []string{"hex-alpha", "rgb-space"}},
	{"chrome90", []api.Engine{{Name: api.EngineChrome, Version: "90"}}, []string{"hex-alpha", "rgb-space", "inset", "is"}},
	{"chrome130", []api.Engine{{Name: api.EngineChrome, Version: "130"}}, []string{"nesting", "is", "inset", "hex-alpha", "rgb-space", "media-range"}},
}

func targetByName(n string) target {
	for _, t := range targets {
		if t.name == n {
			return t
		}
	}
	return targets[0]
}

type config struct {
	Minify string `json:"minify"` // off | all | syntax | whitespace
	Target string `json:"target"`
	Loader string `json:"loader"` // css | global-css | local-css
}

func (c config) String() string {
	return fmt.Sprintf("minify=%s,target=%s,loader=%s", c.Minify, c.Target, c.Loader)
}

// esbuild says so itself when a nested selector cannot be lowered without :is() for the target
const warnNeedsIs = "Transforming this CSS nesting syntax is not supported in the configured target environment"

func needsIs(msgs []api.Message) bool {
	for _, m := range msgs {
		if strings.Contains(m.Text, warnNeedsIs) {
			return true
		}
	}
	return false
}

func transform(css string, c config) (string, []string, bool) {
	o := api.TransformOptions{Loader: api.LoaderCSS, LogLevel: api.LogLevelSilent, Sourcefile: "in.css"}
	switch c.Loader {
	case "global-css":
		o.Loader = api.LoaderGlobalCSS
	case "local-css":
		o.Loader = api.LoaderLocalCSS
	}
	switch c.Minify {
	case "all":
		o.MinifyWhitespace, o.MinifySyntax, o.MinifyIdentifiers = true, true, true
	case "syntax":
		o.MinifySyntax = true
	case "whitespace":
		o.MinifyWhitespace = true
	}
	o.Engines = targetByName(c.Target).engines
	o.LogLevel = api.LogLevelSilent
	res := api.Transform(css, o)
	var errs []string
	for _, e := range res.Errors {
		errs = append(errs, e.Text)
	}
	return string(res.Code), errs, needsIs(res.Warnings)
}

// ---- node/css_eval.js

type nodeEnv struct {
	Conds map[string]bool `json:"conds"`
	Feats []string        `json:"feats"`
}
type nodeJob struct {
	ID       string            `json:"id"`
	CSS      string            `json:"css,omitempty"`
	Files    map[string]string `json:"files,omitempty"`
	Entry    string            `json:"entry,omitempty"`
	Dom      interface{}       `json:"dom,omitempty"`
	Envs     []nodeEnv         `json:"envs"`
	Universe []string          `json:"universe,omitempty"`
}
type nodeResult struct {
	ID       string                         `json:"id"`
	Error    *string                        `json:"error"`
	Winners  []map[string]map[string]string `json:"winners"`
	Features []string                       `json:"features"`
	Atoms    []string                       `json:"atoms"`
	Props    []string                       `json:"props"`
	Notes    []string                       `json:"notes"`
}

func evalJobs(r *core.Run, dom interface{}, jobs []nodeJob, procs int) map[string]*nodeResult {
	out := map[string]*nodeResult{}
	if len(jobs) == 0 {
		return out
	}
	var mu sync.Mutex
	chunk := 400
	n := (len(jobs) + chunk - 1) / chunk
	core.Parallel(n, procs, func(i int) {
		lo, hi := i*chunk, (i+1)*chunk
		if hi > len(jobs) {
			hi = len(jobs)
		}
		in := map[string]interface{}{"dom": dom, "jobs": jobs[lo:hi]}
		var res struct {
			Results []*nodeResult `json:"results"`
		}
		if err := nodex.Run(r, "css_eval.js", in, &res, 5*time.Minute, ""); err != nil {
			r.Infra("css_eval.js failed: %v", err)
			return
		}
		mu.Lock()
		for _, x := range res.Results {
			out[x.ID] = x
		}
		mu.Unlock()
	})
	return out
}

// ---- one case through the real esbuild

type outcome struct {
	warnIs bool // esbuild warned that the output needs :is(): environments without it are not judged
	cfg    config
	text   string
	errs   []string
	jobID  string
	envIx  []int // spec environment index of each evaluated environment
}

type work struct {
	c     *Case
	style Style
	text  string
	outs  []*outcome
	files map[string]string // import graphs: the files as written
	graph *graph
}

func sameConds(a, b condMap) bool {
	if len(a) != len(b) {
		return false
	}
	for k, v := range a {
		if w, ok := b[k]; !ok || w != v {
			return false
		}
	}
	return true
}

func subset(a, b []string) bool {
	for _, x := range a {
		found := false
		for _, y := range b {
			if x == y {
				found = true
				break
			}
		}
		if !found {
			return false
		}
	}
	return true
}

func union(a, b []string) []string {
	m := map[string]bool{}
	for _, x := range a {
		m[x] = true
	}
	for _, x := range b {
		m[x] = true
	}
	out := []string{}
	for x := range m {
		out = append(out, x)
	}
	sort.Strings(out)
	return out
}

func inter(a, b []string) []string {
	out := []string{}
	for _, x := range a {
		for _, y := range b {
			if x == y {
				out = append(out, x)
			}
		}
	}
	return out
}

// outEnv: is environment e of the case a browser the target stands for, and with which
// features is the OUTPUT evaluated in it?  The environment must understand every modelled
// feature the target has (restricted to the input's features, the rest is added), and a
// browser that understands nesting understands :is(), :where() and complex :not().
func outEnv(c *Case, e Env, tg target) ([]string, bool) {
	if !subset(inter(tg.feats, c.Feats), e.Feats) {
		return nil, false
	}
	f := union(e.Feats, tg.feats)
	imply := func(xs []string) bool {
		for _, x := range xs {
			if !e.has(x) {
				if subset([]string{x}, c.Feats) {
					return false
				}
				f = union(f, []string{x})
			}
		}
		return true
	}
	if e.has("nesting") && !imply(impliedByNesting) {
		return nil, false
	}
	if subset([]string{"is"}, f) && !imply(impliedByIs) {
		return nil, false
	}
	return f, true
}

// every browser that understands nesting understands the level-4 selectors it is defined with
var impliedByNesting = []string{"is", "where", "not-list"}

// ... and a browser that understands :is() understands :where() and complex :not() (they shipped together,
// esbuild's compat table has one entry for the three)
var impliedByIs = []string{"where", "not-list"}

func (v *Vocab) nodeConds(c *Case, e Env) map[string]bool {
	m := map[string]bool{}
	for a, t := range e.Conds {
		m[v.Atoms[a].Key] = t
	}
	return m
}

func nontrivial(c *Case) bool {
	if c.Compete {
		return true
	}
	for _, it := range c.Items {
		for _, pe := range it.Path {
			if pe.T != "sel" {
				return true
			}
		}
		for _, d := range it.Decls {
			switch d.P {
			case "margin", "padding", "inset", "border-radius", "font", "background", "all":
				return true
			}
		}
	}
	return false
}

func randStyle(rng *rand.Rand) Style {
	return Style{Group: rng.Intn(4) != 0, Compact: rng.Intn(4) == 0, LastSemi: rng.Intn(2) == 0, UpperProp: rng.Intn(8) == 0,
		Comments: rng.Intn(8) == 0, ImpSpace: rng.Intn(8) == 0, Escapes: rng.Intn(10) == 0, Noise: rng.Intn(10) == 0}
}

func pickConfigs(rng *rand.Rand, thorough bool) []config {
	if thorough {
		out := []config{{"all", "none", "css"}, {"off", "none", "css"}}
		perm := rng.Perm(len(targets) - 1)
		out = append(out, config{"all", targets[1+perm[0]].name, "css"}, config{"off", targets[1+perm[0]].name, "css"}, config{"all", targets[1+perm[1]].name, "css"})
		if rng.Intn(2) == 0 {
			out = append(out, config{"syntax", targets[1+perm[2]].name, "css"})
		} else {
			out = append(out, config{"all", targets[1+perm[3]].name, "global-css"})
		}
		return out
	}
	old := targets[1+rng.Intn(3)].name
	out := []config{{"all", "none", "css"}, {"all", old, "css"}, {"off", old, "css"}}
	switch rng.Intn(4) {
	case 0:
		out = append(out, config{"syntax", targets[1+rng.Intn(len(targets)-1)].name, "css"})
	case 1:
		out = append(out, config{"all", targets[1+rng.Intn(len(targets)-1)].name, "global-css"})
	case 2:
		out = append(out, config{"off", "none", "css"})
	default:
		out = append(out, config{"all", targets[1+rng.Intn(len(targets)-1)].name, "css"})
	}
	return out
}

// checkCases: render, transform with the real esbuild, evaluate input and outputs independently, judge.
func checkCases(r *core.Run, voc *Vocab, cases []*Case, stats *stats) {
	dom := voc.domJSON(nil)
	works := make([]*work, len(cases))
	for i, c := range cases {
		rng := rand.New(rand.NewSource(r.Seed*1000003 + int64(i)))
		w := &work{c: c, style: randStyle(rng)}
		cfgs := pickConfigs(rng, r.Thorough())
		if c.Family == "mc-nest" && !r.Thorough() {
			// every chain meets a target without nesting, with and without :is()
			cfgs = []config{{"off", []string{"chrome50", "firefox60"}[rng.Intn(2)], "css"}, {"all", "chrome90", "css"}}
		}
		if c.Family == "seq-d" {
			// shorthand collapsing is part of syntax minification: every sequence meets it with and without an old target
			old := targets[1+rng.Intn(3)].name
			cfgs = []config{{"all", "none", "css"}, {"syntax", old, "css"}, {"all", []string{"chrome90", "chrome130"}[rng.Intn(2)], "css"}}
			if r.Thorough() {
				cfgs = append(cfgs, config{"all", old, "global-css"}, config{"off", old, "css"})
			}
		}
		if c.Family == "regress" {
			w.style = Style{Group: true}
			cfgs = nil
			for _, t := range []string{"chrome50", "firefox60", "chrome90"} {
				cfgs = append(cfgs, config{"off", t, "css"}, config{"all", t, "css"})
			}
		}
		if c.Family == "witness" {
			w.style = Style{Group: true, LastSemi: true}
			cfgs = []config{{"off", "chrome50", "css"}, {"all", "firefox60", "css"}}
			if c.Name == "witness-2" {
				cfgs = []config{{"all", "none", "css"}}
			}
			if c.Name == "witness-3" || c.Name == "witness-4" {
				cfgs = []config{{"off", "chrome50", "css"}}
			}
		}
		w.text = voc.Render(c.Items, w.style)
		for _, cfg := range cfgs {
			w.outs = append(w.outs, &outcome{cfg: cfg})
		}
		works[i] = w
	}
	core.Parallel(len(works), 8, func(i int) {
		w := works[i]
		for _, o := range w.outs {
			o.text, o.errs, o.warnIs = transform(w.text, o.cfg)
		}
	})
	var jobs []nodeJob
	for i, w := range works {
		c := w.c
		in := nodeJob{ID: fmt.Sprintf("%d/in", i), CSS: w.text}
		for _, e := range c.Envs {
			in.Envs = append(in.Envs, nodeEnv{Conds: voc.nodeConds(c, e), Feats: append([]string{}, e.Feats...)})
		}
		jobs = append(jobs, in)
		seen := map[string]string{}
		for k, o := range w.outs {
			if len(o.errs) > 0 {
				continue
			}
			tg := targetByName(o.cfg.Target)
			dk := tg.name + "\x00" + o.text
			if id, ok := seen[dk]; ok {
				o.jobID = id
				for _, p := range w.outs[:k] {
					if p.jobID == id {
						o.envIx = p.envIx
						break
					}
				}
				continue
			}
			j := nodeJob{ID: fmt.Sprintf("%d/out%d", i, k), CSS: o.text, Universe: c.Props}
			for ix, e := range c.Envs {
				if f, ok := outEnv(c, e, tg); ok && !(o.warnIs && !subset([]string{"is"}, f)) {
					o.envIx = append(o.envIx, ix)
					j.Envs = append(j.Envs, nodeEnv{Conds: voc.nodeConds(c, e), Feats: f})
				}
			}
			o.jobID = j.ID
			seen[dk] = j.ID
			jobs = append(jobs, j)
		}
	}
	results := evalJobs(r, dom, jobs, 8)
	for i, w := range works {
		judge(r, voc, i, w, results, stats)
	}
}

type stats struct {
	mu                                                sync.Mutex
	cases, outputs, rejected, drift, lowered, changed int
	cells                                             int64
	byFamily                                          map[string]int
	notes                                             map[string]int
	samples                                           int
}

func elemKey(e int) string { return fmt.Sprintf("e%d", e+1) }

func judge(r *core.Run, voc *Vocab, i int, w *work, results map[string]*nodeResult, st *stats) {
	c := w.c
	in := results[fmt.Sprintf("%d/in", i)]
	if in == nil {
		return // infra already reported
	}
	st.mu.Lock()
	st.cases++
	st.byFamily[c.Family]++
	st.mu.Unlock()
	// --- the evaluator against the specification on the INPUT (drift, never a verdict)
	drift := ""
	if in.Error != nil {
		drift = "evaluator error on input: " + *in.Error
	} else if len(in.Winners) != len(c.Envs) {
		drift = "evaluator returned a different number of environments"
	} else {
		wantAtoms := []string{}
		for _, a := range c.Atoms {
			wantAtoms = append(wantAtoms, voc.Atoms[a].Key)
		}
		sort.Strings(wantAtoms)
		gotF := append([]string{}, in.Features...)
		sort.Strings(gotF)
		wantF := append([]string{}, c.Feats...)
		sort.Strings(wantF)
		if w.graph != nil {
			// imports that are ignored (cycles) still show their conditions to the evaluator
			if !subset(wantF, gotF) {
				drift = fmt.Sprintf("features: spec %v evaluator %v", wantF, gotF)
			} else if !subset(wantAtoms, in.Atoms) {
				drift = fmt.Sprintf("atoms: spec %v evaluator %v", wantAtoms, in.Atoms)
			}
		} else if strings.Join(gotF, ",") != strings.Join(wantF, ",") {
			drift = fmt.Sprintf("features: spec %v evaluator %v", wantF, gotF)
		} else if strings.Join(in.Atoms, ",") != strings.Join(wantAtoms, ",") {
			drift = fmt.Sprintf("atoms: spec %v evaluator %v", wantAtoms, in.Atoms)
		}
	outer:
		for k := range c.Envs {
			if drift != "" {
				break
			}
			for e := 0; e < len(voc.Dom); e++ {
				spec := c.Win[k][e]
				got := in.Winners[k][elemKey(e)]
				for lh, v := range spec {
					if got[lh] != v {
						drift = fmt.Sprintf("env %d %s %s: spec %q evaluator %q", k, elemKey(e), lh, v, got[lh])
						break outer
					}
				}
				for lh, v := range got {
					if _, ok := spec[lh]; !ok {
						drift = fmt.Sprintf("env %d %s %s: spec none evaluator %q", k, elemKey(e), lh, v)
						break outer
					}
				}
			}
		}
	}
	if drift != "" {
		st.mu.Lock()
		st.drift++
		st.mu.Unlock()
		r.Drift("case %s: %s\n--- input\n%s", c.Name, drift, w.text)
		return
	}
	r.Case(c.Name+"|"+w.text, nontrivial(c))
	// --- every output against the specification's winners
	reported := false
	for _, o := range w.outs {
		if len(o.errs) > 0 {
			st.mu.Lock()
			st.rejected++
			st.notes["esbuild error: "+o.errs[0]]++
			st.mu.Unlock()
			continue
		}
		res := results[o.jobID]
		if res == nil {
			continue
		}
		if res.Error != nil {
			r.Drift("case %s %s: evaluator error on output: %s\n--- output\n%s", c.Name, o.cfg, *res.Error, o.text)
			continue
		}
		st.mu.Lock()
		st.outputs++
		if o.text != w.text {
			st.changed++
		}
		for _, n := range res.Notes {
			st.notes["out: "+n]++
		}
		st.mu.Unlock()
		if len(res.Winners) != len(o.envIx) {
			r.Infra("case %s %s: %d environments evaluated, %d expected", c.Name, o.cfg, len(res.Winners), len(o.envIx))
			continue
		}
		bad := ""
		badEnv := -1
		var cells int64
	scan:
		for pos, k := range o.envIx {
			for e := 0; e < len(voc.Dom); e++ {
				got := res.Winners[pos][elemKey(e)]
				lhs := map[string]bool{}
				for _, p := range c.Props {
					lhs[p] = true
				}
				for p := range got {
					lhs[p] = true
				}
				for lh := range lhs {
					cells++
					ov := got[lh]
					inK := c.Win[k][e][lh]
					ok := false
					for j, ej := range c.Envs {
						if sameConds(ej.Conds, c.Envs[k].Conds) && subset(c.Envs[k].Feats, ej.Feats) && c.Win[j][e][lh] == ov {
							ok = true
							break
						}
					}
					if ok && inK != "" && ov == "" {
						ok = false
					}
					if !ok {
						badEnv = k
						bad = fmt.Sprintf("environment {feats %v conds %v} element %s property %s: input winner %q, output winner %q (not the input's winner in this or any more capable environment)",
							c.Envs[k].Feats, map[string]bool(c.Envs[k].Conds), elemKey(e), lh, inK, ov)
						break scan
					}
				}
			}
		}
		st.mu.Lock()
		st.cells += cells
		st.mu.Unlock()
		if bad != "" && !reported {
			reported = true
			key := map[string]interface{}{"css": w.text, "minify": o.cfg.Minify, "target": o.cfg.Target, "loader": o.cfg.Loader}
			if cl := classify(c, o, badEnv); cl != "" {
				key["class"] = cl
			}
			r.Violation(key, fmt.Sprintf("cascade not preserved (%s): %s\n--- input\n%s\n--- output\n%s", o.cfg, bad, w.text, o.text),
				map[string]interface{}{"case": c.Name, "family": c.Family, "items": c.Items, "style": w.style, "config": o.cfg, "input": w.text, "output": o.text, "what": bad,
					"files": w.files, "graph": w.graph})
		}
	}
	st.mu.Lock()
	if st.samples < 6 && len(w.outs) > 0 && i%97 == 0 {
		st.samples++
		r.Sample(map[string]interface{}{"case": c.Name, "input": w.text, "config": w.outs[0].cfg.String(), "output": w.outs[0].text, "environments": len(c.Envs)})
	}
	st.mu.Unlock()
}

func Run(r *core.Run) {
	r.Assume("browsers consistent with the configured target: an environment is judged only if it understands every modelled syntax feature esbuild's compat table attributes to the target (target unset = all features), and :is()/:where()/complex :not() if it understands nesting, :where()/complex :not() if it understands :is(); where esbuild itself warns that a nested selector cannot be lowered without :is() for the target, environments without :is() are not judged; :where() and multi-argument :not() are free for every explicit target")
	r.Assume("the document is the fixed 9-element tree of Css.tla; dynamic pseudo-classes match nothing; one origin (author)")
	r.Assume("nested rules come after their parent's declarations (no declarations after a nested rule); layers are not nested inside style rules; feature-using selectors are not put inside :is()/:where()/:not()")
	r.Assume("values: exact notations only (named/hex/rgb()/hsl() on the 8-bit grid, alpha in {0,0.2,0.4,0.6,0.8,1}, terminating decimals, calc() over one unit or a linear combination); lab/lch/oklab/oklch/color-mix accuracy is not examined")
	st := &stats{byFamily: map[string]int{}, notes: map[string]int{}}
	if r.Replay != "" {
		replay(r, st)
		return
	}
	// phase A: the vocabulary of the specification
	voc := loadVocab(r)
	if voc == nil {
		return
	}
	// phase B, side by side: the specification's own properties on the bounded-exhaustive families
	// (model checking; the casc family is exported as cases) and the seeded sheets interpreted by CssGen
	var mcCases []*Case
	var mcMembers []*seqMember // the label records of the sequence families (CssSeq.tla)
	var mu sync.Mutex
	var wg sync.WaitGroup
	skipMC := os.Getenv("C12_SKIPMC") != "" // development only
	// the sequence families: with a fresh label table the label-first covering sample is drawn at once and computed with the sheets
	cached := loadSeqLabels(r)
	mcCfg := pickS(r, "CssMC.quick.cfg", "CssMC.thorough.cfg")
	if cached == nil && !r.Thorough() {
		mcCfg = "CssMC.quick.labels.cfg"
	}
	if !skipMC {
		wg.Add(1)
		go func() {
			defer wg.Done()
			runMC(r, mcCfg, r.Pick(4, 3), func(c *Case) {
				var id []interface{}
				json.Unmarshal(c.ID, &id)
				c.Family = "mc"
				if len(id) > 0 {
					c.Family = fmt.Sprintf("mc-%v", id[0])
				}
				mu.Lock()
				mcCases = append(mcCases, c)
				mu.Unlock()
			}, func(m *seqMember) {
				mu.Lock()
				mcMembers = append(mcMembers, m)
				mu.Unlock()
			})
		}()
	}
	gi := &gen{voc: voc, rng: rand.New(rand.NewSource(r.Seed + 99))}
	var graphs []graph
	for k := 0; k < r.Pick(120, 1200); k++ {
		graphs = append(graphs, gi.graph(fmt.Sprintf("imp-%d", k)))
	}
	var impCases map[string]*Case
	if !skipMC {
		wg.Add(1)
		go func() {
			defer wg.Done()
			impCases = runImportTLC(r, graphs, r.Pick(2, 1))
		}()
	}
	g := &gen{voc: voc, rng: rand.New(rand.NewSource(r.Seed))}
	nSheets := r.Pick(240, 3500)
	if v := os.Getenv("C12_N"); v != "" { // development only
		fmt.Sscan(v, &nSheets)
	}
	sheets := g.Sheets(nSheets, r.Pick(4, 5))
	var seqIn []genInput
	var seqFam map[string]string
	if cached != nil && !skipMC {
		seqIn, seqFam = seqSample(r, cached)
	}
	t0 := time.Now()
	got := runGen(r, append(append([]genInput{}, sheets...), seqIn...), r.Pick(1, 2), r.Pick(2, 2))
	r.Logf("CssGen: %d sheets + %d sequence-family members -> %d cases in %.1fs", len(sheets), len(seqIn), len(got), time.Since(t0).Seconds())
	wg.Wait()
	var seqCases []*Case
	if !skipMC {
		if cached != nil {
			r.Set("seq_label_table", "spec/css_seq_labels.quick.json (fresh: hash of the modules and configurations)")
		} else if len(mcMembers) == 0 {
			r.Infra("CssMC exported no members of the sequence families")
		} else {
			if !r.Thorough() {
				if os.Getenv("C12_WRITE_VOCAB") != "" {
					writeSeqLabels(r, mcMembers)
				} else {
					r.Logf("spec/css_seq_labels.quick.json is stale; sample drawn after model checking")
				}
			}
			seqIn, seqFam = seqSample(r, mcMembers)
			t0 = time.Now()
			for id, c := range runGen(r, seqIn, r.Pick(1, 2), r.Pick(3, 3)) {
				got[id] = c
			}
			r.Logf("CssGen: %d sequence-family members in %.1fs", len(seqIn), time.Since(t0).Seconds())
		}
		seqCases = seqCasesOf(r, seqIn, seqFam, got)
		r.Logf("sequence families: %d cases", len(seqCases))
	}
	sort.Slice(mcCases, func(i, j int) bool { return mcCases[i].Name < mcCases[j].Name })
	r.Set("mc_family_sheets", len(mcCases))
	var cases []*Case
	for _, s := range sheets {
		c := got[s.ID]
		if c == nil {
			r.Infra("no case for sheet %s", s.ID)
			continue
		}
		if !c.WF {
			b, _ := json.Marshal(s.Items)
			r.Infra("sheet %s is not well formed according to Css!WFSheet: %s", s.ID, b)
			continue
		}
		c.Items = s.Items
		c.Family = strings.SplitN(s.ID, "-", 2)[0]
		cases = append(cases, c)
	}
	if !r.Thorough() {
		// the value grid entirely, a seeded slice of the enumerated cascade family
		rng := rand.New(rand.NewSource(r.Seed + 7))
		var keep, casc []*Case
		for _, c := range mcCases {
			if c.Family == "mc-casc" {
				casc = append(casc, c)
			} else {
				keep = append(keep, c)
			}
		}
		rng.Shuffle(len(casc), func(i, j int) { casc[i], casc[j] = casc[j], casc[i] })
		if len(casc) > 260 {
			casc = casc[:260]
		}
		mcCases = append(keep, casc...)
	}
	cases = append(cases, mcCases...)
	cases = append(cases, seqCases...)
	t0 = time.Now()
	checkCases(r, voc, cases, st)
	r.Logf("replayed %d cases (%d outputs) in %.1fs", st.cases, st.outputs, time.Since(t0).Seconds())
	// CSS modules: a slice of the same cases through loader local-css behind a JavaScript entry
	var local []*Case
	for i, c := range cases {
		if i%r.Pick(12, 7) == 0 && c.Family != "witness" && c.Family != "regress" {
			local = append(local, c)
		}
	}
	t0 = time.Now()
	checkLocal(r, voc, local, st)
	r.Logf("css modules: %d cases in %.1fs", len(local), time.Since(t0).Seconds())
	if impCases != nil {
		t0 = time.Now()
		checkImports(r, voc, graphs, impCases, st)
		r.Logf("import graphs: %d bundled in %.1fs", len(graphs), time.Since(t0).Seconds())
	}
	finish(r, st)
}

func finish(r *core.Run, st *stats) {
	r.Set("cases_by_family", st.byFamily)
	r.Set("outputs_evaluated", st.outputs)
	r.Set("outputs_textually_changed", st.changed)
	r.Set("winner_cells_compared", st.cells)
	r.Set("esbuild_rejected_input", st.rejected)
	if len(st.notes) > 0 {
		r.Set("evaluator_notes", st.notes)
	}
	r.AddTraces(int64(st.outputs))
	if st.cases > 0 && st.drift*20 > st.cases {
		r.Infra("evaluator and specification disagree on %d of %d inputs", st.drift, st.cases)
	}
	if st.cases > 0 && st.rejected*10 > st.outputs+st.rejected {
		r.Infra("esbuild rejected %d of %d transforms of valid input", st.rejected, st.outputs+st.rejected)
	}
	r.Set("rule", "case = one abstract sheet of Css.tla (TLC-enumerated family of CssMC or seeded draw interpreted by CssGen) rendered to text in a seeded lexical style; non-trivial = two rules compete for one (element, longhand) or a wrapper/shorthand is present; each case is transformed by the real esbuild under several (minify, target, loader) and both texts are evaluated by node/css_eval.js in every environment of the case")
}

func replay(r *core.Run, st *stats) {
	b, err := os.ReadFile(r.Replay)
	if err != nil {
		r.Infra("cannot read replay file: %v", err)
		return
	}
	var rec struct {
		Detail struct {
			Case   string `json:"case"`
			Family string `json:"family"`
			Items  []Item `json:"items"`
			Style  Style  `json:"style"`
			Config config `json:"config"`
		} `json:"detail"`
	}
	if err := json.Unmarshal(b, &rec); err != nil || len(rec.Detail.Items) == 0 {
		r.Infra("replay file has no abstract sheet: %v", err)
		return
	}
	voc := loadVocab(r)
	if voc == nil {
		return
	}
	got := runGen(r, []genInput{{ID: "replay", Items: rec.Detail.Items}}, 1, 1)
	c := got["replay"]
	if c == nil || !c.WF {
		r.Infra("replay: the specification produced no case")
		return
	}
	c.Items, c.Family, c.Name = rec.Detail.Items, rec.Detail.Family, rec.Detail.Case
	dom := voc.domJSON(nil)
	w := &work{c: c, style: rec.Detail.Style}
	w.text = voc.Render(c.Items, w.style)
	o := &outcome{cfg: rec.Detail.Config}
	o.text, o.errs, o.warnIs = transform(w.text, o.cfg)
	w.outs = []*outcome{o}
	fmt.Printf("--- input\n%s\n--- output (%s)\n%s\n", w.text, o.cfg, o.text)
	in := nodeJob{ID: "0/in", CSS: w.text}
	for _, e := range c.Envs {
		in.Envs = append(in.Envs, nodeEnv{Conds: voc.nodeConds(c, e), Feats: append([]string{}, e.Feats...)})
	}
	jobs := []nodeJob{in}
	if len(o.errs) == 0 {
		tg := targetByName(o.cfg.Target)
		j := nodeJob{ID: "0/out0", CSS: o.text, Universe: c.Props}
		for ix, e := range c.Envs {
			if f, ok := outEnv(c, e, tg); ok && !(o.warnIs && !subset([]string{"is"}, f)) {
				o.envIx = append(o.envIx, ix)
				j.Envs = append(j.Envs, nodeEnv{Conds: voc.nodeConds(c, e), Feats: f})
			}
		}
		o.jobID = j.ID
		jobs = append(jobs, j)
	}
	judge(r, voc, 0, w, evalJobs(r, dom, jobs, 1), st)
	finish(r, st)
}

// classify names the one class of violations that is a listed known finding (known_findings.jsonl):
// the target has no :is() (so esbuild expands a parent selector LIST member by member when it lowers
// nesting), a rule is nested under a list whose members differ in specificity (Css!MixedParent), and
// the failing environment is a browser that understands nesting (where the input's nested rule has the
// specificity of :is(list), i.e. of its most specific member).  Computed from the scenario, not from the failure.
func classify(c *Case, o *outcome, envIx int) string {
	tg := targetByName(o.cfg.Target)
	if envIx < 0 {
		return ""
	}
	if !subset([]string{"is"}, tg.feats) {
		// `&` inside :not() under a parent list, expanded member by member:
		// :not(:is(.a,.b)) becomes `:not(.a), :not(.b)` (a union where an intersection is meant)
		if c.NotAmp {
			return "nesting-list-expansion-in-not"
		}
		// `&` inside :not() under a parent with a combinator: the lowered `:not(parent)` is a complex :not(), which
		// the browsers of such a target reject with the whole rule, while other lowered rules of the sheet work there
		if e := c.Envs[envIx]; c.NotAmpC && !e.has("not-list") && !e.has("is") && !e.has("nesting") {
			return "nesting-not-amp-complex-parent"
		}
		if c.Mixed {
			return "nesting-list-expansion-specificity"
		}
	}
	// `inset: max(..) 1px 2px 50%` lowered to top/right/bottom/left for a target without `inset`: where min()/max() is
	// unknown the input's declaration is invalid as a whole, the output's other three longhands apply
	if c.InsetMix && !subset([]string{"inset"}, tg.feats) && !c.Envs[envIx].has("math-fn") {
		return "inset-lowered-partially"
	}
	// third class (any target): the minifier inlines `list { & { d } }` to `list { d }`
	if c.Mixed && o.cfg.Minify != "off" && o.cfg.Minify != "whitespace" {
		for _, it := range c.Items {
			nsel := 0
			for _, pe := range it.Path {
				if pe.T == "sel" {
					nsel++
					if nsel >= 2 && pe.S == "&" {
						return "noop-nesting-inlined-under-list"
					}
				}
			}
		}
	}
	return ""
}

func pickS(r *core.Run, q, t string) string {
	if r.Thorough() {
		return t
	}
	return q
}

func init() { core.Register("C12", Run) }
