package c16

// Execution of inputs through the real esbuild API.  Two paths:
//
//   * batch children: one process evaluates many small inputs on several
//     goroutines; every worker keeps the input it is working on in a
//     memory-mapped journal, so that after a crash of the process the parent
//     knows the candidates; a monitor goroutine notices inputs that take long.
//   * solo children: one process evaluates ONE (input, loader, flag set); the
//     parent measures the CPU time of the process and kills it at the limit.
//     Verdicts about time and crashes are only ever taken from solo runs.

import (
	"crypto/sha1"
	"encoding/base64"
	"encoding/binary"
	"encoding/hex"
	"encoding/json"
	"fmt"
	"net/url"
	"os"
	"os/exec"
	"path/filepath"
	"strings"
	"sync"
	"sync/atomic"
	"syscall"
	"time"

	"github.com/evanw/esbuild/pkg/api"

	"verifharness/core"
)

// ---------------------------------------------------------------------------
// loaders and flag sets

var loaderByName = map[string]api.Loader{
	"js": api.LoaderJS, "jsx": api.LoaderJSX, "ts": api.LoaderTS, "tsx": api.LoaderTSX,
	"css": api.LoaderCSS, "local-css": api.LoaderLocalCSS, "global-css": api.LoaderGlobalCSS, "json": api.LoaderJSON,
}

var extByLoader = map[string]string{"js": ".js", "jsx": ".jsx", "ts": ".ts", "tsx": ".tsx", "css": ".css", "local-css": ".module.css", "global-css": ".css", "json": ".json"}

func isCSS(loader string) bool { return strings.HasSuffix(loader, "css") }

// loaders that an input of a language is given to
func loadersFor(lang string) []string {
	switch lang {
	case "jscore", "jslit", "jsdecl", "js":
		return []string{"js", "jsx", "ts", "tsx"}
	case "ts":
		return []string{"ts", "tsx"}
	case "jsx":
		return []string{"jsx", "tsx"}
	case "cssa", "cssb", "css":
		return []string{"css", "local-css"}
	case "json":
		return []string{"json", "js"}
	case "smap":
		return []string{"js", "css"}
	case "cfg":
		return []string{"ts"}
	}
	return []string{"js"}
}

const (
	fsPlain = iota
	fsMinify
	fsLower
	fsMapCJS
	fsEsmAll
	fsDialect
	nFlagSets
)

var flagSetNames = []string{"plain", "minify", "es2015-iife", "cjs-sourcemap-malformed-url", "esm-minify-map-mangle-keepnames", "dialect"}

var malformedMaps = []string{
	"data:application/json;base64,e30=",                                       // {}
	"data:application/json;base64,eyJ2ZXJzaW9uIjozLCJtYXBwaW5ncyI6IkFBQUEifQ", // no sources
	"data:application/json;base64,!!!!",
	"data:application/json,{\"version\":3,\"sources\":[\"a\"],\"mappings\":\"gggggggggggggC\"}",
	"data:application/json,%7B%22version%22%3A3%2C%22sources%22%3A%5B%5D%2C%22mappings%22%3A%22AAAA%3BAACA%22%2C%22names%22%3A%5B1%5D%7D",
	"data:application/json;base64,eyJ2ZXJzaW9uIjozLCJzZWN0aW9ucyI6W3sib2Zmc2V0Ijp7ImxpbmUiOi0xLCJjb2x1bW4iOjB9LCJtYXAiOnt9fV19",
	"data:text/plain,x",
	"data:application/json;base64,eyJ2ZXJzaW9uIjozLCJzb3VyY2VzIjpbImEiXSwic291cmNlc0NvbnRlbnQiOlsxXSwibWFwcGluZ3MiOiJBQUFBLEFBQUEsLEFBQUE7Ozs7QUFBQSJ9",
	"./missing.map",
	"file://host/x.map",
}

func withMapComment(input, loader string, which int) string {
	u := malformedMaps[which%len(malformedMaps)]
	if isCSS(loader) {
		return input + "\n/*# sourceMappingURL=" + u + " */"
	}
	return input + "\n//# sourceMappingURL=" + u
}

// options for (loader, flag set); the input may be changed (source map comment)
func optionsFor(loader string, fs int, input string, salt int) (string, api.TransformOptions) {
	o := api.TransformOptions{Loader: loaderByName[loader], LogLevel: api.LogLevelSilent, Sourcefile: "in" + extByLoader[loader]}
	css := isCSS(loader)
	switch fs {
	case fsMinify:
		o.MinifyWhitespace, o.MinifyIdentifiers, o.MinifySyntax = true, true, true
	case fsLower:
		if css {
			o.Engines = []api.Engine{{Name: api.EngineChrome, Version: "49"}, {Name: api.EngineSafari, Version: "9"}, {Name: api.EngineIE, Version: "11"}}
		} else {
			o.Target = api.ES2015
			o.Format = api.FormatIIFE
			o.GlobalName = "g.h"
		}
	case fsMapCJS:
		o.Sourcemap = api.SourceMapInline
		o.SourcesContent = api.SourcesContentInclude
		if !css {
			o.Format = api.FormatCommonJS
		}
		input = withMapComment(input, loader, salt)
	case fsEsmAll:
		o.MinifyWhitespace, o.MinifyIdentifiers, o.MinifySyntax = true, true, true
		o.Sourcemap = api.SourceMapExternal
		o.Charset = api.CharsetUTF8
		o.LegalComments = api.LegalCommentsEndOfFile
		if !css {
			o.Format = api.FormatESModule
			o.KeepNames = true
			o.MangleProps = "_$"
			o.MangleQuoted = api.MangleQuotedTrue
			o.Target = api.ES2017
			o.TreeShaking = api.TreeShakingTrue
			o.JSX = api.JSXAutomatic
			o.JSXDev = true
			o.Drop = api.DropConsole | api.DropDebugger
			o.Define = map[string]string{"a": "b.c", "process.env.NODE_ENV": "\"x\""}
			o.Pure = []string{"a", "b.c"}
		}
	case fsDialect:
		if css {
			o.Supported = map[string]bool{"nesting": false, "hex-rgba": false, "inset-property": false, "color-functions": false}
			o.LineLimit = 20
		} else {
			o.Platform = api.PlatformNode
			o.JSX = api.JSXPreserve
			o.Supported = map[string]bool{"arrow": false, "class": false, "destructuring": false, "template-literal": false, "async-await": false, "generator": false, "for-of": false, "optional-chain": false, "bigint": false}
			o.LineLimit = 20
			if loader == "ts" || loader == "tsx" {
				o.TsconfigRaw = `{"compilerOptions":{"useDefineForClassFields":false,"experimentalDecorators":true,"verbatimModuleSyntax":true,"jsx":"react-jsx","jsxImportSource":"p","target":"es5","alwaysStrict":true}}`
				o.Supported = nil
				o.Target = api.ES2020
			}
		}
	}
	return input, o
}

// ---------------------------------------------------------------------------
// what is wrong with a result

// badMessage returns the first diagnostic that the property forbids
func badMessage(errs, warns []api.Message) string {
	// the forbidden forms are prefixes ("panic: ..." from the recover sites, "Internal error..." from the
	// linker); a diagnostic that merely quotes such words from the input is not one
	bad := func(t string) bool { return strings.HasPrefix(t, "panic:") || strings.HasPrefix(t, "Internal error") }
	check := func(ms []api.Message) string {
		for _, m := range ms {
			if bad(m.Text) {
				return m.Text
			}
			for _, n := range m.Notes {
				if bad(n.Text) {
					return m.Text + " | " + n.Text
				}
			}
		}
		return ""
	}
	if s := check(errs); s != "" {
		return s
	}
	return check(warns)
}

// frame of the panic inside esbuild (first esbuild frame of the stack in the notes), for grouping
func panicSite(errs []api.Message) string {
	for _, m := range errs {
		if !strings.HasPrefix(m.Text, "panic:") {
			continue
		}
		for _, n := range m.Notes {
			// helpers.PrettyPrintedStack: one line per frame, "pkg.(*T).fn (file.go:123)"
			for _, line := range strings.Split(n.Text, "\n") {
				line = strings.TrimSpace(line)
				fn := line
				if i := strings.Index(line, " ("); i > 0 {
					fn = line[:i]
				}
				if !strings.Contains(line, "internal/") || strings.HasPrefix(fn, "helpers.PrettyPrintedStack") || strings.HasPrefix(fn, "bundler.parseFile.func") ||
					strings.Contains(fn, "recoverInternalError") || strings.HasPrefix(fn, "verif.") || strings.HasPrefix(fn, "runtime.") || strings.HasPrefix(fn, "debug.") {
					continue
				}
				return fn
			}
		}
	}
	return ""
}

// ---------------------------------------------------------------------------
// one evaluation

type evalKey struct {
	Loader string `json:"loader"`
	FS     int    `json:"fs"`
	Salt   int    `json:"salt"`
	Mode   string `json:"mode"` // "transform" | "tsconfig" | "smap" | "bundle"
}

type finding struct {
	Type   string                 `json:"type"` // "panic-message" | "slow" | "hang" | "crash" | "unusable"
	Text   string                 `json:"text"`
	Site   string                 `json:"site"`
	Input  []byte                 `json:"input"`
	Key    evalKey                `json:"key"`
	CaseID string                 `json:"case"`
	Family string                 `json:"family"`
	Lang   string                 `json:"lang"`
	Secs   float64                `json:"secs"`
	Extra  map[string]interface{} `json:"extra,omitempty"`
}

type evalResult struct {
	Bad      string
	Site     string
	Rejected bool // the case counts as non-trivial (esbuild rejected the input; "cfgpat": the key has matching / overlapping requests; "opts": the success path ran)
	Returned bool
	Note     string // "opts": the model calls the row valid but esbuild rejects it (spec drift, not a verdict)
}

func smapInput(payload, loader string, salt int) string {
	var u string
	if salt%2 == 0 {
		u = "data:application/json;base64," + base64.StdEncoding.EncodeToString([]byte(payload))
	} else {
		u = "data:application/json," + url.PathEscape(payload)
	}
	if isCSS(loader) {
		return "a { color: red }\n.b { c: d }\n/*# sourceMappingURL=" + u + " */"
	}
	return "let a = 1;\nconsole.log(a, `x`);\n//# sourceMappingURL=" + u
}

// bundleTree writes the scratch tree in which the input is the entry file, the package.json of the
// project and of a dependency, and the tsconfig.json, and bundles it
func bundleTree(dir string, input string, k evalKey) api.BuildResult {
	ext := extByLoader[k.Loader]
	files := map[string]string{
		"entry" + ext:                   input,
		"main.ts":                       "import './entry" + ext + "'\nimport 'pkg'\nimport x from 'pkg/sub'\nimport '#x'\nimport './lib/a'\nexport default <any>x\n",
		"lib/a.js":                      "export let a = 1\n",
		"a.js":                          "module.exports = 2\n",
		"node_modules/pkg/index.js":     "exports.p = 1\n",
		"node_modules/pkg/a.js":         "export let q = 1\n",
		"node_modules/pkg/sub/index.js": "export default 3\n",
	}
	switch k.Salt % 3 {
	case 0:
		files["package.json"], files["tsconfig.json"], files["node_modules/pkg/package.json"] = input, input, input
	case 1:
		files["node_modules/pkg/package.json"] = input
		files["lib/package.json"] = input
	case 2:
		files["tsconfig.json"] = input
		files["lib/tsconfig.json"] = input
		files["node_modules/pkg/package.json"] = `{"name":"pkg","exports":{".":"./index.js","./sub":"./sub/index.js"}}`
	}
	os.RemoveAll(dir)
	if err := core.WriteTree(dir, files); err != nil {
		return api.BuildResult{}
	}
	o := api.BuildOptions{AbsWorkingDir: dir, EntryPoints: []string{"main.ts"}, Bundle: true, Write: false, Outdir: "out", LogLevel: api.LogLevelSilent,
		Metafile: true, Format: api.FormatESModule}
	if k.FS == fsMinify {
		o.MinifyWhitespace, o.MinifyIdentifiers, o.MinifySyntax = true, true, true
		o.Sourcemap = api.SourceMapLinked
		o.Splitting = true
	}
	if k.Salt%2 == 1 {
		o.Platform = api.PlatformNode
		o.MainFields = []string{"browser", "module", "main"}
		o.Conditions = []string{"import", "default"}
	}
	return api.Build(o)
}

func evalOne(input string, k evalKey, dir string) evalResult {
	var errs, warns []api.Message
	switch k.Mode {
	case "cfgpat":
		return evalCfg(input, dir)
	case "opts":
		return evalOpts(input, dir)
	case "bundle":
		res := bundleTree(dir, input, k)
		errs, warns = res.Errors, res.Warnings
	case "tsconfig":
		_, o := optionsFor(k.Loader, k.FS, "", k.Salt)
		o.TsconfigRaw = input
		res := api.Transform("class A { x = 1; @d y }\nexport let z = <T,>(a: T) => a\nimport {b} from 'b'\n", o)
		errs, warns = res.Errors, res.Warnings
	case "smap":
		_, o := optionsFor(k.Loader, k.FS, "", k.Salt)
		if o.Sourcemap == api.SourceMapNone {
			o.Sourcemap = api.SourceMapExternal
		}
		res := api.Transform(smapInput(input, k.Loader, k.Salt), o)
		errs, warns = res.Errors, res.Warnings
	default:
		in, o := optionsFor(k.Loader, k.FS, input, k.Salt)
		res := api.Transform(in, o)
		errs, warns = res.Errors, res.Warnings
	}
	r := evalResult{Returned: true, Rejected: len(errs) > 0}
	if bad := badMessage(errs, warns); bad != "" {
		r.Bad = bad
		r.Site = panicSite(errs)
	}
	return r
}

// the evaluations of one case: every loader of the language x a light flag set and a heavy one
func keysFor(lang string, idx int, thorough bool, bundleEvery int) []evalKey {
	var keys []evalKey
	h := idx*2654435761 + 12345
	if h < 0 {
		h = -h
	}
	switch lang {
	case "cfgpat", "opts":
		return []evalKey{{Loader: "js", FS: fsPlain, Salt: 0, Mode: lang}}
	case "cfg":
		keys = append(keys, evalKey{Loader: "ts", FS: fsPlain, Salt: idx, Mode: "tsconfig"},
			evalKey{Loader: "tsx", FS: fsDialect, Salt: idx, Mode: "tsconfig"},
			evalKey{Loader: "ts", FS: []int{fsPlain, fsMinify}[idx%2], Salt: idx, Mode: "bundle"})
		if thorough {
			keys = append(keys, evalKey{Loader: "ts", FS: fsPlain, Salt: idx + 1, Mode: "bundle"}, evalKey{Loader: "ts", FS: fsMinify, Salt: idx + 2, Mode: "bundle"})
		}
		return keys
	case "smap":
		keys = append(keys, evalKey{Loader: "js", FS: fsPlain, Salt: idx, Mode: "smap"}, evalKey{Loader: "js", FS: fsEsmAll, Salt: idx + 1, Mode: "smap"},
			evalKey{Loader: "css", FS: []int{fsPlain, fsMinify}[idx%2], Salt: idx, Mode: "smap"})
		return keys
	}
	heavy := []int{fsMinify, fsLower, fsEsmAll, fsDialect}
	ls := loadersFor(lang)
	for li, l := range ls {
		// of four loaders (js, jsx, ts, tsx) one of each pair per case, rotating
		if len(ls) == 4 && li%2 != (h>>17+li/2)%2 {
			continue
		}
		light := fsPlain
		if (h>>3+li)%4 == 0 {
			light = fsMapCJS
		}
		keys = append(keys, evalKey{Loader: l, FS: light, Salt: h % 97, Mode: "transform"})
		// one heavy flag set on one loader per case (rotating)
		if len(ls) < 2 || li/(len(ls)/2) == (h>>13)%2 {
			keys = append(keys, evalKey{Loader: l, FS: heavy[(h>>5+li)%len(heavy)], Salt: h % 89, Mode: "transform"})
		}
	}
	if bundleEvery > 0 && idx%bundleEvery == 0 {
		ls := loadersFor(lang)
		keys = append(keys, evalKey{Loader: ls[(h>>7)%len(ls)], FS: []int{fsPlain, fsMinify}[(h>>11)%2], Salt: h % 79, Mode: "bundle"})
	}
	return keys
}

// ---------------------------------------------------------------------------
// canonical work: what a usable process must still be able to do

const canonicalTS = "enum E { A = 1, B = A * 2 }\nexport class C<T> { #p = E.B; get v(): number { return this.#p ?? 0 } }\nexport const f = async (x?: number) => <div k={x}>{`t${x}`}</div>\n"
const canonicalCSS = "@media (min-width: 1px) { a { color: #ff0000; & b { inset: 0 } } }\n"

func canonicalDigest(dir string) string {
	h := sha1.New()
	r1 := api.Transform(canonicalTS, api.TransformOptions{Loader: api.LoaderTSX, MinifyWhitespace: true, MinifyIdentifiers: true, MinifySyntax: true, Target: api.ES2017, Sourcemap: api.SourceMapInline, LogLevel: api.LogLevelSilent})
	fmt.Fprintf(h, "%d|%s|", len(r1.Errors), r1.Code)
	r2 := api.Transform(canonicalCSS, api.TransformOptions{Loader: api.LoaderCSS, Engines: []api.Engine{{Name: api.EngineChrome, Version: "60"}}, LogLevel: api.LogLevelSilent})
	fmt.Fprintf(h, "%d|%s|", len(r2.Errors), r2.Code)
	if dir != "" {
		os.RemoveAll(dir)
		core.WriteTree(dir, map[string]string{
			"main.ts": "import {a} from './a'\nimport p from 'pkg'\nimport './s.css'\nconsole.log(a, p)\n", "a.ts": "export const a: number = 1\n", "s.css": "a { color: red }\n",
			"package.json": `{"name":"x"}`, "tsconfig.json": `{"compilerOptions":{"target":"es2019"}}`,
			"node_modules/pkg/package.json": `{"main":"./m.js"}`, "node_modules/pkg/m.js": "module.exports = 7\n",
		})
		r3 := api.Build(api.BuildOptions{AbsWorkingDir: dir, EntryPoints: []string{"main.ts"}, Bundle: true, Write: false, Outdir: "out", LogLevel: api.LogLevelSilent, Sourcemap: api.SourceMapLinked})
		fmt.Fprintf(h, "%d|", len(r3.Errors))
		for _, f := range r3.OutputFiles {
			rel, _ := filepath.Rel(dir, f.Path)
			fmt.Fprintf(h, "%s:%s|", rel, strings.ReplaceAll(string(f.Contents), dir, "<dir>"))
		}
	}
	return hex.EncodeToString(h.Sum(nil)[:10])
}

// ---------------------------------------------------------------------------
// the journal: what every worker is doing right now, readable after a crash

const slotSize = 1 << 17

type journal struct {
	path string
	mem  []byte
}

func openJournal(path string, slots int) (*journal, error) {
	f, err := os.OpenFile(path, os.O_RDWR|os.O_CREATE|os.O_TRUNC, 0644)
	if err != nil {
		return nil, err
	}
	defer f.Close()
	if err := f.Truncate(int64(slots * slotSize)); err != nil {
		return nil, err
	}
	mem, err := syscall.Mmap(int(f.Fd()), 0, slots*slotSize, syscall.PROT_READ|syscall.PROT_WRITE, syscall.MAP_SHARED)
	if err != nil {
		return nil, err
	}
	return &journal{path: path, mem: mem}, nil
}

type journalEntry struct {
	CaseID string                 `json:"case"`
	Family string                 `json:"family"`
	Lang   string                 `json:"lang"`
	Key    evalKey                `json:"key"`
	Input  []byte                 `json:"input"`
	Extra  map[string]interface{} `json:"extra,omitempty"`
}

// set records what worker w starts now (no system call: the page cache keeps it if the process dies)
func (j *journal) set(w int, meta []byte, input string) {
	s := j.mem[w*slotSize : (w+1)*slotSize]
	binary.LittleEndian.PutUint32(s[0:], 0) // invalid while being written
	n := copy(s[12:], meta)
	m := copy(s[12+n:], input)
	binary.LittleEndian.PutUint32(s[4:], uint32(n))
	binary.LittleEndian.PutUint32(s[8:], uint32(m))
	binary.LittleEndian.PutUint32(s[0:], 1)
}

func (j *journal) clear(w int) { binary.LittleEndian.PutUint32(j.mem[w*slotSize:], 0) }

func readJournal(path string) []journalEntry {
	data, err := os.ReadFile(path)
	if err != nil {
		return nil
	}
	var out []journalEntry
	for off := 0; off+slotSize <= len(data); off += slotSize {
		s := data[off : off+slotSize]
		if binary.LittleEndian.Uint32(s[0:]) != 1 {
			continue
		}
		n, m := int(binary.LittleEndian.Uint32(s[4:])), int(binary.LittleEndian.Uint32(s[8:]))
		if 12+n+m > len(s) {
			continue
		}
		var e journalEntry
		if json.Unmarshal(s[12:12+n], &e) != nil {
			continue
		}
		e.Input = append([]byte(nil), s[12+n:12+n+m]...)
		out = append(out, e)
	}
	return out
}

// ---------------------------------------------------------------------------
// batch child

type seed struct {
	Lang string `json:"lang"`
	Text string `json:"text"`
	From string `json:"from"`
}

type batchIn struct {
	Family      string          `json:"family"` // "enum" | "mut" | "nest"
	ID          string          `json:"id"`
	Workers     int             `json:"workers"`
	Dir         string          `json:"dir"`     // scratch directory for bundles
	Journal     string          `json:"journal"` // journal file
	Skip        map[string]bool `json:"skip"`    // evaluations (case|loader|fs|mode) not to run (being examined solo)
	BundleEvery int             `json:"bundle_every"`
	SlowWallSec float64         `json:"slow_wall_sec"`
	HangWallSec float64         `json:"hang_wall_sec"`
	// enum
	Header *enumHeader `json:"header,omitempty"`
	Stems  []stem      `json:"stems,omitempty"`
	// mut
	Seeds     []seed              `json:"seeds,omitempty"`
	Scripts   []mutScript         `json:"scripts,omitempty"`
	PerScript int                 `json:"per_script,omitempty"`
	Alphabets map[string][]string `json:"alphabets,omitempty"`
	Kinds     []nestKind          `json:"kinds,omitempty"`
	MaxBytes  int                 `json:"max_bytes,omitempty"`
	// nest
	NestCases []nestCase `json:"nest_cases,omitempty"`
	// cfgpat, opts: self-contained cases (JSON documents)
	Items []rawItem `json:"items,omitempty"`

	wg *sync.WaitGroup
}

type batchOut struct {
	Cases           int64                    `json:"cases"`
	Evals           int64                    `json:"evals"`
	Rejected        int64                    `json:"rejected"` // cases rejected by esbuild for at least one loader (plain-ish flag set)
	ByLang          map[string]int64         `json:"by_lang"`
	ByLoaderFS      map[string]int64         `json:"by_loader_fs"`
	ByOp            map[string]int64         `json:"by_op,omitempty"`
	Findings        []finding                `json:"findings"`
	SlowOnes        []journalEntry           `json:"slow"`   // took long inside the batch: to be examined solo
	Hung            *journalEntry            `json:"hung"`   // the batch was abandoned because of this evaluation
	Canon0          string                   `json:"canon0"` // canonical digest before any input
	Canon1          string                   `json:"canon1"` // ... after all inputs
	CanonAfterPanic []string                 `json:"canon_after_panic"`
	Drift           []string                 `json:"drift"` // spec vs harness (mutation lengths)
	Samples         []map[string]interface{} `json:"samples"`
	Skipped         int64                    `json:"skipped"`
	WallSec         float64                  `json:"wall_sec"`
	SizeSkipped     int64                    `json:"size_skipped"`
}

type workItem struct {
	caseID string
	family string
	lang   string
	input  string
	idx    int
	extra  map[string]interface{}
}

func skipKey(caseID string, k evalKey) string {
	return fmt.Sprintf("%s|%s|%d|%s|%d", caseID, k.Loader, k.FS, k.Mode, k.Salt)
}

func runBatch(r *core.Run, in batchIn) (*batchOut, error) {
	out := &batchOut{ByLang: map[string]int64{}, ByLoaderFS: map[string]int64{}, ByOp: map[string]int64{}}
	start := time.Now()
	if in.Workers < 1 {
		in.Workers = 4
	}
	if in.SlowWallSec == 0 {
		in.SlowWallSec = 20
	}
	if in.HangWallSec == 0 {
		in.HangWallSec = 600
	}
	j, err := openJournal(in.Journal, in.Workers)
	if err != nil {
		return nil, err
	}
	out.Canon0 = canonicalDigest(filepath.Join(in.Dir, "canon"))
	thorough := r.Thorough()

	var mu sync.Mutex
	items := make(chan workItem, 256)
	type wstate struct {
		started atomic.Int64 // unix nanos, 0 = idle
		seq     atomic.Int64
		meta    atomic.Value // journalEntry
		flagged atomic.Int64 // seq already reported as slow
	}
	ws := make([]*wstate, in.Workers)
	for i := range ws {
		ws[i] = &wstate{}
	}
	var wg sync.WaitGroup
	abandon := make(chan struct{})
	var abandoned atomic.Bool

	for w := 0; w < in.Workers; w++ {
		wg.Add(1)
		go func(w int) {
			defer wg.Done()
			dir := filepath.Join(in.Dir, fmt.Sprintf("w%d", w))
			var local batchOut
			local.ByLang, local.ByLoaderFS = map[string]int64{}, map[string]int64{}
			for it := range items {
				if abandoned.Load() {
					continue
				}
				local.Cases++
				local.ByLang[it.lang]++
				rejected := false
				for _, k := range keysFor(it.lang, it.idx, thorough, in.BundleEvery) {
					if in.Skip[skipKey(it.caseID, k)] {
						local.Skipped++
						continue
					}
					je := journalEntry{CaseID: it.caseID, Family: it.family, Lang: it.lang, Key: k, Extra: it.extra}
					var meta []byte
					if it.extra == nil {
						meta = fmt.Appendf(nil, `{"case":%q,"family":%q,"lang":%q,"key":{"loader":%q,"fs":%d,"salt":%d,"mode":%q}}`, it.caseID, it.family, it.lang, k.Loader, k.FS, k.Salt, k.Mode)
					} else {
						meta, _ = json.Marshal(je)
					}
					if len(meta)+len(it.input)+12 > slotSize {
						local.SizeSkipped++
						continue
					}
					j.set(w, meta, it.input)
					je.Input = []byte(it.input)
					ws[w].meta.Store(je)
					ws[w].seq.Add(1)
					ws[w].started.Store(time.Now().UnixNano())
					res := evalOne(it.input, k, dir)
					ws[w].started.Store(0)
					j.clear(w)
					local.Evals++
					local.ByLoaderFS[k.Loader+"/"+flagSetNames[k.FS]+"/"+k.Mode]++
					if res.Rejected && (k.FS == fsPlain || k.FS == fsMapCJS) {
						rejected = true
					}
					if res.Note != "" {
						mu.Lock()
						if len(out.Drift) < 5 {
							out.Drift = append(out.Drift, res.Note)
						}
						mu.Unlock()
					}
					if res.Bad != "" {
						f := finding{Type: "panic-message", Text: res.Bad, Site: res.Site, Input: []byte(it.input), Key: k, CaseID: it.caseID, Family: it.family, Lang: it.lang, Extra: it.extra}
						// (not below the worker's scratch tree: its package.json / tsconfig.json would be found by the resolver)
						c := canonicalDigest(filepath.Join(in.Dir, fmt.Sprintf("canon-w%d", w)))
						mu.Lock()
						if len(out.Findings) < 200 {
							out.Findings = append(out.Findings, f)
						}
						out.CanonAfterPanic = append(out.CanonAfterPanic, c)
						mu.Unlock()
					}
				}
				if rejected {
					local.Rejected++
				}
			}
			mu.Lock()
			out.Cases += local.Cases
			out.Evals += local.Evals
			out.Rejected += local.Rejected
			out.Skipped += local.Skipped
			out.SizeSkipped += local.SizeSkipped
			for k, v := range local.ByLang {
				out.ByLang[k] += v
			}
			for k, v := range local.ByLoaderFS {
				out.ByLoaderFS[k] += v
			}
			mu.Unlock()
		}(w)
	}

	// the monitor
	monDone := make(chan struct{})
	go func() {
		defer close(monDone)
		t := time.NewTicker(200 * time.Millisecond)
		defer t.Stop()
		for {
			select {
			case <-abandon:
				return
			case <-t.C:
			}
			now := time.Now().UnixNano()
			for _, s := range ws {
				st := s.started.Load()
				if st == 0 {
					continue
				}
				el := float64(now-st) / 1e9
				seq := s.seq.Load()
				if el > in.SlowWallSec && s.flagged.Load() != seq {
					s.flagged.Store(seq)
					if je, ok := s.meta.Load().(journalEntry); ok && s.seq.Load() == seq {
						mu.Lock()
						out.SlowOnes = append(out.SlowOnes, je)
						mu.Unlock()
					}
				}
				if el > in.HangWallSec && !abandoned.Load() {
					if je, ok := s.meta.Load().(journalEntry); ok && s.seq.Load() == seq {
						mu.Lock()
						out.Hung = &je
						mu.Unlock()
						abandoned.Store(true)
					}
				}
			}
		}
	}()

	// the producer
	produce(r, in, out, &mu, func(it workItem) bool {
		if abandoned.Load() {
			return false
		}
		items <- it
		return true
	})
	close(items)

	// wait for the workers, unless one of them is stuck for good
	done := make(chan struct{})
	go func() { wg.Wait(); close(done) }()
	for waiting := true; waiting; {
		select {
		case <-done:
			waiting = false
		case <-time.After(300 * time.Millisecond):
			if abandoned.Load() {
				waiting = false
			}
		}
	}
	close(abandon)
	<-monDone
	if !abandoned.Load() {
		out.Canon1 = canonicalDigest(filepath.Join(in.Dir, "canon"))
	}
	out.WallSec = time.Since(start).Seconds()
	mu.Lock()
	defer mu.Unlock()
	cp := *out
	return &cp, nil
}

// produce renders the cases of a batch and hands them to the workers
func produce(r *core.Run, in batchIn, out *batchOut, mu *sync.Mutex, emit func(workItem) bool) {
	sample := func(m map[string]interface{}) {
		mu.Lock()
		if len(out.Samples) < 4 {
			out.Samples = append(out.Samples, m)
		}
		mu.Unlock()
	}
	switch in.Family {
	case "enum":
		var sb strings.Builder
		idx := 0
		for si, st := range in.Stems {
			e := in.Header.Plan[st.P-1]
			alpha := in.Header.Alphabets[e.Lang]
			frame := in.Header.Frames[e.Lang][st.F-1]
			ok := true
			expand(st, e, len(alpha), func(toks []int) {
				if !ok {
					return
				}
				renderToks(&sb, alpha, frame, st.S, toks)
				idx++
				id := fmt.Sprintf("%s:%d:%d:%q:%v", in.ID, st.P, st.F, st.S, toks)
				if si%997 == 0 && len(toks) == e.Len {
					sample(map[string]interface{}{"family": "enum", "lang": e.Lang, "frame": frame, "sep": st.S, "tokens": append([]int(nil), toks...), "input": sb.String()})
				}
				ok = emit(workItem{caseID: id, family: "enum", lang: e.Lang, input: sb.String(), idx: idx + si*7919})
			})
			if !ok {
				return
			}
		}
	case "mut":
		byLen := map[int][]int{}
		toks := make([][]string, len(in.Seeds))
		for i, s := range in.Seeds {
			toks[i] = tokenise(s.Text)
			byLen[len(toks[i])] = append(byLen[len(toks[i])], i)
		}
		idx := 0
		for si, sc := range in.Scripts {
			cands := byLen[sc.Len0]
			if len(cands) == 0 {
				continue
			}
			for c := 0; c < in.PerScript && c < len(cands); c++ {
				// seeded choice of the seeds a script is applied to
				pick := cands[(si*31+c*17+int(r.Seed)*7)%len(cands)]
				sd := in.Seeds[pick]
				cur := toks[pick]
				alpha := in.Alphabets[alphabetOfSeedLang(sd.Lang)]
				var kinds []nestKind
				for _, k := range in.Kinds {
					if k.Lang == sd.Lang || (sd.Lang == "ts" && k.Lang == "js") || (sd.Lang == "jsx" && k.Lang == "js") {
						kinds = append(kinds, k)
					}
				}
				if len(kinds) == 0 {
					kinds = in.Kinds
				}
				okLens := true
				for oi, o := range sc.Script {
					cur = applyOp(cur, o, alpha, kinds)
					if len(cur) != sc.Lens[oi] {
						okLens = false
					}
				}
				if !okLens {
					mu.Lock()
					if len(out.Drift) < 5 {
						out.Drift = append(out.Drift, fmt.Sprintf("script %v on a seed of %d tokens: model lengths %v, harness length %d", sc.Script, sc.Len0, sc.Lens, len(cur)))
					}
					mu.Unlock()
					continue
				}
				text := strings.Join(cur, "")
				if in.MaxBytes > 0 && len(text) > in.MaxBytes {
					mu.Lock()
					out.SizeSkipped++
					mu.Unlock()
					continue
				}
				idx++
				last := sc.Script[len(sc.Script)-1].Op
				mu.Lock()
				out.ByOp[last]++
				mu.Unlock()
				if si%499 == 0 {
					sample(map[string]interface{}{"family": "mut", "seed_from": sd.From, "seed": sd.Text, "script": sc.Script, "input": text})
				}
				id := fmt.Sprintf("%s:%d:%d", in.ID, si, pick)
				if !emit(workItem{caseID: id, family: "mut", lang: sd.Lang, input: text, idx: idx + si*13,
					extra: map[string]interface{}{"seed_from": sd.From, "seed": sd.Text, "script": sc.Script}}) {
					return
				}
			}
		}
	case "cfgpat", "opts":
		for i, it := range in.Items {
			if i%97 == 0 {
				var doc map[string]interface{}
				json.Unmarshal([]byte(it.Input), &doc)
				sample(map[string]interface{}{"family": in.Family, "case": it.ID, "input": doc})
			}
			if !emit(workItem{caseID: it.ID, family: in.Family, lang: it.Lang, input: it.Input, idx: i}) {
				return
			}
		}
	case "nest":
		for ci, c := range in.NestCases {
			k := in.Kinds[c.K-1]
			text := renderNest(k, c)
			if ci%37 == 0 {
				sample(map[string]interface{}{"family": "nest", "open": k.Open, "inner": k.Inner, "close": k.Close, "depth": c.D, "mode": c.M, "bytes": len(text)})
			}
			id := fmt.Sprintf("%s:%d:%d:%s", in.ID, c.K, c.D, c.M)
			if !emit(workItem{caseID: id, family: "nest", lang: k.Lang, input: text, idx: ci,
				extra: map[string]interface{}{"open": k.Open, "inner": k.Inner, "close": k.Close, "depth": c.D, "mode": c.M, "binds": k.Binds}}) {
				return
			}
		}
	}
}

func alphabetOfSeedLang(lang string) string {
	switch lang {
	case "ts":
		return "ts"
	case "jsx":
		return "jsx"
	case "css":
		return "cssa"
	case "json":
		return "json"
	}
	return "jscore"
}

// ---------------------------------------------------------------------------
// solo child: one evaluation, measured

type soloIn struct {
	Input []byte  `json:"input"`
	Lang  string  `json:"lang"`
	Key   evalKey `json:"key"`
	Dir   string  `json:"dir"`
}

type soloOut struct {
	Bad      string  `json:"bad"`
	Site     string  `json:"site"`
	Rejected bool    `json:"rejected"`
	WallSec  float64 `json:"wall_sec"`
	CPUSec   float64 `json:"cpu_sec"`
	CanonOK  bool    `json:"canon_ok"`
	Canon0   string  `json:"canon0"`
	Canon1   string  `json:"canon1"`
}

func cpuSeconds() float64 {
	var ru syscall.Rusage
	syscall.Getrusage(syscall.RUSAGE_SELF, &ru)
	return float64(ru.Utime.Sec) + float64(ru.Utime.Usec)/1e6 + float64(ru.Stime.Sec) + float64(ru.Stime.Usec)/1e6
}

func runSolo(r *core.Run, in soloIn) (*soloOut, error) {
	out := &soloOut{}
	out.Canon0 = canonicalDigest(filepath.Join(in.Dir, "canon"))
	c0, t0 := cpuSeconds(), time.Now()
	res := evalOne(string(in.Input), in.Key, filepath.Join(in.Dir, "w"))
	out.WallSec, out.CPUSec = time.Since(t0).Seconds(), cpuSeconds()-c0
	out.Bad, out.Site, out.Rejected = res.Bad, res.Site, res.Rejected
	out.Canon1 = canonicalDigest(filepath.Join(in.Dir, "canon"))
	out.CanonOK = out.Canon0 == out.Canon1
	return out, nil
}

type soloVerdict struct {
	Out     soloOut
	Crashed bool
	Stderr  string
	Killed  bool    // killed at the CPU limit or because it stalled
	Stalled bool    // ... no CPU progress for stallLimit seconds of wall-clock time
	CPUSec  float64 // measured by the parent for the whole process
	WallSec float64
	Infra   string
}

// procCPU reads utime+stime of a process from /proc
func procCPU(pid int) float64 {
	data, err := os.ReadFile(fmt.Sprintf("/proc/%d/stat", pid))
	if err != nil {
		return -1
	}
	s := string(data)
	i := strings.LastIndexByte(s, ')')
	if i < 0 {
		return -1
	}
	f := strings.Fields(s[i+1:])
	if len(f) < 13 {
		return -1
	}
	var ut, st float64
	fmt.Sscan(f[11], &ut)
	fmt.Sscan(f[12], &st)
	return (ut + st) / 100
}

var soloCounter int64

// solo runs one evaluation in its own process; the process is killed when it has used cpuLimit
// seconds of CPU or has not used any CPU for stallLimit seconds of wall-clock time
func solo(r *core.Run, in soloIn, cpuLimit, stallLimit float64) soloVerdict {
	n := atomic.AddInt64(&soloCounter, 1)
	in.Dir = filepath.Join(r.Scratch, fmt.Sprintf("solo-%d", n))
	inFile := filepath.Join(r.Scratch, fmt.Sprintf("solo-%d.in.json", n))
	outFile := filepath.Join(r.Scratch, fmt.Sprintf("solo-%d.out.json", n))
	defer os.RemoveAll(in.Dir)
	defer os.Remove(inFile)
	defer os.Remove(outFile)
	b, _ := json.Marshal(in)
	os.WriteFile(inFile, b, 0644)
	exe, _ := os.Executable()
	cmd := exec.Command(exe, "--child", "c16.solo", inFile, outFile, r.ID, r.Tier, fmt.Sprint(r.Seed))
	// one OS thread: the CPU time of the process is then the time one core needs, whatever the machine load
	cmd.Env = append(os.Environ(), "TMPDIR="+r.Scratch, "GOMAXPROCS=1")
	var stderr strings.Builder
	cmd.Stderr, cmd.Stdout = &stderr, &stderr
	v := soloVerdict{}
	start := time.Now()
	if err := cmd.Start(); err != nil {
		v.Infra = err.Error()
		return v
	}
	done := make(chan error, 1)
	go func() { done <- cmd.Wait() }()
	tick := time.NewTicker(100 * time.Millisecond)
	defer tick.Stop()
	lastCPU, lastProgress := 0.0, time.Now()
loop:
	for {
		select {
		case <-done:
			break loop
		case <-tick.C:
			cpu := procCPU(cmd.Process.Pid)
			if cpu > v.CPUSec {
				v.CPUSec = cpu
			}
			if cpu > lastCPU+0.05 {
				lastCPU, lastProgress = cpu, time.Now()
			}
			// killed at the CPU limit, or when the process has made no progress for stallLimit seconds
			if cpu > cpuLimit || time.Since(lastProgress).Seconds() > stallLimit {
				v.Stalled = cpu <= cpuLimit
				cmd.Process.Kill()
				<-done
				v.Killed = true
				break loop
			}
		}
	}
	v.WallSec = time.Since(start).Seconds()
	if cmd.ProcessState != nil {
		if c := cmd.ProcessState.UserTime().Seconds() + cmd.ProcessState.SystemTime().Seconds(); c > v.CPUSec {
			v.CPUSec = c
		}
	}
	s := stderr.String()
	if len(s) > 8000 {
		s = s[:5000] + "\n...\n" + s[len(s)-2500:]
	}
	v.Stderr = s
	if v.Killed {
		return v
	}
	data, err := os.ReadFile(outFile)
	if err != nil || json.Unmarshal(data, &v.Out) != nil {
		v.Crashed = true
	}
	return v
}

func init() {
	core.RegisterChild("c16.batch", func(r *core.Run, raw json.RawMessage) (interface{}, error) {
		var in batchIn
		if err := json.Unmarshal(raw, &in); err != nil {
			return nil, err
		}
		return runBatch(r, in)
	})
	core.RegisterChild("c16.solo", func(r *core.Run, raw json.RawMessage) (interface{}, error) {
		var in soloIn
		if err := json.Unmarshal(raw, &in); err != nil {
			return nil, err
		}
		return runSolo(r, in)
	})
}
