package c16

import (
	"encoding/base64"
	"encoding/json"
	"os"
)

// replay re-runs the single evaluation of a replay file alone
func replay(c *ctx) {
	r := c.r
	data, err := os.ReadFile(r.Replay)
	var rec struct {
		Key    map[string]interface{} `json:"key"`
		Detail struct {
			Case  string                 `json:"case"`
			Input string                 `json:"input"`
			B64   string                 `json:"input_b64"`
			Eval  evalKey                `json:"eval"`
			Extra map[string]interface{} `json:"extra"`
			Fault json.RawMessage        `json:"fault"`
		} `json:"detail"`
	}
	if err != nil || json.Unmarshal(data, &rec) != nil {
		r.Infra("cannot read replay file %s: %v", r.Replay, err)
		return
	}
	if len(rec.Detail.Fault) > 0 {
		replayFault(c, rec.Detail.Fault)
		return
	}
	fam, _ := rec.Key["family"].(string)
	lang, _ := rec.Key["lang"].(string)
	input := []byte(rec.Detail.Input)
	if b, err := base64.StdEncoding.DecodeString(rec.Detail.B64); err == nil && rec.Detail.B64 != "" {
		input = b
	}
	je := journalEntry{CaseID: rec.Detail.Case, Family: fam, Lang: lang, Key: rec.Detail.Eval, Input: input, Extra: rec.Detail.Extra}
	c.examine(je, "replay")
	r.Case("replay", true)
	r.Case("replay2", true)
	r.Sample(map[string]interface{}{"replay": rec.Detail.Case})
}
