package c16

// Part (ii)(d) and (ii)(e): what spec/TokensCfg.tla (configuration key patterns x requests) and
// spec/TokensOpts.tla (strength-2 covering array over the options that switch the pipeline's
// goroutine / wait-group paths) export is materialised as scratch trees and run through the real
// api.Build / api.Transform.  A case is a JSON document (the journal entry's input), so the solo
// re-run and the replay file need nothing else.  No key, request alphabet, table family, target value
// or option value is defined here: they arrive from TLC (header records).

import (
	"encoding/base64"
	"encoding/json"
	"fmt"
	"os"
	"path/filepath"
	"sort"
	"strings"
	"sync"

	"github.com/evanw/esbuild/pkg/api"

	"verifharness/core"
	"verifharness/tlcrun"
)

// ---------------------------------------------------------------------------
// TokensCfg

type cfgFamily struct {
	Name      string `json:"name"`
	KeyPrefix string `json:"keyPrefix"`
	ReqPrefix string `json:"reqPrefix"`
}

type cfgTarget struct {
	Name  string `json:"name"`
	PJ    string `json:"pj"`
	TS    string `json:"ts"`
	Alias string `json:"alias"`
}

type cfgHeader struct {
	Sigma     []string    `json:"sigma"`
	Families  []cfgFamily `json:"families"`
	Targets   []cfgTarget `json:"targets"`
	Platforms []string    `json:"platforms"`
	KeyLen    int         `json:"keylen"`
	ReqCap    int         `json:"reqcap"`
}

type cfgKey struct {
	Key     string   `json:"key"`
	Stars   int      `json:"stars"`
	ReqMax  int      `json:"reqmax"`
	NReq    int      `json:"nreq"`
	Overlap []string `json:"overlap"`
	NMatch  int      `json:"nmatch"`
}

// one case: a key in a table family with a target value, bundled for a platform; the entry file
// imports every request over sigma of length <= reqmax
type cfgCase struct {
	Family   cfgFamily `json:"family"`
	Target   cfgTarget `json:"target"`
	Platform string    `json:"platform"`
	Sigma    []string  `json:"sigma"`
	Key      string    `json:"key"`
	ReqMax   int       `json:"reqmax"`
	Overlap  []string  `json:"overlap,omitempty"`
	NMatch   int       `json:"nmatch"`
	// Only: a single request instead of the whole expansion (set by hand in a replay file to narrow a finding down)
	Only *string `json:"only,omitempty"`
}

// every string over sigma of length <= n, shortest first (TokensCfg!Reqs)
func expandSigma(sigma []string, n int) []string {
	out := []string{""}
	level := []string{""}
	for l := 1; l <= n; l++ {
		var next []string
		for _, s := range level {
			for _, c := range sigma {
				next = append(next, s+c)
			}
		}
		out = append(out, next...)
		level = next
	}
	return out
}

func (cs cfgCase) requests() []string {
	if cs.Only != nil {
		return []string{*cs.Only}
	}
	return expandSigma(cs.Sigma, cs.ReqMax)
}

func jsonStr(s string) string { b, _ := json.Marshal(s); return string(b) }

func cfgTree(cs cfgCase) (map[string]string, api.BuildOptions) {
	files := map[string]string{}
	lib := func(root string) {
		for _, p := range []string{"src/a.js", "src/b.js", "src/a/index.js", "src/a/b.js", "src/ab.js", "src/aba.js", "a.js", "b.js", "a/index.js", "a/b.js", "ab.js", "index.js"} {
			files[root+p] = "export default 1\n"
		}
	}
	lib("")
	lib("node_modules/pkg/")
	files["node_modules/pkg/package.json"] = `{"name":"pkg","main":"./index.js"}`
	key := cs.Family.KeyPrefix + cs.Key
	// %KEY% in a target stands for the key of the entry itself (self-referential targets, TokensCfg!Targets)
	cs.Target.PJ = strings.ReplaceAll(cs.Target.PJ, "%KEY%", cs.Key)
	cs.Target.TS = strings.ReplaceAll(cs.Target.TS, "%KEY%", cs.Key)
	cs.Target.Alias = strings.ReplaceAll(cs.Target.Alias, "%KEY%", cs.Key)
	o := api.BuildOptions{EntryPoints: []string{"entry.ts"}, Bundle: true, Write: false, Outdir: "out", LogLevel: api.LogLevelSilent, Format: api.FormatESModule}
	switch cs.Platform {
	case "node":
		o.Platform = api.PlatformNode
	case "browser":
		o.Platform = api.PlatformBrowser
	default:
		o.Platform = api.PlatformNeutral
		o.MainFields = []string{"browser", "module", "main"}
	}
	var prefixes []string
	switch cs.Family.Name {
	case "exports":
		files["node_modules/pkg/package.json"] = fmt.Sprintf(`{"name":"pkg","exports":{%s: %s, "./fallback": "./src/a.js"}}`, jsonStr(key), cs.Target.PJ)
		prefixes = []string{cs.Family.ReqPrefix}
	case "imports":
		files["package.json"] = fmt.Sprintf(`{"name":"x","imports":{%s: %s, "#fallback": "./src/a.js"}}`, jsonStr(key), cs.Target.PJ)
		prefixes = []string{cs.Family.ReqPrefix}
	case "paths":
		files["tsconfig.json"] = fmt.Sprintf(`{"compilerOptions":{"baseUrl":".","paths":{%s: %s, "fallback/*": ["./src/*"]}}}`, jsonStr(key), cs.Target.TS)
		prefixes = []string{""}
	case "paths-extends":
		files["tsconfig.json"] = `{"extends":"./base/tsconfig.base.json","compilerOptions":{"target":"es2020"}}`
		files["base/tsconfig.base.json"] = fmt.Sprintf(`{"compilerOptions":{"paths":{%s: %s}}}`, jsonStr(key), cs.Target.TS)
		files["base/src/a.js"] = "export default 2\n"
		prefixes = []string{""}
	case "browser":
		m := fmt.Sprintf(`{%s: %s, %s: %s}`, jsonStr(key), cs.Target.PJ, jsonStr("./"+key), cs.Target.PJ)
		files["package.json"] = fmt.Sprintf(`{"name":"x","browser":%s}`, m)
		files["node_modules/pkg/package.json"] = fmt.Sprintf(`{"name":"pkg","main":"./index.js","browser":%s}`, m)
		prefixes = []string{"", "./", "pkg/"}
	case "sideEffects":
		globs := []string{key, "./" + key, key + "/**", "**/" + key, "?" + key, "[" + key, key + "[a-b]?"}
		gb, _ := json.Marshal(globs)
		files["node_modules/pkg/package.json"] = fmt.Sprintf(`{"name":"pkg","main":"./index.js","sideEffects":%s}`, gb)
		files["package.json"] = fmt.Sprintf(`{"name":"x","sideEffects":%s}`, gb)
		prefixes = []string{cs.Family.ReqPrefix, "./"}
	case "alias":
		if cs.Target.Alias != "" {
			o.Alias = map[string]string{key: cs.Target.Alias}
		}
		prefixes = []string{""}
	}
	var sb strings.Builder
	n := 0
	for _, pre := range prefixes {
		for _, req := range cs.requests() {
			spec := pre + req
			if spec == "" {
				continue
			}
			n++
			switch n % 5 {
			case 0:
				fmt.Fprintf(&sb, "export const r%d = require(%s)\n", n, jsonStr(spec))
			case 3:
				fmt.Fprintf(&sb, "export const d%d = import(%s)\n", n, jsonStr(spec))
			default:
				fmt.Fprintf(&sb, "export * as m%d from %s\n", n, jsonStr(spec))
			}
		}
	}
	files["entry.ts"] = sb.String()
	return files, o
}

func evalCfg(input string, dir string) evalResult {
	var cs cfgCase
	if err := json.Unmarshal([]byte(input), &cs); err != nil {
		return evalResult{Returned: true, Note: "bad case: " + err.Error()}
	}
	files, o := cfgTree(cs)
	os.RemoveAll(dir)
	if err := core.WriteTree(dir, files); err != nil {
		return evalResult{Returned: true, Note: "tree: " + err.Error()}
	}
	o.AbsWorkingDir = dir
	res := api.Build(o)
	r := evalResult{Returned: true, Rejected: len(cs.Overlap) > 0 || cs.NMatch > 0}
	if bad := badMessage(res.Errors, res.Warnings); bad != "" {
		r.Bad, r.Site = bad, panicSite(res.Errors)
	}
	return r
}

func (c *ctx) cfgFamilyRun(wg *sync.WaitGroup) {
	r := c.r
	cfg := "TokensCfg.quick.cfg"
	if r.Thorough() {
		cfg = "TokensCfg.thorough.cfg"
	}
	var hdr *cfgHeader
	var keys []cfgKey
	res := c.tlc(tlcrun.Options{Module: "TokensCfg", Config: cfg, Workers: 2, TimeoutSec: 1500, OnCase: func(raw []byte) {
		if strings.Contains(string(raw[:min(len(raw), 40)]), `"sigma"`) {
			var h cfgHeader
			if json.Unmarshal(raw, &h) == nil && len(h.Sigma) > 0 {
				hdr = &h
			}
			return
		}
		var k cfgKey
		if json.Unmarshal(raw, &k) == nil && k.NReq > 0 {
			keys = append(keys, k)
		}
	}})
	if res == nil || hdr == nil || len(keys) == 0 {
		r.Infra("TokensCfg: no header/keys exported")
		return
	}
	sort.Slice(keys, func(i, j int) bool { return keys[i].Key < keys[j].Key })
	// the expansion of sigma done here must be the request set TLC confronted the key with
	overlapKeys, overlapReqs := 0, 0
	for _, k := range keys {
		reqs := expandSigma(hdr.Sigma, k.ReqMax)
		if len(reqs) != k.NReq {
			r.Infra("TokensCfg: key %q: TLC has %d requests, the expansion of sigma to length %d has %d", k.Key, k.NReq, k.ReqMax, len(reqs))
			return
		}
		set := map[string]bool{}
		for _, q := range reqs {
			set[q] = true
		}
		for _, q := range k.Overlap {
			if !set[q] {
				r.Infra("TokensCfg: overlap request %q of key %q is not in the expansion", q, k.Key)
				return
			}
		}
		if len(k.Overlap) > 0 {
			overlapKeys++
			overlapReqs += len(k.Overlap)
		}
	}
	r.Set("cfgpat_keys_from_tlc", len(keys))
	r.Set("cfgpat_keys_with_overlap_requests", overlapKeys)
	r.Set("cfgpat_overlap_requests", overlapReqs)
	r.Set("cfgpat_families", len(hdr.Families))
	r.Set("cfgpat_target_kinds", len(hdr.Targets))
	// quick: every key x every family x two target kinds and one platform in a seeded rotation;
	// thorough: every key x family x target kind, the platform in rotation
	var items []rawItem
	nt, np := len(hdr.Targets), len(hdr.Platforms)
	for ki, k := range keys {
		for fi, f := range hdr.Families {
			var ts []int
			if r.Thorough() {
				for t := 0; t < nt; t++ {
					ts = append(ts, t)
				}
			} else {
				t1 := (ki + fi*3 + int(r.Seed)) % nt
				t2 := (ki*3 + fi + int(r.Seed)*7 + 5) % nt
				ts = []int{t1}
				if t2 != t1 {
					ts = append(ts, t2)
				}
			}
			for _, t := range ts {
				cs := cfgCase{Family: f, Target: hdr.Targets[t], Platform: hdr.Platforms[(ki+fi*2+t+int(r.Seed))%np], Sigma: hdr.Sigma, Key: k.Key, ReqMax: k.ReqMax, Overlap: k.Overlap, NMatch: k.NMatch}
				b, _ := json.Marshal(cs)
				items = append(items, rawItem{ID: fmt.Sprintf("cfgpat:%s:%s:%s:%s", f.Name, k.Key, hdr.Targets[t].Name, cs.Platform), Lang: "cfgpat", Input: string(b)})
			}
		}
	}
	r.Set("cfgpat_cases", len(items))
	r.Logf("TokensCfg: %d keys (%d with overlap requests) -> %d cases", len(keys), overlapKeys, len(items))
	c.submitItems(wg, "cfgpat", items, r.Pick(700, 4000))
}

// ---------------------------------------------------------------------------
// TokensOpts

type optsCase struct {
	Pair []string          `json:"pair"`
	Row  map[string]string `json:"row"`
	Salt int               `json:"salt"`
}

const validInputMap = `{"version":3,"sources":["orig.ts"],"sourcesContent":["export const b: number = 2\nexport const bb = 3\n"],"names":["b"],"mappings":"AAAA;AACA"}`

func optsTree(oc optsCase) (files map[string]string, entries []string, transformInput string, css bool) {
	row := oc.Row
	files = map[string]string{}
	comment := func(name string, css bool) string {
		var u string
		switch row["inputmap"] {
		case "none":
			return ""
		case "inline-valid":
			u = "data:application/json;base64," + base64.StdEncoding.EncodeToString([]byte(validInputMap))
		case "file-valid":
			u = filepath.Base(name) + ".map"
			files[name+".map"] = validInputMap
		default:
			u = malformedMaps[oc.Salt%len(malformedMaps)]
		}
		if css {
			return "/*# sourceMappingURL=" + u + " */\n"
		}
		return "//# sourceMappingURL=" + u + "\n"
	}
	bundle := row["mode"] == "bundle"
	files["b.js"] = "/*! legal b */\nexport const b = 2\nexport const bb = 3\n" + comment("b.js", false)
	files["c.js"] = "/*! legal c */\nexport const c = 3\n" + comment("c.js", false)
	a := "/*! legal a */\n"
	if bundle && row["input"] == "js+css" {
		a += "import './s.css'\n"
	}
	files["a.js"] = a + "import {b} from './b.js'\nimport('./c.js').then(m => console.log(m.c, b))\nexport const a = b + 1\n" + comment("a.js", false)
	files["d.js"] = "import {b} from './b.js'\nexport const d = b * 2\n"
	files["s.css"] = "/*! legal s */\n@import './t.css';\na { color: red }\n" + comment("s.css", true)
	files["t.css"] = "/*! legal t */\nb { color: blue }\n" + comment("t.css", true)
	switch {
	case row["input"] == "css" && bundle:
		entries = []string{"s.css"}
	case row["input"] == "css":
		entries = []string{"s.css", "t.css"}
	case bundle:
		entries = []string{"a.js", "d.js"}
	default:
		entries = []string{"a.js", "b.js", "c.js"}
	}
	css = row["input"] == "css"
	if css {
		transformInput = files["t.css"]
	} else {
		transformInput = files["b.js"]
	}
	return
}

func evalOpts(input string, dir string) evalResult {
	var oc optsCase
	if err := json.Unmarshal([]byte(input), &oc); err != nil || oc.Row == nil {
		return evalResult{Returned: true, Note: "bad case"}
	}
	row := oc.Row
	sm := map[string]api.SourceMap{"none": api.SourceMapNone, "inline": api.SourceMapInline, "linked": api.SourceMapLinked, "external": api.SourceMapExternal, "both": api.SourceMapInlineAndExternal}[row["sourcemap"]]
	sc := map[string]api.SourcesContent{"include": api.SourcesContentInclude, "exclude": api.SourcesContentExclude}[row["sourcesContent"]]
	format := map[string]api.Format{"iife": api.FormatIIFE, "cjs": api.FormatCommonJS, "esm": api.FormatESModule}[row["format"]]
	legal := map[string]api.LegalComments{"none": api.LegalCommentsNone, "inline": api.LegalCommentsInline, "eof": api.LegalCommentsEndOfFile, "linked": api.LegalCommentsLinked, "external": api.LegalCommentsExternal}[row["legal"]]
	minify := row["minify"] == "on"
	files, entries, tin, css := optsTree(oc)
	var errs, warns []api.Message
	produced := false
	if row["mode"] == "transform" {
		o := api.TransformOptions{Sourcemap: sm, SourcesContent: sc, LegalComments: legal, MinifyWhitespace: minify, MinifyIdentifiers: minify, MinifySyntax: minify, LogLevel: api.LogLevelSilent}
		if css {
			o.Loader, o.Sourcefile = api.LoaderCSS, "in.css"
		} else {
			o.Loader, o.Sourcefile, o.Format = api.LoaderJS, "in.js", format
		}
		res := api.Transform(tin, o)
		errs, warns, produced = res.Errors, res.Warnings, len(res.Code) > 0
	} else {
		os.RemoveAll(dir)
		if err := core.WriteTree(dir, files); err != nil {
			return evalResult{Returned: true, Note: "tree: " + err.Error()}
		}
		o := api.BuildOptions{AbsWorkingDir: dir, EntryPoints: entries, Bundle: row["mode"] == "bundle", Outdir: "out", Write: row["write"] == "disk", LogLevel: api.LogLevelSilent,
			Sourcemap: sm, SourcesContent: sc, Format: format, Splitting: row["splitting"] == "on", LegalComments: legal, Metafile: row["metafile"] == "on",
			MinifyWhitespace: minify, MinifyIdentifiers: minify, MinifySyntax: minify}
		res := api.Build(o)
		errs, warns, produced = res.Errors, res.Warnings, len(res.OutputFiles) > 0
	}
	r := evalResult{Returned: true, Rejected: len(errs) == 0 && produced}
	if bad := badMessage(errs, warns); bad != "" {
		r.Bad, r.Site = bad, panicSite(errs)
	} else if len(errs) > 0 && row["inputmap"] != "malformed" {
		r.Note = fmt.Sprintf("row %v is valid in TokensOpts.tla but esbuild rejects it: %s", row, errs[0].Text)
	}
	return r
}

func (c *ctx) optsFamilyRun(wg *sync.WaitGroup) {
	r := c.r
	cfgText := fmt.Sprintf("SPECIFICATION Spec\nCONSTANTS\n  Seed = %d\nINVARIANTS TypeOK RowValid RowCovers Export\nCHECK_DEADLOCK FALSE\n", r.Seed)
	var hdr struct {
		Dims []struct {
			Name string   `json:"name"`
			Vals []string `json:"vals"`
		} `json:"dims"`
		NPairs    int `json:"npairs"`
		NFeasible int `json:"nfeasible"`
	}
	var rows []optsCase
	infeasible := 0
	res := c.tlc(tlcrun.Options{Module: "TokensOpts", Config: "TokensOpts.run.cfg", Files: map[string]string{"TokensOpts.run.cfg": cfgText}, Workers: 1, TimeoutSec: 900, OnCase: func(raw []byte) {
		s := string(raw[:min(len(raw), 20)])
		switch {
		case strings.Contains(s, `"dims"`):
			json.Unmarshal(raw, &hdr)
		case strings.Contains(s, `"infeasible"`):
			infeasible++
		default:
			var oc optsCase
			if json.Unmarshal(raw, &oc) == nil && len(oc.Pair) == 4 {
				rows = append(rows, oc)
			}
		}
	}})
	if res == nil || len(hdr.Dims) == 0 || len(rows) == 0 {
		r.Infra("TokensOpts: nothing exported")
		return
	}
	// strength 2: every feasible pair has a row, and the row holds it
	if len(rows) != hdr.NFeasible || len(rows)+infeasible != hdr.NPairs {
		r.Infra("TokensOpts: %d rows + %d infeasible pairs exported, the model has %d pairs of which %d are feasible", len(rows), infeasible, hdr.NPairs, hdr.NFeasible)
		return
	}
	sort.Slice(rows, func(i, j int) bool { return fmt.Sprint(rows[i].Pair) < fmt.Sprint(rows[j].Pair) })
	var items []rawItem
	for i := range rows {
		oc := rows[i]
		if oc.Row[oc.Pair[0]] != oc.Pair[1] || oc.Row[oc.Pair[2]] != oc.Pair[3] || len(oc.Row) != len(hdr.Dims) {
			r.Infra("TokensOpts: row %v does not hold its pair %v", oc.Row, oc.Pair)
			return
		}
		oc.Salt = i + int(r.Seed)
		b, _ := json.Marshal(oc)
		items = append(items, rawItem{ID: "opts:" + strings.Join(oc.Pair, "="), Lang: "opts", Input: string(b)})
	}
	r.Set("opts_dimensions", len(hdr.Dims))
	r.Set("opts_value_pairs", hdr.NPairs)
	r.Set("opts_feasible_pairs_each_run_as_a_row", len(rows))
	r.Logf("TokensOpts: %d pairs, %d rows", hdr.NPairs, len(rows))
	c.submitItems(wg, "opts", items, 250)
}

// ---------------------------------------------------------------------------

type rawItem struct {
	ID    string `json:"id"`
	Lang  string `json:"lang"`
	Input string `json:"input"`
}

func (c *ctx) submitItems(wg *sync.WaitGroup, family string, items []rawItem, per int) {
	for lo, bi := 0, 0; lo < len(items); lo, bi = lo+per, bi+1 {
		hi := min(lo+per, len(items))
		// small well-formed inputs: an evaluation that has not returned after a minute of wall-clock time is handed
		// to the solo run (which decides by CPU time) instead of waiting ten minutes for it
		c.submit(wg, batchIn{Family: family, ID: fmt.Sprintf("%s%d", family[:1]+family[len(family)-1:], bi), Items: items[lo:hi], HangWallSec: 60})
	}
}
