package c16

// Rendering of what the three input machines of spec/Tokens*.tla export:
// stems of the enumeration (expanded by `tail` tokens), mutation scripts
// (applied to tokenised seeds) and nesting cases.  No alphabet, frame or
// nesting kind is defined here: they all arrive from TLC.

import (
	"strings"
)

// ---------------------------------------------------------------------------
// enumeration (Tokens.tla)

type planEntry struct {
	Lang   string   `json:"lang"`
	Frames []int    `json:"frames"`
	Seps   []string `json:"seps"`
	Len    int      `json:"len"`
	Tail   int      `json:"tail"`
}

type enumHeader struct {
	Plan      []planEntry            `json:"plan"`
	Alphabets map[string][]string    `json:"alphabets"`
	Frames    map[string][][2]string `json:"frames"`
}

type stem struct {
	P int    `json:"p"` // plan entry (1-based)
	F int    `json:"f"` // frame (1-based)
	S string `json:"s"` // separator
	T []int  `json:"t"` // token indices (1-based)
}

// expand calls fn for every token-index string denoted by the stem: the stem
// itself, and, if it has the full stem length, every extension by 1..tail tokens
// (Tokens!Expand).  The slice passed to fn is reused.
func expand(st stem, e planEntry, n int, fn func(toks []int)) {
	buf := append([]int(nil), st.T...)
	fn(buf)
	if len(st.T) < e.Len-e.Tail {
		return
	}
	var rec func(depth int)
	rec = func(depth int) {
		if depth == 0 {
			return
		}
		for t := 1; t <= n; t++ {
			buf = append(buf, t)
			fn(buf)
			rec(depth - 1)
			buf = buf[:len(buf)-1]
		}
	}
	rec(e.Tail)
}

func renderToks(sb *strings.Builder, alphabet []string, frame [2]string, sep string, toks []int) {
	sb.Reset()
	sb.WriteString(frame[0])
	if frame[0] != "" {
		sb.WriteString(sep)
	}
	for i, t := range toks {
		if i > 0 {
			sb.WriteString(sep)
		}
		sb.WriteString(alphabet[t-1])
	}
	if frame[1] != "" {
		sb.WriteString(sep)
	}
	sb.WriteString(frame[1])
}

// ---------------------------------------------------------------------------
// mutation scripts (TokensMut.tla)

type mutOp struct {
	Op string `json:"op"`
	I  int    `json:"i"`
	J  int    `json:"j"`
	V  int    `json:"v"`
	D  int    `json:"d"`
}

type mutScript struct {
	Len0   int     `json:"len0"`
	Script []mutOp `json:"script"`
	Lens   []int   `json:"lens"`
}

// tokenise splits a seed into tokens: a run of identifier/number/non-ASCII
// bytes, or any other single byte; white space is attached to the token before it.
func tokenise(s string) []string {
	var out []string
	isWord := func(c byte) bool {
		return c >= 0x80 || c == '_' || c == '$' || (c >= '0' && c <= '9') || (c >= 'a' && c <= 'z') || (c >= 'A' && c <= 'Z')
	}
	isSpace := func(c byte) bool { return c == ' ' || c == '\n' || c == '\t' || c == '\r' }
	i := 0
	for i < len(s) {
		j := i
		if isSpace(s[j]) && len(out) == 0 {
			for j < len(s) && isSpace(s[j]) {
				j++
			}
		} else if isWord(s[j]) {
			for j < len(s) && isWord(s[j]) {
				j++
			}
		} else {
			j++
		}
		for j < len(s) && isSpace(s[j]) {
			j++
		}
		out = append(out, s[i:j])
		i = j
	}
	return out
}

var corruptions = []string{"\xff", "\xc0\x80", "\xe2\x82", "\xed\xa0\x80", "\xf4\x90\x80\x80", "\x80"}

// applyOp applies one mutation; alphabet and kinds are those TLC exported
func applyOp(toks []string, o mutOp, alphabet []string, kinds []nestKind) []string {
	switch o.Op {
	case "Delete":
		return append(append([]string(nil), toks[:o.I-1]...), toks[o.I:]...)
	case "Duplicate":
		out := append([]string(nil), toks[:o.J]...)
		out = append(out, toks[o.I-1:o.J]...)
		return append(out, toks[o.J:]...)
	case "Swap":
		out := append([]string(nil), toks...)
		out[o.I-1], out[o.J-1] = out[o.J-1], out[o.I-1]
		return out
	case "Truncate":
		return append([]string(nil), toks[:o.I]...)
	case "InsertToken":
		out := append([]string(nil), toks[:o.I]...)
		out = append(out, alphabet[(o.V-1)%len(alphabet)]+" ")
		return append(out, toks[o.I:]...)
	case "NestDeeper":
		k := kinds[(o.V-1)%len(kinds)]
		out := append([]string(nil), toks[:o.I-1]...)
		out = append(out, strings.Repeat(k.Open, o.D))
		out = append(out, toks[o.I-1:o.J]...)
		out = append(out, strings.Repeat(k.Close, o.D))
		return append(out, toks[o.J:]...)
	case "CorruptUtf8":
		out := append([]string(nil), toks...)
		t := out[o.I-1]
		c := corruptions[(o.V-1)%len(corruptions)]
		if len(t) <= 1 {
			out[o.I-1] = c + t
		} else {
			out[o.I-1] = t[:len(t)/2] + c + t[len(t)/2+1:]
		}
		return out
	case "InsertNul":
		out := append([]string(nil), toks...)
		t := out[o.I-1]
		out[o.I-1] = t[:len(t)/2] + "\x00" + t[len(t)/2:]
		return out
	}
	return toks
}

// ---------------------------------------------------------------------------
// nesting (TokensNest.tla)

type nestKind struct {
	Lang  string `json:"lang"`
	Open  string `json:"open"`
	Inner string `json:"inner"`
	Close string `json:"close"`
	Binds bool   `json:"binds"`
}

type nestHeader struct {
	Kinds    []nestKind `json:"kinds"`
	Depths   []int      `json:"depths"`
	MaxBytes int        `json:"maxbytes"`
}

type nestCase struct {
	K    int    `json:"k"`
	D    int    `json:"d"`
	M    string `json:"m"`
	Size int    `json:"size"`
}

func renderNest(k nestKind, c nestCase) string {
	closers := c.D
	switch c.M {
	case "unclosed":
		closers = 0
	case "overclosed":
		closers = c.D + 1
	}
	return strings.Repeat(k.Open, c.D) + k.Inner + strings.Repeat(k.Close, closers)
}
