package c16

// Seeds of the mutation machine: the inputs of the repository's own parser,
// printer, lexer and bundler tests, extracted from the working tree at run time
// (go/parser over the *_test.go files; nothing is executed).

import (
	"go/ast"
	"go/parser"
	"go/token"
	"os"
	"path/filepath"
	"sort"
	"strconv"
	"strings"
)

// constant string value of an expression (literal or concatenation of literals)
func constString(e ast.Expr) (string, bool) {
	switch x := e.(type) {
	case *ast.BasicLit:
		if x.Kind == token.STRING {
			s, err := strconv.Unquote(x.Value)
			return s, err == nil
		}
	case *ast.BinaryExpr:
		if x.Op == token.ADD {
			a, ok1 := constString(x.X)
			b, ok2 := constString(x.Y)
			return a + b, ok1 && ok2
		}
	case *ast.ParenExpr:
		return constString(x.X)
	}
	return "", false
}

func langOfHelper(file, fn string) string {
	base := filepath.Base(file)
	switch {
	case strings.Contains(file, "css_"):
		return "css"
	case base == "json_parser_test.go" || strings.Contains(fn, "JSON"):
		return "json"
	case strings.Contains(fn, "TSX"):
		return "ts"
	case strings.Contains(fn, "JSX"):
		return "jsx"
	case strings.Contains(fn, "TS") || base == "ts_parser_test.go":
		return "ts"
	}
	return "js"
}

func langOfPath(p string) string {
	base := filepath.Base(p)
	switch {
	case base == "package.json" || strings.HasPrefix(base, "tsconfig") && strings.HasSuffix(base, ".json") || strings.HasPrefix(base, "jsconfig"):
		return "cfg"
	case strings.HasSuffix(p, ".tsx") || strings.HasSuffix(p, ".ts") || strings.HasSuffix(p, ".mts") || strings.HasSuffix(p, ".cts"):
		return "ts"
	case strings.HasSuffix(p, ".jsx"):
		return "jsx"
	case strings.HasSuffix(p, ".js") || strings.HasSuffix(p, ".mjs") || strings.HasSuffix(p, ".cjs"):
		return "js"
	case strings.HasSuffix(p, ".css"):
		return "css"
	case strings.HasSuffix(p, ".json"):
		return "json"
	}
	return ""
}

// extractSeeds walks the test files below repo/internal
func extractSeeds(repo string) ([]seed, map[string]int, error) {
	var files []string
	for _, pat := range []string{"internal/js_parser/*_test.go", "internal/js_printer/*_test.go", "internal/js_lexer/*_test.go",
		"internal/css_parser/*_test.go", "internal/css_printer/*_test.go", "internal/css_lexer/*_test.go", "internal/bundler_tests/*_test.go"} {
		m, _ := filepath.Glob(filepath.Join(repo, pat))
		files = append(files, m...)
	}
	sort.Strings(files)
	seen := map[string]bool{}
	var out []seed
	perFile := map[string]int{}
	add := func(lang, text, from string) {
		if lang == "" || text == "" || len(text) > 4000 {
			return
		}
		k := lang + "\x00" + text
		if seen[k] {
			return
		}
		seen[k] = true
		out = append(out, seed{Lang: lang, Text: text, From: from})
		perFile[filepath.Base(from)]++
	}
	fset := token.NewFileSet()
	for _, f := range files {
		src, err := os.ReadFile(f)
		if err != nil {
			continue
		}
		tree, err := parser.ParseFile(fset, f, src, 0)
		if err != nil {
			continue
		}
		rel, _ := filepath.Rel(repo, f)
		ast.Inspect(tree, func(n ast.Node) bool {
			switch x := n.(type) {
			case *ast.CallExpr:
				id, ok := x.Fun.(*ast.Ident)
				if !ok || !strings.HasPrefix(id.Name, "expect") || len(x.Args) < 2 {
					return true
				}
				if t, ok := x.Args[0].(*ast.Ident); !ok || t.Name != "t" {
					return true
				}
				for _, a := range x.Args[1:] {
					if s, ok := constString(a); ok {
						add(langOfHelper(rel, id.Name), s, rel)
						break
					}
				}
			case *ast.KeyValueExpr:
				k, ok1 := constString(x.Key)
				v, ok2 := constString(x.Value)
				if ok1 && ok2 && strings.HasPrefix(k, "/") && strings.Contains(rel, "bundler_tests") {
					add(langOfPath(k), v, rel)
				}
			}
			return true
		})
	}
	return out, perFile, nil
}
