// Package c16: no crash, hang or internal error on any input.
//
// Spec: (i) spec/ScanFaults.tla -- the build pipeline (scan, link, chunk
// generators) with fault actions (a panicking parse goroutine, a panicking
// per-file printer / chunk generator, a failing plugin callback, cancel at every
// poll point); TLC checks termination, "a recovered panic becomes a message",
// drained channels / wait groups and that a second build on the same context
// gives the canonical result, and enumerates the fault placements; the harness
// replays every placement into real builds through `verif` fault gates.
// (ii) spec/Tokens.tla (every short token string of ten alphabets, in frames),
// spec/TokensMut.tla (mutation scripts over the repository's own test inputs),
// spec/TokensNest.tla (deep nesting): every input TLC produces goes through the
// real API (api.Transform / api.Build) x loaders x flag sets in child processes.
//
// Oracle: the call returns (CPU-time bound measured on a solo process), no
// diagnostic starts with "panic:" or contains "Internal error", the process
// does not die, and it still produces the canonical outputs afterwards.
package c16

import (
	"bytes"
	"encoding/base64"
	"encoding/json"
	"fmt"
	"math/rand"
	"os"
	"path/filepath"
	"regexp"
	"sort"
	"strings"
	"sync"
	"sync/atomic"
	"time"

	"verifharness/core"
	"verifharness/tlcrun"
)

func init() { core.Register("C16", Run) }

const (
	cpuLimitSec   = 30.0 // "terminates within seconds", read generously: CPU seconds a solo single-threaded process may use for one input of <= maxInputBytes
	hangWallSec   = 90.0 // no CPU progress for this long = deadlock
	maxInputBytes = 40000
	maxSeedTokens = 100
)

type ctx struct {
	r              *core.Run
	childSem       chan struct{} // concurrent batch children
	soloSem        chan struct{} // concurrent solo children
	deepSem        chan struct{} // concurrent deep nesting cases
	tlcSem         chan struct{} // concurrent JVMs
	mu             sync.Mutex
	canon          string
	batchSeq       int64
	evals          int64
	cases          int64
	rejected       int64
	byLang         map[string]int64
	byLoader       map[string]int64
	byOp           map[string]int64
	soloRuns       int64
	reported       map[string]bool
	nontrivSeq     int64
	budgetSec      float64 // dispatch budget on a machine of nominal speed
	maxStretch     float64
	stretch        float64   // measured: nominal throughput / observed throughput of the batch children (1..12)
	firstDispatch  time.Time // the budget runs from the first dispatch
	rates          []float64 // evaluations per second of the finished enum batches
	queue          map[string][]batchIn
	dispatched     map[string]int
	qcond          *sync.Cond
	qclosed        bool
	skippedBatches map[string]int64
	deepSkipped    int64
	submitted      int64
	sampled        map[string]int
	fastTmp        string
}

// nominal throughput of one single-threaded batch child (evaluations per second) on a machine that is
// not overloaded; measured: 3 100 evaluations per CPU-second with profiling on under load average 80
const nominalRate = 2500.0

// expired: the dispatch budget is used up.  The budget is stretched by how much slower than nominal the
// batch children of THIS run are, so an overloaded machine does the same work in more wall-clock time.
func (c *ctx) expired() bool {
	c.mu.Lock()
	defer c.mu.Unlock()
	if c.firstDispatch.IsZero() {
		c.firstDispatch = time.Now()
		return false
	}
	st := c.stretch
	if len(c.rates) == 0 {
		// no enumeration batch has come back yet: nothing is known about the speed of this machine
		st = c.maxStretch
	}
	return time.Since(c.firstDispatch).Seconds() > c.budgetSec*st
}

func (c *ctx) observeRate(evals int64, wall float64) {
	if wall <= 0 || evals < 500 {
		return
	}
	c.mu.Lock()
	defer c.mu.Unlock()
	c.rates = append(c.rates, float64(evals)/wall)
	rs := append([]float64(nil), c.rates...)
	sort.Float64s(rs)
	med := rs[len(rs)/2]
	st := nominalRate / med
	if st < 1 {
		st = 1
	}
	if st > c.maxStretch {
		st = c.maxStretch
	}
	c.stretch = st
}

// submit queues a batch for the pool of child processes
func (c *ctx) submit(wg *sync.WaitGroup, in batchIn) {
	if only := os.Getenv("C16_ONLY"); only != "" && !strings.Contains(only, in.Family) {
		return
	}
	if mb := os.Getenv("C16_MAXBATCHES"); mb != "" {
		var n int64
		fmt.Sscan(mb, &n)
		if atomic.AddInt64(&c.submitted, 1) > n {
			return
		}
	}
	wg.Add(1)
	in.wg = wg
	c.qcond.L.Lock()
	c.queue[in.Family] = append(c.queue[in.Family], in)
	c.qcond.L.Unlock()
	c.qcond.Signal()
}

// next batch: from the family that has had the fewest batches dispatched so far
func (c *ctx) take() (batchIn, bool) {
	best := ""
	for f, q := range c.queue {
		if len(q) > 0 && (best == "" || c.dispatched[f] < c.dispatched[best] || c.dispatched[f] == c.dispatched[best] && f < best) {
			best = f
		}
	}
	if best == "" {
		return batchIn{}, false
	}
	in := c.queue[best][0]
	c.queue[best] = c.queue[best][1:]
	c.dispatched[best]++
	return in, true
}

func (c *ctx) pool(n int) {
	for i := 0; i < n; i++ {
		go func() {
			for {
				c.qcond.L.Lock()
				in, ok := c.take()
				for !ok && !c.qclosed {
					c.qcond.Wait()
					in, ok = c.take()
				}
				c.qcond.L.Unlock()
				if !ok {
					return
				}
				if c.expired() {
					c.mu.Lock()
					c.skippedBatches[in.Family]++
					c.mu.Unlock()
				} else {
					c.runBatchChild(in)
				}
				in.wg.Done()
			}
		}()
	}
}

func (c *ctx) tlc(o tlcrun.Options) *tlcrun.Result {
	c.tlcSem <- struct{}{}
	defer func() { <-c.tlcSem }()
	return tlcrun.MustHold(c.r, o)
}

// ---------------------------------------------------------------------------
// verdicts

func trim(s string, n int) string {
	if len(s) > n {
		return s[:n] + "..."
	}
	return s
}

// panicText strips the parts of a panic message that depend on the input file name
func panicText(bad string) string {
	if i := strings.Index(bad, " (while "); i > 0 {
		bad = bad[:i]
	}
	return trim(bad, 160)
}

func (c *ctx) report(kind string, key map[string]interface{}, what string, detail map[string]interface{}) {
	id := kind + "|" + fmt.Sprint(key)
	c.mu.Lock()
	dup := c.reported[id]
	c.reported[id] = true
	c.mu.Unlock()
	if dup {
		return
	}
	key["kind"] = kind
	c.r.Violation(key, what, detail)
}

func describe(je journalEntry) (map[string]interface{}, map[string]interface{}) {
	key := map[string]interface{}{"family": je.Family, "lang": je.Lang, "loader": je.Key.Loader, "flags": flagSetNames[je.Key.FS], "mode": je.Key.Mode}
	// the input also in base64: JSON cannot carry invalid UTF-8
	detail := map[string]interface{}{"case": je.CaseID, "input": string(je.Input), "input_b64": base64.StdEncoding.EncodeToString(je.Input), "input_bytes": len(je.Input), "eval": je.Key, "extra": je.Extra}
	if je.Family == "cfgpat" || je.Family == "opts" {
		// the case is a JSON document: name the table family / the covered pair in the key
		var doc struct {
			Family struct {
				Name string `json:"name"`
			} `json:"family"`
			Key  string   `json:"key"`
			Pair []string `json:"pair"`
		}
		if json.Unmarshal(je.Input, &doc) == nil {
			if je.Family == "cfgpat" {
				key["table"], key["table_key"] = doc.Family.Name, doc.Key
			} else {
				key["pair"] = strings.Join(doc.Pair, "=")
			}
		}
	}
	if je.Family == "nest" && je.Extra != nil {
		key["nest_open"] = je.Extra["open"]
		key["binds"] = je.Extra["binds"]
	}
	return key, detail
}

// examine runs one evaluation alone in a fresh process and turns what it observes into a verdict.
// why = "slow" (took long inside a batch), "hung", "crash-candidate", "panic-message", "deep"
func (c *ctx) examine(je journalEntry, why string) (violated bool) {
	c.soloSem <- struct{}{}
	v := solo(c.r, soloIn{Input: je.Input, Lang: je.Lang, Key: je.Key}, cpuLimitSec, hangWallSec)
	<-c.soloSem
	atomic.AddInt64(&c.soloRuns, 1)
	key, detail := describe(je)
	detail["why_examined"] = why
	detail["solo_cpu_sec"], detail["solo_wall_sec"] = v.CPUSec, v.WallSec
	switch {
	case v.Infra != "":
		c.r.Infra("solo run could not be started: %s", v.Infra)
	case v.Killed && !v.Stalled:
		c.report("slow", key, fmt.Sprintf("input of %d bytes (%s, loader %s, flags %s) does not finish within %.0f s of CPU time (process killed at %.1f s): %q",
			len(je.Input), je.Family, je.Key.Loader, flagSetNames[je.Key.FS], cpuLimitSec, v.CPUSec, trim(string(je.Input), 120)), detail)
		return true
	case v.Killed:
		c.report("hang", key, fmt.Sprintf("input of %d bytes (%s, loader %s, flags %s) did not return and used no CPU for %.0f s (%.1f s of CPU in total: deadlock): %q",
			len(je.Input), je.Family, je.Key.Loader, flagSetNames[je.Key.FS], hangWallSec, v.CPUSec, trim(string(je.Input), 120)), detail)
		return true
	case v.Crashed:
		if core.CrashInEsbuild(v.Stderr) {
			key["crash"] = crashKind(v.Stderr)
			key["frame"] = crashFrame(v.Stderr)
			detail["stderr"] = v.Stderr
			c.report("crash", key, fmt.Sprintf("the process dies (%s in %s) on an input of %d bytes (%s, loader %s, flags %s): %q",
				key["crash"], key["frame"], len(je.Input), je.Family, je.Key.Loader, flagSetNames[je.Key.FS], trim(string(je.Input), 120)), detail)
			return true
		}
		c.r.Infra("solo child died outside esbuild: %s", trim(v.Stderr, 600))
	case v.Out.Bad != "":
		key["site"] = v.Out.Site
		key["message"] = panicText(v.Out.Bad)
		detail["diagnostic"] = v.Out.Bad
		c.report("panic-message", key, fmt.Sprintf("esbuild reports a recovered panic / internal error: %s at %s; input (%s, loader %s, flags %s): %q",
			panicText(v.Out.Bad), v.Out.Site, je.Family, je.Key.Loader, flagSetNames[je.Key.FS], trim(string(je.Input), 200)), detail)
		violated = true
		fallthrough
	default:
		if !v.Out.CanonOK {
			c.report("unusable", key, fmt.Sprintf("after this input the process no longer produces the canonical outputs (digest %s, before %s): %q",
				v.Out.Canon1, v.Out.Canon0, trim(string(je.Input), 120)), detail)
			return true
		}
	}
	return violated
}

func crashKind(stderr string) string {
	switch {
	case strings.Contains(stderr, "stack overflow"):
		return "stack-overflow"
	case strings.Contains(stderr, "fatal error: all goroutines are asleep"):
		return "deadlock"
	case strings.Contains(stderr, "concurrent map"):
		return "concurrent-map"
	case strings.Contains(stderr, "out of memory"):
		return "out-of-memory"
	case strings.Contains(stderr, "fatal error:"):
		return "fatal"
	}
	return "panic"
}

func crashFrame(stderr string) string {
	for _, line := range strings.Split(stderr, "\n") {
		line = strings.TrimSpace(line)
		if strings.HasPrefix(line, "github.com/evanw/esbuild/") && !strings.Contains(line, "/internal/verif") {
			if i := strings.LastIndexByte(line, '('); i > 0 {
				line = line[:i]
			}
			return strings.TrimPrefix(line, "github.com/evanw/esbuild/")
		}
	}
	return ""
}

// ---------------------------------------------------------------------------
// batches

func (c *ctx) runBatchChild(in batchIn) {
	r := c.r
	n := atomic.AddInt64(&c.batchSeq, 1)
	in.Dir = filepath.Join(c.fastTmp, fmt.Sprintf("b%d", n))
	in.Journal = filepath.Join(r.Scratch, fmt.Sprintf("b%d.journal", n))
	if in.Workers == 0 {
		in.Workers = 2
	}
	if keep := os.Getenv("C16_KEEP"); keep != "" {
		b, _ := json.Marshal(in)
		os.WriteFile(filepath.Join(keep, in.ID+".json"), b, 0644)
	}
	t0 := time.Now()
	defer func() {
		r.Logf("batch %s done in %.1fs (queue %d)", in.ID, time.Since(t0).Seconds(), len(c.queue["enum"])+len(c.queue["mut"]))
	}()
	defer os.RemoveAll(in.Dir)
	defer os.Remove(in.Journal)
	for attempt := 0; attempt < 6; attempt++ {
		var out batchOut
		// one OS thread per child: under machine load the goroutine hand-offs inside a Transform call are
		// several times cheaper than with GOMAXPROCS > 1 (measured 5x); parallelism comes from the pool
		cr := r.Child("c16.batch", in, &out, 20*time.Minute, "", "GOMAXPROCS=1", "TMPDIR="+r.Scratch)
		if cr.Crashed || cr.TimedOut {
			// which inputs were being worked on?
			cands := readJournal(in.Journal)
			if !core.CrashInEsbuild(cr.Stderr) && !cr.TimedOut {
				r.Infra("batch %s: driver died outside esbuild (exit %d): %s", in.ID, cr.ExitCode, trim(cr.Stderr, 800))
				return
			}
			found := false
			if in.Skip == nil {
				in.Skip = map[string]bool{}
			}
			for _, je := range cands {
				if c.examine(je, "crash-candidate") {
					found = true
				}
				in.Skip[skipKey(je.CaseID, je.Key)] = true
			}
			if !found {
				r.Infra("batch %s: the child died (%s) but none of the %d inputs in progress reproduces it alone: %s", in.ID, crashKind(cr.Stderr), len(cands), trim(cr.Stderr, 800))
				return
			}
			continue // re-run the batch without the culprits
		}
		c.absorb(in, &out)
		if out.Hung != nil {
			if c.examine(*out.Hung, "hung") && (in.Family == "opts" || in.Family == "cfgpat") {
				// the verdict is in; every further row that hangs would cost minutes
				r.Logf("batch %s: a hang is confirmed, the rest of the batch is not run", in.ID)
				c.mu.Lock()
				c.skippedBatches[in.Family+"-after-confirmed-hang"]++
				c.mu.Unlock()
				return
			}
			if in.Skip == nil {
				in.Skip = map[string]bool{}
			}
			in.Skip[skipKey(out.Hung.CaseID, out.Hung.Key)] = true
			continue
		}
		return
	}
	r.Infra("batch %s: gave up after repeated crashes/hangs", in.ID)
}

func (c *ctx) absorb(in batchIn, out *batchOut) {
	r := c.r
	if in.Family == "enum" {
		c.observeRate(out.Evals, out.WallSec)
	}
	c.mu.Lock()
	c.evals += out.Evals
	c.cases += out.Cases
	c.rejected += out.Rejected
	for k, v := range out.ByLang {
		c.byLang[k] += v
	}
	for k, v := range out.ByLoaderFS {
		c.byLoader[k] += v
	}
	for k, v := range out.ByOp {
		c.byOp[k] += v
	}
	if c.canon == "" {
		c.canon = out.Canon0
	}
	canon := c.canon
	base := c.nontrivSeq
	c.nontrivSeq += out.Rejected
	c.mu.Unlock()
	for i := int64(0); i < out.Rejected; i++ {
		r.Case(fmt.Sprintf("n%d", base+i), true)
	}
	r.AddEvaluations(out.Evals - out.Rejected)
	r.AddTraces(out.Evals)
	for _, s := range out.Samples {
		c.mu.Lock()
		c.sampled[in.Family]++
		ok := c.sampled[in.Family] <= 2
		c.mu.Unlock()
		if ok {
			r.Sample(s)
		}
	}
	for _, d := range out.Drift {
		r.Drift("%s", d)
	}
	if out.Canon0 != canon {
		r.Infra("batch %s: canonical digest of a fresh process differs between children (%s vs %s)", in.ID, out.Canon0, canon)
	}
	if out.Hung == nil && out.Canon1 != out.Canon0 {
		c.report("unusable", map[string]interface{}{"family": in.Family, "batch": in.ID},
			fmt.Sprintf("after the inputs of batch %s the process no longer produces the canonical outputs (digest %s, expected %s)", in.ID, out.Canon1, out.Canon0),
			map[string]interface{}{"batch": in.ID})
	}
	for _, d := range out.CanonAfterPanic {
		if d != out.Canon0 {
			c.report("unusable", map[string]interface{}{"family": in.Family, "batch": in.ID, "after": "panic"},
				fmt.Sprintf("after a recovered panic in batch %s the process no longer produces the canonical outputs", in.ID), map[string]interface{}{"batch": in.ID})
		}
	}
	// recovered panics: one solo confirmation per (site, message), the rest are duplicates of it
	seen := map[string]bool{}
	for _, f := range out.Findings {
		k := f.Site + "|" + panicText(f.Text) + "|" + f.Key.Loader
		if seen[k] {
			continue
		}
		seen[k] = true
		je := journalEntry{CaseID: f.CaseID, Family: f.Family, Lang: f.Lang, Key: f.Key, Input: f.Input, Extra: f.Extra}
		if !c.examine(je, "panic-message") {
			// the batch saw it, the solo run did not: still real-code behaviour
			key, detail := describe(je)
			key["site"], key["message"] = f.Site, panicText(f.Text)
			detail["diagnostic"] = f.Text
			detail["note"] = "seen inside a batch; a solo run of the same input did not reproduce it"
			c.report("panic-message", key, fmt.Sprintf("esbuild reports a recovered panic / internal error: %s at %s; input: %q", panicText(f.Text), f.Site, trim(string(f.Input), 200)), detail)
		}
	}
	for _, je := range out.SlowOnes {
		if out.Hung != nil && (in.Family == "opts" || in.Family == "cfgpat") {
			// tiny well-formed inputs: the evaluation the batch was abandoned for is examined (by the caller); the
			// other workers that were stuck at that moment would each cost another solo run of minutes
			break
		}
		c.examine(je, "slow")
	}
}

// ---------------------------------------------------------------------------
// the three families

func isEnumHeader(raw []byte) bool { return bytes.Contains(raw, []byte(`"alphabets":`)) }

func (c *ctx) enumTLC() (*enumHeader, []stem) {
	r := c.r
	cfg := "Tokens.quick.cfg"
	if r.Thorough() {
		cfg = "Tokens.thorough.cfg"
	}
	var hdr *enumHeader
	var stems []stem
	res := c.tlc(tlcrun.Options{Module: "TokensMC", Config: cfg, Workers: 2, TimeoutSec: 1500, OnCase: func(raw []byte) {
		if isEnumHeader(raw) {
			var h enumHeader
			if json.Unmarshal(raw, &h) == nil && len(h.Plan) > 0 {
				hdr = &h
				return
			}
		}
		var s stem
		if json.Unmarshal(raw, &s) == nil && s.P > 0 {
			stems = append(stems, s)
		}
	}})
	if res == nil || hdr == nil || len(stems) == 0 {
		r.Infra("Tokens: no header/stems exported")
		return nil, nil
	}
	return hdr, stems
}

func (c *ctx) enumFamily(wg *sync.WaitGroup, hdr *enumHeader, stems []stem) {
	r := c.r
	sort.Slice(stems, func(i, j int) bool {
		a, b := stems[i], stems[j]
		if a.P != b.P {
			return a.P < b.P
		}
		if a.F != b.F {
			return a.F < b.F
		}
		if a.S != b.S {
			return a.S < b.S
		}
		return fmt.Sprint(a.T) < fmt.Sprint(b.T)
	})
	// how many strings does a stem denote
	count := func(st stem) int64 {
		e := hdr.Plan[st.P-1]
		if len(st.T) < e.Len-e.Tail {
			return 1
		}
		n, tot, pw := int64(len(hdr.Alphabets[e.Lang])), int64(1), int64(1)
		for k := 0; k < e.Tail; k++ {
			pw *= n
			tot += pw
		}
		return tot
	}
	// closed form of what the plan denotes, to compare with what is run
	var expect int64
	langs := map[string]int{}
	for _, e := range hdr.Plan {
		n, tot, pw := int64(len(hdr.Alphabets[e.Lang])), int64(1), int64(1)
		for k := 0; k < e.Len; k++ {
			pw *= n
			tot += pw
		}
		expect += tot * int64(len(e.Frames)) * int64(len(e.Seps))
		langs[e.Lang] = len(hdr.Alphabets[e.Lang])
	}
	var denoted int64
	for _, st := range stems {
		denoted += count(st)
	}
	if denoted != expect {
		r.Infra("Tokens: the exported stems denote %d strings, the plan %d", denoted, expect)
		return
	}
	r.Set("enum_strings", denoted)
	r.Set("enum_alphabet_sizes", langs)
	r.Set("enum_stems_from_tlc", len(stems))
	r.Logf("Tokens: %d stems denote %d strings", len(stems), denoted)
	// a seeded shuffle, so that every batch holds a mix of all plan entries (a run that is cut short by the
	// time budget then still covers every language)
	rnd := rand.New(rand.NewSource(r.Seed*17 + 3))
	rnd.Shuffle(len(stems), func(i, j int) { stems[i], stems[j] = stems[j], stems[i] })
	// framed strings and the small languages (they reach the deeper grammar states) are dispatched first
	prio := func(st stem) int {
		e := hdr.Plan[st.P-1]
		if e.Lang == "cfg" || e.Lang == "smap" || e.Lang == "json" || !(len(e.Frames) == 1 && e.Frames[0] == 1) {
			return 0
		}
		return 1
	}
	sort.SliceStable(stems, func(i, j int) bool { return prio(stems[i]) < prio(stems[j]) })
	per := int64(r.Pick(6000, 60000))
	var cur []stem
	var curN int64
	bi := 0
	flush := func() {
		if len(cur) == 0 {
			return
		}
		in := batchIn{Family: "enum", ID: fmt.Sprintf("e%d", bi), Header: hdr, Stems: cur, BundleEvery: r.Pick(257, 64)}
		bi++
		cur, curN = nil, 0
		c.submit(wg, in)
	}
	for _, st := range stems {
		cur = append(cur, st)
		curN += count(st)
		// the first two batches are small: their throughput calibrates the budget early
		if curN >= per || bi < 2 && curN >= 1500 {
			flush()
		}
	}
	flush()
}

// cross-check of the tail expansion: the first three plan entries are the same strings enumerated with
// tail 0, 1 and 2 (TokensMC!Cross)
func (c *ctx) crossCheck(hdr *enumHeader, stems []stem) {
	r := c.r
	sets := map[int]map[string]bool{}
	for _, st := range stems {
		if st.P > 3 {
			continue
		}
		e := hdr.Plan[st.P-1]
		if sets[st.P] == nil {
			sets[st.P] = map[string]bool{}
		}
		expand(st, e, len(hdr.Alphabets[e.Lang]), func(toks []int) { sets[st.P][fmt.Sprintf("%d|%s|%v", st.F, st.S, toks)] = true })
	}
	if len(hdr.Plan) < 3 || hdr.Plan[0].Tail != 0 || hdr.Plan[1].Tail != 1 || hdr.Plan[2].Tail != 2 || len(sets[1]) == 0 {
		r.Infra("Tokens cross-check: the plan does not start with the three cross entries")
		return
	}
	for p := 2; p <= 3; p++ {
		if len(sets[p]) != len(sets[1]) {
			r.Infra("Tokens cross-check: tail %d expands to %d strings, TLC's own enumeration has %d", hdr.Plan[p-1].Tail, len(sets[p]), len(sets[1]))
			return
		}
		for k := range sets[1] {
			if !sets[p][k] {
				r.Infra("Tokens cross-check: string %s is missing from the tail-%d expansion", k, hdr.Plan[p-1].Tail)
				return
			}
		}
	}
	r.Set("enum_tail_expansion_cross_checked_strings", len(sets[1]))
}

// the simulation statistics of TLC ("The number of states generated: N") are not parsed by tlcrun
var reSimStates = regexp.MustCompile(`The number of states generated: (\d+)`)

func (c *ctx) mutTLC() ([]seed, []mutScript) {
	r := c.r
	seeds, perFile, err := extractSeeds(r.Repo)
	if err != nil || len(seeds) < 100 {
		r.Infra("seed extraction from %s: %d seeds, %v", r.Repo, len(seeds), err)
		return nil, nil
	}
	if r.Thorough() {
		seeds = append(seeds, c.grammarSeeds()...)
	}
	lens := map[int]int{}
	var kept []seed
	for _, s := range seeds {
		n := len(tokenise(s.Text))
		if n >= 1 && n <= maxSeedTokens {
			lens[n]++
			kept = append(kept, s)
		}
	}
	seeds = kept
	var ls []string
	for n := range lens {
		ls = append(ls, fmt.Sprint(n))
	}
	sort.Slice(ls, func(i, j int) bool { return len(ls[i]) < len(ls[j]) || len(ls[i]) == len(ls[j]) && ls[i] < ls[j] })
	r.Set("seeds", len(seeds))
	r.Set("seeds_per_test_file", perFile)
	r.Logf("mutation: %d seeds, %d distinct token lengths", len(seeds), len(lens))
	cfgText := fmt.Sprintf("SPECIFICATION Spec\nCONSTANTS\n  SeedLens = {%s}\n  MaxDepth = 6\n  MaxTokens = 400\n  NTok = 40\n  NNest = %d\n  NestDepths = {%s}\n  NCorrupt = %d\n  Sample = TRUE\nINVARIANTS TypeOK WellFormed Export\nPROPERTIES ScriptGrows\nCHECK_DEADLOCK FALSE\n",
		strings.Join(ls, ", "), 16, []string{"1, 4, 32", "1, 8, 64, 256"}[r.Pick(0, 1)], len(corruptions))
	nJVM := r.Pick(1, 4)
	walks := r.Pick(100, 350)
	var smu sync.Mutex
	seen := map[string]bool{}
	type keyed struct {
		k string
		s mutScript
	}
	var scripts []keyed
	var swg sync.WaitGroup
	for j := 0; j < nJVM; j++ {
		swg.Add(1)
		go func(j int) {
			defer swg.Done()
			res := c.tlc(tlcrun.Options{Module: "TokensMut", Config: "TokensMut.run.cfg", Files: map[string]string{"TokensMut.run.cfg": cfgText}, Workers: 1, TimeoutSec: 1800,
				Simulate: fmt.Sprintf("num=%d", walks), Depth: 7, Seed: r.Seed*1000 + int64(j) + 1, OnCase: func(raw []byte) {
					var s mutScript
					if json.Unmarshal(raw, &s) != nil || len(s.Script) == 0 {
						return
					}
					smu.Lock()
					if k := string(raw); !seen[k] {
						seen[k] = true
						scripts = append(scripts, keyed{k, s})
					}
					smu.Unlock()
				}})
			if res != nil {
				if m := reSimStates.FindStringSubmatch(res.Output); m != nil {
					var n int64
					fmt.Sscan(m[1], &n)
					r.AddStates(n, n)
					r.Inc("tlc_simulation_states_checked", n)
				}
			}
		}(j)
	}
	swg.Wait()
	if len(scripts) == 0 {
		r.Infra("TokensMut: no scripts")
		return nil, nil
	}
	sort.Slice(scripts, func(i, j int) bool { return scripts[i].k < scripts[j].k })
	rnd := rand.New(rand.NewSource(r.Seed*31 + 7))
	rnd.Shuffle(len(scripts), func(i, j int) { scripts[i], scripts[j] = scripts[j], scripts[i] })
	out := make([]mutScript, len(scripts))
	for i, k := range scripts {
		out[i] = k.s
	}
	r.Set("mutation_scripts", len(out))
	r.Logf("TokensMut: %d distinct scripts", len(out))
	return seeds, out
}

// grammarSeeds: programs exported by another specification (JsGrammar.tla of C13: terminal strings of
// its sub-grammars) as further seeds (thorough tier)
func (c *ctx) grammarSeeds() []seed {
	r := c.r
	var mu sync.Mutex
	var out []seed
	var wg sync.WaitGroup
	for _, g := range []string{"cover", "class", "regexdiv", "asi"} {
		wg.Add(1)
		go func(g string) {
			defer wg.Done()
			var local []seed
			res, err := tlcrun.Run(r, tlcrun.Options{Module: "JsGrammar", Config: "JsGrammar." + g + ".quick.cfg", Workers: 2, TimeoutSec: 900, HeapGB: 4, OnCase: func(raw []byte) {
				var gc struct {
					Toks []string `json:"toks"`
				}
				if json.Unmarshal(raw, &gc) != nil || len(gc.Toks) == 0 {
					return
				}
				var sb strings.Builder
				for i, t := range gc.Toks {
					if t == "<NL>" {
						sb.WriteString("\n")
						continue
					}
					if i > 0 && gc.Toks[i-1] != "<NL>" {
						sb.WriteString(" ")
					}
					sb.WriteString(t)
				}
				local = append(local, seed{Lang: "js", Text: sb.String(), From: "spec/JsGrammar.tla:" + g})
			}})
			if err != nil || res == nil || res.Violated != "" {
				r.Logf("JsGrammar/%s not usable as a seed source: %v", g, err)
				return
			}
			// a seeded sample of at most 4000 strings per grammar
			sort.Slice(local, func(i, j int) bool { return local[i].Text < local[j].Text })
			rnd := rand.New(rand.NewSource(r.Seed*131 + int64(len(g))))
			rnd.Shuffle(len(local), func(i, j int) { local[i], local[j] = local[j], local[i] })
			if len(local) > 4000 {
				local = local[:4000]
			}
			mu.Lock()
			out = append(out, local...)
			mu.Unlock()
		}(g)
	}
	wg.Wait()
	sort.Slice(out, func(i, j int) bool { return out[i].From+out[i].Text < out[j].From+out[j].Text })
	r.Set("seeds_from_other_specs", len(out))
	return out
}

func (c *ctx) mutDispatch(wg *sync.WaitGroup, seeds []seed, scripts []mutScript, alphabets map[string][]string, kinds []nestKind) {
	r := c.r
	per := r.Pick(1500, 20000)
	for lo, bi := 0, 0; lo < len(scripts); lo, bi = lo+per, bi+1 {
		hi := min(lo+per, len(scripts))
		in := batchIn{Family: "mut", ID: fmt.Sprintf("m%d", bi), Seeds: seeds, Scripts: scripts[lo:hi], PerScript: r.Pick(2, 3), Alphabets: alphabets, Kinds: kinds,
			MaxBytes: maxInputBytes, BundleEvery: r.Pick(129, 32)}
		c.submit(wg, in)
	}
}

func smallCfg(r *core.Run) string {
	if r.Thorough() {
		return "TokensMut.small.cfg"
	}
	return "TokensMut.tiny.cfg"
}

func (c *ctx) nestFamily(wg *sync.WaitGroup) []nestKind {
	r := c.r
	var hdr nestHeader
	var cases []nestCase
	cfg := "TokensNest.quick.cfg"
	if r.Thorough() {
		cfg = "TokensNest.thorough.cfg"
	}
	c.tlc(tlcrun.Options{Module: "TokensNest", Config: cfg, Workers: 1, TimeoutSec: 600, OnCase: func(raw []byte) {
		if strings.Contains(string(raw[:min(len(raw), 60)]), `"kinds"`) || strings.Contains(string(raw), `"maxbytes"`) {
			json.Unmarshal(raw, &hdr)
			return
		}
		var nc nestCase
		if json.Unmarshal(raw, &nc) == nil && nc.K > 0 {
			cases = append(cases, nc)
		}
	}})
	if len(hdr.Kinds) == 0 || len(cases) == 0 {
		r.Infra("TokensNest: nothing exported")
		return nil
	}
	sort.Slice(cases, func(i, j int) bool {
		a, b := cases[i], cases[j]
		if a.K != b.K {
			return a.K < b.K
		}
		if a.D != b.D {
			return a.D < b.D
		}
		return a.M < b.M
	})
	r.Set("nest_cases_from_tlc", len(cases))
	var shallow []nestCase
	deep := 0
	for _, nc := range cases {
		k := hdr.Kinds[nc.K-1]
		if nc.D < 2000 {
			shallow = append(shallow, nc)
			continue
		}
		// the deepest cases are run alone, CPU-measured; quick: the balanced form only, of a seeded third of
		// the kinds (the kind a=> always)
		if !r.Thorough() && (nc.M != "balanced" || !(k.Open == "a=>" && nc.D >= 5000 || (int64(nc.K)+r.Seed)%3 == 0 && !(k.Binds && nc.D < 5000))) {
			continue
		}
		text := renderNest(k, nc)
		if len(text) != nc.Size {
			r.Drift("TokensNest: size of %v is %d in the model, %d rendered", nc, nc.Size, len(text))
			continue
		}
		ls := loadersFor(k.Lang)
		// plain and (thorough) minify only: the lowering flag sets are exercised at depths <= 1000 in the batches;
		// at depth 2500 lowering CSS nesting costs seconds to tens of seconds (see known_findings.jsonl)
		keys := []evalKey{{Loader: ls[0], FS: fsPlain, Mode: "transform"}}
		if r.Thorough() {
			keys = append(keys, evalKey{Loader: ls[len(ls)-1], FS: fsMinify, Mode: "transform"})
		}
		for _, key := range keys {
			deep++
			je := journalEntry{CaseID: fmt.Sprintf("nest:%d:%d:%s", nc.K, nc.D, nc.M), Family: "nest", Lang: k.Lang, Key: key, Input: []byte(text),
				Extra: map[string]interface{}{"open": k.Open, "inner": k.Inner, "close": k.Close, "depth": nc.D, "mode": nc.M, "binds": k.Binds}}
			wg.Add(1)
			go func() {
				defer wg.Done()
				// one slot at a time, and the budget is looked at when the slot is free
				c.deepSem <- struct{}{}
				defer func() { <-c.deepSem }()
				if c.expired() {
					atomic.AddInt64(&c.deepSkipped, 1)
					return
				}
				c.examine(je, "deep")
				c.mu.Lock()
				c.evals++
				c.byLang["nest-deep"]++
				c.mu.Unlock()
				c.r.Case("deep:"+je.CaseID+":"+fmt.Sprint(je.Key), true)
				c.r.AddTraces(1)
			}()
		}
	}
	r.Set("nest_deep_solo_runs", deep)
	// interleave the cases so that every batch holds every depth
	nb := r.Pick(6, 12)
	parts := make([][]nestCase, nb)
	for i, nc := range shallow {
		parts[i%nb] = append(parts[i%nb], nc)
	}
	for i, p := range parts {
		c.submit(wg, batchIn{Family: "nest", ID: fmt.Sprintf("n%d", i), Kinds: hdr.Kinds, NestCases: p})
	}
	return hdr.Kinds
}

// ---------------------------------------------------------------------------

func Run(r *core.Run) {
	c := &ctx{r: r, childSem: make(chan struct{}, 2), soloSem: make(chan struct{}, 3), deepSem: make(chan struct{}, 2), tlcSem: make(chan struct{}, 4),
		byLang: map[string]int64{}, byLoader: map[string]int64{}, byOp: map[string]int64{}, reported: map[string]bool{}, skippedBatches: map[string]int64{},
		queue: map[string][]batchIn{}, dispatched: map[string]int{}, sampled: map[string]int{}}
	c.qcond = sync.NewCond(&sync.Mutex{})
	c.fastTmp = r.Scratch
	if d, err := os.MkdirTemp("/dev/shm", "verif-C16-"); err == nil {
		c.fastTmp = d
		defer os.RemoveAll(d)
	}
	c.budgetSec, c.stretch, c.maxStretch = float64(r.Pick(80, 17*60)), 1, float64(r.Pick(12, 2))
	if b := os.Getenv("C16_BUDGET_SEC"); b != "" {
		fmt.Sscan(b, &c.budgetSec)
	}
	// the bulk of this check is exploration (enumerated and scripted inputs, no coverage feedback); only the
	// fault model of part (i) is model checking proper.  The weaker level is claimed for the whole.
	r.Level = "exploration"
	if r.Replay != "" {
		replay(c)
		return
	}
	r.Set("rule", "inputs: (a) every string of <= 3 (thorough 4) tokens of ten alphabets (spec/TokensAlphabet.tla) in the frames/separators of the plan, enumerated by TLC (Tokens.tla; the last `tail` levels of the product are expanded by the harness and cross-checked); (b) TLC-simulated mutation scripts (TokensMut.tla, depth <= 6) applied to the inputs of the repository's own parser/printer/lexer/bundler tests; (c) nesting kinds x depths x closing modes (TokensNest.tla); (d) fault placements of ScanFaults.tla replayed into real builds. One evaluation = one (input, loader, flag set) through api.Transform / api.Build in a child process. A case is non-trivial iff esbuild REJECTS the input (>= 1 error diagnostic) for at least one loader under the plain flag sets, i.e. error reporting/recovery ran (the sandbox has no reference parser for TS/JSX/CSS; the rule of DESIGN.md A.6 is applied with esbuild's own verdict); distinct = distinct (plan entry, frame, separator, token tuple) / (script, seed) / (kind, depth, mode) / fault placement")
	r.Assume("time bound: 'terminates within seconds for inputs of tens of kilobytes' is read generously as: one (input <= 40000 bytes, loader, flag set) uses <= 30 s of CPU time in a single-threaded process of its own (GOMAXPROCS=1, CPU time read by the parent from /proc: on an idle machine such a process needs about as much CPU time as wall-clock time, and under load CPU time is inflated far less than wall-clock time); a deadlock is 'no CPU progress for 90 s'")
	r.Assume("inputs inside a batch child are only screened (diagnostic texts, a 20 s wall-clock monitor, the journal of inputs in progress); every verdict about time or a crash comes from re-running the single (input, loader, flag set) alone in a fresh process")
	r.Assume("no coverage feedback: enumeration and scripted mutation only (DESIGN.md section 6)")
	r.Assume("the dispatch budget (80 s quick, 17 min thorough after the first dispatch) is stretched by the measured slowness of the batch children relative to 2500 evaluations/s per child (at most x12 quick, x2 thorough); batches not dispatched within it are counted, not evaluated")
	c.pool(r.Pick(6, 8))
	var wg sync.WaitGroup
	wg.Add(1)
	go func() { defer wg.Done(); faults(c) }()
	var hdr *enumHeader
	var stems []stem
	var seeds []seed
	var scripts []mutScript
	var pre, preMut sync.WaitGroup
	pre.Add(1)
	preMut.Add(1)
	go func() { defer preMut.Done(); seeds, scripts = c.mutTLC() }()
	go func() { defer pre.Done(); hdr, stems = c.enumTLC() }()
	wg.Add(2)
	go func() { defer wg.Done(); c.optsFamilyRun(&wg) }()
	go func() { defer wg.Done(); c.cfgFamilyRun(&wg) }()
	kinds := c.nestFamily(&wg)
	pre.Wait()
	if hdr != nil {
		c.crossCheck(hdr, stems)
		wg.Add(1)
		go func() { defer wg.Done(); c.enumFamily(&wg, hdr, stems) }()
	}
	preMut.Wait()
	if hdr != nil && kinds != nil && scripts != nil {
		c.mutDispatch(&wg, seeds, scripts, hdr.Alphabets, kinds)
	}
	// the exhaustive check of the mutation machine for small constants
	wg.Add(1)
	go func() {
		defer wg.Done()
		c.tlc(tlcrun.Options{Module: "TokensMut", Config: smallCfg(r), Workers: 2, TimeoutSec: 1800})
	}()
	wg.Wait()
	c.qcond.L.Lock()
	c.qclosed = true
	c.qcond.L.Unlock()
	c.qcond.Broadcast()

	r.Set("dispatch_budget_sec_nominal", c.budgetSec)
	r.Set("dispatch_budget_stretch_measured", c.stretch)
	r.Logf("budget %.0f s x stretch %.1f", c.budgetSec, c.stretch)
	r.Set("batches_skipped_when_the_time_budget_ran_out", c.skippedBatches)
	r.Set("deep_solo_runs_skipped_when_the_time_budget_ran_out", c.deepSkipped)
	r.Set("cases", c.cases)
	r.Set("cases_rejected_by_esbuild", c.rejected)
	r.Set("evaluations_by_language", c.byLang)
	r.Set("evaluations_by_loader_flags_mode", c.byLoader)
	r.Set("mutated_inputs_by_last_operation", c.byOp)
	r.Set("solo_runs", c.soloRuns)
	r.Set("cpu_limit_sec", cpuLimitSec)
	r.Logf("cases=%d evaluations=%d rejected=%d solo=%d", c.cases, c.evals, c.rejected, c.soloRuns)
}
