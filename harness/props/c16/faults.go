package c16

// Part (i): the fault placements that TLC enumerates for spec/ScanFaults.tla are
// replayed into real builds.  One context per placement: build 1 with the
// fault (a `verif` fault gate that panics inside parseFile / a per-file printer /
// a chunk generator, a plugin callback that fails, or ctx.Cancel() at the poll
// point the model names), then build 2 on the same context without faults.
// Required (= what TLC checked on the model): build 1 returns, its messages are
// exactly those the model predicts (a recovered panic is a message), no
// goroutine of the build is left behind, build 2 equals a fresh fault-free build.

import (
	"crypto/sha1"
	"encoding/base64"
	"encoding/hex"
	"encoding/json"
	"errors"
	"fmt"
	"os"
	"path/filepath"
	"regexp"
	"runtime"
	"sort"
	"strings"
	"sync"
	"sync/atomic"
	"time"

	"github.com/evanw/esbuild/pkg/api"

	"verifharness/core"
	"verifharness/tlcrun"
)

type fGraph struct {
	Name     string              `json:"name"`
	Modules  []string            `json:"modules"`
	Imports  map[string][]string `json:"imports"`
	Entries  []string            `json:"entries"`
	Injected []string            `json:"injected"`
}

type fMsg struct {
	Kind string `json:"kind"`
	At   string `json:"at"`
}

type fCase struct {
	Graph   string `json:"graph"`
	Hashed  bool   `json:"hashed"`
	Smap    string `json:"smap"` // source map mode of the context: "off" | "plain" | "nested" | "nested-exclude" (ScanFaults!SmapModes)
	Fault   fMsg   `json:"fault"`
	Msgs    []fMsg `json:"msgs"`
	Crashed bool   `json:"crashed"`
}

func (c fCase) id() string {
	if c.Smap != "" && c.Smap != "off" {
		return fmt.Sprintf("%s/hashed=%v/smap=%s/%s@%s", c.Graph, c.Hashed, c.Smap, c.Fault.Kind, c.Fault.At)
	}
	return fmt.Sprintf("%s/hashed=%v/%s@%s", c.Graph, c.Hashed, c.Fault.Kind, c.Fault.At)
}

type faultIn struct {
	Graphs   []fGraph `json:"graphs"`
	Cases    []fCase  `json:"cases"`
	Progress string   `json:"progress"` // file that holds the index of the case in progress
	Dir      string   `json:"dir"`
}

type fOutcome struct {
	Case      fCase    `json:"case"`
	Returned  bool     `json:"returned"`
	Observed  []fMsg   `json:"observed"`
	Texts     []string `json:"texts"`
	Problem   string   `json:"problem"` // "" = as the model predicts
	Detail    string   `json:"detail"`
	Leaked    []string `json:"leaked"`
	Build2OK  bool     `json:"build2_ok"`
	FaultHits int64    `json:"fault_hits"`
	WallSec   float64  `json:"wall_sec"`
}

type faultOut struct {
	Outcomes []fOutcome `json:"outcomes"`
	Hung     int        `json:"hung"` // index of the case that did not return (-1: none)
}

func (g fGraph) files(smap string) map[string]string {
	files := map[string]string{}
	for _, m := range g.Modules {
		var sb strings.Builder
		for k, imp := range g.Imports[m] {
			fmt.Fprintf(&sb, "import {v as v%d} from './%s.js'\n", k, imp)
		}
		fmt.Fprintf(&sb, "const shared = '%s'\nexport function v() { return [shared", m)
		for k := range g.Imports[m] {
			fmt.Fprintf(&sb, ", typeof v%d", k)
		}
		fmt.Fprintf(&sb, "] }\nconsole.log(v().length)\n")
		if smap == "nested" || smap == "nested-exclude" {
			// every module carries an input source map (the "nested" paths of the source-map workers)
			m := fmt.Sprintf(`{"version":3,"sources":["%s.orig.ts"],"sourcesContent":["export function v() {}\n"],"names":[],"mappings":"AAAA;AACA"}`, m)
			fmt.Fprintf(&sb, "//# sourceMappingURL=data:application/json;base64,%s\n", base64.StdEncoding.EncodeToString([]byte(m)))
		}
		files[m+".js"] = sb.String()
	}
	return files
}

// the state of the injected fault of the running case (one case at a time per process)
type faultState struct {
	mu       sync.Mutex
	armed    atomic.Bool
	fault    fMsg
	dir      string
	hits     atomic.Int64
	recvs    int
	ctx      api.BuildContext
	flagSet  chan struct{}
	canceled atomic.Bool
	cancelWG sync.WaitGroup
}

var fst faultState

func modOf(key string) string { return strings.TrimSuffix(filepath.Base(key), ".js") }

func (s *faultState) cancelNow() {
	if s.canceled.Swap(true) {
		return
	}
	s.cancelWG.Add(1)
	go func() { defer s.cancelWG.Done(); s.ctx.Cancel() }()
	select {
	case <-s.flagSet:
	case <-time.After(60 * time.Second):
	}
}

func (s *faultState) gate(name, key string) string {
	if !s.armed.Load() {
		return ""
	}
	f := s.fault
	inDir := strings.HasPrefix(key, s.dir+string(filepath.Separator))
	switch name {
	case "scan.panic":
		if f.Kind == "parse-panic" && inDir && modOf(key) == f.At {
			s.hits.Add(1)
			return "panic"
		}
	case "link.print.panic":
		if f.Kind == "print-panic" && inDir && modOf(key) == f.At {
			s.hits.Add(1)
			return "panic"
		}
	case "link.chunk.panic":
		if f.Kind == "chunk-panic" && inDir && modOf(key) == f.At {
			s.hits.Add(1)
			return "panic"
		}
		if f.Kind == "cancel" && f.At == "link" && inDir {
			s.hits.Add(1)
			s.cancelNow()
		}
	case "link.chunk.panic.late":
		if f.Kind == "chunk-panic-late" && inDir && modOf(key) == f.At {
			s.hits.Add(1)
			return "panic"
		}
	case "build.begin":
		if f.Kind == "cancel" && f.At == "0" {
			s.hits.Add(1)
			s.cancelNow()
		}
	}
	return ""
}

func (s *faultState) sink(ev string, gid int64, kv []interface{}) {
	if ev == "cancel.flag" {
		select {
		case s.flagSet <- struct{}{}:
		default:
		}
		return
	}
	if !s.armed.Load() || ev != "scan.recv" || s.fault.Kind != "cancel" {
		return
	}
	for i := 0; i+1 < len(kv); i += 2 {
		if kv[i] == "cwd" && kv[i+1] != s.dir {
			return
		}
	}
	s.mu.Lock()
	s.recvs++
	n := s.recvs
	s.mu.Unlock()
	if s.fault.At != "0" && s.fault.At != "link" && fmt.Sprint(n) == s.fault.At {
		s.hits.Add(1)
		s.cancelNow()
	}
}

func faultPlugin() api.Plugin {
	return api.Plugin{Name: "faults", Setup: func(b api.PluginBuild) {
		b.OnStart(func() (api.OnStartResult, error) {
			if fst.armed.Load() && fst.fault.Kind == "start-error" {
				fst.hits.Add(1)
				return api.OnStartResult{}, errors.New("injected start error")
			}
			return api.OnStartResult{}, nil
		})
		b.OnLoad(api.OnLoadOptions{Filter: `\.js$`}, func(a api.OnLoadArgs) (api.OnLoadResult, error) {
			if fst.armed.Load() && fst.fault.Kind == "load-error" && modOf(a.Path) == fst.fault.At {
				fst.hits.Add(1)
				return api.OnLoadResult{}, fmt.Errorf("injected load error %s", fst.fault.At)
			}
			return api.OnLoadResult{}, nil
		})
	}}
}

func faultOpts(dir string, g fGraph, hashed bool, smap string) api.BuildOptions {
	o := api.BuildOptions{AbsWorkingDir: dir, Bundle: true, Outdir: "out", Write: false, LogLevel: api.LogLevelSilent, Format: api.FormatESModule,
		Plugins: []api.Plugin{faultPlugin()}, EntryNames: "[name]"}
	if hashed {
		o.EntryNames = "[name]-[hash]"
	}
	if smap != "" && smap != "off" {
		o.Sourcemap = api.SourceMapLinked
		if smap == "nested-exclude" {
			o.SourcesContent = api.SourcesContentExclude
		}
	}
	for _, e := range g.Entries {
		o.EntryPoints = append(o.EntryPoints, e+".js")
	}
	for _, i := range g.Injected {
		o.Inject = append(o.Inject, i+".js")
	}
	return o
}

func resultDigest(dir string, res api.BuildResult) string {
	h := sha1.New()
	fmt.Fprintf(h, "%d|", len(res.Errors))
	for _, e := range res.Errors {
		fmt.Fprintf(h, "%s|", e.Text)
	}
	for _, f := range res.OutputFiles {
		rel, _ := filepath.Rel(dir, f.Path)
		fmt.Fprintf(h, "%s:%s|", rel, strings.ReplaceAll(string(f.Contents), dir, "<dir>"))
	}
	return hex.EncodeToString(h.Sum(nil)[:10])
}

var reInjected = regexp.MustCompile(`^panic: verif: injected fault at (\S+) (\S+)`)

func classify(dir string, msgs []api.Message) ([]fMsg, []string) {
	var out []fMsg
	var texts []string
	seen := map[fMsg]bool{}
	add := func(m fMsg) {
		if !seen[m] {
			seen[m] = true
			out = append(out, m)
		}
	}
	for _, m := range msgs {
		texts = append(texts, m.Text)
		switch {
		case reInjected.MatchString(m.Text):
			sm := reInjected.FindStringSubmatch(m.Text)
			kind := map[string]string{"scan.panic": "panic-parse", "link.print.panic": "panic-print", "link.chunk.panic": "panic-chunk", "link.chunk.panic.late": "panic-chunk"}[sm[1]]
			add(fMsg{kind, modOf(sm[2])})
		case m.Text == "The build was canceled":
			add(fMsg{"error", "canceled"})
		case strings.Contains(m.Text, "injected load error "):
			add(fMsg{"error-load", m.Text[strings.Index(m.Text, "injected load error ")+len("injected load error "):]})
		case strings.Contains(m.Text, "injected start error"):
			add(fMsg{"error-start", "-"})
		default:
			add(fMsg{"other", m.Text})
		}
	}
	sort.Slice(out, func(i, j int) bool { return out[i].Kind+out[i].At < out[j].Kind+out[j].At })
	return out, texts
}

func sameMsgs(a, b []fMsg) bool {
	if len(a) != len(b) {
		return false
	}
	x := map[fMsg]bool{}
	for _, m := range a {
		x[m] = true
	}
	for _, m := range b {
		if !x[m] {
			return false
		}
	}
	return true
}

// goroutines of esbuild's build pipeline that are still alive
func pipelineGoroutines() []string {
	buf := make([]byte, 1<<20)
	n := runtime.Stack(buf, true)
	var out []string
	for _, g := range strings.Split(string(buf[:n]), "\n\n") {
		if strings.Contains(g, "internal/bundler.") || strings.Contains(g, "internal/linker.") {
			lines := strings.Split(g, "\n")
			out = append(out, strings.Join(lines[:min(len(lines), 6)], " | "))
		}
	}
	return out
}

func runFaults(r *core.Run, in faultIn) (*faultOut, error) {
	out := &faultOut{Hung: -1}
	api.VerifSetGate(fst.gate)
	api.VerifSetSink(fst.sink)
	graphs := map[string]fGraph{}
	for _, g := range in.Graphs {
		graphs[g.Name] = g
	}
	canon := map[string]string{}
	for ci, cs := range in.Cases {
		os.WriteFile(in.Progress, []byte(fmt.Sprint(ci)), 0644)
		g, ok := graphs[cs.Graph]
		if !ok {
			return nil, fmt.Errorf("unknown graph %s", cs.Graph)
		}
		dir := filepath.Join(in.Dir, fmt.Sprintf("g-%s-%v-%s", g.Name, cs.Hashed, cs.Smap))
		ck := fmt.Sprintf("%s/%v/%s", g.Name, cs.Hashed, cs.Smap)
		if canon[ck] == "" {
			os.RemoveAll(dir)
			if err := core.WriteTree(dir, g.files(cs.Smap)); err != nil {
				return nil, err
			}
			fst.armed.Store(false)
			// the fault-free build of the graph is real-code behaviour too: it must return
			cdone := make(chan api.BuildResult, 1)
			go func() { cdone <- api.Build(faultOpts(dir, g, cs.Hashed, cs.Smap)) }()
			var res api.BuildResult
			select {
			case res = <-cdone:
			case <-time.After(90 * time.Second):
				oc := fOutcome{Case: cs, Problem: "hang"}
				oc.Case.Fault = fMsg{Kind: "none", At: "-"}
				oc.Detail = fmt.Sprintf("the fault-free build of graph %s (source map mode %q) did not return within 90 s; goroutines: %s", g.Name, cs.Smap, strings.Join(pipelineGoroutines(), " || "))
				out.Outcomes = append(out.Outcomes, oc)
				out.Hung = ci
				return out, nil
			}
			if len(res.Errors) > 0 {
				return nil, fmt.Errorf("canonical build of %s fails: %s", g.Name, res.Errors[0].Text)
			}
			canon[ck] = resultDigest(dir, res)
		}
		oc := fOutcome{Case: cs}
		t0 := time.Now()
		fst.fault, fst.dir, fst.recvs = cs.Fault, dir, 0
		fst.hits.Store(0)
		fst.canceled.Store(false)
		fst.flagSet = make(chan struct{}, 1)
		ctx, cerr := api.Context(faultOpts(dir, g, cs.Hashed, cs.Smap))
		if cerr != nil {
			return nil, fmt.Errorf("context: %v", cerr.Errors)
		}
		fst.ctx = ctx
		fst.armed.Store(true)
		done := make(chan api.BuildResult, 1)
		go func() { done <- ctx.Rebuild() }()
		var res1 api.BuildResult
		select {
		case res1 = <-done:
			oc.Returned = true
		case <-time.After(90 * time.Second):
			oc.Problem = "hang"
			oc.Detail = "build 1 did not return within 90 s; goroutines: " + strings.Join(pipelineGoroutines(), " || ")
			out.Outcomes = append(out.Outcomes, oc)
			out.Hung = ci
			return out, nil
		}
		fst.armed.Store(false)
		// ctx.Cancel() must return too
		cw := make(chan struct{})
		go func() { fst.cancelWG.Wait(); close(cw) }()
		select {
		case <-cw:
		case <-time.After(60 * time.Second):
			oc.Problem, oc.Detail = "hang", "ctx.Cancel() did not return within 60 s after the build had returned"
		}
		oc.FaultHits = fst.hits.Load()
		oc.Observed, oc.Texts = classify(dir, res1.Errors)
		for _, w := range res1.Warnings {
			if strings.HasPrefix(w.Text, "panic:") {
				oc.Texts = append(oc.Texts, "warning: "+w.Text)
			}
		}
		switch {
		case oc.Problem != "":
		case cs.Fault.Kind == "cancel":
			if !(len(oc.Observed) == 0 || sameMsgs(oc.Observed, []fMsg{{"error", "canceled"}})) {
				oc.Problem, oc.Detail = "messages", fmt.Sprintf("a cancelled build reports %v; the model allows no message or 'The build was canceled'", oc.Texts)
			}
		case !sameMsgs(oc.Observed, cs.Msgs):
			oc.Problem, oc.Detail = "messages", fmt.Sprintf("build 1 reports %v (%v); the model predicts %v", oc.Observed, oc.Texts, cs.Msgs)
		case len(cs.Msgs) > 0 && len(res1.OutputFiles) > 0:
			oc.Problem, oc.Detail = "messages", "build 1 has errors and output files"
		}
		// nothing of build 1 may be left running or blocked
		var left []string
		for k := 0; k < 40; k++ {
			if left = pipelineGoroutines(); len(left) == 0 {
				break
			}
			time.Sleep(50 * time.Millisecond)
		}
		if len(left) > 0 && oc.Problem == "" {
			oc.Problem, oc.Detail, oc.Leaked = "leak", fmt.Sprintf("%d goroutines of the build are still alive 2 s after it returned", len(left)), left
		}
		// build 2 on the same context
		go func() { done <- ctx.Rebuild() }()
		select {
		case res2 := <-done:
			oc.Build2OK = resultDigest(dir, res2) == canon[ck]
			if !oc.Build2OK && oc.Problem == "" {
				t, _ := classify(dir, res2.Errors)
				oc.Problem, oc.Detail = "unusable", fmt.Sprintf("the second build on the same context differs from a fresh build (errors %v, %d files)", t, len(res2.OutputFiles))
			}
		case <-time.After(180 * time.Second):
			if oc.Problem == "" {
				oc.Problem, oc.Detail = "unusable", "the second build on the same context did not return within 180 s"
			}
			out.Outcomes = append(out.Outcomes, oc)
			out.Hung = ci
			return out, nil
		}
		ctx.Dispose()
		oc.WallSec = time.Since(t0).Seconds()
		out.Outcomes = append(out.Outcomes, oc)
	}
	os.WriteFile(in.Progress, []byte("-1"), 0644)
	return out, nil
}

func init() {
	core.RegisterChild("c16.faults", func(r *core.Run, raw json.RawMessage) (interface{}, error) {
		var in faultIn
		if err := json.Unmarshal(raw, &in); err != nil {
			return nil, err
		}
		return runFaults(r, in)
	})
}

// ---------------------------------------------------------------------------
// parent side

func (c *ctx) faultViolation(oc fOutcome, graphs []fGraph, extra map[string]interface{}) {
	key := map[string]interface{}{"family": "fault", "graph": oc.Case.Graph, "hashed": oc.Case.Hashed, "smap": oc.Case.Smap, "fault": oc.Case.Fault.Kind, "at": oc.Case.Fault.At, "problem": oc.Problem}
	detail := map[string]interface{}{"fault": oc.Case, "graphs": graphs, "observed": oc.Observed, "texts": oc.Texts, "detail": oc.Detail, "leaked": oc.Leaked}
	for k, v := range extra {
		detail[k] = v
	}
	c.report("fault-"+oc.Problem, key, fmt.Sprintf("fault %s at %s in graph %s (hashed names: %v): %s", oc.Case.Fault.Kind, oc.Case.Fault.At, oc.Case.Graph, oc.Case.Hashed, oc.Detail), detail)
}

// runFaultCases replays cases in child processes; a case on which the child dies or hangs is isolated
func (c *ctx) runFaultCases(graphs []fGraph, cases []fCase, isolate bool) []fOutcome {
	r := c.r
	var all []fOutcome
	hangs := 0
	for len(cases) > 0 {
		n := atomic.AddInt64(&c.batchSeq, 1)
		in := faultIn{Graphs: graphs, Cases: cases, Progress: filepath.Join(r.Scratch, fmt.Sprintf("f%d.progress", n)), Dir: filepath.Join(c.fastTmp, fmt.Sprintf("f%d", n))}
		var out faultOut
		cr := r.Child("c16.faults", in, &out, 40*time.Minute, "", "TMPDIR="+r.Scratch)
		os.RemoveAll(in.Dir)
		if cr.Crashed || cr.TimedOut {
			var at int
			b, _ := os.ReadFile(in.Progress)
			if _, err := fmt.Sscan(string(b), &at); err != nil || at < 0 || at >= len(cases) {
				r.Infra("fault replay: the child died (%s) and the case in progress is unknown: %s", crashKind(cr.Stderr), trim(cr.Stderr, 600))
				return all
			}
			cs := cases[at]
			if !core.CrashInEsbuild(cr.Stderr) {
				r.Infra("fault replay: driver died outside esbuild on case %s: %s", cs.id(), trim(cr.Stderr, 600))
				return all
			}
			if isolate {
				// the crash was seen with this case alone in a fresh process
				oc := fOutcome{Case: cs, Problem: "crash", Detail: fmt.Sprintf("the process dies (%s in %s) instead of reporting the recovered panic", crashKind(cr.Stderr), crashFrame(cr.Stderr))}
				key := map[string]interface{}{"crash": crashKind(cr.Stderr), "frame": crashFrame(cr.Stderr)}
				_ = key
				c.faultViolation(oc, graphs, map[string]interface{}{"stderr": cr.Stderr, "crash": crashKind(cr.Stderr), "frame": crashFrame(cr.Stderr)})
				all = append(all, oc)
				return all
			}
			// reproduce it alone before saying anything
			one := c.runFaultCases(graphs, []fCase{cs}, true)
			all = append(all, one...)
			if len(one) == 0 || one[0].Problem != "crash" {
				r.Infra("fault replay: the child died on case %s but the case alone does not reproduce it: %s", cs.id(), trim(cr.Stderr, 600))
			}
			// the cases before it have to be repeated too (their outcomes were lost with the child)
			cases = append(append([]fCase(nil), cases[:at]...), cases[at+1:]...)
			continue
		}
		all = append(all, out.Outcomes...)
		if out.Hung >= 0 && out.Hung < len(cases) {
			hangs++
			if hangs >= 2 {
				// two placements hang: the verdict is in, the rest would only cost minutes each
				break
			}
			cases = cases[out.Hung+1:]
			continue
		}
		break
	}
	return all
}

func faults(c *ctx) {
	r := c.r
	if only := os.Getenv("C16_ONLY"); only != "" && !strings.Contains(only, "fault") {
		return
	}
	cfg := "ScanFaults.quick.cfg"
	if r.Thorough() {
		cfg = "ScanFaults.thorough.cfg"
	}
	var graphs []fGraph
	seen := map[string]bool{}
	var cases []fCase
	res := c.tlc(tlcrun.Options{Module: "ScanFaultsMC", Config: cfg, Workers: 4, TimeoutSec: 2400, OnCase: func(raw []byte) {
		if strings.HasPrefix(string(raw), `{"graphs"`) {
			var h struct {
				Graphs []fGraph `json:"graphs"`
			}
			if json.Unmarshal(raw, &h) == nil {
				graphs = h.Graphs
			}
			return
		}
		var cs fCase
		if json.Unmarshal(raw, &cs) == nil && cs.Graph != "" && !seen[string(raw)] {
			seen[string(raw)] = true
			cases = append(cases, cs)
		}
	}})
	if res == nil || len(graphs) == 0 || len(cases) == 0 {
		r.Infra("ScanFaults: nothing exported")
		return
	}
	// one placement may be exported with several outcomes (cancellation); replay each placement once
	sort.Slice(cases, func(i, j int) bool { return cases[i].id() < cases[j].id() })
	var uniq []fCase
	for _, cs := range cases {
		if len(uniq) == 0 || uniq[len(uniq)-1].id() != cs.id() {
			uniq = append(uniq, cs)
		}
	}
	r.Set("fault_placements_from_tlc", len(uniq))
	r.Logf("ScanFaults: %d fault placements", len(uniq))
	outs := c.runFaultCases(graphs, uniq, false)
	byKind := map[string]int{}
	bySmap := map[string]int{}
	hit := 0
	for i, oc := range outs {
		byKind[oc.Case.Fault.Kind]++
		bySmap[oc.Case.Smap]++
		r.Case("fault:"+oc.Case.id(), oc.Case.Fault.Kind != "none")
		r.AddTraces(1)
		if oc.FaultHits > 0 {
			hit++
		}
		if i%29 == 3 {
			r.Sample(map[string]interface{}{"family": "fault", "graph": oc.Case.Graph, "hashed_names": oc.Case.Hashed, "fault": oc.Case.Fault, "predicted": oc.Case.Msgs, "observed": oc.Observed, "second_build_canonical": oc.Build2OK})
		}
		if oc.Problem != "" && oc.Problem != "crash" {
			c.faultViolation(oc, graphs, nil)
		}
		// a fault that the model says is reached must really have been injected
		if oc.Problem == "" && oc.FaultHits == 0 && len(oc.Case.Msgs) > 0 && oc.Case.Fault.Kind != "cancel" {
			r.Infra("fault replay: placement %s was never reached in the real build although the model predicts %v", oc.Case.id(), oc.Case.Msgs)
		}
	}
	if len(outs) < len(uniq) {
		r.Set("fault_placements_not_replayed", len(uniq)-len(outs))
	}
	r.Set("fault_placements_replayed", len(outs))
	r.Set("fault_placements_by_kind", byKind)
	r.Set("fault_placements_by_source_map_mode", bySmap)
	r.Set("fault_placements_where_the_fault_was_injected", hit)
}

func replayFault(c *ctx, raw json.RawMessage) {
	var d struct {
		Fault  fCase    `json:"fault"`
		Graphs []fGraph `json:"graphs"`
	}
	data, _ := os.ReadFile(c.r.Replay)
	var rec struct {
		Detail json.RawMessage `json:"detail"`
	}
	json.Unmarshal(data, &rec)
	if json.Unmarshal(rec.Detail, &d) != nil || len(d.Graphs) == 0 {
		c.r.Infra("replay file has no fault case")
		return
	}
	for _, oc := range c.runFaultCases(d.Graphs, []fCase{d.Fault}, true) {
		c.r.Case("replay:"+oc.Case.id(), true)
		c.r.Case("replay2:"+oc.Case.id(), true)
		c.r.Sample(oc)
		if oc.Problem != "" && oc.Problem != "crash" {
			c.faultViolation(oc, d.Graphs, nil)
		}
	}
}
