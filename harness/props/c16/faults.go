package c16

import "encoding/json"

func faults(c *ctx) {}

func replayFault(c *ctx, raw json.RawMessage) {}
