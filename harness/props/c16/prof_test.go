package c16

import (
	"encoding/json"
	"fmt"
	"os"
	"runtime/pprof"
	"testing"
	"time"

	"verifharness/core"
)

func TestProfBatch(t *testing.T) {
	data, err := os.ReadFile(os.Getenv("C16_BATCH"))
	if err != nil {
		t.Skip()
	}
	var in batchIn
	json.Unmarshal(data, &in)
	in.Dir, in.Journal = "/tmp/c16probe/bd", "/tmp/c16probe/j"
	in.Stems = in.Stems[:min(len(in.Stems), 40)]
	r := core.NewRun("C16", []string{"--tier", "quick"})
	f, _ := os.Create("/tmp/c16probe/cpu.prof")
	pprof.StartCPUProfile(f)
	t0 := time.Now()
	out, err := runBatch(r, in)
	pprof.StopCPUProfile()
	fmt.Println(err, out.Cases, out.Evals, time.Since(t0), float64(time.Since(t0).Microseconds())/float64(out.Evals), "us/eval", out.ByLoaderFS)
}
