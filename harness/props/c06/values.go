package c06

import (
	"bytes"
	"encoding/json"
	"fmt"
	"math/big"
	"strings"
	"unicode/utf16"
)

// Val is a value of the JsFold algebra as exported by TLC (ToJson of the
// record [t, sg, m, s]): m = little-endian bits of the magnitude, s = UTF-16
// code units.
type Val struct {
	T  string `json:"t"`
	Sg int    `json:"sg"`
	M  []int  `json:"m"`
	S  []int  `json:"s"`
}

func (v Val) mag() *big.Int {
	n := new(big.Int)
	for i := len(v.M) - 1; i >= 0; i-- {
		n.Lsh(n, 1)
		if v.M[i] == 1 {
			n.SetBit(n, 0, 1)
		}
	}
	return n
}

func (v Val) str() string {
	u := make([]uint16, len(v.S))
	for i, c := range v.S {
		u[i] = uint16(c)
	}
	return string(utf16.Decode(u))
}

func quoteJS(s string) string {
	var buf bytes.Buffer
	enc := json.NewEncoder(&buf)
	enc.SetEscapeHTML(false)
	enc.Encode(s)
	return strings.TrimRight(buf.String(), "\n")
}

// Exact reports whether the value is defined by the spec (not Unk)
func (v Val) Exact() bool { return v.T != "unk" }

// JS renders the value as JavaScript source (an expression that can be an
// operand without further parentheses)
func (v Val) JS() string {
	switch v.T {
	case "undef":
		return "undefined"
	case "null":
		return "null"
	case "bool":
		if v.Sg == 1 {
			return "true"
		}
		return "false"
	case "int":
		if v.Sg < 0 {
			return "(-" + v.mag().String() + ")"
		}
		return v.mag().String()
	case "nzero":
		return "(-0)"
	case "nan":
		return "NaN"
	case "pinf":
		return "Infinity"
	case "ninf":
		return "(-Infinity)"
	case "str":
		return quoteJS(v.str())
	case "big":
		if v.Sg < 0 {
			return "(-" + v.mag().String() + "n)"
		}
		return v.mag().String() + "n"
	}
	panic("no JS source for value of type " + v.T)
}

// Ser is the canonical Object.is-precise serialisation; it must agree with
// ser() of node/run_probes.js
func (v Val) Ser() string {
	switch v.T {
	case "undef":
		return "undefined"
	case "null":
		return "null"
	case "bool":
		if v.Sg == 1 {
			return "true"
		}
		return "false"
	case "int":
		if v.Sg < 0 {
			return "-" + v.mag().String()
		}
		return v.mag().String()
	case "nzero":
		return "-0"
	case "nan":
		return "NaN"
	case "pinf":
		return "Infinity"
	case "ninf":
		return "-Infinity"
	case "str":
		return quoteJS(v.str())
	case "big":
		if v.Sg < 0 {
			return "-" + v.mag().String() + "n"
		}
		return v.mag().String() + "n"
	case "obj":
		if v.Sg == 9 {
			return "rec" // the recorder object o
		}
		return fmt.Sprintf("obj#%d", v.Sg)
	case "err":
		switch v.Sg {
		case 1:
			return "TypeError"
		case 2:
			return "ReferenceError"
		case 3:
			return "Budget"
		}
		return fmt.Sprintf("err#%d", v.Sg)
	case "unk":
		return "?"
	}
	return "?" + v.T
}
