package c06

import (
	"encoding/json"
	"fmt"
	"sort"
	"strings"
	"sync"

	"github.com/evanw/esbuild/pkg/api"

	"verifharness/core"
	"verifharness/tlcrun"
)

// scenarios of spec/TsRuntime.tla

type rtField struct {
	Name   string `json:"name"`
	Init   bool   `json:"init"`
	Static bool   `json:"static"`
}
type rtDecoMem struct {
	Static bool   `json:"static"`
	Kind   string `json:"kind"`
	ND     int    `json:"nd"`
	NP     int    `json:"np"`
}
type rtNsMem struct {
	Name     string        `json:"name"`
	Exported bool          `json:"exported"`
	Kind     string        `json:"kind"`
	V        []interface{} `json:"v"`
}
type rtNsBlock struct {
	Path []string  `json:"path"`
	Mem  []rtNsMem `json:"mem"`
}
type rtScenario struct {
	Fam string `json:"fam"`
	// cls
	Base   string    `json:"base"`
	PP     []string  `json:"pp"`
	Fields []rtField `json:"fields"`
	Define bool      `json:"define"`
	// deco
	Mems []rtDecoMem `json:"mems"`
	CD   int         `json:"cd"`
	CPD  int         `json:"cpd"`
	// ns
	Ix     int         `json:"ix"`
	Host   string      `json:"host"`
	Blocks []rtNsBlock `json:"blocks"`
}
type rtLeaf struct {
	Path []string `json:"path"`
	Val  string   `json:"val"`
}
type rtExpect struct {
	Log    [][]string        `json:"log"`
	Own    []string          `json:"own"`
	Vals   map[string]string `json:"vals"`
	Leaves []rtLeaf          `json:"leaves"`
}
type rtCase struct {
	Sc     rtScenario `json:"sc"`
	Expect rtExpect   `json:"expect"`
}

func joinLog(l [][]string) string {
	var out []string
	for _, e := range l {
		out = append(out, strings.Join(e, " "))
	}
	return strings.Join(out, "|")
}

// ------------------------------------------------------------------- cls

const clsObserve = `__log.push("new");
var o = new C(10, 20);
globalThis.__out = __log.join("|") + "\nown " + Object.getOwnPropertyNames(o).join(",") + "\nvals " + ["p", "q", "x", "y"].map(function (k) { return k + "=" + String(o[k]) }).join(",");
`

func (c *rtCase) clsExpected() string {
	var vals []string
	for _, k := range []string{"p", "q", "x", "y"} {
		vals = append(vals, k+"="+c.Expect.Vals[k])
	}
	return joinLog(c.Expect.Log) + "\nown " + strings.Join(c.Expect.Own, ",") + "\nvals " + strings.Join(vals, ",")
}

func clsBase(sc *rtScenario, ts bool) string {
	this := "this"
	if ts {
		this = "(this as any)"
	}
	switch sc.Base {
	case "plain":
		return "class B { constructor() { __log.push(\"B.ctor\") } }\n"
	case "setter":
		s := "class B {\n  constructor() { __log.push(\"B.ctor\") }\n"
		for _, k := range []string{"p", "x"} {
			s += fmt.Sprintf("  get %s() { return %s._%s }\n  set %s(v) { __log.push(\"set %s \" + v); %s._%s = v }\n", k, this, k, k, k, this, k)
		}
		return s + "}\n"
	}
	return ""
}

var initOf = map[string]string{"x": "1", "y": "2", "s": "3"}

func (c *rtCase) clsTS() string {
	sc := &c.Sc
	var sb strings.Builder
	sb.WriteString("var __log: string[] = [];\nfunction init(n: string, v: number) { __log.push(\"init \" + n); return v }\n")
	sb.WriteString(clsBase(sc, true))
	sb.WriteString("class C")
	if sc.Base != "none" {
		sb.WriteString(" extends B")
	}
	sb.WriteString(" {\n")
	for _, f := range sc.Fields {
		st := ""
		if f.Static {
			st = "static "
		}
		if f.Init {
			fmt.Fprintf(&sb, "  %s%s = init(\"%s\", %s);\n", st, f.Name, f.Name, initOf[f.Name])
		} else {
			fmt.Fprintf(&sb, "  %s%s: any;\n", st, f.Name)
		}
	}
	var ps []string
	for i, n := range []string{"p", "q"} {
		mod := ""
		if sc.PP[i] != "plain" {
			mod = sc.PP[i] + " "
		}
		ps = append(ps, mod+n+": number")
	}
	sb.WriteString("  constructor(" + strings.Join(ps, ", ") + ") { ")
	if sc.Base != "none" {
		sb.WriteString("super(); ")
	}
	sb.WriteString("__log.push(\"body\") }\n}\n")
	sb.WriteString(strings.Replace(clsObserve, "var o = new C", "var o: any = new (C as any)", 1))
	return sb.String()
}

// reference translation (what tsc emits, TypeScript handbook / release notes of 3.7 "useDefineForClassFields"):
// define semantics = ES2022 class fields with the parameter properties declared first and assigned at the
// start of the constructor body; assign semantics = assignments in the constructor, parameter properties first
func (c *rtCase) clsReference() string {
	sc := &c.Sc
	var sb strings.Builder
	sb.WriteString("var __log = [];\nfunction init(n, v) { __log.push(\"init \" + n); return v }\n")
	sb.WriteString(clsBase(sc, false))
	sb.WriteString("class C")
	if sc.Base != "none" {
		sb.WriteString(" extends B")
	}
	sb.WriteString(" {\n")
	var ctor, after []string
	if sc.Base != "none" {
		ctor = append(ctor, "super();")
	}
	var pps []string
	for i, n := range []string{"p", "q"} {
		if sc.PP[i] != "plain" {
			pps = append(pps, n)
		}
	}
	if sc.Define {
		for _, n := range pps {
			sb.WriteString("  " + n + ";\n")
		}
		for _, f := range sc.Fields {
			st := ""
			if f.Static {
				st = "static "
			}
			if f.Init {
				fmt.Fprintf(&sb, "  %s%s = init(\"%s\", %s);\n", st, f.Name, f.Name, initOf[f.Name])
			} else {
				fmt.Fprintf(&sb, "  %s%s;\n", st, f.Name)
			}
		}
		for _, n := range pps {
			ctor = append(ctor, "this."+n+" = "+n+";")
		}
	} else {
		for _, n := range pps {
			ctor = append(ctor, "this."+n+" = "+n+";")
		}
		for _, f := range sc.Fields {
			if !f.Init {
				continue
			}
			if f.Static {
				after = append(after, fmt.Sprintf("C.%s = init(\"%s\", %s);", f.Name, f.Name, initOf[f.Name]))
			} else {
				ctor = append(ctor, fmt.Sprintf("this.%s = init(\"%s\", %s);", f.Name, f.Name, initOf[f.Name]))
			}
		}
	}
	ctor = append(ctor, "__log.push(\"body\")")
	sb.WriteString("  constructor(p, q) { " + strings.Join(ctor, " ") + " }\n}\n")
	sb.WriteString(strings.Join(after, "\n") + "\n")
	sb.WriteString(clsObserve)
	return sb.String()
}

// ------------------------------------------------------------------ deco

const decoHelpers = `var __decorate = function (decorators, target, key, desc) {
  var c = arguments.length, r = c < 3 ? target : desc === null ? desc = Object.getOwnPropertyDescriptor(target, key) : desc, d;
  for (var i = decorators.length - 1; i >= 0; i--) if (d = decorators[i]) r = (c < 3 ? d(r) : c > 3 ? d(target, key, r) : d(target, key)) || r;
  return c > 3 && r && Object.defineProperty(target, key, r), r;
};
var __param = function (paramIndex, decorator) { return function (target, key) { decorator(target, key, paramIndex); } };
`

func decoList(prefix string, n int) []string {
	var out []string
	for k := 1; k <= n; k++ {
		out = append(out, fmt.Sprintf("d(\"%s%d\")", prefix, k))
	}
	return out
}

func (c *rtCase) decoTS() string {
	sc := &c.Sc
	var sb strings.Builder
	sb.WriteString("var __log: string[] = [];\nfunction d(id: string): any { __log.push(\"eval \" + id); return function () { __log.push(\"apply \" + id) } }\n")
	for _, x := range decoList("c", sc.CD) {
		sb.WriteString("@" + x + "\n")
	}
	sb.WriteString("class C {\n")
	cp := ""
	if sc.CPD > 0 {
		cp = "@" + strings.Join(decoList("cp", sc.CPD), " @") + " a?: any"
	}
	sb.WriteString("  constructor(" + cp + ") {}\n")
	for i, m := range sc.Mems {
		name := fmt.Sprintf("m%d", i+1)
		line := "  "
		for _, x := range decoList(name+"d", m.ND) {
			line += "@" + x + " "
		}
		if m.Static {
			line += "static "
		}
		switch m.Kind {
		case "method":
			p := ""
			if m.NP > 0 {
				p = "@" + strings.Join(decoList(name+"p", m.NP), " @") + " a?: any"
			}
			line += name + "(" + p + ") {}"
		case "field":
			line += name + " = 1;"
		case "accessor":
			line += "get " + name + "() { return 1 }"
		}
		sb.WriteString(line + "\n")
	}
	sb.WriteString("}\nglobalThis.__out = __log.join(\"|\");\n")
	return sb.String()
}

// what tsc emits for experimentalDecorators (TypeScript handbook, "Decorators")
func (c *rtCase) decoReference() string {
	sc := &c.Sc
	var sb strings.Builder
	sb.WriteString(decoHelpers)
	sb.WriteString("var __log = [];\nfunction d(id) { __log.push(\"eval \" + id); return function () { __log.push(\"apply \" + id) } }\n")
	sb.WriteString("let C = class C {\n  constructor(a) {}\n")
	for i, m := range sc.Mems {
		name := fmt.Sprintf("m%d", i+1)
		st := ""
		if m.Static {
			st = "static "
		}
		switch m.Kind {
		case "method":
			sb.WriteString("  " + st + name + "(a) {}\n")
		case "field":
			sb.WriteString("  " + st + name + " = 1;\n")
		case "accessor":
			sb.WriteString("  " + st + "get " + name + "() { return 1 }\n")
		}
	}
	sb.WriteString("};\n")
	for _, static := range []bool{false, true} {
		for i, m := range sc.Mems {
			if m.Static != static || m.ND+m.NP == 0 {
				continue
			}
			name := fmt.Sprintf("m%d", i+1)
			list := decoList(name+"d", m.ND)
			for _, x := range decoList(name+"p", m.NP) {
				list = append(list, "__param(0, "+x+")")
			}
			target := "C.prototype"
			if static {
				target = "C"
			}
			desc := "null"
			if m.Kind == "field" {
				desc = "void 0"
			}
			fmt.Fprintf(&sb, "__decorate([%s], %s, \"%s\", %s);\n", strings.Join(list, ", "), target, name, desc)
		}
	}
	if sc.CD+sc.CPD > 0 {
		list := decoList("c", sc.CD)
		for _, x := range decoList("cp", sc.CPD) {
			list = append(list, "__param(0, "+x+")")
		}
		fmt.Fprintf(&sb, "C = __decorate([%s], C);\n", strings.Join(list, ", "))
	}
	sb.WriteString("globalThis.__out = __log.join(\"|\");\n")
	return sb.String()
}

// -------------------------------------------------------------------- ns

func nsExpr(v []interface{}) string {
	switch v[0] {
	case "lit":
		return fmt.Sprint(v[1])
	case "ref":
		return fmt.Sprint(v[1])
	case "sum":
		return fmt.Sprintf("%v + %v", v[1], v[2])
	case "qref":
		var p []string
		for _, x := range v[1].([]interface{}) {
			p = append(p, fmt.Sprint(x))
		}
		return strings.Join(p, ".")
	}
	return "?"
}

func nsHost(sc *rtScenario, ts bool) string {
	switch sc.Host {
	case "function":
		return "function N() { return 0 }\n"
	case "class":
		return "class N {}\n"
	case "enum":
		if ts {
			return "enum N { X }\n"
		}
		return "var N; (function (N) { N[N[\"X\"] = 0] = \"X\"; })(N || (N = {}));\n"
	}
	return ""
}

func (c *rtCase) nsObserve() string {
	sc := &c.Sc
	kind := map[string]string{}
	for _, b := range sc.Blocks {
		for _, m := range b.Mem {
			kind[strings.Join(b.Path, ".")+"."+m.Name] = m.Kind
		}
	}
	var sb strings.Builder
	sb.WriteString("var __o = [];\n")
	for _, p := range c.nsObjects() {
		fmt.Fprintf(&sb, "__o.push(\"keys %s \" + Object.keys(%s).sort().join(\",\"));\n", p, p)
	}
	leaves := append([]rtLeaf{}, c.Expect.Leaves...)
	sort.Slice(leaves, func(i, j int) bool { return strings.Join(leaves[i].Path, ".") < strings.Join(leaves[j].Path, ".") })
	for _, l := range leaves {
		p := strings.Join(l.Path, ".")
		if kind[p] == "fn" {
			fmt.Fprintf(&sb, "__o.push(\"%s \" + %s());\n", p, p)
		} else {
			fmt.Fprintf(&sb, "__o.push(\"%s \" + %s);\n", p, p)
		}
	}
	sb.WriteString("globalThis.__out = __o.join(\"|\");\n")
	return sb.String()
}

// the namespace objects (every proper prefix of a leaf path), sorted
func (c *rtCase) nsObjects() []string {
	set := map[string]bool{}
	for _, l := range c.Expect.Leaves {
		for n := 1; n < len(l.Path); n++ {
			set[strings.Join(l.Path[:n], ".")] = true
		}
	}
	var out []string
	for p := range set {
		out = append(out, p)
	}
	sort.Strings(out)
	return out
}

func (c *rtCase) nsExpected() string {
	children := map[string]map[string]bool{}
	for _, p := range c.nsObjects() {
		children[p] = map[string]bool{}
	}
	for _, l := range c.Expect.Leaves {
		for n := 1; n < len(l.Path); n++ {
			children[strings.Join(l.Path[:n], ".")][l.Path[n]] = true
		}
	}
	if c.Sc.Host == "enum" {
		children["N"]["0"], children["N"]["X"] = true, true
	}
	var out []string
	for _, p := range c.nsObjects() {
		var ks []string
		for k := range children[p] {
			ks = append(ks, k)
		}
		sort.Strings(ks)
		out = append(out, "keys "+p+" "+strings.Join(ks, ","))
	}
	leaves := append([]rtLeaf{}, c.Expect.Leaves...)
	sort.Slice(leaves, func(i, j int) bool { return strings.Join(leaves[i].Path, ".") < strings.Join(leaves[j].Path, ".") })
	for _, l := range leaves {
		out = append(out, strings.Join(l.Path, ".")+" "+l.Val)
	}
	return strings.Join(out, "|")
}

func (c *rtCase) nsTS() string {
	sc := &c.Sc
	var sb strings.Builder
	sb.WriteString(nsHost(sc, true))
	for _, b := range sc.Blocks {
		sb.WriteString("namespace " + strings.Join(b.Path, ".") + " {\n")
		for _, m := range b.Mem {
			ex := ""
			if m.Exported {
				ex = "export "
			}
			switch m.Kind {
			case "const":
				fmt.Fprintf(&sb, "  %sconst %s = %s;\n", ex, m.Name, nsExpr(m.V))
			case "fn":
				fmt.Fprintf(&sb, "  %sfunction %s() { return %s }\n", ex, m.Name, nsExpr(m.V))
			case "alias":
				fmt.Fprintf(&sb, "  %simport %s = %s;\n", ex, m.Name, nsExpr(m.V))
			}
		}
		sb.WriteString("}\n")
	}
	sb.WriteString(c.nsObserve())
	return sb.String()
}

// independent reference: namespace objects + `with` for the scope chain (sloppy-mode JavaScript)
func (c *rtCase) nsReference() string {
	sc := &c.Sc
	var sb strings.Builder
	sb.WriteString(nsHost(sc, false))
	if sc.Host == "none" {
		sb.WriteString("var N;\n")
	}
	for _, b := range sc.Blocks {
		for n := 1; n <= len(b.Path); n++ {
			p := strings.Join(b.Path[:n], ".")
			fmt.Fprintf(&sb, "%s = %s || {};\n", p, p)
		}
		sb.WriteString("(function () {\n")
		for n := 1; n <= len(b.Path); n++ {
			sb.WriteString("with (" + strings.Join(b.Path[:n], ".") + ") ")
		}
		sb.WriteString("{\n")
		full := strings.Join(b.Path, ".")
		for _, m := range b.Mem {
			target := "let " + m.Name
			if m.Exported {
				target = full + "." + m.Name
			}
			if m.Kind == "fn" {
				fmt.Fprintf(&sb, "  %s = function () { return %s };\n", target, nsExpr(m.V))
			} else {
				fmt.Fprintf(&sb, "  %s = %s;\n", target, nsExpr(m.V))
			}
		}
		sb.WriteString("}\n})();\n")
	}
	sb.WriteString(c.nsObserve())
	return sb.String()
}

// ---------------------------------------------------------------- binding

type rtVariant struct {
	Name     string
	Tsconfig string
	Target   api.Target
	Minify   bool
}

func (c *rtCase) variants() []rtVariant {
	var out []rtVariant
	add := func(name, cfg string, t api.Target) {
		out = append(out, rtVariant{name, cfg, t, false}, rtVariant{name + "+minify", cfg, t, true})
	}
	switch c.Sc.Fam {
	case "cls":
		cfg := fmt.Sprintf(`{"compilerOptions":{"useDefineForClassFields":%v}}`, c.Sc.Define)
		add("esnext", cfg, api.ESNext)
		add("es2021", cfg, api.ES2021)
		add("es2015", cfg, api.ES2015)
		// the tsconfig target selects the default of useDefineForClassFields (>= ES2022: define)
		if c.Sc.Define {
			add("tsconfig-target-es2022", `{"compilerOptions":{"target":"ES2022"}}`, api.ESNext)
		} else {
			add("tsconfig-target-es2021", `{"compilerOptions":{"target":"ES2021"}}`, api.ESNext)
		}
	case "deco":
		add("define", `{"compilerOptions":{"experimentalDecorators":true,"useDefineForClassFields":true}}`, api.ESNext)
		add("assign", `{"compilerOptions":{"experimentalDecorators":true,"useDefineForClassFields":false}}`, api.ESNext)
		add("assign-es2020", `{"compilerOptions":{"experimentalDecorators":true,"useDefineForClassFields":false}}`, api.ES2020)
	case "ns":
		add("esnext", `{}`, api.ESNext)
		add("es2015", `{}`, api.ES2015)
	}
	return out
}

func (c *rtCase) render() (ts, ref, want string) {
	switch c.Sc.Fam {
	case "cls":
		return c.clsTS(), c.clsReference(), c.clsExpected()
	case "deco":
		return c.decoTS(), c.decoReference(), joinLog(c.Expect.Log)
	default:
		return c.nsTS(), c.nsReference(), c.nsExpected()
	}
}

func rtBinding(r *core.Run) {
	var mu sync.Mutex
	var cases []*rtCase
	stats := map[string]interface{}{}
	for _, fam := range []string{"cls", "deco", "ns"} {
		n0 := len(cases)
		res := tlcrun.MustHold(r, tlcrun.Options{Module: "TsRuntime", Config: "TsRuntime." + fam + ".cfg", Workers: 2, TimeoutSec: 1200, HeapGB: 4,
			OnCase: func(raw []byte) {
				c := &rtCase{}
				if err := json.Unmarshal(raw, c); err != nil {
					r.Infra("undecodable TsRuntime CASE: %v", err)
					return
				}
				mu.Lock()
				cases = append(cases, c)
				mu.Unlock()
			}})
		if res != nil {
			stats[fam] = map[string]interface{}{"generated": res.Generated, "distinct": res.Distinct, "scenarios": len(cases) - n0, "invariant": "ObsOK"}
		}
	}
	r.Set("tlc_runtime", stats)
	if len(cases) == 0 {
		r.Infra("TsRuntime exported no scenarios")
		return
	}
	// the quick tier takes every decorator scenario whose index falls on the seed (the family is large), all others
	if !r.Thorough() {
		var keep []*rtCase
		k := 0
		sort.Slice(cases, func(i, j int) bool { a, _ := json.Marshal(cases[i].Sc); b, _ := json.Marshal(cases[j].Sc); return string(a) < string(b) })
		for _, c := range cases {
			if c.Sc.Fam == "deco" {
				k++
				if (k+int(r.Seed))%6 != 0 {
					continue
				}
			}
			keep = append(keep, c)
		}
		cases = keep
	}
	evalRuntime(r, cases, false)
}

func evalRuntime(r *core.Run, cases []*rtCase, replay bool) {
	type prepared struct {
		ts, want string
		vs       []rtVariant
		errs     []string
	}
	preps := make([]prepared, len(cases))
	items := make([]nodeItem, len(cases))
	core.Parallel(len(cases), 8, func(i int) {
		c := cases[i]
		ts, ref, want := c.render()
		p := prepared{ts: ts, want: want, vs: c.variants()}
		it := nodeItem{ID: fmt.Sprint(i), Srcs: []string{ref}}
		for _, v := range p.vs {
			code, errText := compileTS(r, map[string]string{"in.ts": ts}, "in.ts", v.Minify, v.Tsconfig, v.Target)
			p.errs = append(p.errs, errText)
			it.Srcs = append(it.Srcs, code)
		}
		preps[i], items[i] = p, it
	})
	results := runNodeItems(r, items)
	perFam := map[string]int{}
	for i, c := range cases {
		p := &preps[i]
		outs := results[fmt.Sprint(i)]
		if outs == nil {
			continue
		}
		perFam[c.Sc.Fam]++
		r.Case(fmt.Sprintf("rt:%v:%s", c.Sc.Define, p.ts), true)
		if outs[0].Error != "" {
			r.Infra("the reference translation of a %s scenario does not run: %s\n%s", c.Sc.Fam, outs[0].Error, items[i].Srcs[0])
			continue
		}
		if outs[0].Out != p.want {
			r.Drift("TsRuntime (%s) predicts\n%s\nV8 on the reference translation gives\n%s\nfor\n%s", c.Sc.Fam, p.want, outs[0].Out, p.ts)
			continue
		}
		for v, vr := range p.vs {
			key := map[string]interface{}{"part": c.Sc.Fam, "program": p.ts, "variant": vr.Name, "error": p.errs[v]}
			det := map[string]interface{}{"case": c, "program": p.ts, "variant": vr.Name, "expected": p.want}
			if p.errs[v] != "" {
				r.Violation(key, fmt.Sprintf("esbuild rejects a valid TypeScript program (%s): %s\n%s", vr.Name, p.errs[v], p.ts), det)
				continue
			}
			got := outs[1+v]
			det["output"], det["observed"], det["run_error"] = items[i].Srcs[1+v], got.Out, got.Error
			if got.Error != "" || got.Out != p.want {
				r.Violation(key, fmt.Sprintf("%s scenario behaves differently after esbuild (%s, %s):\n%s\nexpected (TsRuntime, confirmed by V8 on the reference translation):\n%s\nobserved:\n%s %s\noutput:\n%s",
					c.Sc.Fam, vr.Name, vr.Tsconfig, p.ts, p.want, got.Out, got.Error, items[i].Srcs[1+v]), det)
			}
		}
		if i%(len(cases)/3+1) == 2 {
			r.Sample(map[string]interface{}{"part": c.Sc.Fam, "program": p.ts, "expected": p.want, "output": items[i].Srcs[1]})
		}
		r.AddTraces(int64(len(p.vs)))
	}
	if replay {
		return
	}
	r.Set("runtime_scenarios_per_family", perFam)
	r.Logf("runtime: %v scenarios", perFam)
}
