package c06

// tsconfig family (spec/TsConfig.tla): the TypeScript semantics that esbuild applies are selected by the
// compilerOptions of tsconfig.json, resolved along the `extends` chain.  TLC grows chains of 2..4 levels
// (relative / node_modules package / TypeScript 5 array links), checks the resolution algebra and exports each
// chain with the resolved options and the derived facts.  Binding (R): for every chain three real trees are built
// with api.Build — the chain of files, ONE flattened tsconfig.json holding the spec's resolved options, and no
// tsconfig file but TsconfigRaw = the flattened JSON — and compared byte for byte; the chain's output is also
// judged against the spec directly: "use strict" prologue + strict-mode behaviour in Node iff the spec's effective
// alwaysStrict, [[Define]] vs [[Set]] class fields iff the spec's define default, experimental vs standard
// decorator calling convention iff the resolved experimentalDecorators.

import (
	"bytes"
	"encoding/json"
	"fmt"
	"os"
	"path/filepath"
	"regexp"
	"sort"
	"strings"
	"sync"
	"time"

	"github.com/evanw/esbuild/pkg/api"

	"verifharness/core"
	"verifharness/nodex"
	"verifharness/tlcrun"
)

// a level: only the set fields; every value is a string in the spec ("true"/"false" for booleans)
type tcLevel map[string]string

func (l *tcLevel) UnmarshalJSON(b []byte) error {
	*l = tcLevel{}
	if t := bytes.TrimSpace(b); len(t) > 0 && t[0] == '[' { // TLC prints the function with the empty domain as []
		return nil
	}
	m := map[string]string{}
	if err := json.Unmarshal(b, &m); err != nil {
		return err
	}
	*l = m
	return nil
}

type tcCase struct {
	Spec       string    `json:"spec"`
	Focus      string    `json:"focus"`
	Code       int       `json:"code"`
	Levels     []tcLevel `json:"levels"`
	Links      []string  `json:"links"`
	Resolved   tcLevel   `json:"resolved"`
	Strict     bool      `json:"strict"`
	Define     string    `json:"define"` // "true" | "false" | "unset"
	Nontrivial bool      `json:"nontrivial"`
}

var tcFields = []string{"useDefineForClassFields", "target", "verbatimModuleSyntax", "importsNotUsedAsValues", "preserveValueImports",
	"experimentalDecorators", "alwaysStrict", "strict", "jsx", "jsxFactory", "jsxFragmentFactory", "jsxImportSource"}
var tcBoolField = map[string]bool{"useDefineForClassFields": true, "verbatimModuleSyntax": true, "preserveValueImports": true,
	"experimentalDecorators": true, "alwaysStrict": true, "strict": true}

// compilerOptions object of a level, keys in the fixed field order
func (l tcLevel) options() string {
	var parts []string
	for _, f := range tcFields {
		v, ok := l[f]
		if !ok {
			continue
		}
		if tcBoolField[f] {
			parts = append(parts, fmt.Sprintf("%q: %s", f, v))
		} else {
			parts = append(parts, fmt.Sprintf("%q: %q", f, v))
		}
	}
	return "{" + strings.Join(parts, ", ") + "}"
}

func (c *tcCase) levelsText() string {
	var out []string
	for _, l := range c.Levels {
		out = append(out, l.options())
	}
	return strings.Join(out, " <- ")
}

func (c *tcCase) usesJSX() bool {
	for _, l := range c.Levels {
		for f := range l {
			if strings.HasPrefix(f, "jsx") {
				return true
			}
		}
	}
	return false
}

// hop(j) = shape of the link into level j (1-based levels, j >= 2)
func (c *tcCase) hop(j int) string {
	if j < 2 || j > len(c.Levels) {
		return ""
	}
	return c.Links[j-2]
}

// chainTree lays the levels out as files: the leaf is <root>/tsconfig.json; a level referenced by a relative path
// lives in a sub-directory of its referencer (./b<i>/base<i>.json: relative paths are resolved against the file
// that contains them), a level referenced as a package lives in the referencer's node_modules (pkg<i>/tsconfig.json;
// referenced as "pkg<i>/tsconfig.json" or, for odd codes, as the bare package name "pkg<i>": TypeScript 3.2
// "tsconfig.json inheritance via Node.js packages").
func (c *tcCase) chainTree() map[string]string {
	n := len(c.Levels)
	dir := make([]string, n+1)
	file := make([]string, n+1)
	ref := make([]string, n+1) // how level i is written in its referencer's "extends"
	dir[n], file[n] = "", "tsconfig.json"
	files := map[string]string{}
	for i := n - 1; i >= 1; i-- {
		shape := c.hop(i + 1)
		referencer := i + 1
		if shape == "array" {
			shape = "relative" // second entry of level i+1's array
		} else if c.hop(i+2) == "array" {
			referencer = i + 2 // first entry of level i+2's array; level i+1 extends nothing
		}
		if shape == "package" {
			dir[i], file[i] = filepath.Join(dir[referencer], "node_modules", fmt.Sprintf("pkg%d", i)), "tsconfig.json"
			if (c.Code+i)%2 == 1 {
				ref[i] = fmt.Sprintf("pkg%d", i)
				files[filepath.Join(dir[i], "package.json")] = fmt.Sprintf(`{"name": "pkg%d", "version": "1.0.0"}`, i)
			} else {
				ref[i] = fmt.Sprintf("pkg%d/tsconfig.json", i)
			}
		} else {
			dir[i], file[i] = filepath.Join(dir[referencer], fmt.Sprintf("b%d", i)), fmt.Sprintf("base%d.json", i)
			ref[i] = fmt.Sprintf("./b%d/base%d.json", i, i)
		}
	}
	for j := 1; j <= n; j++ {
		ext := ""
		switch {
		case j >= 3 && c.hop(j) == "array":
			ext = fmt.Sprintf(`"extends": [%q, %q], `, ref[j-2], ref[j-1])
		case j >= 2 && c.hop(j+1) == "array":
			// the sibling base of an array: extends nothing
		case j >= 2:
			ext = fmt.Sprintf(`"extends": %q, `, ref[j-1])
		}
		files[filepath.Join(dir[j], file[j])] = "{" + ext + `"compilerOptions": ` + c.Levels[j-1].options() + "}\n"
	}
	return files
}

func (c *tcCase) flatJSON() string { return `{"compilerOptions": ` + c.Resolved.options() + "}\n" }

// ------------------------------------------------------------------ probe

const tcDep = `(globalThis as any).__dep = ((globalThis as any).__dep || 0) + 1;
export const Unused = 1;
export class T { t = 1 }
`

const tcProbeHead = `import { Unused } from './dep'
import { T } from './dep'
declare var undeclared_c06: any;
const G: any = globalThis;
let onlyType: T | undefined;
class B {
  set x(v: any) { G.__set = (G.__set || 0) + 1 }
  get x(): any { return 7 }
}
class C extends B { x = 5; z: any }
function dec(...a: any[]): any { G.__dec = a.length }
class D { @dec m() { return 1 } }
function f(this: any) { return this === undefined }
function g() { try { undeclared_c06 = 1; return "sloppy" } catch (e) { return "strict" } }
const o: any = new C();
`

const tcProbeJSX = `function h(...a: any[]) { return "h(" + String(a[0]) + ")" }
function h2(...a: any[]) { return "h2(" + String(a[0]) + ")" }
const Frag = "Frag", Frag2 = "Frag2";
const React = { createElement: (...a: any[]) => "React(" + String(a[0]) + ")", Fragment: "React.Fragment" };
void [h, h2, Frag, Frag2, React];
const el: any = <><a b="1"/></>;
`

const tcProbeTail = `G.__out = JSON.stringify({ f: (f as any)(), g: g(), ownX: Object.prototype.hasOwnProperty.call(o, "x"), ownZ: Object.prototype.hasOwnProperty.call(o, "z"),
  set: G.__set || 0, dec: G.__dec, dep: G.__dep || 0, req: G.__req || [], el: EL });
`

func (c *tcCase) sources() (entry string, files map[string]string) {
	if c.usesJSX() {
		return "entry.tsx", map[string]string{"entry.tsx": tcProbeHead + tcProbeJSX + strings.Replace(tcProbeTail, "EL", "String(el)", 1), "dep.ts": tcDep}
	}
	return "entry.ts", map[string]string{"entry.ts": tcProbeHead + strings.Replace(tcProbeTail, "EL", `""`, 1), "dep.ts": tcDep}
}

// the output is run inside a function (a leading "use strict" stays a directive) with CommonJS names provided
const tcRunHead = `var module = { exports: {} }, exports = module.exports, require = function (p) {
  (globalThis.__req = globalThis.__req || []).push(p);
  return { Unused: 1, T: function () {}, jsx: function (t) { return "jsx(" + String(t) + ")" }, jsxs: function (t) { return "jsxs(" + String(t) + ")" }, Fragment: p + ":Fragment" };
};
(function () {
`
const tcRunTail = "\n}).call(this);\n"

type tcObserved struct {
	F    bool        `json:"f"`
	G    string      `json:"g"`
	OwnX bool        `json:"ownX"`
	OwnZ bool        `json:"ownZ"`
	Set  int         `json:"set"`
	Dec  interface{} `json:"dec"`
	Dep  int         `json:"dep"`
	Req  []string    `json:"req"`
	El   string      `json:"el"`
}

// ------------------------------------------------------------------ builds

type tcVariant struct {
	Format string // "iife" | "cjs"
	Bundle bool
}

var tcVariants = []tcVariant{{"iife", false}, {"iife", true}, {"cjs", false}, {"cjs", true}}

func (v tcVariant) String() string { return fmt.Sprintf("%s,bundle=%v", v.Format, v.Bundle) }

type tcBuilt struct {
	Out   string
	Errs  string // error + warning texts (no locations)
	Fatal bool
}

var tcSeq struct {
	sync.Mutex
	n int
}

func tcBuild(dir, entry string, v tcVariant, raw, tsconfigPath string) tcBuilt {
	o := api.BuildOptions{LogLevel: api.LogLevelSilent, AbsWorkingDir: dir, EntryPoints: []string{entry}, Bundle: v.Bundle, Write: false, Outfile: "out.js",
		Format: map[string]api.Format{"iife": api.FormatIIFE, "cjs": api.FormatCommonJS}[v.Format], Target: api.ES2022, TsconfigRaw: raw, Tsconfig: tsconfigPath}
	if v.Bundle {
		o.External = []string{"react", "react/*", "p", "p/*", "q", "q/*"}
	}
	res := api.Build(o)
	var msgs []string
	for _, m := range res.Errors {
		msgs = append(msgs, "error: "+m.Text)
	}
	for _, m := range res.Warnings {
		msgs = append(msgs, "warning: "+m.Text)
	}
	b := tcBuilt{Errs: strings.Join(msgs, "\n"), Fatal: len(res.Errors) > 0}
	if !b.Fatal {
		if len(res.OutputFiles) != 1 {
			b.Fatal, b.Errs = true, b.Errs+fmt.Sprintf("\ninfra: %d output files", len(res.OutputFiles))
		} else {
			b.Out = string(res.OutputFiles[0].Contents)
		}
	}
	return b
}

// quick tier: two of the four (format, bundle) variants per chain, alternating with the chain code; thorough: all four
func (c *tcCase) variantOn(r *core.Run, v int) bool {
	if r.Thorough() || r.Replay != "" {
		return true
	}
	return v == (c.Code%2)*2 || v == 3-(c.Code%2)*2 // {iife plain, cjs bundle} or {cjs plain, iife bundle}
}

type tcResult struct {
	chain, flat, raw [4]tcBuilt
	explicit         [4]tcBuilt // chain tree, Tsconfig: <root>/tsconfig.json given explicitly
	hasRaw           [4]bool
	builds           int
	infra            string
}

func tcEvalBuilds(r *core.Run, c *tcCase) *tcResult {
	tcSeq.Lock()
	tcSeq.n++
	root := filepath.Join(r.Scratch, fmt.Sprintf("tc-%d", tcSeq.n))
	tcSeq.Unlock()
	defer os.RemoveAll(root)
	entry, srcs := c.sources()
	trees := map[string]map[string]string{"chain": c.chainTree(), "flat": {"tsconfig.json": c.flatJSON()}, "raw": {}}
	for name, t := range trees {
		for k, v := range srcs {
			t[k] = v
		}
		if err := core.WriteTree(filepath.Join(root, name), t); err != nil {
			return &tcResult{infra: err.Error()}
		}
	}
	res := &tcResult{}
	first := true
	for i, v := range tcVariants {
		if !c.variantOn(r, i) {
			continue
		}
		res.chain[i] = tcBuild(filepath.Join(root, "chain"), entry, v, "", "")
		res.flat[i] = tcBuild(filepath.Join(root, "flat"), entry, v, "", "")
		res.builds += 2
		if first || (r.Thorough() && i == 3) || r.Replay != "" { // file vs tsconfigRaw does not depend on the output format: one variant in the quick tier, two in the thorough tier
			res.raw[i] = tcBuild(filepath.Join(root, "raw"), entry, v, c.flatJSON(), "")
			res.hasRaw[i] = true
			res.explicit[i] = tcBuild(filepath.Join(root, "chain"), entry, v, "", filepath.Join(root, "chain", "tsconfig.json"))
			res.builds += 2
		}
		first = false
	}
	return res
}

// ---------------------------------------------------------------- binding

func tsconfigBinding(r *core.Run) {
	cfgName := map[bool]string{false: "TsConfig.quick.cfg", true: "TsConfig.thorough.cfg"}[r.Thorough()]
	raw, err := os.ReadFile(filepath.Join(r.Verif, "spec", "cfg", cfgName))
	if err != nil {
		r.Infra("cannot read %s: %v", cfgName, err)
		return
	}
	// the sampling phase of the chains of >= 3 levels and the rotation of the link shapes follow the seed
	cfgText := regexp.MustCompile(`(?m)^(\s*Phase\s*=\s*).*$`).ReplaceAllString(string(raw), "${1}"+fmt.Sprint(r.Seed%1000))
	var mu sync.Mutex
	var cases []*tcCase
	res := tlcrun.MustHold(r, tlcrun.Options{Module: "TsConfig", Config: cfgName, Workers: 2, TimeoutSec: r.Pick(600, 1800), HeapGB: 2,
		Files: map[string]string{cfgName: cfgText},
		OnCase: func(raw []byte) {
			c := &tcCase{}
			if err := json.Unmarshal(raw, c); err != nil || c.Spec != "TsConfig" {
				r.Infra("undecodable TsConfig CASE: %v: %s", err, raw)
				return
			}
			mu.Lock()
			cases = append(cases, c)
			mu.Unlock()
		}})
	if res == nil || len(cases) == 0 {
		r.Infra("TsConfig exported no chains")
		return
	}
	r.Set("tlc_tsconfig", map[string]interface{}{"config": cfgName, "phase": r.Seed % 1000, "generated": res.Generated, "distinct": res.Distinct, "depth": res.Depth, "chains": len(cases),
		"invariants":      []string{"TypeOK", "FoldOK", "FileOK", "NearestOK", "SplitOK", "StrictOK", "OverriddenStrictIrrelevant", "DefineOK"},
		"action_property": "StepOK", "assumes": []string{"FieldWise", "Assoc", "Identity", "Idempotent", "CrossAssoc", "StrictDefault"}})
	sort.Slice(cases, func(i, j int) bool {
		if cases[i].Focus != cases[j].Focus {
			return cases[i].Focus < cases[j].Focus
		}
		if cases[i].Code != cases[j].Code {
			return cases[i].Code < cases[j].Code
		}
		return strings.Join(cases[i].Links, ",") < strings.Join(cases[j].Links, ",")
	})
	evalTsconfig(r, cases, false)
}

func replayTsconfig(r *core.Run, detail json.RawMessage) {
	var d struct {
		Case *tcCase `json:"case"`
	}
	if err := json.Unmarshal(detail, &d); err != nil || d.Case == nil {
		r.Infra("undecodable tsconfig replay: %v", err)
		return
	}
	evalTsconfig(r, []*tcCase{d.Case}, true)
}

func evalTsconfig(r *core.Run, cases []*tcCase, replay bool) {
	results := make([]*tcResult, len(cases))
	items := make([]nodeItem, len(cases))
	core.Parallel(len(cases), 8, func(i int) {
		res := tcEvalBuilds(r, cases[i])
		results[i] = res
		it := nodeItem{ID: fmt.Sprint(i)}
		for v := range tcVariants {
			if cases[i].variantOn(r, v) && !res.chain[v].Fatal { // (the outputs of the evaluated variants, in variant order)
				it.Srcs = append(it.Srcs, tcRunHead+res.chain[v].Out+tcRunTail)
			}
		}
		items[i] = it
	})
	r.Logf("tsconfig: builds done")
	outs := tcRunNode(r, items)
	r.Logf("tsconfig: node done")
	perField, perShape, perDepth := map[string]int{}, map[string]int{}, map[string]int{}
	var builds, runs, notJudged int64
	samples := 0
	for i, c := range cases {
		res := results[i]
		if res.infra != "" {
			r.Infra("tsconfig scratch tree: %s", res.infra)
			continue
		}
		id := c.levelsText() + " | " + strings.Join(c.Links, ",")
		r.Case("tsconfig:"+id, c.Nontrivial)
		builds += int64(res.builds)
		for _, l := range c.Levels {
			for f := range l {
				perField[f]++
			}
		}
		for _, s := range c.Links {
			perShape[s]++
		}
		perDepth[fmt.Sprint(len(c.Levels))]++
		key := func(check string, v tcVariant) map[string]interface{} {
			return map[string]interface{}{"part": "tsconfig", "check": check, "levels": c.levelsText(), "links": strings.Join(c.Links, ","), "code": c.Code,
				"format": v.Format, "bundle": v.Bundle}
		}
		tree := c.chainTree()
		det := func(extra map[string]interface{}) map[string]interface{} {
			d := map[string]interface{}{"case": c, "tree": tree, "flattened": c.flatJSON()}
			for k, v := range extra {
				d[k] = v
			}
			return d
		}
		treeText := tcTreeText(tree)
		nodeOuts := outs[fmt.Sprint(i)]
		nodeIx := 0 // index into nodeOuts: one entry per evaluated variant whose chain build succeeded
		for v, vr := range tcVariants {
			if !c.variantOn(r, v) {
				continue
			}
			ch, fl, rw := res.chain[v], res.flat[v], res.raw[v]
			if !res.hasRaw[v] {
				rw = fl
			} else if ex := res.explicit[v]; ex.Fatal != ch.Fatal || ex.Errs != ch.Errs || ex.Out != ch.Out {
				// the tsconfig found next to the sources == the same file named explicitly
				r.Violation(key("explicit-path", vr), fmt.Sprintf("naming tsconfig.json explicitly (Tsconfig option) differs from finding it next to the sources (%s)\n%s--- explicit:\n%s%s\n--- found:\n%s%s",
					vr, treeText, ex.Errs, ex.Out, ch.Errs, ch.Out), det(map[string]interface{}{"variant": vr.String()}))
			}
			// 1. the chain of files behaves like the one flattened file
			switch {
			case ch.Fatal != fl.Fatal || ch.Errs != fl.Errs:
				r.Violation(key("chain-vs-flat", vr), fmt.Sprintf("the extends chain and the equivalent single tsconfig.json give different diagnostics (%s)\n%s\nchain:\n%s\nflattened %s:\n%s",
					vr, treeText, ch.Errs, c.flatJSON(), fl.Errs), det(map[string]interface{}{"variant": vr.String(), "chain_messages": ch.Errs, "flat_messages": fl.Errs}))
			case !ch.Fatal && ch.Out != fl.Out:
				r.Violation(key("chain-vs-flat", vr), fmt.Sprintf("the extends chain compiles differently from the single tsconfig.json holding the resolved compilerOptions (%s)\n%s\nresolved (TsConfig.tla): %s--- output with the chain:\n%s\n--- output with the flattened file:\n%s",
					vr, treeText, c.flatJSON(), ch.Out, fl.Out), det(map[string]interface{}{"variant": vr.String(), "chain_output": ch.Out, "flat_output": fl.Out}))
			}
			// 2. the flattened file behaves like the same text given as TsconfigRaw
			switch {
			case fl.Fatal != rw.Fatal || fl.Errs != rw.Errs:
				r.Violation(key("flat-vs-raw", vr), fmt.Sprintf("tsconfig.json and the same text as tsconfigRaw give different diagnostics (%s)\n%sfile:\n%s\nraw:\n%s", vr, c.flatJSON(), fl.Errs, rw.Errs),
					det(map[string]interface{}{"variant": vr.String(), "flat_messages": fl.Errs, "raw_messages": rw.Errs}))
			case !fl.Fatal && fl.Out != rw.Out:
				r.Violation(key("flat-vs-raw", vr), fmt.Sprintf("tsconfig.json and the same text as tsconfigRaw compile differently (%s)\n%s--- file:\n%s\n--- raw:\n%s", vr, c.flatJSON(), fl.Out, rw.Out),
					det(map[string]interface{}{"variant": vr.String(), "flat_output": fl.Out, "raw_output": rw.Out}))
			}
			if ch.Fatal {
				if fl.Fatal && rw.Fatal {
					notJudged++
				}
				continue
			}
			// 3. the chain against the spec's derived facts
			prologue := strings.HasPrefix(ch.Out, `"use strict";`)
			if prologue != c.Strict {
				r.Violation(key("use-strict", vr), fmt.Sprintf("effective alwaysStrict of the chain is %v (TsConfig.tla: alwaysStrict if set in the resolved options, else strict), but the %s output %s \"use strict\"\n%s--- output:\n%s",
					c.Strict, vr, map[bool]string{true: "starts with", false: "does not start with"}[prologue], treeText, ch.Out), det(map[string]interface{}{"variant": vr.String(), "output": ch.Out}))
			}
			if nodeOuts == nil || nodeIx >= len(nodeOuts) {
				continue
			}
			runs++
			got := nodeOuts[nodeIx]
			nodeIx++
			var ob tcObserved
			if got.Error != "" || json.Unmarshal([]byte(got.Out), &ob) != nil {
				r.Violation(key("runs", vr), fmt.Sprintf("the probe program does not run after esbuild (%s): %s %s\n%s--- output:\n%s", vr, got.Error, got.Out, treeText, ch.Out),
					det(map[string]interface{}{"variant": vr.String(), "output": ch.Out, "run_error": got.Error, "observed": got.Out}))
				continue
			}
			wantG := map[bool]string{true: "strict", false: "sloppy"}[c.Strict]
			if ob.F != c.Strict || ob.G != wantG {
				r.Violation(key("strict-behaviour", vr), fmt.Sprintf("effective alwaysStrict of the chain is %v, but the compiled program observes this===undefined: %v, assignment to an undeclared name: %s (%s)\n%s--- output:\n%s",
					c.Strict, ob.F, ob.G, vr, treeText, ch.Out), det(map[string]interface{}{"variant": vr.String(), "output": ch.Out, "observed": got.Out}))
			}
			if c.Define != "unset" {
				define := c.Define == "true"
				// [[Define]]: own x and z, the inherited setter is not called; [[Set]]: the setter runs, no own x, z does not exist
				if ob.OwnX != define || ob.OwnZ != define || (ob.Set == 0) != define {
					r.Violation(key("define-semantics", vr), fmt.Sprintf("the resolved options select %s semantics for class fields (useDefineForClassFields %q, target %q), observed own x: %v, own z: %v, inherited setter calls: %d (%s)\n%s--- output:\n%s",
						map[bool]string{true: "[[Define]]", false: "[[Set]]"}[define], c.Resolved["useDefineForClassFields"], c.Resolved["target"], ob.OwnX, ob.OwnZ, ob.Set, vr, treeText, ch.Out),
						det(map[string]interface{}{"variant": vr.String(), "output": ch.Out, "observed": got.Out}))
				}
			}
			wantDec := 2.0 // standard decorators: (value, context)
			if c.Resolved["experimentalDecorators"] == "true" {
				wantDec = 3 // experimental: (target, key, descriptor)
			}
			if d, ok := ob.Dec.(float64); !ok || d != wantDec {
				r.Violation(key("decorators", vr), fmt.Sprintf("resolved experimentalDecorators = %q, but the method decorator was called with %v arguments (%s)\n%s--- output:\n%s",
					c.Resolved["experimentalDecorators"], ob.Dec, vr, treeText, ch.Out), det(map[string]interface{}{"variant": vr.String(), "output": ch.Out, "observed": got.Out}))
			}
		}
		if c.Nontrivial && samples < 3 && (replay || (len(c.Levels) >= 3 && i >= samples*(len(cases)/3))) {
			samples++
			r.Sample(map[string]interface{}{"part": "tsconfig", "tree": tree, "links": c.Links, "resolved": c.Resolved, "strict": c.Strict, "define": c.Define,
				"output": res.chain[(c.Code%2)*2].Out, "observed": func() string {
					if len(nodeOuts) > 0 {
						return nodeOuts[0].Out
					}
					return ""
				}()})
		}
	}
	r.AddTraces(builds)
	if replay {
		return
	}
	r.Set("tsconfig_chains", len(cases))
	r.Set("tsconfig_builds", builds)
	r.Set("tsconfig_node_runs", runs)
	r.Set("tsconfig_not_judged_all_fail", notJudged)
	r.Set("tsconfig_levels_setting_field", perField)
	r.Set("tsconfig_link_shapes", perShape)
	r.Set("tsconfig_chain_depths", perDepth)
	r.Logf("tsconfig: %d chains, %d builds, %d node runs, shapes %v", len(cases), builds, runs, perShape)
}

// tcRunNode: like runNodeItems with smaller batches (the programs are tiny, a fresh V8 context per program dominates)
func tcRunNode(r *core.Run, items []nodeItem) map[string][]nodeOut {
	const batch = 150
	nb := (len(items) + batch - 1) / batch
	out := map[string][]nodeOut{}
	var mu sync.Mutex
	core.Parallel(nb, 6, func(b int) {
		lo, hi := b*batch, (b+1)*batch
		if hi > len(items) {
			hi = len(items)
		}
		var res struct {
			Results []nodeRes `json:"results"`
		}
		if err := nodex.Run(r, "run_c06.js", map[string]interface{}{"items": items[lo:hi]}, &res, 10*time.Minute, ""); err != nil {
			r.Infra("run_c06.js (tsconfig) batch %d: %v", b, err)
			return
		}
		mu.Lock()
		for _, x := range res.Results {
			out[x.ID] = x.Outs
		}
		mu.Unlock()
	})
	return out
}

func tcTreeText(tree map[string]string) string {
	var names []string
	for k := range tree {
		if strings.HasSuffix(k, ".json") {
			names = append(names, k)
		}
	}
	sort.Strings(names)
	var sb strings.Builder
	for _, k := range names {
		fmt.Fprintf(&sb, "%s: %s\n", k, strings.TrimSpace(tree[k]))
	}
	return sb.String()
}
