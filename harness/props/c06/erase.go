package c06

import (
	"encoding/json"
	"fmt"
	"hash/fnv"
	"os"
	"path/filepath"
	"regexp"
	"sort"
	"strings"
	"sync"

	"github.com/evanw/esbuild/pkg/api"

	"verifharness/core"
	"verifharness/tlcrun"
)

// one exported state of spec/TsErase.tla
type insRec struct {
	K string   `json:"k"` // slot kind
	F []string `json:"f"` // filler name
	P int      `json:"p"` // position of the slot in the form
	O int      `json:"o"` // offset in toks (number of tokens before the filler)
	N int      `json:"n"` // number of filler tokens
}

type eraseCase struct {
	Fam   string   `json:"fam"`
	Toks  []string `json:"toks"`
	Prods []string `json:"prods"`
	Pfl   []string `json:"pfl"`
	Ins   []insRec `json:"ins"`
	Ifl   []string `json:"ifl"`
	Amb   bool     `json:"amb"`
	// family "nest": labels of the speculation kinds (outer = context, inner = inside the payload), pairs
	// (slot label, type-form label) of type-level nesting, labels of nested type forms
	Olab []string   `json:"olab,omitempty"`
	Ilab []string   `json:"ilab,omitempty"`
	Tlab [][]string `json:"tlab,omitempty"`
	Nlab []string   `json:"nlab,omitempty"`
	// header record
	AllProds  map[string][]string   `json:"allprods"`
	Kinds     map[string][][]string `json:"kinds"`
	ReqPairs  [][]string            `json:"reqpairs,omitempty"`
	ReqType   [][]string            `json:"reqtype,omitempty"`
	ReqNested []string              `json:"reqnested,omitempty"`
}

// ctxLabel: the context productions of a variant of the family "nest" (a structural identification of the
// speculative context, independent of the payload and of the fillers)
func (c *eraseCase) ctxLabel() string {
	var l []string
	for _, p := range c.Prods {
		if strings.HasPrefix(p, "c-") || strings.HasPrefix(p, "tb-") {
			l = append(l, p)
		}
	}
	sort.Strings(l)
	return strings.Join(l, "+")
}

// pairLabels: the ordered pairs (outer speculation, inner speculation) a variant inhabits
func (c *eraseCase) pairLabels() []string {
	var out []string
	for _, o := range c.Olab {
		for _, i := range c.Ilab {
			out = append(out, o[2:]+">"+i[2:])
		}
	}
	return out
}

func has(l []string, s string) bool {
	for _, x := range l {
		if x == s {
			return true
		}
	}
	return false
}

// typeMask: which tokens are type-space
func (c *eraseCase) typeMask() []bool {
	m := make([]bool, len(c.Toks))
	for _, in := range c.Ins {
		for i := in.O; i < in.O+in.N && i < len(m); i++ {
			m[i] = true
		}
	}
	return m
}

// skeleton: the harness-side erasure (TLC has checked Erase(typed) = Strip(form))
func (c *eraseCase) skeleton() []string {
	m := c.typeMask()
	var out []string
	for i, t := range c.Toks {
		if !m[i] {
			out = append(out, t)
		}
	}
	return out
}

func (c *eraseCase) insLabel() string {
	var l []string
	for _, in := range c.Ins {
		l = append(l, fmt.Sprintf("%s@%d=%s", in.K, in.P, strings.Join(in.F, "/")))
	}
	sort.Strings(l)
	return strings.Join(l, " ")
}

// ---------------------------------------------------------------- rendering

const (
	modeSpaced = "spaced"
	modeTight  = "tight"
	modeNL     = "nl"
)

func isWordByte(b byte) bool {
	return b == '_' || b == '$' || b == '#' || (b >= '0' && b <= '9') || (b >= 'a' && b <= 'z') || (b >= 'A' && b <= 'Z')
}
func isBracketByte(b byte) bool { return strings.IndexByte("()[]{},;", b) >= 0 }

var nlAfter = map[string]bool{"<": true, "(": true, "{": true, "[": true, ",": true, "|": true, "&": true, ":": true, "=>": true, "?": true, "=": true, "extends": true, "...": true}

// render joins tokens; mask marks type-space tokens.  Skeleton tokens are always
// separated by one space (so that JSX text and ASI are the same in every
// rendering); "<NL>" is a line break, "<GLUE>" suppresses the white space, a
// "<FILE name>" token starts a new file (bundle family).
func render(toks []string, mask []bool, mode string) string {
	var sb strings.Builder
	prev := -1 // index of the previous real token
	glue := false
	for i, t := range toks {
		if t == "<NL>" {
			sb.WriteString("\n")
			prev = -1
			continue
		}
		if t == "<GLUE>" {
			glue = true
			continue
		}
		if strings.HasPrefix(t, "<FILE ") {
			sb.WriteString("\n" + t + "\n")
			prev = -1
			continue
		}
		if prev >= 0 && !glue {
			sep := " "
			l, lt, rt := toks[prev], mask != nil && mask[prev], mask != nil && mask[i]
			switch mode {
			case modeTight:
				if lt || rt {
					a, b := l[len(l)-1], t[0]
					switch {
					case isWordByte(a) && isWordByte(b):
					case lt && rt:
						sep = ""
					case isBracketByte(a) || isBracketByte(b):
						sep = ""
					case isWordByte(a) != isWordByte(b) && a != '\'' && b != '\'' && a != '`' && b != '`':
						sep = ""
					case l == "?." && t == "<":
						sep = ""
					}
				}
			case modeNL:
				if lt && rt && nlAfter[l] {
					sep = "\n"
				}
			}
			sb.WriteString(sep)
		}
		glue = false
		sb.WriteString(t)
		prev = i
	}
	return sb.String()
}

var reFile = regexp.MustCompile(`(?m)^<FILE ([^>]+)>$`)

// splitFiles cuts a rendered bundle-family text into its files
func splitFiles(text string) map[string]string {
	files := map[string]string{}
	locs := reFile.FindAllStringSubmatchIndex(text, -1)
	for k, loc := range locs {
		end := len(text)
		if k+1 < len(locs) {
			end = locs[k+1][0]
		}
		files[text[loc[2]:loc[3]]] = strings.TrimSpace(text[loc[1]:end]) + "\n"
	}
	return files
}

// ------------------------------------------------------------ configurations

type eraseCfg struct {
	Name    string `json:"name"`
	Options string `json:"compilerOptions"` // JSON object
	Minify  bool   `json:"minify"`
	Lower   bool   `json:"lower"` // esbuild target es2016 (class fields, async, ... are lowered)
	// derived
	defineTrue bool // class fields certainly have define semantics
	verbatim   bool
	strict     bool
	jsxOnly    bool
}

var baseCfgs = []eraseCfg{
	{Name: "default", Options: `{}`},
	{Name: "define-false", Options: `{"useDefineForClassFields":false}`},
	{Name: "define-true-es2017", Options: `{"useDefineForClassFields":true,"target":"ES2017"}`, defineTrue: true},
	{Name: "target-es2021", Options: `{"target":"ES2021"}`},
	{Name: "target-es2022", Options: `{"target":"ES2022"}`, defineTrue: true},
	{Name: "verbatim", Options: `{"verbatimModuleSyntax":true,"useDefineForClassFields":true}`, verbatim: true, defineTrue: true},
	{Name: "preserve-imports", Options: `{"importsNotUsedAsValues":"preserve","preserveValueImports":true}`},
	{Name: "imports-error", Options: `{"importsNotUsedAsValues":"error"}`},
	{Name: "exp-decorators", Options: `{"experimentalDecorators":true,"emitDecoratorMetadata":true}`},
	{Name: "exp-decorators-define", Options: `{"experimentalDecorators":true,"useDefineForClassFields":true}`, defineTrue: true},
	{Name: "always-strict", Options: `{"alwaysStrict":true}`, strict: true},
	{Name: "strict", Options: `{"strict":true,"useDefineForClassFields":true}`, strict: true, defineTrue: true},
	{Name: "lower-es2016", Options: `{"useDefineForClassFields":true}`, Lower: true, defineTrue: true},
	{Name: "lower-es2016-assign", Options: `{"useDefineForClassFields":false}`, Lower: true},
	{Name: "jsx-preserve", Options: `{"jsx":"preserve"}`, jsxOnly: true},
	{Name: "jsx-automatic", Options: `{"jsx":"react-jsx","jsxImportSource":"p"}`, jsxOnly: true},
	{Name: "jsx-factory", Options: `{"jsx":"react","jsxFactory":"h","jsxFragmentFactory":"Frag"}`, jsxOnly: true},
}

func allCfgs() []eraseCfg {
	var out []eraseCfg
	for _, c := range baseCfgs {
		out = append(out, c)
		m := c
		m.Minify = true
		m.Name += "+minify"
		out = append(out, m)
	}
	return out
}

func (c eraseCfg) transform(src, loader string) (string, string) {
	o := api.TransformOptions{LogLevel: api.LogLevelSilent, TsconfigRaw: `{"compilerOptions":` + c.Options + `}`,
		MinifyWhitespace: c.Minify, MinifySyntax: c.Minify}
	switch loader {
	case "ts":
		o.Loader, o.Sourcefile = api.LoaderTS, "in.ts"
	case "tsx":
		o.Loader, o.Sourcefile = api.LoaderTSX, "in.tsx"
	case "js":
		o.Loader, o.Sourcefile = api.LoaderJS, "in.js"
	case "jsx":
		o.Loader, o.Sourcefile = api.LoaderJSX, "in.jsx"
	}
	if c.Lower {
		o.Target = api.ES2016
	}
	res := api.Transform(src, o)
	if len(res.Errors) > 0 {
		return "", res.Errors[0].Text
	}
	return string(res.Code), ""
}

// build bundles a file tree (entry.ts) and returns the concatenated outputs
func (c eraseCfg) build(r *core.Run, files map[string]string, ext string, seq int64) (string, string) {
	dir := filepath.Join(r.Scratch, fmt.Sprintf("bundle-%d", seq))
	defer os.RemoveAll(dir)
	tree := map[string]string{}
	for name, content := range files {
		tree[strings.TrimSuffix(name, ".ts")+ext] = content
	}
	if err := core.WriteTree(dir, tree); err != nil {
		return "", "infra: " + err.Error()
	}
	o := api.BuildOptions{LogLevel: api.LogLevelSilent, AbsWorkingDir: dir, EntryPoints: []string{"entry" + ext}, Bundle: true, Write: false,
		Outdir: "out", Format: api.FormatESModule, TsconfigRaw: `{"compilerOptions":` + c.Options + `}`,
		MinifyWhitespace: c.Minify, MinifySyntax: c.Minify}
	if c.Lower {
		o.Target = api.ES2016
	}
	res := api.Build(o)
	if len(res.Errors) > 0 {
		return "", res.Errors[0].Text
	}
	var sb strings.Builder
	for _, f := range res.OutputFiles {
		sb.WriteString("//// " + filepath.Base(f.Path) + "\n")
		// the comments that name the source files carry the extension
		sb.WriteString(strings.ReplaceAll(string(f.Contents), ext+"\n", ".ts\n"))
	}
	// the comments that name the source files carry the extension
	return sb.String(), ""
}

func hash32(parts ...string) uint32 {
	h := fnv.New32a()
	for _, p := range parts {
		h.Write([]byte(p))
		h.Write([]byte{0})
	}
	return h.Sum32()
}

// ------------------------------------------------------------------ binding

type skelInfo struct {
	c     *eraseCase // the case with no insertion
	text  string
	files map[string]string
	mu    sync.Mutex
	outs  map[string][2]string // loader/cfg -> (code, error)
}

var buildSeq struct {
	sync.Mutex
	n int64
}

func nextSeq() int64 { buildSeq.Lock(); defer buildSeq.Unlock(); buildSeq.n++; return buildSeq.n }

func (s *skelInfo) out(r *core.Run, loader string, cf eraseCfg) (string, string) {
	k := loader + "\x00" + cf.Name
	s.mu.Lock()
	if v, ok := s.outs[k]; ok {
		s.mu.Unlock()
		return v[0], v[1]
	}
	s.mu.Unlock()
	var code, errText string
	if s.files != nil {
		code, errText = cf.build(r, s.files, "."+loader, nextSeq())
	} else {
		code, errText = cf.transform(s.text, loader)
	}
	s.mu.Lock()
	s.outs[k] = [2]string{code, errText}
	s.mu.Unlock()
	return code, errText
}

func loadersOf(c *eraseCase) (typedLoaders []string, jsLoader map[string]string) {
	jsLoader = map[string]string{"ts": "js", "tsx": "jsx"}
	if has(c.Pfl, "jsx") {
		if has(c.Ifl, "notsx") {
			return nil, jsLoader // not a valid .tsx file
		}
		return []string{"tsx"}, jsLoader
	}
	if has(c.Ifl, "notsx") {
		return []string{"ts"}, jsLoader
	}
	return []string{"ts", "tsx"}, jsLoader
}

func cfgApplies(cf eraseCfg, c *eraseCase) bool {
	if cf.jsxOnly && !has(c.Pfl, "jsx") {
		return false
	}
	if cf.verbatim && has(c.Ifl, "nv") {
		return false
	}
	return true
}

func eraseBinding(r *core.Run) {
	cfgName := map[bool]string{false: "TsErase.quick.cfg", true: "TsErase.thorough.cfg"}[r.Thorough()]
	raw, err := os.ReadFile(filepath.Join(r.Verif, "spec", "cfg", cfgName))
	if err != nil {
		r.Infra("cannot read %s: %v", cfgName, err)
		return
	}
	// the sampling phase of the rich filler alphabet follows the seed
	cfgText := regexp.MustCompile(`(?m)^(\s*Phase\s*=\s*).*$`).ReplaceAllString(string(raw), "${1}"+fmt.Sprint(r.Seed%1000))
	var mu sync.Mutex
	var cases []*eraseCase
	var header *eraseCase
	var dwg sync.WaitGroup
	dwg.Add(1)
	go func() { defer dwg.Done(); designCheck(r) }()
	defer dwg.Wait()
	res := tlcrun.MustHold(r, tlcrun.Options{Module: "TsErase", Config: cfgName, Workers: r.Pick(6, 6), TimeoutSec: r.Pick(900, 2400), HeapGB: 8,
		Files: map[string]string{cfgName: cfgText},
		OnCase: func(raw []byte) {
			c := &eraseCase{}
			if err := json.Unmarshal(raw, c); err != nil {
				r.Infra("undecodable CASE: %v", err)
				return
			}
			mu.Lock()
			if c.AllProds != nil {
				header = c
			} else {
				cases = append(cases, c)
			}
			mu.Unlock()
		}})
	if res == nil || len(cases) == 0 || header == nil {
		r.Infra("TsErase exported no cases")
		return
	}
	r.Set("tlc_erase", map[string]interface{}{"config": cfgName, "generated": res.Generated, "distinct": res.Distinct, "depth": res.Depth, "variants": len(cases),
		"invariants": []string{"TypeOK", "EraseOK", "Bounded"}})
	evalErase(r, cases, header, nil)
}

// designCheck: the full set of invariants and the action property on a small instance with unordered
// multiple insertions (insertions commute: RenderOK)
func designCheck(r *core.Run) {
	res := tlcrun.MustHold(r, tlcrun.Options{Module: "TsErase", Config: "TsErase.design.cfg", Workers: 1, TimeoutSec: 600, HeapGB: 4})
	if res != nil {
		r.Set("tlc_erase_design", map[string]interface{}{"generated": res.Generated, "distinct": res.Distinct, "depth": res.Depth,
			"invariants": []string{"TypeOK", "EraseOK", "RenderOK", "Bounded", "RunsOK"}, "action_property": "InsertMonotone"})
	}
}

type eraseReplay struct {
	Case   *eraseCase `json:"case"`
	Skel   *eraseCase `json:"skeleton_case"`
	Cfg    eraseCfg   `json:"config"`
	Mode   string     `json:"rendering"`
	Loader string     `json:"loader"`
}

func replayErase(r *core.Run, detail json.RawMessage) {
	var d eraseReplay
	if err := json.Unmarshal(detail, &d); err != nil || d.Case == nil {
		r.Infra("undecodable erase replay: %v", err)
		return
	}
	for _, c := range allCfgs() { // restore the derived fields
		if c.Name == d.Cfg.Name {
			d.Cfg = c
		}
	}
	cases := []*eraseCase{d.Case}
	if d.Skel != nil && len(d.Case.Ins) > 0 {
		cases = append(cases, d.Skel)
	}
	evalErase(r, cases, nil, &d)
}

func evalErase(r *core.Run, cases []*eraseCase, header *eraseCase, only *eraseReplay) {
	// deterministic order
	sort.Slice(cases, func(i, j int) bool {
		a, b := cases[i], cases[j]
		if a.Fam != b.Fam {
			return a.Fam < b.Fam
		}
		if x, y := strings.Join(a.Toks, " "), strings.Join(b.Toks, " "); x != y {
			return x < y
		}
		return a.insLabel() < b.insLabel()
	})
	skels := map[string]*skelInfo{}
	for _, c := range cases {
		if len(c.Ins) == 0 {
			key := c.Fam + "\x00" + strings.Join(c.Toks, " ")
			s := &skelInfo{c: c, text: render(c.Toks, nil, modeSpaced), outs: map[string][2]string{}}
			if c.Fam == "bundle" {
				s.files = splitFiles(s.text)
			}
			skels[key] = s
		}
	}
	cfgs := allCfgs()
	byName := map[string]eraseCfg{}
	for _, c := range cfgs {
		byName[c.Name] = c
	}
	modes := []string{modeSpaced, modeTight, modeNL}
	usedProds := map[string]bool{}
	usedFillers := map[string]bool{}
	var st struct {
		sync.Mutex
		pairs, tsjs, bothReject, typedOutputs, skelTsDiff int64
		perFam                                            map[string]int
		perKind                                           map[string]int
		pairs2, tpairs, nested                            map[string]int
	}
	st.perFam, st.perKind = map[string]int{}, map[string]int{}
	st.pairs2, st.tpairs, st.nested = map[string]int{}, map[string]int{}, map[string]int{}
	var smu sync.Mutex

	core.Parallel(len(cases), 8, func(i int) {
		c := cases[i]
		sk := skels[c.Fam+"\x00"+strings.Join(c.skeleton(), " ")]
		if sk == nil {
			r.Infra("variant without exported skeleton: %s", strings.Join(c.Toks, " "))
			return
		}
		id := c.Fam + ":" + strings.Join(c.Toks, " ") + " | " + c.insLabel()
		nontrivial := c.Amb || (len(c.Ins) == 0 && has(c.Pfl, "amb") && (c.Fam == "cmp" || c.Fam == "nest"))
		r.Case(id, nontrivial)
		loaders, jsOf := loadersOf(c)
		mask := c.typeMask()
		// choice of (configuration, loader, rendering) triples
		type triple struct {
			cf     eraseCfg
			loader string
			mode   string
		}
		var plan []triple
		var app []eraseCfg
		for _, cf := range cfgs {
			if cfgApplies(cf, c) {
				app = append(app, cf)
			}
		}
		// esbuild keeps import/export clauses on one line iff they were on one line in the source: no line breaks there
		myModes := modes
		for _, in := range c.Ins {
			if in.K == "@impi" || in.K == "@impi2" || in.K == "@cimp" {
				myModes = []string{modeSpaced, modeTight}
			}
		}
		if len(c.Ins) == 0 {
			myModes = []string{modeSpaced}
		}
		h := hash32(id, fmt.Sprint(r.Seed))
		switch {
		case len(loaders) == 0:
		case only != nil:
			plan = []triple{{only.Cfg, only.Loader, only.Mode}}
		case r.Thorough():
			// the default option set and three others (chosen by the hash of the variant and the seed; over the
			// variants every option set is used), each under every loader and every rendering
			pick := func(k uint32) eraseCfg { return app[1+int((h/k)%uint32(len(app)-1))] }
			for _, cf := range []eraseCfg{app[0], pick(1), pick(97), pick(389)} {
				for _, l := range loaders {
					for _, m := range myModes {
						plan = append(plan, triple{cf, l, m})
					}
				}
			}
			if has(c.Pfl, "jsx") {
				for _, cf := range app {
					if cf.jsxOnly {
						plan = append(plan, triple{cf, "tsx", myModes[0]}, triple{cf, "tsx", myModes[len(myModes)-1]})
					}
				}
			}
		default:
			pick := func(k uint32) eraseCfg { return app[1+int((h/k)%uint32(len(app)-1))] }
			plan = append(plan, triple{app[0], loaders[0], modeSpaced})
			plan = append(plan, triple{pick(1), loaders[int((h/3)%uint32(len(loaders)))], myModes[int((h/13)%uint32(len(myModes)))]})
			if nontrivial || len(c.Ins) == 0 {
				plan = append(plan, triple{pick(97), loaders[int((h/3+1)%uint32(len(loaders)))], myModes[int((h/13+1)%uint32(len(myModes)))]})
			}
			if has(c.Pfl, "jsx") { // always one of the jsx option sets
				var jx []eraseCfg
				for _, cf := range app {
					if cf.jsxOnly {
						jx = append(jx, cf)
					}
				}
				plan = append(plan, triple{jx[int((h/7)%uint32(len(jx)))], "tsx", myModes[int((h/11)%uint32(len(myModes)))]})
			}
		}
		var local struct{ pairs, tsjs, bothReject, outs, tsdiff int64 }
		seen := map[string]bool{}
		for _, t := range plan {
			cf, loader, mode := t.cf, t.loader, t.mode
			if k := cf.Name + "/" + loader + "/" + mode; seen[k] {
				continue
			} else {
				seen[k] = true
			}
			skOut, skErr := sk.out(r, loader, cf)
			// --- the converse direction, once per (skeleton, loader, cfg): ts vs js
			if len(c.Ins) == 0 {
				switch {
				case has(c.Pfl, "tsdiff"):
					local.tsdiff++
				case cf.strict, has(c.Pfl, "field") && !cf.defineTrue:
				default:
					jsOut, jsErr := sk.out(r, jsOf[loader], cf)
					local.tsjs++
					key := map[string]interface{}{"part": "erase", "check": "ts-vs-js", "fam": c.Fam, "skeleton": sk.text, "config": cf.Name, "loader": loader, "error": skErr, "ctx": c.ctxLabel()}
					det := map[string]interface{}{"case": c, "config": cf, "loader": loader, "rendering": modeSpaced, "input": sk.text, "ts_output": skOut, "ts_error": skErr, "js_output": jsOut, "js_error": jsErr}
					switch {
					case jsErr != "" && skErr != "":
						local.bothReject++
					case jsErr != "":
						// not valid JavaScript for esbuild: no requirement
					case skErr != "":
						r.Violation(key, fmt.Sprintf("valid JavaScript is rejected under the %s loader (accepted under %s): %q: %s", loader, jsOf[loader], sk.text, skErr), det)
					case jsOut != skOut:
						r.Violation(key, fmt.Sprintf("JavaScript compiles differently under the %s and %s loaders (config %s): %q\n--- %s\n%s--- %s\n%s", loader, jsOf[loader], cf.Name, sk.text, loader, skOut, jsOf[loader], jsOut), det)
					}
				}
				continue
			}
			// --- typed vs skeleton
			text := render(c.Toks, mask, mode)
			var out, errText string
			if sk.files != nil {
				out, errText = cf.build(r, splitFiles(text), "."+loader, nextSeq())
			} else {
				out, errText = cf.transform(text, loader)
			}
			local.pairs++
			key := map[string]interface{}{"part": "erase", "check": "typed-vs-skeleton", "fam": c.Fam, "skeleton": sk.text, "ins": c.insLabel(), "config": cf.Name, "loader": loader, "rendering": mode, "error": errText, "ctx": c.ctxLabel()}
			det := map[string]interface{}{"case": c, "skeleton_case": sk.c, "config": cf, "loader": loader, "rendering": mode, "typed": text, "skeleton": sk.text,
				"typed_output": out, "typed_error": errText, "skeleton_output": skOut, "skeleton_error": skErr}
			switch {
			case skErr != "" && errText != "":
				local.bothReject++
			case skErr != "":
				r.Violation(key, fmt.Sprintf("the untyped program is rejected but its typed version is accepted (%s, %s): %q: %s", loader, cf.Name, sk.text, skErr), det)
			case errText != "":
				key["check"] = "typed-rejected"
				r.Violation(key, fmt.Sprintf("valid TypeScript is rejected (%s, %s, %s): %q: %s", loader, cf.Name, mode, text, errText), det)
			case out != skOut:
				r.Violation(key, fmt.Sprintf("type syntax changes the emitted JavaScript (%s, %s, %s):\n  typed:    %q\n  skeleton: %q\n--- typed output\n%s--- skeleton output\n%s", loader, cf.Name, mode, text, sk.text, out, skOut), det)
			default:
				local.outs++
			}
		}
		st.Lock()
		st.pairs += local.pairs
		st.tsjs += local.tsjs
		st.bothReject += local.bothReject
		st.typedOutputs += local.outs
		st.skelTsDiff += local.tsdiff
		st.perFam[c.Fam]++
		for _, in := range c.Ins {
			st.perKind[in.K]++
			usedFillers[in.K+"/"+strings.Join(in.F, "/")] = true
		}
		for _, p := range c.Prods {
			usedProds[c.Fam+":"+p] = true
		}
		if len(loaders) > 0 {
			for _, p := range c.pairLabels() {
				st.pairs2[p]++
			}
			for _, t := range c.Tlab {
				if len(t) == 2 {
					st.tpairs[t[0][2:]+">"+t[1][2:]]++
				}
			}
			for _, n := range c.Nlab {
				st.nested[n[2:]]++
			}
		}
		st.Unlock()
		if i%(len(cases)/5+1) == 3 && len(c.Ins) > 0 {
			smu.Lock()
			r.Sample(map[string]interface{}{"part": "erase", "family": c.Fam, "typed": render(c.Toks, mask, modeTight), "skeleton": sk.text, "insertions": c.insLabel(), "ambiguous": c.Amb,
				"output_ts_default": func() string { o, _ := sk.out(r, loaders[0], byName["default"]); return o }()})
			smu.Unlock()
		}
	})
	r.AddTraces(st.pairs + st.tsjs)
	if only != nil {
		return
	}
	r.Set("erase_variants_per_family", st.perFam)
	r.Set("erase_insertions_per_slot_kind", st.perKind)
	r.Set("erase_skeletons", len(skels))
	r.Set("erase_typed_vs_skeleton_comparisons", st.pairs)
	r.Set("erase_ts_vs_js_comparisons", st.tsjs)
	r.Set("erase_rejected_by_both", st.bothReject)
	r.Set("erase_ts_vs_js_skipped_typescript_reads_differently", st.skelTsDiff)
	var cn []string
	for _, c := range cfgs {
		cn = append(cn, c.Name)
	}
	r.Set("erase_configurations", cn)
	r.Set("erase_renderings", modes)
	// non-vacuity: every production and every (sampled) filler of every slot kind was used
	var missing []string
	total := 0
	for fam, ps := range header.AllProds {
		for _, p := range ps {
			total++
			if !usedProds[fam+":"+p] {
				missing = append(missing, fam+":"+p)
			}
		}
	}
	nf := 0
	for k, fs := range header.Kinds {
		for _, f := range fs {
			nf++
			if !usedFillers[k+"/"+strings.Join(f, "/")] {
				missing = append(missing, k+"/"+strings.Join(f, "/"))
			}
		}
	}
	// nested speculation: every required ordered pair (outer kind, inner kind) was evaluated
	for _, p := range header.ReqPairs {
		if len(p) == 2 && st.pairs2[p[0][2:]+">"+p[1][2:]] == 0 {
			missing = append(missing, "pair "+p[0][2:]+">"+p[1][2:])
		}
	}
	for _, p := range header.ReqType {
		if len(p) == 2 && st.tpairs[p[0][2:]+">"+p[1][2:]] == 0 {
			missing = append(missing, "type-level pair "+p[0][2:]+">"+p[1][2:])
		}
	}
	for _, n := range header.ReqNested {
		if st.nested[n[2:]] == 0 {
			missing = append(missing, "nested type form "+n[2:])
		}
	}
	r.Set("erase_nested_speculation_pairs", st.pairs2)
	r.Set("erase_type_level_speculation_pairs", st.tpairs)
	r.Set("erase_nested_type_forms", st.nested)
	sort.Strings(missing)
	r.Set("erase_productions", total)
	r.Set("erase_fillers_in_alphabet", nf)
	r.Set("erase_unused_productions_or_fillers", missing)
	if len(missing) > 0 {
		r.Infra("spec non-vacuity: %d productions/fillers never used in an exported variant: %v", len(missing), missing)
	}
	r.Logf("erase: %d variants of %d skeletons, %d typed-vs-skeleton and %d ts-vs-js comparisons, %d rejected by both", len(cases), len(skels), st.pairs, st.tsjs, st.bothReject)
}
