package c06

import (
	"encoding/json"
	"fmt"
	"sort"
	"strings"
	"sync"

	"verifharness/core"
	"verifharness/tlcrun"
)

// converseBinding: "every valid JavaScript program compiles identically under the ts and js loaders", over the
// strings derived by the grammar machine of C13 (spec/JsGrammar.tla: contextual keywords as identifiers, class
// elements, cover grammars, ASI).  A string that esbuild accepts under the js loader must be accepted under the ts
// loader and give the same output, unless TypeScript itself reads it differently (documented differences, decided
// from the token text alone, never from the outcome).
type gramCase struct {
	Grammar  string   `json:"grammar"`
	Toks     []string `json:"toks"`
	Prods    []string `json:"prods"`
	AllProds []string `json:"allprods"`
}

func gramJoin(toks []string) string {
	var sb strings.Builder
	for i, t := range toks {
		if t == "<NL>" {
			sb.WriteString("\n")
			continue
		}
		if i > 0 && toks[i-1] != "<NL>" {
			sb.WriteString(" ")
		}
		sb.WriteString(t)
	}
	return sb.String()
}

// tsReadsDifferently: the documented places where a TypeScript file is not a superset of JavaScript
func tsReadsDifferently(toks []string) string {
	for i, t := range toks {
		// a "<" that TypeScript may take for the start of type arguments or of a type assertion
		if t == "<" || t == "<<" {
			return "less-than (type arguments / type assertion)"
		}
		_ = i
	}
	return ""
}

func converseBinding(r *core.Run) {
	grammars := []string{"idents", "class", "cover", "asi"}
	if !r.Thorough() {
		grammars = []string{[]string{"idents", "class", "cover", "asi"}[int(r.Seed)%4]}
	}
	var mu sync.Mutex
	var cases []gramCase
	for _, g := range grammars {
		res := tlcrun.MustHold(r, tlcrun.Options{Module: "JsGrammar", Config: fmt.Sprintf("JsGrammar.%s.quick.cfg", g), Workers: 2, TimeoutSec: 1800, HeapGB: 4,
			OnCase: func(raw []byte) {
				var c gramCase
				if err := json.Unmarshal(raw, &c); err != nil {
					r.Infra("undecodable JsGrammar CASE: %v", err)
					return
				}
				if len(c.AllProds) > 0 {
					return
				}
				mu.Lock()
				cases = append(cases, c)
				mu.Unlock()
			}})
		if res != nil {
			r.Set("tlc_converse_"+g, map[string]interface{}{"generated": res.Generated, "distinct": res.Distinct})
		}
	}
	seen := map[string]bool{}
	var texts []string
	byText := map[string]gramCase{}
	for _, c := range cases {
		t := gramJoin(c.Toks)
		if !seen[t] {
			seen[t] = true
			texts = append(texts, t)
			byText[t] = c
		}
	}
	sort.Strings(texts)
	cfgs := allCfgs()
	var st struct {
		sync.Mutex
		compared, invalidJS, tsDiff int
	}
	core.Parallel(len(texts), 8, func(i int) {
		text := texts[i]
		c := byText[text]
		if why := tsReadsDifferently(c.Toks); why != "" {
			st.Lock()
			st.tsDiff++
			st.Unlock()
			return
		}
		h := hash32(text, fmt.Sprint(r.Seed))
		pick := []eraseCfg{cfgs[0], cfgs[1+int(h%uint32(len(cfgs)-1))]}
		if strings.Contains(text, "import ") {
			// the documented elision of unused imports: compare with verbatimModuleSyntax only
			pick = nil
			for _, cf := range cfgs {
				if cf.verbatim && !cf.Minify {
					pick = append(pick, cf)
				}
			}
		}
		for _, cf := range pick {
			if cf.strict || cf.jsxOnly || !cf.defineTrue && strings.Contains(text, "class") {
				continue
			}
			jsOut, jsErr := cf.transform(text, "js")
			if jsErr != "" {
				st.Lock()
				st.invalidJS++
				st.Unlock()
				continue
			}
			tsOut, tsErr := cf.transform(text, "ts")
			st.Lock()
			st.compared++
			st.Unlock()
			r.Case("converse:"+text, false)
			key := map[string]interface{}{"part": "converse", "check": "ts-vs-js", "grammar": c.Grammar, "skeleton": text, "config": cf.Name, "error": tsErr}
			det := map[string]interface{}{"case": c, "config": cf, "input": text, "ts_output": tsOut, "ts_error": tsErr, "js_output": jsOut}
			if tsErr != "" {
				r.Violation(key, fmt.Sprintf("valid JavaScript is rejected under the ts loader: %q: %s", text, tsErr), det)
			} else if tsOut != jsOut {
				r.Violation(key, fmt.Sprintf("JavaScript compiles differently under the ts and js loaders (%s): %q\n--- ts\n%s--- js\n%s", cf.Name, text, tsOut, jsOut), det)
			}
		}
	})
	r.AddTraces(int64(st.compared))
	r.Set("converse_strings", len(texts))
	r.Set("converse_compared", st.compared)
	r.Set("converse_not_javascript_for_esbuild", st.invalidJS)
	r.Set("converse_skipped_typescript_reads_differently", st.tsDiff)
	r.Set("converse_grammars", grammars)
	r.Logf("converse: %d strings of %v, %d comparisons, %d not accepted as js, %d skipped (TypeScript reads '<' differently)", len(texts), grammars, st.compared, st.invalidJS, st.tsDiff)
}
