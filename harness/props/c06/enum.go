package c06

import (
	"encoding/json"
	"fmt"
	"math"
	"os"
	"path/filepath"
	"regexp"
	"sort"
	"strconv"
	"strings"
	"sync"
	"time"

	"github.com/evanw/esbuild/pkg/api"

	"verifharness/core"
	"verifharness/nodex"
	"verifharness/tlcrun"
)

// one program exported by spec/TsEnum.tla
type enumMember struct {
	Name string   `json:"name"`
	Auto bool     `json:"auto"`
	Src  []string `json:"src"`
	JSrc []string `json:"jsrc"`
	Val  Val      `json:"val"`
}

type enumDecl struct {
	Name  string       `json:"name"`
	Const bool         `json:"const"`
	Mod   int          `json:"mod"`
	Mem   []enumMember `json:"mem"`
}

type objEntry struct {
	K []int `json:"k"`
	V Val   `json:"v"`
}

type enumCase struct {
	Exact   bool                  `json:"exact"`
	Rich    bool                  `json:"rich"`
	Decls   []enumDecl            `json:"decls"`
	Objects map[string][]objEntry `json:"objects"`
}

const enumPrelude = `function __ser(v){ return typeof v === 'number' ? (Object.is(v, -0) ? '-0' : String(v)) : typeof v === 'string' ? JSON.stringify(v) : typeof v }
function __dump(o){ return Object.keys(o).sort().map(function(k){ return JSON.stringify(k) + ':' + __ser(o[k]) }).join(',') }
`

func cuString(cu []int) string {
	var sb strings.Builder
	for _, c := range cu {
		sb.WriteRune(rune(c))
	}
	return sb.String()
}

// ts renders the declarations of one module as TypeScript
func (c *enumCase) ts(mod int, export bool) string {
	var sb strings.Builder
	for _, d := range c.Decls {
		if d.Mod != mod {
			continue
		}
		if export {
			sb.WriteString("export ")
		}
		if d.Const {
			sb.WriteString("const ")
		}
		sb.WriteString("enum " + d.Name + " {\n")
		for _, m := range d.Mem {
			if m.Auto {
				sb.WriteString("  " + m.Name + ",\n")
			} else {
				sb.WriteString("  " + m.Name + " = " + strings.Join(m.Src, " ") + ",\n")
			}
		}
		sb.WriteString("}\n")
	}
	return sb.String()
}

func (c *enumCase) names(mod int) []string {
	seen := map[string]bool{}
	var out []string
	for _, d := range c.Decls {
		if (mod == 0 || d.Mod == mod) && !seen[d.Name] {
			seen[d.Name] = true
			out = append(out, d.Name)
		}
	}
	return out
}

func (c *enumCase) isConst(name string) bool {
	for _, d := range c.Decls {
		if d.Name == name {
			return d.Const
		}
	}
	return false
}

// observations: the object of every non-const enum and two spellings of every member use
func (c *enumCase) observe() (code string, labels []string) {
	var sb strings.Builder
	sb.WriteString("var __o = [];\n")
	for _, n := range c.names(0) {
		if !c.isConst(n) {
			sb.WriteString("__o.push(__dump(" + n + "));\n")
			labels = append(labels, "object "+n)
		}
		k := 0
		for _, d := range c.Decls {
			if d.Name != n {
				continue
			}
			for _, m := range d.Mem {
				if k%2 == 0 {
					sb.WriteString("__o.push(__ser(" + n + "." + m.Name + "));\n")
					labels = append(labels, n+"."+m.Name)
				} else {
					sb.WriteString("__o.push(__ser(" + n + "[\"" + m.Name + "\"]));\n")
					labels = append(labels, n+"[\""+m.Name+"\"]")
				}
				k++
			}
		}
	}
	sb.WriteString("globalThis.__out = __o.join('\\n');\n")
	return sb.String(), labels
}

// expected observations from the specification
func (c *enumCase) expected() []string {
	var out []string
	for _, n := range c.names(0) {
		if !c.isConst(n) {
			var es []string
			for _, e := range c.Objects[n] {
				es = append(es, quoteJS(cuString(e.K))+":"+e.V.Ser())
			}
			sort.Strings(es)
			out = append(out, strings.Join(es, ","))
		}
		for _, d := range c.Decls {
			if d.Name == n {
				for _, m := range d.Mem {
					out = append(out, m.Val.Ser())
				}
			}
		}
	}
	return out
}

// reference translation to plain JavaScript, following the TypeScript handbook ("Enums at runtime",
// "Reverse mappings"): a string-valued member gets no reverse mapping
func (c *enumCase) reference() string {
	var sb strings.Builder
	sb.WriteString(enumPrelude)
	for _, d := range c.Decls {
		sb.WriteString("var " + d.Name + ";\n(function (" + d.Name + ") {\n  var __v, __p;\n")
		for i, m := range d.Mem {
			expr := strings.Join(m.JSrc, " ")
			if m.Auto {
				if i == 0 {
					expr = "0"
				} else {
					expr = "__p + 1"
				}
			}
			fmt.Fprintf(&sb, "  __v = (%s); __p = __v;\n  if (typeof __v === 'string') %s[\"%s\"] = __v; else %s[%s[\"%s\"] = __v] = \"%s\";\n", expr, d.Name, m.Name, d.Name, d.Name, m.Name, m.Name)
		}
		sb.WriteString("})(" + d.Name + " || (" + d.Name + " = {}));\n")
	}
	obs, _ := c.observe()
	sb.WriteString(obs)
	return sb.String()
}

// usesPow: some initialiser of the program contains the exponentiation operator
func (c *enumCase) usesPow() bool {
	for _, d := range c.Decls {
		for _, m := range d.Mem {
			for _, t := range m.JSrc {
				if t == "**" {
					return true
				}
			}
		}
	}
	return false
}

var reNumLit = regexp.MustCompile(`[0-9]+(?:\.[0-9]+)?(?:e[+-]?[0-9]+)?`)

// lastUlpOnly: the two observations are equal except for numbers that differ by at most one unit in the last place
func lastUlpOnly(a, b string) bool {
	if reNumLit.ReplaceAllString(a, "#") != reNumLit.ReplaceAllString(b, "#") {
		return false
	}
	x, y := reNumLit.FindAllString(a, -1), reNumLit.FindAllString(b, -1)
	if len(x) != len(y) {
		return false
	}
	for i := range x {
		if x[i] == y[i] {
			continue
		}
		f, e1 := strconv.ParseFloat(x[i], 64)
		g, e2 := strconv.ParseFloat(y[i], 64)
		if e1 != nil || e2 != nil || (math.Nextafter(f, g) != g && f != g) {
			return false
		}
	}
	return true
}

// class names the structural classes of programs that esbuild, compiling every file in isolation, cannot
// translate as tsc does (TypeScript itself rejects them under isolatedModules: TS18055, TS18056)
func (c *enumCase) class() string {
	modOf := map[string]int{}
	for _, d := range c.Decls {
		modOf[d.Name] = d.Mod
	}
	for _, d := range c.Decls {
		cross := false // the previous member's value depends on an enum of another file
		for _, m := range d.Mem {
			if m.Auto {
				if cross {
					return "auto-increment-after-cross-module-reference"
				}
				continue
			}
			cross = false
			for i, t := range m.JSrc {
				if mod, ok := modOf[t]; ok && mod != d.Mod && i+1 < len(m.JSrc) && (m.JSrc[i+1] == "." || m.JSrc[i+1] == "[") {
					cross = true
				}
			}
			if cross && m.Val.T == "str" {
				return "string-valued-cross-module-reference"
			}
		}
	}
	return ""
}

func (c *enumCase) multiFile() bool {
	for _, d := range c.Decls {
		if d.Mod == 1 {
			return true
		}
	}
	return false
}

// files: the TypeScript program (b.ts is the entry)
func (c *enumCase) files() map[string]string {
	obs, _ := c.observe()
	files := map[string]string{}
	b := ""
	if c.multiFile() {
		files["a.ts"] = c.ts(1, true)
		b = "import { " + strings.Join(c.names(1), ", ") + " } from './a'\n"
	}
	files["b.ts"] = b + enumPrelude + c.ts(2, false) + obs
	return files
}

type enumVariant struct {
	Name   string
	Minify bool
	Bundle bool
}

var enumSeq struct {
	sync.Mutex
	n int
}

func compileTS(r *core.Run, files map[string]string, entry string, minify bool, tsconfig string, target api.Target) (string, string) {
	if len(files) == 1 {
		o := api.TransformOptions{Loader: api.LoaderTS, LogLevel: api.LogLevelSilent, Sourcefile: entry, MinifySyntax: minify, MinifyWhitespace: minify, MinifyIdentifiers: minify,
			TsconfigRaw: tsconfig, Target: target}
		res := api.Transform(files[entry], o)
		if len(res.Errors) > 0 {
			return "", res.Errors[0].Text
		}
		return string(res.Code), ""
	}
	enumSeq.Lock()
	enumSeq.n++
	dir := filepath.Join(r.Scratch, fmt.Sprintf("rt-%d", enumSeq.n))
	enumSeq.Unlock()
	defer os.RemoveAll(dir)
	if err := core.WriteTree(dir, files); err != nil {
		return "", "infra: " + err.Error()
	}
	res := api.Build(api.BuildOptions{LogLevel: api.LogLevelSilent, AbsWorkingDir: dir, EntryPoints: []string{entry}, Bundle: true, Write: false, Outfile: "out.js",
		Format: api.FormatIIFE, MinifySyntax: minify, MinifyWhitespace: minify, MinifyIdentifiers: minify, TsconfigRaw: tsconfig, Target: target})
	if len(res.Errors) > 0 {
		return "", res.Errors[0].Text
	}
	if len(res.OutputFiles) != 1 {
		return "", fmt.Sprintf("infra: %d output files", len(res.OutputFiles))
	}
	return string(res.OutputFiles[0].Contents), ""
}

type nodeItem struct {
	ID   string   `json:"id"`
	Srcs []string `json:"srcs"`
}
type nodeOut struct {
	Out   string `json:"out"`
	Error string `json:"error"`
}
type nodeRes struct {
	ID   string    `json:"id"`
	Outs []nodeOut `json:"outs"`
}

// runNodeItems executes the items in batches on several node processes
func runNodeItems(r *core.Run, items []nodeItem) map[string][]nodeOut {
	const batch = 400
	nb := (len(items) + batch - 1) / batch
	out := map[string][]nodeOut{}
	var mu sync.Mutex
	core.Parallel(nb, 4, func(b int) {
		lo, hi := b*batch, (b+1)*batch
		if hi > len(items) {
			hi = len(items)
		}
		var res struct {
			Results []nodeRes `json:"results"`
		}
		if err := nodex.Run(r, "run_c06.js", map[string]interface{}{"items": items[lo:hi]}, &res, 10*time.Minute, ""); err != nil {
			r.Infra("run_c06.js batch %d: %v", b, err)
			return
		}
		mu.Lock()
		for _, x := range res.Results {
			out[x.ID] = x.Outs
		}
		mu.Unlock()
	})
	return out
}

func enumBinding(r *core.Run) {
	if f := os.Getenv("C06_ENUM_CASES"); f != "" { // development: cases from a saved TLC output
		data, _ := os.ReadFile(f)
		var cases []*enumCase
		for _, line := range strings.Split(string(data), "\n") {
			if strings.HasPrefix(line, `<<"CASE", `) {
				var s string
				c := &enumCase{}
				if json.Unmarshal([]byte(line[len(`<<"CASE", `):len(line)-2]), &s) == nil && json.Unmarshal([]byte(s), c) == nil {
					cases = append(cases, c)
				}
			}
		}
		evalEnums(r, cases, false)
		return
	}
	cfgName := map[bool]string{false: "TsEnum.quick.cfg", true: "TsEnum.thorough.cfg"}[r.Thorough()]
	raw, err := os.ReadFile(filepath.Join(r.Verif, "spec", "cfg", cfgName))
	if err != nil {
		r.Infra("cannot read %s: %v", cfgName, err)
		return
	}
	cfgText := regexp.MustCompile(`(?m)^(\s*OpPhase\s*=\s*).*$`).ReplaceAllString(string(raw), "${1}"+fmt.Sprint(r.Seed%1000))
	var mu sync.Mutex
	var cases []*enumCase
	res := tlcrun.MustHold(r, tlcrun.Options{Module: "TsEnum", Config: cfgName, Workers: r.Pick(4, 6), TimeoutSec: r.Pick(900, 2400), HeapGB: 6, XssMB: 64,
		Files: map[string]string{cfgName: cfgText},
		OnCase: func(raw []byte) {
			c := &enumCase{}
			if err := json.Unmarshal(raw, c); err != nil {
				r.Infra("undecodable enum CASE: %v", err)
				return
			}
			mu.Lock()
			cases = append(cases, c)
			mu.Unlock()
		}})
	if res == nil || len(cases) == 0 {
		r.Infra("TsEnum exported no cases")
		return
	}
	r.Set("tlc_enum", map[string]interface{}{"config": cfgName, "generated": res.Generated, "distinct": res.Distinct, "depth": res.Depth, "programs": len(cases),
		"invariants": []string{"ValuesOK", "AutoOK", "NamesOK"}, "assertion_in_Export": "ObjectOK"})
	evalEnums(r, cases, false)
}

func evalEnums(r *core.Run, cases []*enumCase, replay bool) {
	sort.Slice(cases, func(i, j int) bool { return cases[i].files()["b.ts"]+cases[i].files()["a.ts"] < cases[j].files()["b.ts"]+cases[j].files()["a.ts"] })
	type prepared struct {
		c      *enumCase
		files  map[string]string
		labels []string
		names  []string // variant names, parallel to srcs[1:]
		errs   []string
	}
	preps := make([]prepared, len(cases))
	items := make([]nodeItem, len(cases))
	core.Parallel(len(cases), 8, func(i int) {
		c := cases[i]
		p := prepared{c: c, files: c.files()}
		_, p.labels = c.observe()
		it := nodeItem{ID: fmt.Sprint(i), Srcs: []string{c.reference()}}
		for _, minify := range []bool{false, true} {
			code, errText := compileTS(r, p.files, "b.ts", minify, "", api.DefaultTarget)
			p.names = append(p.names, map[bool]string{false: "plain", true: "minify"}[minify])
			p.errs = append(p.errs, errText)
			it.Srcs = append(it.Srcs, code)
		}
		preps[i] = p
		items[i] = it
	})
	results := runNodeItems(r, items)
	var nExact, nConst, nCross, nInlined int
	for i := range preps {
		p := &preps[i]
		c := p.c
		outs := results[fmt.Sprint(i)]
		if outs == nil {
			continue
		}
		src := p.files["a.ts"] + "// ---- b.ts\n" + p.files["b.ts"]
		id := "enum:" + c.ts(1, true) + c.ts(2, false)
		r.Case(id, true)
		if c.multiFile() {
			nCross++
		}
		for _, d := range c.Decls {
			if d.Const {
				nConst++
				break
			}
		}
		ref := outs[0]
		if ref.Error != "" {
			r.Infra("the reference translation of an enum program does not run: %s\n%s", ref.Error, c.reference())
			continue
		}
		want := ref.Out
		if c.Exact {
			nExact++
			spec := strings.Join(c.expected(), "\n")
			if spec != ref.Out {
				r.Drift("TsEnum predicts\n%s\nV8 on the reference translation gives\n%s\nfor\n%s", spec, ref.Out, src)
				continue
			}
		}
		for v := range p.names {
			key := map[string]interface{}{"part": "enum", "program": c.ts(1, true) + c.ts(2, false), "variant": p.names[v], "error": p.errs[v], "class": c.class()}
			det := map[string]interface{}{"case": c, "files": p.files, "variant": p.names[v], "expected": want, "labels": p.labels, "spec_exact": c.Exact}
			if p.errs[v] != "" {
				r.Violation(key, fmt.Sprintf("esbuild rejects a valid enum program (%s): %s\n%s", p.names[v], p.errs[v], src), det)
				continue
			}
			got := outs[1+v]
			det["output"], det["observed"], det["run_error"] = items[i].Srcs[1+v], got.Out, got.Error
			if got.Error != "" || got.Out != want {
				if got.Error == "" && !c.Exact && c.usesPow() && lastUlpOnly(want, got.Out) {
					// structural class of a known deviation: a "**" initialiser folded by esbuild (Go's math.Pow) is one unit
					// in the last place away from the correctly rounded value that V8 (and tsc, which runs on it) computes
					key["deviation"] = "pow-last-ulp"
				}
				r.Violation(key, fmt.Sprintf("enum program behaves differently after esbuild (%s):\n%s\nexpected (TypeScript semantics: TsEnum%s, V8 on the reference translation):\n%s\nobserved:\n%s %s\noutput:\n%s",
					p.names[v], src, map[bool]string{true: "", false: " inexact"}[c.Exact], want, got.Out, got.Error, items[i].Srcs[1+v]), det)
			}
		}
		if !strings.Contains(items[i].Srcs[1], ".A") && !strings.Contains(items[i].Srcs[1], "[\"A\"]") {
			nInlined++
		}
		if i%(len(preps)/3+1) == 1 {
			r.Sample(map[string]interface{}{"part": "enum", "program": src, "expected": strings.Split(want, "\n"), "labels": p.labels, "spec_exact": c.Exact, "output": items[i].Srcs[1]})
		}
	}
	r.AddTraces(int64(2 * len(cases)))
	if replay {
		return
	}
	r.Set("enum_programs", len(cases))
	r.Set("enum_programs_exact_in_spec", nExact)
	r.Set("enum_programs_with_const_enum", nConst)
	r.Set("enum_programs_cross_module", nCross)
	r.Logf("enum: %d programs (%d exact in the spec, %d with const enums, %d cross-module)", len(cases), nExact, nConst, nCross)
}
