// Package c06: TypeScript types are erased without runtime effect.
//
// Part 1 (erase.go, this file): spec/TsErase.tla + spec/TsEraseTypes.tla — a
// two-phase machine (derive a JavaScript skeleton with slot markers; insert
// type-space fillers at the slots) whose invariant is Erase(typed) = skeleton.
// TLC exports every (skeleton, insertion set).  Binding (R): through the real
// api.Transform / api.Build,
//
//	Transform(typed, ts|tsx, cfg) == Transform(skeleton, ts|tsx, cfg)   byte for byte
//	Transform(skeleton, ts|tsx, cfg) == Transform(skeleton, js|jsx, cfg) (converse direction)
//
// for tsconfigRaw option sets x minify on/off x three renderings of the typed
// text (spaced, tight = token splitting such as ">>" and ">=", line breaks
// after openers inside the type space).
//
// Part 2 (enum.go, runtime.go): spec/TsEnum.tla and spec/TsRuntime.tla — the
// TypeScript-only runtime constructs; the spec predicts the observable values,
// V8 cross-validates the prediction, the esbuild output is executed in Node.
package c06

import (
	"encoding/json"
	"fmt"
	"os"
	"sync"

	"verifharness/core"
)

func init() { core.Register("C06", Run) }

func Run(r *core.Run) {
	if os.Getenv("_JAVA_OPTIONS") == "" {
		os.Setenv("_JAVA_OPTIONS", "-XX:TieredStopAtLevel=1 -XX:ParallelGCThreads=4")
	}
	r.Assume("a generated typed program is syntactically valid TypeScript: every (slot kind, filler) pair of spec/TsErase.tla is a position/form of the TypeScript grammar (type-checking validity, e.g. that the names T, A, B are declared, is not required: esbuild, like tsc's transpileModule, only reads syntax)")
	r.Assume("esbuild prints a program independently of the white space of its input (the typed text is rendered spaced, tight and with line breaks; the skeleton once)")
	r.Assume("V8 (Node 20) implements ECMAScript for the generated enum/namespace/class programs; where the TLA+ reference and V8 disagree on the reference translation the case is drift, not a verdict")
	if r.Replay != "" {
		data, err := os.ReadFile(r.Replay)
		var rec struct {
			Key    map[string]interface{} `json:"key"`
			Detail json.RawMessage        `json:"detail"`
		}
		if err != nil || json.Unmarshal(data, &rec) != nil {
			r.Infra("cannot read replay file %s: %v", r.Replay, err)
			return
		}
		r.Set("rule", "replay of one recorded scenario")
		switch rec.Key["part"] {
		case "erase":
			replayErase(r, rec.Detail)
		case "tsconfig":
			replayTsconfig(r, rec.Detail)
		default:
			replayRuntime(r, fmt.Sprint(rec.Key["part"]), rec.Detail)
		}
		return
	}
	var wg sync.WaitGroup
	if os.Getenv("C06_SKIP_ERASE") == "" {
		wg.Add(1)
		go func() { defer wg.Done(); eraseBinding(r) }()
	}
	if os.Getenv("C06_SKIP_CONVERSE") == "" {
		wg.Add(1)
		go func() { defer wg.Done(); converseBinding(r) }()
	}
	if os.Getenv("C06_SKIP_RUNTIME") == "" {
		wg.Add(1)
		go func() { defer wg.Done(); runtimeBinding(r) }()
	}
	if os.Getenv("C06_SKIP_TSCONFIG") == "" {
		wg.Add(1)
		go func() { defer wg.Done(); tsconfigBinding(r) }()
	}
	wg.Wait()
	if n := r.DriftCount(); n > 10 {
		r.Infra("the TLA+ reference disagrees with V8 on %d cases: drift exceeds the budget, no verdict", n)
	}
	r.Set("rule", "part 1: variants = every (skeleton, set of <= MaxIns insertions) reachable in spec/TsErase.tla, enumerated exhaustively by TLC for the sampled filler alphabet; a variant is non-trivial iff >= 1 insertion is at an ambiguous position/form (generic call/instantiation, <T>x cast, arrow return type, generic arrow, non-null '!', this-parameter, overload, '>>'/'>=' splitting, conditional/infer/template-literal/mapped/function type, abstract/declare member) or the skeleton itself is one of the delicate JavaScript forms (a < b > (c), a ? (b) : c => d, contextual keywords as identifiers, every skeleton of the family nest: a speculative context around a payload that starts a speculation itself); distinct by (skeleton text, insertion set). tsconfig: a chain of tsconfig files is non-trivial iff some field is overridden along the chain or strict/alwaysStrict interplay is involved; distinct by (levels, link shapes). part 2: every enum/namespace/class scenario is a TS-only runtime construct and counts as non-trivial; distinct by scenario source")
}
