package c06

import (
	"encoding/json"
	"os"
	"sync"

	"verifharness/core"
)

// runtimeBinding: the TypeScript-only runtime constructs (part 2)
func runtimeBinding(r *core.Run) {
	var wg sync.WaitGroup
	if os.Getenv("C06_SKIP_ENUM") == "" {
		wg.Add(1)
		go func() { defer wg.Done(); enumBinding(r) }()
	}
	wg.Add(1)
	go func() { defer wg.Done(); rtBinding(r) }()
	wg.Wait()
}

func replayRuntime(r *core.Run, part string, detail json.RawMessage) {
	switch part {
	case "enum":
		var d struct {
			Case *enumCase `json:"case"`
		}
		if err := json.Unmarshal(detail, &d); err != nil || d.Case == nil {
			r.Infra("undecodable enum replay: %v", err)
			return
		}
		evalEnums(r, []*enumCase{d.Case}, true)
	case "cls", "deco", "ns":
		var d struct {
			Case *rtCase `json:"case"`
		}
		if err := json.Unmarshal(detail, &d); err != nil || d.Case == nil {
			r.Infra("undecodable runtime replay: %v", err)
			return
		}
		evalRuntime(r, []*rtCase{d.Case}, true)
	default:
		r.Infra("unknown replay part %q", part)
	}
}
