package c06

import (
	"encoding/json"

	"verifharness/core"
)

func runtimeBinding(r *core.Run) {}

func replayRuntime(r *core.Run, part string, detail json.RawMessage) {
	r.Infra("unknown replay part %q", part)
}
