package c06

import (
	"encoding/json"
	"sync"

	"verifharness/core"
)

// runtimeBinding: the TypeScript-only runtime constructs (part 2)
func runtimeBinding(r *core.Run) {
	var wg sync.WaitGroup
	wg.Add(1)
	go func() { defer wg.Done(); enumBinding(r) }()
	wg.Wait()
}

func replayRuntime(r *core.Run, part string, detail json.RawMessage) {
	switch part {
	case "enum":
		var d struct {
			Case *enumCase `json:"case"`
		}
		if err := json.Unmarshal(detail, &d); err != nil || d.Case == nil {
			r.Infra("undecodable enum replay: %v", err)
			return
		}
		evalEnums(r, []*enumCase{d.Case}, true)
	default:
		r.Infra("unknown replay part %q", part)
	}
}
