package c19

// The worlds of the scenario groups "mix" (reference kinds meeting in one
// chunk) and "res" (resolution-dependent input paths) of MetaGen.tla.

import (
	"fmt"
	"os"
	"path/filepath"
	"sort"
	"strings"

	"github.com/evanw/esbuild/pkg/api"
)

// ---------- mix ----------

const longName = "the-company-logo-in-a-very-long-file-name"

func mixName(style string, k int, flip bool) string {
	long := style == "long" || (style == "mixed" && (k%2 == 0) != flip)
	if long {
		return fmt.Sprintf("%s-%d", longName, k)
	}
	return fmt.Sprintf("%c", 'h'+k)
}

func materialiseMix(s scenario, w *world) {
	add := func(p, content, marker string) {
		w.files[p] = content
		w.markers[p] = marker
	}
	var assets, pages []string
	for k := 1; k <= s.Assets; k++ {
		n := mixName(s.Names, k, false)
		assets = append(assets, n)
		p := "src/img/" + n + ".png"
		add(p, "PNG "+mk("img"+fmt.Sprint(k)), mk("img"+fmt.Sprint(k)))
		w.assets[p] = true
	}
	for k := 1; k <= s.Lazy; k++ {
		pages = append(pages, "page-"+mixName(s.Names, k, true))
	}
	var assetImports, pageImports, uses []string
	for k, n := range assets {
		assetImports = append(assetImports, fmt.Sprintf("import a%d from './img/%s.png'", k, n))
		uses = append(uses, fmt.Sprintf("a%d", k))
	}
	for k, n := range pages {
		pageImports = append(pageImports, fmt.Sprintf("export const page%d = () => import('./pages/%s.js')", k, n))
	}
	rest := []string{"import {shared} from './shared.js'", "import {util} from './util.js'"}
	if s.CSS {
		rest = append(rest, "import './app.css'")
	}
	var lines []string
	if s.Order == "assetsFirst" {
		lines = append(append(append(lines, assetImports...), rest...), pageImports...)
	} else {
		lines = append(append(append(lines, pageImports...), rest...), assetImports...)
	}
	lines = append(lines, "console.log(\""+mk("app")+"\", shared, util, "+strings.Join(uses, ", ")+")")
	add("src/app.js", strings.Join(lines, "\n")+"\n", mk("app"))
	last := pages[len(pages)-1]
	add("src/shared.js", "import a0 from './img/"+assets[0]+".png'\nexport const shared = [a0, () => import('./pages/"+last+".js'), \""+mk("shared")+"\"]\n", mk("shared"))
	add("src/util.js", "export const util = \""+mk("util")+"\"\n", mk("util"))
	for k, n := range pages {
		a := assets[k%len(assets)]
		b := assets[(k+1)%len(assets)]
		add("src/pages/"+n+".js", "import {shared} from '../shared.js'\nimport {util} from '../util.js'\nimport x from '../img/"+a+".png'\nimport y from '../img/"+b+".png'\n"+
			"export default [\""+mk("page"+fmt.Sprint(k))+"\", shared, util, x, y, () => import('./"+pages[0]+".js')]\n", mk("page"+fmt.Sprint(k)))
	}
	w.entries = []string{"src/app.js"}
	if s.Shared {
		add("src/other.js", "import {shared} from './shared.js'\nimport {util} from './util.js'\nimport z from './img/"+assets[len(assets)-1]+".png'\nconsole.log(\""+mk("other")+"\", shared, util, z)\n", mk("other"))
		w.entries = append(w.entries, "src/other.js")
	}
	if s.CSS {
		add("src/app.css", "@import \"./theme.css\";\n.logo { background: url(./img/"+assets[0]+".png) }\n.last { background: url(./img/"+assets[len(assets)-1]+".png) }\n.m::after { content: \""+mk("appcss")+"\" }\n", mk("appcss"))
		add("src/theme.css", "body { background: url(./img/"+assets[len(assets)/2]+".png) }\n.t::after { content: \""+mk("theme")+"\" }\n", mk("theme"))
	}
}

// ---------- res ----------

type dep struct {
	spec string
	kind string // import-statement | require-call | dynamic-import
	mode string // ns (import * as / require / import()) | default (import d from) | unused (named import that is never used)
	attr string // import attributes (" with { type: 'json' }")
}

// module text: the module records that it ran (its path and its marker), and
// for every dependency the id the imported module really has (the imported
// module's own path), keyed by (importer, specifier, kind)
func modText(p, marker string, esm bool, deps []dep) string {
	var sb strings.Builder
	for i, d := range deps {
		switch {
		case d.kind == "import-statement" && d.mode == "default":
			fmt.Fprintf(&sb, "import d%d from '%s'%s\n", i, d.spec, d.attr)
		case d.kind == "import-statement" && d.mode == "unused":
			fmt.Fprintf(&sb, "import {id as d%d} from '%s'\n", i, d.spec)
		case d.kind == "import-statement":
			fmt.Fprintf(&sb, "import * as d%d from '%s'%s\n", i, d.spec, d.attr)
		}
	}
	fmt.Fprintf(&sb, "globalThis.__m.ran.push(%q)\nglobalThis.__m.mk.push(%q)\n", p, marker)
	for i, d := range deps {
		switch {
		case d.mode == "unused":
		case d.kind == "import-statement":
			fmt.Fprintf(&sb, "globalThis.__m.edges.push([%q, %q, %q, d%d.id])\n", p, d.spec, d.kind, i)
		case d.kind == "require-call":
			fmt.Fprintf(&sb, "globalThis.__m.edges.push([%q, %q, %q, require('%s').id])\n", p, d.spec, d.kind, d.spec)
		case d.kind == "dynamic-import":
			fmt.Fprintf(&sb, "import('%s').then(ns => globalThis.__m.edges.push([%q, %q, %q, ns.id]))\n", d.spec, p, d.spec, d.kind)
		}
	}
	if esm {
		fmt.Fprintf(&sb, "export const id = %q\n", p)
	} else {
		fmt.Fprintf(&sb, "exports.id = %q\n", p)
	}
	return sb.String()
}

func marker(p string) string {
	r := strings.NewReplacer("/", "_", ".", "_", "-", "_", ":", "_", "@", "_")
	return mk(r.Replace(p))
}

const virtContents = "globalThis.__m.ran.push(\"virt:thing\")\nglobalThis.__m.mk.push(\"MK_virt_thing_Q\")\nexport const id = \"virt:thing\"\n"

func materialiseRes(s scenario, root string, w *world) {
	mod := func(p string, esm bool, deps ...dep) {
		w.files[p] = modText(p, marker(p), esm, deps)
		w.markers[p] = marker(p)
		w.recorders = append(w.recorders, p)
	}
	raw := func(p, content string) { w.files[p] = content; w.noInput[p] = true }
	spec := map[string]string{"dual": "pkg", "browsermap": "bpkg", "tspaths": "@app/thing", "alias": "aliased", "symlink": "linked",
		"spelling": "./sub/../lib2/./thing.js", "sidefx": "pure", "pkgimports": "#int", "jsonattr": "./data.json", "plugin": "virtual:thing"}[s.Mech]
	spec2 := spec // the spelling the second file uses
	if s.Mech == "spelling" {
		spec2 = "./lib2/thing.js"
	}
	mode, attr := "ns", ""
	if s.Mech == "jsonattr" {
		mode, attr = "default", " with { type: 'json' }"
	}
	entryDeps := []dep{{spec: "./lib.js", kind: "import-statement", mode: "ns"}}
	var legacyDeps []dep
	switch s.How {
	case "import":
		entryDeps = append(entryDeps, dep{spec: spec, kind: "import-statement", mode: mode, attr: attr})
	case "require":
		entryDeps = append(entryDeps, dep{spec: spec, kind: "require-call"})
	case "both":
		entryDeps = append(entryDeps, dep{spec: spec, kind: "import-statement", mode: mode, attr: attr})
		legacyDeps = append(legacyDeps, dep{spec: spec2, kind: "require-call"})
	case "dynboth":
		entryDeps = append(entryDeps, dep{spec: spec, kind: "dynamic-import", attr: ""})
		legacyDeps = append(legacyDeps, dep{spec: spec2, kind: "require-call"})
	}
	if legacyDeps != nil {
		entryDeps = append(entryDeps, dep{spec: "./legacy.js", kind: "import-statement", mode: "ns"})
		mod("src/legacy.js", true, legacyDeps...)
	}
	mod("src/lib.js", true)
	switch s.Mech {
	case "dual":
		raw("node_modules/pkg/package.json", `{ "name": "pkg", "main": "./lib/main.js", "module": "./esm/module.js" }`)
		mod("node_modules/pkg/lib/main.js", false)
		mod("node_modules/pkg/esm/module.js", true)
	case "browsermap":
		raw("node_modules/bpkg/package.json", `{ "name": "bpkg", "main": "./lib/main.js", "browser": { "./lib/main.js": "./br/main.js", "./lib/off.js": false, "dep": "./shim/dep.js" } }`)
		mod("node_modules/bpkg/lib/main.js", false, dep{spec: "./off.js", kind: "require-call"}, dep{spec: "dep", kind: "require-call"})
		mod("node_modules/bpkg/br/main.js", false, dep{spec: "../lib/off.js", kind: "require-call"}, dep{spec: "dep", kind: "require-call"})
		mod("node_modules/bpkg/lib/off.js", false)
		mod("node_modules/bpkg/shim/dep.js", false)
		raw("node_modules/dep/package.json", `{ "name": "dep", "main": "./index.js" }`)
		mod("node_modules/dep/index.js", false)
	case "tspaths":
		raw("tsconfig.json", `{ "compilerOptions": { "baseUrl": ".", "paths": { "@app/*": ["src/mapped/*"] } } }`)
		mod("src/mapped/thing.js", true)
		mod("node_modules/@app/thing/index.js", false) // shadowed by the paths mapping
	case "alias":
		w.alias = map[string]string{"aliased": "realpkg"}
		raw("node_modules/realpkg/package.json", `{ "name": "realpkg", "main": "./index.js" }`)
		mod("node_modules/realpkg/index.js", false)
		mod("node_modules/aliased/index.js", false) // shadowed by the alias
	case "symlink":
		raw("packages/linked-real/package.json", `{ "name": "linked", "main": "./index.js" }`)
		mod("packages/linked-real/index.js", false)
		w.symlinks = map[string]string{"node_modules/linked": "../packages/linked-real"}
		w.preserve = s.Preserve
		if s.Preserve {
			// the same physical file is an input under the name it was reached by
			w.idAlias = map[string]string{"packages/linked-real/index.js": "node_modules/linked/index.js"}
		}
	case "spelling":
		raw("src/sub/keep.txt", "x")
		mod("src/lib2/thing.js", true)
	case "sidefx":
		raw("node_modules/pure/package.json", `{ "name": "pure", "main": "./index.js", "sideEffects": false }`)
		mod("node_modules/pure/index.js", true)
		raw("node_modules/pure-unused/package.json", `{ "name": "pure-unused", "main": "./index.js", "sideEffects": false }`)
		mod("node_modules/pure-unused/index.js", true)
		entryDeps = append(entryDeps, dep{spec: "pure-unused", kind: "import-statement", mode: "unused"})
	case "pkgimports":
		raw("package.json", `{ "name": "app", "imports": { "#int": "./src/internal.js", "#ext": "node:path" } }`)
		mod("src/internal.js", true)
		if s.Platform == "node" {
			// (for the browser platform esbuild does not resolve "node:path" reached through the "imports" map)
			entryDeps = append(entryDeps, dep{spec: "#ext", kind: "import-statement", mode: "ns"})
			w.external = []string{"node:path"}
			w.extRemap = map[string]string{"node:path": "#ext"}
		}
	case "jsonattr":
		w.files["src/data.json"] = `{ "id": "src/data.json", "marker": "` + marker("src/data.json") + `" }`
		w.markers["src/data.json"] = marker("src/data.json")
	case "plugin":
		mod("src/actual.js", true)
		mod("src/redirected.js", true) // never read: the plugin redirects the import
		entryDeps = append(entryDeps, dep{spec: "./redirected.js", kind: "import-statement", mode: "ns"})
		w.files["virt:thing"] = virtContents
		w.markers["virt:thing"] = "MK_virt_thing_Q"
		w.recorders = append(w.recorders, "virt:thing")
		w.idAlias = map[string]string{}
		actual := filepath.Join(root, "src", "actual.js")
		w.plugins = []api.Plugin{{Name: "c19", Setup: func(b api.PluginBuild) {
			b.OnResolve(api.OnResolveOptions{Filter: `^virtual:`}, func(a api.OnResolveArgs) (api.OnResolveResult, error) {
				return api.OnResolveResult{Path: strings.TrimPrefix(a.Path, "virtual:"), Namespace: "virt"}, nil
			})
			b.OnResolve(api.OnResolveOptions{Filter: `redirected\.js$`}, func(a api.OnResolveArgs) (api.OnResolveResult, error) {
				return api.OnResolveResult{Path: actual}, nil
			})
			b.OnLoad(api.OnLoadOptions{Filter: `.*`, Namespace: "virt"}, func(a api.OnLoadArgs) (api.OnLoadResult, error) {
				c := virtContents
				return api.OnLoadResult{Contents: &c, Loader: api.LoaderJS}, nil
			})
		}}}
	}
	mod("src/entry.js", true, entryDeps...)
	w.specUnderTest, w.specUnderTest2 = spec, spec2
	for from, to := range w.idAlias {
		if m, ok := w.markers[from]; ok {
			delete(w.markers, from)
			w.markers[to] = m
		}
	}
	w.entries = []string{"src/entry.js"}
	w.platform = s.Platform
	switch s.MF {
	case "mainmodule":
		w.mainFields = []string{"main", "module"}
	case "modulemain":
		w.mainFields = []string{"module", "main"}
	}
	w.exec = true
}

func writeSymlinks(root string, links map[string]string) error {
	for _, p := range sortedKeys(links) {
		full := filepath.Join(root, p)
		if err := os.MkdirAll(filepath.Dir(full), 0755); err != nil {
			return err
		}
		if err := os.Symlink(links[p], full); err != nil {
			return err
		}
	}
	return nil
}

// ---------- what the emitted bundle does when it runs (node/meta_exec.js) ----------

type execReq struct {
	ID     string `json:"id"`
	Format string `json:"format"`
	Code   string `json:"code"`
}
type execRes struct {
	ID    string          `json:"id"`
	OK    bool            `json:"ok"`
	Error string          `json:"error"`
	Ran   []string        `json:"ran"`
	Edges [][]interface{} `json:"edges"`
}
type realEdge struct {
	Inp  string `json:"inp"`
	Spec string `json:"spec"`
	Kind string `json:"kind"`
	Got  string `json:"got"` // the id the imported module has at run time; "<none>" if it has none (disabled or external module)
}

func (b *built) fillExec(e *execRes) error {
	if e == nil || !e.OK {
		msg := "missing"
		if e != nil {
			msg = e.Error
		}
		return fmt.Errorf("the emitted bundle could not be run: %s", msg)
	}
	rc := b.rc
	alias := func(p string) string {
		if a, ok := b.w.idAlias[p]; ok {
			return a
		}
		return p
	}
	seen := map[string]bool{}
	for _, p := range e.Ran {
		if p = alias(p); !seen[p] {
			seen[p] = true
			rc.Ran = append(rc.Ran, p)
		}
	}
	sort.Strings(rc.Ran)
	for _, ed := range e.Edges {
		if len(ed) != 4 {
			continue
		}
		got := "<none>"
		if g, ok := ed[3].(string); ok {
			got = alias(g)
		}
		rc.REdges = append(rc.REdges, realEdge{Inp: alias(fmt.Sprint(ed[0])), Spec: fmt.Sprint(ed[1]), Kind: fmt.Sprint(ed[2]), Got: got})
	}
	for _, p := range b.w.recorders {
		rc.Recorders = append(rc.Recorders, alias(p))
	}
	sort.Strings(rc.Recorders)
	rc.Exec = true
	return nil
}

// driftRes compares what MetaGen.tla predicts for a res scenario (the input
// every reference to the specifier under test resolves to; the inputs without
// code) with the real metafile.  A disagreement is SPEC-DRIFT, never a verdict.
func (b *built) driftRes(r interface {
	Drift(format string, a ...interface{})
}, drift *int) {
	rc, s := b.rc, b.rc.scen
	specs := map[string]bool{b.w.specUnderTest: true, b.w.specUnderTest2: true}
	for _, kind := range sortedKeys(s.Expect) {
		found := false
		for _, m := range rc.IImports {
			if m.Kind != kind || !specs[m.Spec] || (m.Inp != "src/entry.js" && m.Inp != "src/legacy.js") {
				continue
			}
			found = true
			if fileOf(m.Path) != s.Expect[kind] {
				*drift++
				r.Drift("MetaGen predicts that the %s of %q in %s resolves to %s, the real metafile says %s (%s)", kind, m.Spec, m.Inp, s.Expect[kind], m.Path, s.id())
			}
		}
		if !found {
			*drift++
			r.Drift("MetaGen predicts a %s of %q, the real metafile lists none (%s)", kind, b.w.specUnderTest, s.id())
		}
	}
	for _, e := range s.Disabled {
		ok := false
		for _, in := range rc.Inputs {
			if in.Path == e && in.Bytes == 0 {
				ok = true
			}
		}
		if !ok {
			*drift++
			r.Drift("MetaGen predicts the disabled input %s of size 0, the real metafile disagrees (%s)", e, s.id())
		}
	}
	for _, e := range s.Empty {
		ok := false
		for _, in := range rc.Inputs {
			if in.Path == e {
				ok = true
			}
		}
		for _, c := range rc.OInputs {
			if c.Inp == e && c.Bytes > 0 {
				ok = false
			}
		}
		if !ok {
			*drift++
			r.Drift("MetaGen predicts that %s is an input without code in the output, the real metafile disagrees (%s)", e, s.id())
		}
	}
}
