// Package c19: the metafile is an exact account of the build.
// Spec: Meta.tla (the piece algebra of byte counts, model-checked), MetaGen.tla
// (the scenario space, enumerated by TLC), MetaState.tla (the invariants
// evaluated by TLC on one record per real build: metafile vs emitted files vs
// imports/exports re-parsed from the emitted code vs the files really read).
package c19

import (
	"encoding/json"
	"fmt"
	"os"
	"path"
	"path/filepath"
	"sort"
	"strings"
	"sync"
	"time"

	"github.com/evanw/esbuild/pkg/api"

	"verifharness/core"
	"verifharness/nodex"
	"verifharness/rec"
	"verifharness/tlcrun"
)

type scenario struct {
	Family      string `json:"family"`
	Paths       string `json:"paths"`
	Minify      bool   `json:"minify"`
	Format      string `json:"format"`
	SM          string `json:"sm"`
	Legal       string `json:"legal"`
	Splitting   bool   `json:"splitting"`
	Substitutes bool   `json:"substitutes"`
	Multi       bool   `json:"multi"`
	Mini        string `json:"mini"` // none | ids (identifiers + syntax, white space kept) | all
	// group mix
	Assets   int      `json:"assets,omitempty"`
	Lazy     int      `json:"lazy,omitempty"`
	Names    string   `json:"names,omitempty"`
	CSS      bool     `json:"css,omitempty"`
	Shared   bool     `json:"shared,omitempty"`
	Order    string   `json:"order,omitempty"`
	Kinds    []string `json:"kinds,omitempty"`
	Coincide bool     `json:"coincide,omitempty"`
	// group res
	Mech     string            `json:"mech,omitempty"`
	Platform string            `json:"platform,omitempty"`
	MF       string            `json:"mf,omitempty"`
	How      string            `json:"how,omitempty"`
	Preserve bool              `json:"preserve,omitempty"`
	Expect   map[string]string `json:"expect,omitempty"` // reference kind -> the input the specifier under test resolves to
	Empty    []string          `json:"empty,omitempty"`  // inputs expected without code in the output
	Disabled []string          `json:"disabled,omitempty"`
}

func (s scenario) id() string {
	if s.Mini == "" {
		s.Mini = "none"
		if s.Minify {
			s.Mini = "all"
		}
	}
	switch s.Family {
	case "mix":
		return fmt.Sprintf("mix/a%d/l%d/%s/css%v/sh%v/%s/%s/%s", s.Assets, s.Lazy, s.Names, s.CSS, s.Shared, s.Order, s.Paths, s.Mini)
	case "res":
		return fmt.Sprintf("res/%s/%s/%s/%s/p%v/%s/%s", s.Mech, s.Platform, s.MF, s.How, s.Preserve, s.Format, s.Mini)
	}
	return fmt.Sprintf("%s/%s/%s/%s/%s/%s", s.Family, s.Paths, s.Mini, s.Format, s.SM, s.Legal)
}

// ---------- the record MetaState.tla validates ----------

type emitted struct {
	Path string `json:"path"`
	Len  int    `json:"len"`
}
type outRec struct {
	Path       string `json:"path"`
	Bytes      int    `json:"bytes"`
	EntryPoint string `json:"entryPoint"`
	Code       bool   `json:"code"` // a JS or CSS file (imports/exports are compared for these)
}
type impRec struct {
	Out      string `json:"out"`
	Path     string `json:"path"`
	Kind     string `json:"kind"`
	External bool   `json:"external"`
}
type expRec struct {
	Out  string `json:"out"`
	Name string `json:"name"`
}
type contribRec struct {
	Out   string `json:"out"`
	Inp   string `json:"inp"`
	Bytes int    `json:"bytes"`
}
type inputRec struct {
	Path  string `json:"path"`
	Bytes int    `json:"bytes"`
}
type inImpRec struct {
	Inp      string `json:"inp"`
	Path     string `json:"path"`
	Kind     string `json:"kind"`
	External bool   `json:"external"`
	Spec     string `json:"spec"`     // the specifier as written ("original"), or the path for external imports; "<pattern>" for a glob
	Bundled  bool   `json:"bundled"`  // the path names a file that was read into the bundle
	Disabled bool   `json:"disabled"` // the path names a module that the browser map disables ("(disabled):" prefix)
	File     string `json:"file"`     // the file the path stands for (see fileOf)
	Injected bool   `json:"injected"` // the path names a file of the inject option (an import the option adds to every file)
}
type srcImpRec struct {
	Inp  string `json:"inp"`
	Spec string `json:"spec"`
	Kind string `json:"kind"`
}
type sizeRec struct {
	Path string `json:"path"`
	Size int    `json:"size"`
}
type presentRec struct {
	Out string `json:"out"`
	Inp string `json:"inp"`
	Via string `json:"via"` // marker: the input's marker literal is in the file; path: the path of the input's emitted copy is
}
type exactRec struct {
	Out      string `json:"out"`
	Inp      string `json:"inp"`
	Expected int    `json:"expected"` // the bytes of the sections printed for inp in out (unminified output)
}
type markerRec struct {
	Inp string `json:"inp"`
	Len int    `json:"len"`
}
type glueRec struct {
	Out   string `json:"out"`
	Bytes int    `json:"bytes"` // the bytes of the emitted file outside every input's sections (printed by the linker itself)
}

type record struct {
	ID         int          `json:"id"`
	ESM        bool         `json:"esm"`
	Emitted    []emitted    `json:"emitted"`
	Outputs    []outRec     `json:"outputs"`
	OImports   []impRec     `json:"oimports"`
	PImports   []impRec     `json:"pimports"`
	OExports   []expRec     `json:"oexports"`
	PExports   []expRec     `json:"pexports"`
	OInputs    []contribRec `json:"oinputs"`
	Inputs     []inputRec   `json:"inputs"`
	IImports   []inImpRec   `json:"iimports"`
	SImports   []srcImpRec  `json:"simports"`
	Read       []string     `json:"read"`
	Sizes      []sizeRec    `json:"sizes"`
	Entries    []string     `json:"entries"`
	DynTargets []string     `json:"dyntargets"`
	Present    []presentRec `json:"present"`
	Markers    []markerRec  `json:"markers"`
	Exact      []exactRec   `json:"exact"`
	Glue       []glueRec    `json:"glue"`      // for outputs all of whose text is delimited
	Roots      []string     `json:"roots"`     // entry points + injected files: where the import graph starts
	Exec       bool         `json:"exec"`      // the emitted bundle was run (node/meta_exec.js)
	Ran        []string     `json:"ran"`       // the modules that were evaluated
	REdges     []realEdge   `json:"redges"`    // (importer, specifier, kind) -> id of the module really received
	Recorders  []string     `json:"recorders"` // the files that would record their evaluation
	scen       scenario
	files      map[string]string
	optsStr    string
	metafile   string
	subst      bool
	multi      bool
}

// ---------- scenario materialisation ----------

func mk(name string) string { return "MK_" + name + "_Q" }

type world struct {
	files    map[string]string
	entries  []string
	markers  map[string]string // input path (metafile style) -> marker
	external []string
	inject   []string
	stdin    *api.StdinOptions
	assets   map[string]bool // inputs loaded with the file loader (their contribution to JS/CSS is the path string)
	// group res
	noInput                       map[string]bool   // files on disk that are configuration, never inputs
	recorders                     []string          // modules that record their evaluation at run time
	alias                         map[string]string // the alias option
	symlinks                      map[string]string
	preserve                      bool
	idAlias                       map[string]string // id a module reports -> the name it is an input under (symlinks preserved)
	extRemap                      map[string]string // external path -> the specifier it was written as (package.json "imports")
	plugins                       []api.Plugin
	platform                      string
	mainFields                    []string
	exec                          bool
	specUnderTest, specUnderTest2 string
}

func materialise(s scenario, root string) world {
	w := world{files: map[string]string{}, markers: map[string]string{}, assets: map[string]bool{}, noInput: map[string]bool{}}
	add := func(p, content, marker string) {
		w.files[p] = content
		if marker != "" {
			w.markers[p] = marker
		}
	}
	sjs := "/*! legal comment of s */\nexport const s = \"" + mk("s") + "\"\nexport const sUnused = \"never-used\"\n"
	switch s.Family {
	case "mix":
		materialiseMix(s, &w)
	case "res":
		materialiseRes(s, root, &w)
	case "js":
		add("src/a.js", "import {s} from './s.js'\nimport {u} from './unused.js'\nconst c = require('./c.cjs')\nconsole.log(\""+mk("a")+"\", s, c)\nexport const fromA = 1\n", mk("a"))
		add("src/s.js", sjs, mk("s"))
		add("src/unused.js", "export const u = \""+mk("unused")+"\"\n", mk("unused"))
		add("src/c.cjs", "/*! legal comment of c */\nmodule.exports = \""+mk("c")+"\"\n", mk("c"))
		w.entries = []string{"src/a.js"}
	case "splitting":
		add("src/a.js", "import {s} from './s.js'\nimport {lazy} from './m.js'\nexport const lazy2 = () => import('./lazy.js')\nconsole.log(\""+mk("a")+"\", s, lazy)\n", mk("a"))
		add("src/m.js", "export const lazy = () => [import('./lazy.js'), \""+mk("m")+"\"]\n", mk("m"))
		add("src/b.js", "import {s} from './s.js'\nconsole.log(\""+mk("b")+"\", s)\nexport default 2\n", mk("b"))
		add("src/s.js", "import {s2} from './s2.js'\n"+sjs+"console.log(s2)\n", mk("s"))
		add("src/s2.js", "export const s2 = \""+mk("s2")+"\"\n", mk("s2"))
		add("src/lazy.js", "import {s} from './s.js'\nexport const z = \""+mk("lazy")+"\" + s\n", mk("lazy"))
		w.entries = []string{"src/a.js", "src/b.js"}
	case "css":
		add("src/st.css", "@import \"http://example.com/x.css\";\n@import \"./t.css\";\n/*! legal comment of st */\nbody { background: url(./p.png) }\n.m::after { content: \""+mk("st")+"\" }\n", mk("st"))
		add("src/t.css", ".t::after { content: \""+mk("t")+"\" }\n", mk("t"))
		add("src/p.png", "PNG "+mk("p"), mk("p"))
		w.assets["src/p.png"] = true
		w.entries = []string{"src/st.css"}
	case "jscss":
		add("src/a.js", "import './st.css'\nconsole.log(\""+mk("a")+"\")\n", mk("a"))
		add("src/st.css", "@import \"./t.css\";\nbody { background: url(./p.png) }\n.m::after { content: \""+mk("st")+"\" }\n", mk("st"))
		add("src/t.css", ".t::after { content: \""+mk("t")+"\" }\n", mk("t"))
		add("src/p.png", "PNG "+mk("p"), mk("p"))
		w.assets["src/p.png"] = true
		w.entries = []string{"src/a.js"}
	case "file":
		add("src/a.js", "import x from './x.bin'\nimport {s} from './s.js'\nconsole.log(\""+mk("a")+"\", x, s)\n", mk("a"))
		add("src/s.js", sjs, mk("s"))
		add("src/x.bin", "BIN "+mk("x"), mk("x"))
		w.assets["src/x.bin"] = true
		w.entries = []string{"src/a.js"}
	case "copy":
		add("src/a.js", "import y from './y.dat'\nconsole.log(\""+mk("a")+"\", y)\n", mk("a"))
		add("src/y.dat", "DAT "+mk("y"), mk("y"))
		add("src/z.dat", "DAT "+mk("z"), mk("z"))
		w.entries = []string{"src/a.js", "src/z.dat"}
	case "externals":
		body := "import fs from 'fs'\nimport {s} from './s.js'\nexport const dyn = () => import('extdyn')\nconsole.log(\"" + mk("a") + "\", fs, s)\n"
		if s.Format == "cjs" {
			body += "const r = require('extreq')\nconsole.log(r)\n"
		}
		add("src/a.js", body, mk("a"))
		add("src/s.js", sjs, mk("s"))
		w.external = []string{"fs", "extdyn", "extreq"}
		w.entries = []string{"src/a.js"}
	case "glob":
		add("src/a.js", "const n = globalThis.which || 'one'\nexport const g = () => import('./g/' + n + '.js')\nconsole.log(\""+mk("a")+"\")\n", mk("a"))
		add("src/g/one.js", "export default \""+mk("one")+"\"\n", mk("one"))
		add("src/g/two.js", "export default \""+mk("two")+"\"\n", mk("two"))
		w.entries = []string{"src/a.js"}
	case "inject":
		add("src/a.js", "import {s} from './s.js'\nconsole.log(\""+mk("a")+"\", injected, s)\n", mk("a"))
		add("src/s.js", sjs, mk("s"))
		add("src/inj.js", "export const injected = \""+mk("inj")+"\"\n", mk("inj"))
		w.inject = []string{"src/inj.js"}
		w.entries = []string{"src/a.js"}
	case "stdin":
		add("src/s.js", sjs, mk("s"))
		contents := "import {s} from './s.js'\nconsole.log(\"" + mk("stdin") + "\", s)\n"
		w.stdin = &api.StdinOptions{Contents: contents, ResolveDir: filepath.Join(root, "src"), Loader: api.LoaderJS}
		w.markers["<stdin>"] = mk("stdin")
		w.files["<stdin>"] = contents
	}
	return w
}

const publicPath = "https://cdn.example/p/"

func options(s scenario, root string, w world) api.BuildOptions {
	o := api.BuildOptions{
		AbsWorkingDir: root,
		EntryPoints:   w.entries,
		Outdir:        "out",
		Bundle:        true,
		Splitting:     s.Splitting,
		Loader:        map[string]api.Loader{".bin": api.LoaderFile, ".png": api.LoaderFile, ".dat": api.LoaderCopy},
		External:      w.external,
		Inject:        w.inject,
		Stdin:         w.stdin,
		Write:         false,
		Metafile:      true,
		LogLevel:      api.LogLevelSilent,
	}
	switch s.Format {
	case "esm":
		o.Format = api.FormatESModule
	case "cjs":
		o.Format = api.FormatCommonJS
	case "iife":
		o.Format = api.FormatIIFE
	}
	switch s.Paths {
	case "flat":
	case "deepchunks":
		o.ChunkNames = "chunks/deeply/nested/[name]-[hash]"
	case "deepassets":
		o.AssetNames = "static/media/files/[name]-[hash]"
		o.ChunkNames = "c-[hash]"
	default:
		o.Outdir = "out/deep"
		o.Outbase = "."
		o.EntryNames = "e/[dir]/[name]-[hash]"
		o.ChunkNames = "c/k/[name]-[hash]"
		o.AssetNames = "assets/[name]-[hash]"
	}
	o.Alias = w.alias
	o.Plugins = w.plugins
	o.MainFields = w.mainFields
	switch w.platform {
	case "node":
		o.Platform = api.PlatformNode
	case "browser":
		o.Platform = api.PlatformBrowser
	}
	if w.preserve {
		o.PreserveSymlinks = true
	}
	if s.Paths == "public" {
		o.PublicPath = publicPath
	}
	switch s.SM {
	case "linked":
		o.Sourcemap = api.SourceMapLinked
	case "external":
		o.Sourcemap = api.SourceMapExternal
	case "inline":
		o.Sourcemap = api.SourceMapInline
	}
	switch s.Legal {
	case "inline":
		o.LegalComments = api.LegalCommentsInline
	case "eof":
		o.LegalComments = api.LegalCommentsEndOfFile
	case "linked":
		o.LegalComments = api.LegalCommentsLinked
	case "external":
		o.LegalComments = api.LegalCommentsExternal
	}
	switch {
	case s.Mini == "ids":
		o.MinifyIdentifiers, o.MinifySyntax = true, true
	case s.Minify || s.Mini == "all":
		o.MinifyWhitespace, o.MinifyIdentifiers, o.MinifySyntax = true, true, true
	}
	return o
}

// ---------- the metafile ----------

type mfImport struct {
	Path     string `json:"path"`
	Kind     string `json:"kind"`
	External bool   `json:"external"`
	Original string `json:"original"`
}
type mfInput struct {
	Bytes   int        `json:"bytes"`
	Imports []mfImport `json:"imports"`
}
type mfOutInput struct {
	BytesInOutput int `json:"bytesInOutput"`
}
type mfOutput struct {
	Bytes      int                   `json:"bytes"`
	Imports    []mfImport            `json:"imports"`
	Exports    []string              `json:"exports"`
	EntryPoint string                `json:"entryPoint"`
	Inputs     map[string]mfOutInput `json:"inputs"`
}
type metafile struct {
	Inputs  map[string]mfInput  `json:"inputs"`
	Outputs map[string]mfOutput `json:"outputs"`
}

func sortedKeys[V any](m map[string]V) []string {
	ks := make([]string, 0, len(m))
	for k := range m {
		ks = append(ks, k)
	}
	sort.Strings(ks)
	return ks
}

type outText struct {
	path string
	kind string // js | css | other
	text string
}

type built struct {
	rc    *record
	texts []outText
	root  string
	pp    string
	outd  string
	w     world
	errs  []string
}

// fileOf: the file an input name of the metafile stands for.  esbuild names a
// module that the "browser" map disables "(disabled):<path>" (an empty module,
// size 0) and a file imported with import attributes "<path> with { ... }".
func fileOf(p string) string {
	p = strings.TrimPrefix(p, "(disabled):")
	if i := strings.Index(p, " with { "); i >= 0 && strings.HasSuffix(p, "}") {
		p = p[:i]
	}
	return p
}

func isDisabled(p string) bool { return strings.HasPrefix(p, "(disabled):") }

func codeKind(p string) string {
	switch path.Ext(p) {
	case ".js":
		return "js"
	case ".css":
		return "css"
	}
	return "other"
}

func build(s scenario, idx int, root string) *built {
	os.MkdirAll(root, 0755)
	w := materialise(s, root)
	disk := map[string]string{}
	for p, c := range w.files {
		if p != "<stdin>" && !strings.HasPrefix(p, "virt:") {
			disk[p] = c
		}
	}
	core.WriteTree(root, disk)
	symErr := writeSymlinks(root, w.symlinks)
	o := options(s, root, w)
	res := api.Build(o)
	b := &built{root: root, pp: o.PublicPath, outd: o.Outdir, w: w}
	for _, e := range res.Errors {
		b.errs = append(b.errs, e.Text)
	}
	rc := &record{ID: idx, ESM: s.Format == "esm", scen: s, files: w.files, metafile: res.Metafile,
		Emitted: []emitted{}, Outputs: []outRec{}, OImports: []impRec{}, PImports: []impRec{}, OExports: []expRec{}, PExports: []expRec{},
		OInputs: []contribRec{}, Inputs: []inputRec{}, IImports: []inImpRec{}, SImports: []srcImpRec{}, Read: []string{}, Sizes: []sizeRec{},
		Entries: []string{}, DynTargets: []string{}, Present: []presentRec{}, Markers: []markerRec{}, Exact: []exactRec{}}
	rc.optsStr = fmt.Sprintf("Outdir=%s EntryNames=%q ChunkNames=%q AssetNames=%q PublicPath=%q Format=%s Splitting=%v Sourcemap=%s LegalComments=%s Minify=%v(%s) External=%v Inject=%v entries=%v stdin=%v Platform=%s MainFields=%v Alias=%v PreserveSymlinks=%v plugins=%d symlinks=%v",
		o.Outdir, o.EntryNames, o.ChunkNames, o.AssetNames, o.PublicPath, s.Format, s.Splitting, s.SM, s.Legal, s.Minify, s.Mini, w.external, w.inject, w.entries, w.stdin != nil, w.platform, w.mainFields, w.alias, w.preserve, len(w.plugins), w.symlinks)
	b.rc = rc
	rc.Glue, rc.Roots, rc.Ran, rc.REdges, rc.Recorders = []glueRec{}, []string{}, []string{}, []realEdge{}, []string{}
	if symErr != nil {
		b.errs = append(b.errs, "symlink: "+symErr.Error())
	}
	if len(b.errs) > 0 {
		return b
	}
	var mf metafile
	if err := json.Unmarshal([]byte(res.Metafile), &mf); err != nil {
		b.errs = append(b.errs, "metafile is not valid JSON: "+err.Error())
		return b
	}
	for _, f := range res.OutputFiles {
		rel, _ := filepath.Rel(root, f.Path)
		p := filepath.ToSlash(rel)
		rc.Emitted = append(rc.Emitted, emitted{Path: p, Len: len(f.Contents)})
		b.texts = append(b.texts, outText{path: p, kind: codeKind(p), text: string(f.Contents)})
	}
	for _, p := range sortedKeys(mf.Outputs) {
		m := mf.Outputs[p]
		rc.Outputs = append(rc.Outputs, outRec{Path: p, Bytes: m.Bytes, EntryPoint: m.EntryPoint, Code: codeKind(p) != "other"})
		for _, im := range m.Imports {
			rc.OImports = append(rc.OImports, impRec{Out: p, Path: im.Path, Kind: im.Kind, External: im.External})
		}
		for _, e := range m.Exports {
			rc.OExports = append(rc.OExports, expRec{Out: p, Name: e})
		}
		nz := 0
		for _, in := range sortedKeys(m.Inputs) {
			rc.OInputs = append(rc.OInputs, contribRec{Out: p, Inp: in, Bytes: m.Inputs[in].BytesInOutput})
			if m.Inputs[in].BytesInOutput > 0 {
				nz++
			}
		}
		if nz >= 2 {
			rc.multi = true
		}
		for _, im := range m.Imports {
			if !im.External {
				rc.subst = true
			}
		}
	}
	inputSet := map[string]bool{}
	for _, p := range sortedKeys(mf.Inputs) {
		inputSet[p] = true
	}
	for _, p := range sortedKeys(mf.Inputs) {
		in := mf.Inputs[p]
		rc.Inputs = append(rc.Inputs, inputRec{Path: p, Bytes: in.Bytes})
		for _, im := range in.Imports {
			spec := im.Original
			if spec == "" {
				spec = im.Path
			}
			bundled := inputSet[im.Path]
			norm := im.Path
			if filepath.IsAbs(im.Path) {
				if rel, err := filepath.Rel(root, im.Path); err == nil {
					norm = filepath.ToSlash(rel)
					if inputSet[norm] {
						bundled = true
					}
				}
			}
			injected := false
			for _, inj := range w.inject {
				if inj == norm {
					injected = true
				}
			}
			if strings.Contains(spec, "*") {
				spec = "<pattern>" // a glob-style import (a template of a non-literal import() argument)
			}
			if im.External && im.Original == "" && w.extRemap[im.Path] != "" {
				spec = w.extRemap[im.Path] // an external import is listed by the path it was mapped to (package.json "imports")
			}
			rc.IImports = append(rc.IImports, inImpRec{Inp: p, Path: im.Path, Kind: im.Kind, External: im.External, Spec: spec, Bundled: bundled, Injected: injected,
				Disabled: isDisabled(im.Path), File: fileOf(im.Path)})
			if im.Kind == "dynamic-import" && !im.External {
				rc.DynTargets = append(rc.DynTargets, im.Path)
			}
		}
		if p == "<stdin>" || strings.HasPrefix(p, "virt:") {
			rc.Sizes = append(rc.Sizes, sizeRec{Path: p, Size: len(w.files[p])})
		} else if isDisabled(p) {
			rc.Sizes = append(rc.Sizes, sizeRec{Path: p, Size: 0}) // a disabled module is an empty module
		} else if st, err := os.Stat(filepath.Join(root, fileOf(p))); err == nil {
			rc.Sizes = append(rc.Sizes, sizeRec{Path: p, Size: int(st.Size())})
		}
	}
	for _, e := range w.entries {
		rc.Entries = append(rc.Entries, e)
	}
	if w.stdin != nil {
		rc.Entries = append(rc.Entries, "<stdin>")
	}
	rc.Roots = append(append(rc.Roots, rc.Entries...), w.inject...)
	for _, in := range sortedKeys(w.markers) {
		rc.Markers = append(rc.Markers, markerRec{Inp: in, Len: len(w.markers[in])})
	}
	// the exact bytes of the sections of each input in unminified code (see sections)
	if !s.Minify {
		for _, t := range b.texts {
			if t.kind == "other" {
				continue
			}
			sec, glue, complete := sections(t.text, t.kind, inputSet, s.Format, s.Legal)
			for in, n := range sec {
				rc.Exact = append(rc.Exact, exactRec{Out: t.path, Inp: in, Expected: n})
			}
			if complete {
				rc.Glue = append(rc.Glue, glueRec{Out: t.path, Bytes: glue})
			}
		}
		sort.Slice(rc.Exact, func(i, j int) bool {
			if rc.Exact[i].Out != rc.Exact[j].Out {
				return rc.Exact[i].Out < rc.Exact[j].Out
			}
			return rc.Exact[i].Inp < rc.Exact[j].Inp
		})
	}
	// which markers are present in which emitted code/asset file
	assetOut := map[string]string{} // asset input -> base name of its emitted file
	for _, p := range sortedKeys(mf.Outputs) {
		m := mf.Outputs[p]
		if codeKind(p) == "other" && len(m.Inputs) == 1 {
			for in := range m.Inputs {
				assetOut[in] = path.Base(p)
			}
		}
	}
	for _, t := range b.texts {
		if strings.HasSuffix(t.path, ".map") || strings.HasSuffix(t.path, ".LEGAL.txt") {
			continue
		}
		names := map[string]string{} // input name -> marker
		for in, m := range w.markers {
			names[in] = m
		}
		for in := range inputSet {
			if m, ok := w.markers[fileOf(in)]; ok && !isDisabled(in) {
				names[in] = m
			}
		}
		for _, in := range sortedKeys(names) {
			if strings.Contains(t.text, names[in]) {
				rc.Present = append(rc.Present, presentRec{Out: t.path, Inp: in, Via: "marker"})
			} else if w.assets[in] && t.kind != "other" && assetOut[in] != "" && strings.Contains(t.text, assetOut[in]) {
				// the code a file-loader input contributes to a JS/CSS file is the path of its emitted copy
				rc.Present = append(rc.Present, presentRec{Out: t.path, Inp: in, Via: "path"})
			}
		}
	}
	// the code of a disabled module is the empty wrapper registered under its name
	for _, t := range b.texts {
		for in := range inputSet {
			// (white space minified: the wrapper is anonymous and cannot be told apart: taken as present)
			if isDisabled(in) && t.kind == "js" && (strings.Contains(t.text, "\""+in+"\"") || s.Minify) {
				rc.Present = append(rc.Present, presentRec{Out: t.path, Inp: in, Via: "path"})
			}
		}
	}
	sort.SliceStable(rc.Present, func(i, j int) bool {
		if rc.Present[i].Out != rc.Present[j].Out {
			return rc.Present[i].Out < rc.Present[j].Out
		}
		return rc.Present[i].Inp < rc.Present[j].Inp
	})
	return b
}

// sections measures, in an output that keeps its white space, the text the
// linker printed for each input, following the rule of generateChunkJS /
// generateChunkCSS: the linker writes "<indent>// <path>\n" (CSS: "/* <path>
// */\n") before the code of an input and one "\n" between the code of one
// input and the comment of the next; the code of an input never starts or ends
// with an empty line.  After the code of the last input the linker prints its
// own tail: the export clause of an ES module ("export ..." in column 0: the
// export keywords of the inputs themselves are removed by bundling), the
// "0 && (module.exports = ...)" annotation of CommonJS output for node, the
// "})();" of an IIFE, legal comments moved to the end of the file (every mode
// except inline) and the link comments.  Everything outside the sections is
// glue.  complete = every line of the file was assigned (no section under a
// linker comment that names no input, as the stub of a glob import has).
func sections(text, kind string, inputs map[string]bool, format, legal string) (total map[string]int, glue int, complete bool) {
	lines := strings.SplitAfter(text, "\n")
	// ordinary comments do not survive bundling, so every "// x" line (CSS: "/* x */") was
	// written by the linker; one that does not name an input (the stub of a glob import, ...)
	// starts a section that belongs to no input
	header := func(l string) string {
		t := strings.TrimRight(l, "\n")
		t = strings.TrimLeft(t, " \t")
		var p string
		if kind == "js" && strings.HasPrefix(t, "// ") {
			p = t[3:]
		} else if kind == "css" && strings.HasPrefix(t, "/* ") && strings.HasSuffix(t, " */") {
			p = t[3 : len(t)-3]
		} else {
			return ""
		}
		if inputs[p] {
			return p
		}
		return "\x00none"
	}
	tail := func(l string) bool {
		switch {
		case strings.HasPrefix(l, "//# sourceMappingURL="), strings.HasPrefix(l, "/*# sourceMappingURL="):
			return true
		case legal != "inline" && (strings.HasPrefix(l, "/*!") || strings.HasPrefix(l, "//!")):
			return true
		case kind == "js" && format == "esm" && strings.HasPrefix(l, "export "):
			return true
		case kind == "js" && format == "cjs" && strings.HasPrefix(l, "0 && (module.exports"):
			return true
		case kind == "js" && format == "iife" && strings.HasPrefix(l, "})();"):
			return true
		}
		return false
	}
	total = map[string]int{}
	complete = true
	cur, n, pending, last := "", 0, 0, ""
	closeSection := func() {
		if cur == "\x00none" {
			complete = false
		} else if cur != "" {
			total[cur] += n
			last = cur
		}
		glue += pending
		cur, n, pending = "", 0, 0
	}
	for i, l := range lines {
		if h := header(l); h != "" {
			closeSection()
			glue += len(l)
			cur = h
			continue
		}
		if cur != "" && tail(l) {
			closeSection()
			for _, r := range lines[i:] {
				glue += len(r)
			}
			break
		}
		switch {
		case cur == "":
			glue += len(l)
		case l == "\n":
			pending += len(l) // belongs to the section only if more code of it follows
		default:
			n += pending + len(l)
			pending = 0
		}
	}
	closeSection()
	if !complete {
		// the text under a linker comment that names no input belongs to an input this
		// function cannot name: the input of the last section is not measured in such a file
		delete(total, last)
	}
	return total, glue, complete
}

// ---------- re-parsing (node/imports_of.js) ----------

type parseReq struct {
	ID         string `json:"id"`
	Code       string `json:"code"`
	Kind       string `json:"kind"`
	SourceType string `json:"sourceType,omitempty"`
}
type parsedImport struct {
	Path string `json:"path"`
	Kind string `json:"kind"`
}
type parsed struct {
	ID         string         `json:"id"`
	OK         bool           `json:"ok"`
	Error      string         `json:"error"`
	Imports    []parsedImport `json:"imports"`
	Exports    []string       `json:"exports"`
	Strings    []string       `json:"strings"`
	ExportStar bool           `json:"exportStar"`
	DynamicNL  bool           `json:"dynamicNonLiteral"`
}

func (b *built) resolve(from, ref string, emittedSet map[string]bool) (string, bool) {
	var cand string
	if b.pp != "" && strings.HasPrefix(ref, b.pp) {
		cand = path.Join(b.outd, ref[len(b.pp):])
	} else if strings.HasPrefix(ref, "./") || strings.HasPrefix(ref, "../") {
		cand = path.Join(path.Dir(from), ref)
	} else {
		return ref, false
	}
	if emittedSet[cand] {
		return cand, true
	}
	return ref, false
}

func (b *built) fill(byID map[string]*parsed, prefix string) error {
	rc := b.rc
	emittedSet := map[string]bool{}
	for _, e := range rc.Emitted {
		emittedSet[e.Path] = true
	}
	for _, t := range b.texts {
		if t.kind == "other" {
			continue
		}
		p := byID[prefix+"out:"+t.path]
		if p == nil || !p.OK {
			msg := "missing"
			if p != nil {
				msg = p.Error
			}
			return fmt.Errorf("emitted %s could not be re-parsed: %s", t.path, msg)
		}
		isSpec := map[string]bool{}
		for _, im := range p.Imports {
			isSpec[im.Path] = true
			if strings.HasPrefix(im.Path, "data:") {
				continue
			}
			to, internal := b.resolve(t.path, im.Path, emittedSet)
			rc.PImports = append(rc.PImports, impRec{Out: t.path, Path: to, Kind: im.Kind, External: !internal})
		}
		if t.kind == "js" {
			for _, s := range p.Strings {
				if isSpec[s] || !(strings.HasSuffix(s, ".bin") || strings.HasSuffix(s, ".png")) {
					continue
				}
				if to, internal := b.resolve(t.path, s, emittedSet); internal {
					rc.PImports = append(rc.PImports, impRec{Out: t.path, Path: to, Kind: "file-loader", External: false})
				}
			}
		}
		for _, e := range p.Exports {
			rc.PExports = append(rc.PExports, expRec{Out: t.path, Name: e})
		}
	}
	// the import statements of the input files themselves
	isInput := map[string]bool{}
	for _, in := range rc.Inputs {
		isInput[in.Path] = true
	}
	for _, in := range sortedKeys(b.w.files) {
		k := codeKindOfInput(in)
		if k == "" || (b.w.exec && !isInput[in]) {
			// (group res: the world contains files that the resolution under test must NOT choose; they have no account)
			continue
		}
		p := byID[prefix+"in:"+in]
		if p == nil || !p.OK {
			return fmt.Errorf("input %s could not be parsed by the reference parser", in)
		}
		for _, im := range p.Imports {
			rc.SImports = append(rc.SImports, srcImpRec{Inp: in, Spec: im.Path, Kind: im.Kind})
		}
		if p.DynamicNL {
			rc.SImports = append(rc.SImports, srcImpRec{Inp: in, Spec: "<pattern>", Kind: "dynamic-import"})
		}
	}
	return nil
}

func codeKindOfInput(p string) string {
	switch {
	case p == "<stdin>", strings.HasSuffix(p, ".js"), strings.HasSuffix(p, ".cjs"):
		return "js"
	case strings.HasSuffix(p, ".css"):
		return "css"
	}
	return ""
}

// ---------- TLC state validation ----------

type verdict struct {
	I       int                                   `json:"i"`
	Failing []string                              `json:"failing"`
	Detail  map[string]map[string]json.RawMessage `json:"detail"` // invariant -> named sets of offending items
}

// witness names the non-empty sets of offending items of one invariant
func witness(d map[string]json.RawMessage) string {
	var names []string
	for k, v := range d {
		t := strings.TrimSpace(string(v))
		if t != "[]" && t != "{}" && t != "" {
			names = append(names, k)
		}
	}
	sort.Strings(names)
	return strings.Join(names, "+")
}

func validate(r *core.Run, recs []*record) {
	var sb strings.Builder
	for _, rc := range recs {
		b, _ := json.Marshal(rc)
		sb.Write(b)
		sb.WriteByte('\n')
	}
	var verdicts []verdict
	res, err := tlcrun.Run(r, tlcrun.Options{Module: "MetaState", Config: "MetaState.cfg", Workers: 1, TimeoutSec: 1200,
		Files: map[string]string{"c19records.ndjson": sb.String()},
		OnCase: func(raw []byte) {
			var v verdict
			if json.Unmarshal(raw, &v) == nil {
				verdicts = append(verdicts, v)
			}
		}})
	if err != nil {
		r.Infra("state validation failed to run: %v", err)
		return
	}
	if res.Violated != "" || len(verdicts) != len(recs) {
		r.Infra("state validation incomplete: %d verdicts for %d records (violated=%q)\n%s", len(verdicts), len(recs), res.Violated, res.Output)
		return
	}
	r.AddTraces(int64(len(recs)))
	for _, v := range verdicts {
		if len(v.Failing) == 0 || v.I < 1 || v.I > len(recs) {
			continue
		}
		rc := recs[v.I-1]
		s := rc.scen
		for _, inv := range v.Failing {
			det, _ := json.Marshal(v.Detail[inv])
			r.Violation(map[string]interface{}{"invariant": inv, "witness": witness(v.Detail[inv]), "family": s.Family, "paths": s.Paths, "minify": s.Minify, "mini": s.Mini, "format": s.Format, "sm": s.SM, "legal": s.Legal, "mech": s.Mech, "how": s.How, "scenario": s.id()},
				fmt.Sprintf("real build violates %s (scenario %s): %s", inv, s.id(), string(det)),
				map[string]interface{}{"scenario": s, "options": rc.optsStr, "files": rc.files, "record": rc, "metafile": rc.metafile, "detail": v.Detail[inv]})
		}
	}
}

// ---------- the run ----------

// measured coverage of the wider oracles (reported in the evidence)
var cov struct {
	exactSections, glueOutputs, executed, realEdges, mixedKindOutputs, redirected int
}

func runBatch(r *core.Run, scens []scenario, base int, drift *int) {
	builds := make([]*built, len(scens))
	rec.Take()
	core.Parallel(len(scens), 8, func(i int) {
		root := filepath.Join(r.Scratch, fmt.Sprintf("b%d", base+i))
		builds[i] = build(scens[i], base+i, root)
	})
	// the files really read into each bundle (scan.parse hook), by working directory
	read := map[string]map[string]bool{}
	for _, e := range rec.Take() {
		if e.Ev != "scan.parse" {
			continue
		}
		cwd := e.Str("cwd")
		if read[cwd] == nil {
			read[cwd] = map[string]bool{}
		}
		p := e.Str("path")
		if e.Str("ns") == "file" {
			if rel, err := filepath.Rel(cwd, p); err == nil {
				p = filepath.ToSlash(rel)
			}
		} else if e.Str("ns") != "" {
			p = e.Str("ns") + ":" + p
		}
		read[cwd][p] = true
	}
	var reqs []parseReq
	for i, b := range builds {
		if len(b.errs) > 0 {
			continue
		}
		prefix := fmt.Sprintf("%d/", i)
		for _, t := range b.texts {
			if t.kind != "other" {
				st := "module"
				if b.rc.scen.Format != "esm" {
					st = "script"
				}
				reqs = append(reqs, parseReq{ID: prefix + "out:" + t.path, Code: t.text, Kind: t.kind, SourceType: st})
			}
		}
		for _, in := range sortedKeys(b.w.files) {
			if k := codeKindOfInput(in); k != "" {
				st := "module"
				if strings.HasSuffix(in, ".cjs") {
					st = "script"
				}
				reqs = append(reqs, parseReq{ID: prefix + "in:" + in, Code: b.w.files[in], Kind: k, SourceType: st})
			}
		}
	}
	var out struct {
		Results []parsed `json:"results"`
	}
	if err := nodex.Run(r, "imports_of.js", map[string]interface{}{"files": reqs}, &out, 10*time.Minute, "", "--expose-internals"); err != nil {
		r.Infra("re-parsing failed: %v", err)
		return
	}
	byID := map[string]*parsed{}
	for i := range out.Results {
		byID[out.Results[i].ID] = &out.Results[i]
	}
	// run the bundles whose modules record what they really load
	var items []execReq
	for i, b := range builds {
		if len(b.errs) > 0 || !b.w.exec {
			continue
		}
		for _, t := range b.texts {
			if t.kind == "js" {
				items = append(items, execReq{ID: fmt.Sprint(i), Format: b.rc.scen.Format, Code: t.text})
			}
		}
	}
	execByID := map[string]*execRes{}
	if len(items) > 0 {
		var eo struct {
			Results []execRes `json:"results"`
		}
		if err := nodex.Run(r, "meta_exec.js", map[string]interface{}{"dir": filepath.Join(r.Scratch, fmt.Sprintf("exec%d", base)), "items": items}, &eo, 10*time.Minute, ""); err != nil {
			r.Infra("running the bundles failed: %v", err)
			return
		}
		for i := range eo.Results {
			execByID[eo.Results[i].ID] = &eo.Results[i]
		}
	}
	var recs []*record
	for i, b := range builds {
		s := scens[i]
		if len(b.errs) > 0 {
			r.Infra("scenario %s does not build: %v", s.id(), b.errs)
			continue
		}
		if err := b.fill(byID, fmt.Sprintf("%d/", i)); err != nil {
			r.Infra("scenario %s: %v", s.id(), err)
			continue
		}
		if b.w.exec {
			if err := b.fillExec(execByID[fmt.Sprint(i)]); err != nil {
				r.Infra("scenario %s: %v", s.id(), err)
				continue
			}
			b.driftRes(r, drift)
		}
		rd := read[b.root]
		if len(rd) == 0 {
			r.Infra("no scan.parse events for the build in %s (hook missing?)", b.root)
			continue
		}
		// the files read, under the names the metafile gives them (see fileOf)
		named := map[string]bool{}
		for _, in := range b.rc.Inputs {
			if f := fileOf(in.Path); f != in.Path && rd[f] {
				b.rc.Read = append(b.rc.Read, in.Path)
				named[f] = true
			}
		}
		isIn := map[string]bool{}
		for _, in := range b.rc.Inputs {
			isIn[in.Path] = true
		}
		for _, p := range sortedKeys(rd) {
			if !named[p] || isIn[p] {
				b.rc.Read = append(b.rc.Read, p)
			}
		}
		sort.Strings(b.rc.Read)
		os.RemoveAll(b.root)
		rc := b.rc
		r.Case(s.id(), rc.multi || rc.subst)
		if rc.subst != s.Substitutes || rc.multi != s.Multi {
			*drift++
			r.Drift("MetaGen predicts substitutes=%v multi=%v for %s, the real metafile shows substitutes=%v multi=%v", s.Substitutes, s.Multi, s.id(), rc.subst, rc.multi)
		}
		cov.exactSections += len(rc.Exact)
		cov.glueOutputs += len(rc.Glue)
		if rc.Exec {
			cov.executed++
			cov.realEdges += len(rc.REdges)
		}
		// outputs into which paths of both kinds were substituted (an emitted asset and another chunk)
		kinds := map[string]map[string]bool{}
		for _, m := range rc.OImports {
			if m.External {
				continue
			}
			if kinds[m.Out] == nil {
				kinds[m.Out] = map[string]bool{}
			}
			if m.Kind == "file-loader" || m.Kind == "url-token" {
				kinds[m.Out]["asset"] = true
			} else {
				kinds[m.Out]["chunk"] = true
			}
		}
		for _, k := range kinds {
			if len(k) == 2 {
				cov.mixedKindOutputs++
			}
		}
		for _, m := range rc.IImports {
			if m.Disabled || (!m.External && m.Spec != "<pattern>" && !strings.HasPrefix(m.Spec, ".") && m.Spec != m.Path) {
				cov.redirected++
			}
		}
		if (base+i)%97 == 0 {
			r.Sample(map[string]interface{}{"scenario": s, "outputs": rc.Outputs, "inputs": rc.Inputs, "contributions": rc.OInputs})
		}
		recs = append(recs, rc)
	}
	if os.Getenv("C19_DUMP") != "" {
		f, _ := os.Create(os.Getenv("C19_DUMP"))
		for _, rc := range recs {
			b, _ := json.Marshal(rc)
			f.Write(b)
			f.WriteString("\n")
		}
		f.Close()
	}
	const batch = 600
	for i := 0; i < len(recs); i += batch {
		j := i + batch
		if j > len(recs) {
			j = len(recs)
		}
		validate(r, recs[i:j])
	}
}

func Run(r *core.Run) {
	r.Assume("imports/exports of the emitted code are obtained by re-parsing it with the acorn that Node 20 embeds (JS) and a CSS tokenizer (@import, url()); a string literal of a JS output that resolves to an emitted asset is a file-loader reference")
	r.Assume("the set of files read into the bundle is the set of scan.parse hook events of the build (per working directory)")
	r.Assume("every input carries a unique marker literal; the code a file-loader input contributes to a JS/CSS output is the path of its emitted copy")
	r.Assume("in output that keeps its white space the text printed for an input lies between its path comment and the next path comment or the linker's tail (export clause, CommonJS annotation, IIFE close, end-of-file legal comments, link comments); the inputs of the scenarios contain no such line themselves")
	r.Assume("group res: every module records at run time (Node 20, node/meta_exec.js) that it was evaluated and the id of every module it received; a module that the browser map disables or an external module has no id")
	cov.exactSections, cov.glueOutputs, cov.executed, cov.realEdges, cov.mixedKindOutputs, cov.redirected = 0, 0, 0, 0, 0, 0
	rec.Install()
	if root, err := filepath.EvalSymlinks(r.Scratch); err == nil {
		r.Scratch = root
	}
	if r.Replay != "" {
		// re-run exactly the scenario of a replay file (no design checks)
		var rp struct {
			Detail struct {
				Scenario scenario `json:"scenario"`
			} `json:"detail"`
		}
		b, err := os.ReadFile(r.Replay)
		if err != nil || json.Unmarshal(b, &rp) != nil || rp.Detail.Scenario.Family == "" {
			r.Infra("cannot read the scenario of replay file %s", r.Replay)
			return
		}
		drift := 0
		runBatch(r, []scenario{rp.Detail.Scenario}, 0, &drift)
		r.Set("rule", "replay of one scenario")
		return
	}
	var wg sync.WaitGroup
	wg.Add(1)
	go func() {
		defer wg.Done()
		cfg := "Meta.cfg"
		if r.Thorough() {
			cfg = "Meta.thorough.cfg"
		}
		tlcrun.MustHold(r, tlcrun.Options{Module: "Meta", Config: cfg, Workers: r.Pick(3, 4), TimeoutSec: 2400})
	}()
	var scens []scenario
	res := tlcrun.MustHold(r, tlcrun.Options{Module: "MetaGen", Config: "MetaGen.cfg", Workers: 1, TimeoutSec: 600, OnCase: func(raw []byte) {
		var s scenario
		if json.Unmarshal(raw, &s) == nil {
			scens = append(scens, s)
		}
	}})
	if res == nil || len(scens) == 0 {
		r.Infra("no scenarios exported by MetaGen")
		wg.Wait()
		return
	}
	sort.Slice(scens, func(i, j int) bool { return scens[i].id() < scens[j].id() })
	r.Set("scenarios_enumerated", len(scens))
	if only := os.Getenv("C19_ONLY"); only != "" { // developer aid: restrict to some families / mechanisms
		var keep []scenario
		for _, s := range scens {
			for _, f := range strings.Split(only, ",") {
				if s.Family == f || s.Mech == f {
					keep = append(keep, s)
				}
			}
		}
		scens = keep
	}
	// seeded sub-sampling per group: quick 1/9 of base, 1/12 of mix, 1/3 of res; thorough all of base and res, 1/2 of mix
	rate := map[string]int{"mix": r.Pick(12, 2), "res": r.Pick(3, 1)}
	var pick []scenario
	groups := map[string]int{}
	for _, s := range scens {
		n := rate[s.Family]
		if n == 0 {
			n = r.Pick(9, 1)
		}
		if n == 1 || r.Rand.Intn(n) == 0 {
			pick = append(pick, s)
			g := s.Family
			if g != "mix" && g != "res" {
				g = "base"
			}
			groups[g]++
		}
	}
	scens = pick
	r.Set("scenarios_built_by_group", groups)
	r.Logf("%d scenarios to build", len(scens))
	drift := 0
	const chunk = 1200
	for i := 0; i < len(scens); i += chunk {
		j := i + chunk
		if j > len(scens) {
			j = len(scens)
		}
		runBatch(r, scens[i:j], i, &drift)
	}
	wg.Wait()
	r.Set("exact_sections_compared", cov.exactSections)
	r.Set("outputs_with_glue_equation", cov.glueOutputs)
	r.Set("bundles_executed", cov.executed)
	r.Set("runtime_import_edges_compared", cov.realEdges)
	r.Set("outputs_with_asset_and_chunk_paths", cov.mixedKindOutputs)
	r.Set("resolution_dependent_import_edges", cov.redirected)
	r.Set("rule", "case = one scenario of MetaGen.tla (base: family x path style x minify level x format x source maps x legal comments; mix: assets x lazy pages x name lengths x css x shared entry x import order x path templates x minify level; res: resolution mechanism x platform x main fields x reference kinds x preserveSymlinks x format x minify) built with the real api.Build; non-trivial = two or more inputs contribute to one output, or a final path was substituted into an output (an output imports another emitted file); every build becomes one record validated by TLC against MetaState.tla")
}

func init() { core.Register("C19", Run) }
