// Package c20: build contexts, plugins and the service protocol are safe under
// concurrency.  Spec: BuildContext.tla (+ Service.tla); binding: trace
// validation of randomized multi-goroutine histories against
// BuildContextTrace.tla, schedule perturbation through gates.
package c20

import (
	"encoding/json"
	"fmt"
	"math/rand"
	"os"
	"path/filepath"
	"regexp"
	"sort"
	"strings"
	"sync"
	"sync/atomic"
	"time"

	"github.com/evanw/esbuild/pkg/api"

	"verifharness/core"
	"verifharness/rec"
	"verifharness/tlcrun"
)

var reStamp = regexp.MustCompile(`STAMP_(\d+)_`)
var reVer = regexp.MustCompile(`VER_(\d+)_`)

// one recorded history of one context
type history struct {
	ID      int                      `json:"id"`
	Seed    int64                    `json:"seed"`
	Events  []map[string]interface{} `json:"events"`
	Ops     []string                 `json:"ops"` // human-readable op list (for samples / replay)
	Overlap bool                     `json:"overlap"`
	Hang    bool                     `json:"hang"`
	dir     string
	ctxID   string
	callers map[int64]string // goroutine id -> caller name
}

type project struct {
	dir     string
	hid     int
	ver     int64 // latest version written (harness side)
	editMu  sync.Mutex
	stamp   int64 // build counter, incremented by on-start callback 1
	rnd     *rand.Rand
	rndMu   sync.Mutex
	failPct int
	script  *buildScript // non-nil: failures are dictated by a TLC schedule
	slowMs  int64        // extra delay of the stamp module's on-load callback (atomic)
}

// what a TLC schedule says about the builds (by build number)
type buildScript struct {
	scanErr   map[int64]bool
	onEndFail map[int64]map[int]bool
}

func (p *project) rand(n int) int {
	if p.script != nil {
		return 0
	}
	p.rndMu.Lock()
	defer p.rndMu.Unlock()
	return p.rnd.Intn(n)
}

func (p *project) writeVer(v int64) {
	tmp := filepath.Join(p.dir, fmt.Sprintf(".ver.%d.tmp", v))
	os.WriteFile(tmp, []byte(fmt.Sprintf("export const VER = 'VER_%d_'\n", v)), 0644)
	os.Rename(tmp, filepath.Join(p.dir, "ver.js"))
}

func hlog(hid int, ev string, kv map[string]interface{}) {
	kv["hid"] = hid
	rec.Log(ev, kv)
}

func (p *project) plugin() api.Plugin {
	return api.Plugin{
		Name: "verif",
		Setup: func(b api.PluginBuild) {
			b.OnStart(func() (api.OnStartResult, error) {
				hlog(p.hid, "cb.onstart.begin", map[string]interface{}{"k": 1})
				atomic.AddInt64(&p.stamp, 1)
				time.Sleep(time.Duration(p.rand(300)) * time.Microsecond)
				hlog(p.hid, "cb.onstart.end", map[string]interface{}{"k": 1})
				return api.OnStartResult{}, nil
			})
			b.OnStart(func() (api.OnStartResult, error) {
				hlog(p.hid, "cb.onstart.begin", map[string]interface{}{"k": 2})
				time.Sleep(time.Duration(p.rand(300)) * time.Microsecond)
				hlog(p.hid, "cb.onstart.end", map[string]interface{}{"k": 2})
				return api.OnStartResult{}, nil
			})
			b.OnResolve(api.OnResolveOptions{Filter: `^virtual:stamp$`}, func(a api.OnResolveArgs) (api.OnResolveResult, error) {
				hlog(p.hid, "cb.resolve", map[string]interface{}{"stamp": atomic.LoadInt64(&p.stamp)})
				if p.script == nil && p.rand(3) == 0 {
					// re-enter the API from within a callback
					r := b.Resolve("./dep.js", api.ResolveOptions{ResolveDir: p.dir, Kind: api.ResolveJSImportStatement})
					_ = r
				}
				return api.OnResolveResult{Path: "stamp", Namespace: "stamp"}, nil
			})
			b.OnLoad(api.OnLoadOptions{Filter: `.*`, Namespace: "stamp"}, func(a api.OnLoadArgs) (api.OnLoadResult, error) {
				s := atomic.LoadInt64(&p.stamp)
				hlog(p.hid, "cb.load", map[string]interface{}{"m": "stamp", "stamp": s})
				time.Sleep(time.Duration(p.rand(1500)) * time.Microsecond)
				if ms := atomic.LoadInt64(&p.slowMs); ms > 0 {
					time.Sleep(time.Duration(ms) * time.Millisecond)
				}
				if (p.script == nil && p.rand(100) < p.failPct) || (p.script != nil && p.script.scanErr[s]) {
					return api.OnLoadResult{}, fmt.Errorf("seeded load failure")
				}
				c := fmt.Sprintf("export const STAMP = 'STAMP_%d_'\n", s)
				return api.OnLoadResult{Contents: &c, Loader: api.LoaderJS}, nil
			})
			b.OnLoad(api.OnLoadOptions{Filter: `\.js$`, Namespace: "file"}, func(a api.OnLoadArgs) (api.OnLoadResult, error) {
				m := strings.TrimSuffix(filepath.Base(a.Path), ".js")
				hlog(p.hid, "cb.load", map[string]interface{}{"m": m, "stamp": atomic.LoadInt64(&p.stamp)})
				return api.OnLoadResult{}, nil
			})
			for i := 1; i <= 2; i++ {
				i := i
				b.OnEnd(func(result *api.BuildResult) (api.OnEndResult, error) {
					exists := true
					for _, f := range result.OutputFiles {
						if data, err := os.ReadFile(f.Path); err != nil || string(data) != string(f.Contents) {
							exists = false
						}
					}
					fail := p.rand(100) < p.failPct
					if p.script != nil {
						fail = p.script.onEndFail[atomic.LoadInt64(&p.stamp)][i]
					}
					hlog(p.hid, "cb.onend", map[string]interface{}{"i": i, "stamp": atomic.LoadInt64(&p.stamp), "exists": exists, "fail": fail})
					if fail {
						return api.OnEndResult{}, fmt.Errorf("seeded on-end failure")
					}
					return api.OnEndResult{}, nil
				})
			}
		},
	}
}

func classify(res api.BuildResult) (string, int64, int64) {
	for _, e := range res.Errors {
		if strings.Contains(e.Text, "The build was canceled") {
			return "cancelled", 0, 0
		}
	}
	if len(res.Errors) > 0 {
		return "errors", 0, 0
	}
	if len(res.OutputFiles) == 0 {
		return "empty", 0, 0
	}
	var stamp, ver int64 = -1, -1
	for _, f := range res.OutputFiles {
		ms := reStamp.FindAllStringSubmatch(string(f.Contents), -1)
		mv := reVer.FindAllStringSubmatch(string(f.Contents), -1)
		if len(ms) == 0 || len(mv) == 0 {
			return "unstamped", 0, 0
		}
		for _, m := range ms {
			var s int64
			fmt.Sscan(m[1], &s)
			if stamp != -1 && s != stamp {
				return "mixed", 0, 0
			}
			stamp = s
		}
		for _, m := range mv {
			var v int64
			fmt.Sscan(m[1], &v)
			if ver != -1 && v != ver {
				return "mixed", 0, 0
			}
			ver = v
		}
	}
	return "ok", stamp, ver
}

// runHistory drives one context with k goroutines x n operations
func runHistory(r *core.Run, hid int, seed int64, k, n int, withWatch bool) *history {
	rnd := rand.New(rand.NewSource(seed))
	dir := filepath.Join(r.Scratch, fmt.Sprintf("h%d", hid))
	os.MkdirAll(dir, 0755)
	core.WriteTree(dir, map[string]string{
		"a.js":   "import {STAMP} from 'virtual:stamp'\nimport {VER} from './ver.js'\nimport {D} from './dep.js'\nconsole.log('a', STAMP, VER, D)\n",
		"b.js":   "import {STAMP} from 'virtual:stamp'\nimport {VER} from './ver.js'\nimport {D} from './dep.js'\nconsole.log('b', STAMP, VER, D)\n",
		"dep.js": "export const D = 'dep'\n",
	})
	p := &project{dir: dir, hid: hid, rnd: rand.New(rand.NewSource(seed ^ 0x5bd1e995)), failPct: 12}
	p.writeVer(0)
	ctx, cerr := api.Context(api.BuildOptions{
		AbsWorkingDir: dir,
		EntryPoints:   []string{"a.js", "b.js"},
		Bundle:        true,
		Outdir:        "out",
		Write:         true,
		LogLevel:      api.LogLevelSilent,
		Plugins:       []api.Plugin{p.plugin()},
	})
	if cerr != nil {
		r.Infra("context creation failed: %v", cerr.Errors)
		return nil
	}
	h := &history{ID: hid, Seed: seed, dir: dir, ctxID: api.VerifContextID(ctx), callers: map[int64]string{}}
	// pointer-based ids can be reused once the context is garbage: the events
	// of this history are those between hist.begin and hist.end
	hlog(hid, "hist.begin", map[string]interface{}{})
	defer func() {
		hlog(hid, "hist.end", map[string]interface{}{})
		_ = ctx
	}()
	rec.SetGate(h.ctxID, rec.Jitter(seed, 0.5, 400))
	defer rec.SetGate(h.ctxID, nil)

	var wg sync.WaitGroup
	var hmu sync.Mutex
	disposedByCaller := false
	for c := 1; c <= k; c++ {
		name := fmt.Sprintf("c%d", c)
		crnd := rand.New(rand.NewSource(rnd.Int63()))
		wg.Add(1)
		go func() {
			defer wg.Done()
			gid := api.VerifGoID()
			hmu.Lock()
			h.callers[gid] = name
			hmu.Unlock()
			hlog(hid, "caller", map[string]interface{}{"c": name})
			for i := 0; i < n; i++ {
				x := crnd.Intn(100)
				switch {
				case x < 50:
					hlog(hid, "issue", map[string]interface{}{"c": name, "op": "rebuild"})
					res := ctx.Rebuild()
					kind, stamp, ver := classify(res)
					hlog(hid, "ret", map[string]interface{}{"c": name, "op": "rebuild", "res": kind, "stamp": stamp, "ver": ver})
				case x < 72:
					if crnd.Intn(2) == 0 {
						time.Sleep(time.Duration(crnd.Intn(1200)) * time.Microsecond)
					}
					hlog(hid, "issue", map[string]interface{}{"c": name, "op": "cancel"})
					ctx.Cancel()
					hlog(hid, "ret", map[string]interface{}{"c": name, "op": "cancel"})
				case x < 90:
					p.editMu.Lock()
					v := p.ver + 1
					hlog(hid, "edit.begin", map[string]interface{}{"ver": v})
					p.writeVer(v)
					p.ver = v
					hlog(hid, "edit.end", map[string]interface{}{"ver": v})
					p.editMu.Unlock()
				case x < 94 && withWatch:
					hlog(hid, "issue", map[string]interface{}{"c": name, "op": "watch"})
					err := ctx.Watch(api.WatchOptions{})
					res := "ok"
					if err != nil {
						if strings.Contains(err.Error(), "disposed") {
							res = "disposed"
						} else {
							res = "already"
						}
					}
					hlog(hid, "ret", map[string]interface{}{"c": name, "op": "watch", "res": res})
				case x < 97 && i > n/2:
					hlog(hid, "issue", map[string]interface{}{"c": name, "op": "dispose"})
					ctx.Dispose()
					hlog(hid, "ret", map[string]interface{}{"c": name, "op": "dispose"})
					hmu.Lock()
					disposedByCaller = true
					hmu.Unlock()
				default:
					time.Sleep(time.Duration(crnd.Intn(500)) * time.Microsecond)
				}
			}
		}()
	}
	done := make(chan struct{})
	go func() { wg.Wait(); close(done) }()
	select {
	case <-done:
	case <-time.After(60 * time.Second):
		// deadlock / hang: reported by the caller after reproducing
		h.Hang = true
		return h
	}
	_ = disposedByCaller
	// final dispose by the main goroutine (as caller "c<k+1>")
	name := fmt.Sprintf("c%d", k+1)
	h.callers[api.VerifGoID()] = name
	hlog(hid, "issue", map[string]interface{}{"c": name, "op": "dispose"})
	ctx.Dispose()
	hlog(hid, "ret", map[string]interface{}{"c": name, "op": "dispose"})
	return h
}

// runWatchHistory: watch mode.  The watcher goroutine notices edits by itself
// and starts rebuilds; API calls (Rebuild/Cancel/Dispose) are issued while
// such a watcher-initiated build is in progress.
func runWatchHistory(r *core.Run, hid int, seed int64) *history {
	rnd := rand.New(rand.NewSource(seed))
	dir := filepath.Join(r.Scratch, fmt.Sprintf("h%d", hid))
	os.MkdirAll(dir, 0755)
	core.WriteTree(dir, map[string]string{
		"a.js":   "import {STAMP} from 'virtual:stamp'\nimport {VER} from './ver.js'\nimport {D} from './dep.js'\nconsole.log('a', STAMP, VER, D)\n",
		"b.js":   "import {STAMP} from 'virtual:stamp'\nimport {VER} from './ver.js'\nimport {D} from './dep.js'\nconsole.log('b', STAMP, VER, D)\n",
		"dep.js": "export const D = 'dep'\n",
	})
	p := &project{dir: dir, hid: hid, rnd: rand.New(rand.NewSource(seed ^ 0x5bd1e995)), failPct: 5}
	p.writeVer(0)
	ctx, cerr := api.Context(api.BuildOptions{
		AbsWorkingDir: dir, EntryPoints: []string{"a.js", "b.js"}, Bundle: true, Outdir: "out", Write: true,
		LogLevel: api.LogLevelSilent, Plugins: []api.Plugin{p.plugin()},
	})
	if cerr != nil {
		r.Infra("context creation failed: %v", cerr.Errors)
		return nil
	}
	h := &history{ID: hid, Seed: seed, dir: dir, ctxID: api.VerifContextID(ctx), callers: map[int64]string{}}
	hlog(hid, "hist.begin", map[string]interface{}{})
	defer func() {
		hlog(hid, "hist.end", map[string]interface{}{})
		_ = ctx
	}()
	gid := api.VerifGoID()
	h.callers[gid] = "c1"
	var hmu sync.Mutex
	call := func(name, op string, fn func()) bool {
		hlog(hid, "issue", map[string]interface{}{"c": name, "op": op})
		done := make(chan struct{})
		go func() {
			hmu.Lock()
			h.callers[api.VerifGoID()] = name
			hmu.Unlock()
			fn()
			close(done)
		}()
		select {
		case <-done:
			return true
		case <-time.After(60 * time.Second):
			h.Hang = true
			h.Ops = append(h.Ops, "HANG in "+op)
			return false
		}
	}
	waitStamp := func(min int64, d time.Duration) bool {
		deadline := time.Now().Add(d)
		for time.Now().Before(deadline) {
			if atomic.LoadInt64(&p.stamp) >= min {
				return true
			}
			time.Sleep(2 * time.Millisecond)
		}
		return false
	}
	if !call("c1", "watch", func() {
		err := ctx.Watch(api.WatchOptions{})
		res := "ok"
		if err != nil {
			res = "already"
		}
		hlog(hid, "ret", map[string]interface{}{"c": "c1", "op": "watch", "res": res})
	}) {
		return h
	}
	waitStamp(1, 5*time.Second) // the initial watch build has started
	time.Sleep(30 * time.Millisecond)
	rounds := 2 + rnd.Intn(2)
	for k := 0; k < rounds; k++ {
		before := atomic.LoadInt64(&p.stamp)
		atomic.StoreInt64(&p.slowMs, int64(20+rnd.Intn(40)))
		p.editMu.Lock()
		v := p.ver + 1
		hlog(hid, "edit.begin", map[string]interface{}{"ver": v})
		p.writeVer(v)
		p.ver = v
		hlog(hid, "edit.end", map[string]interface{}{"ver": v})
		p.editMu.Unlock()
		// the watcher polls every 100ms: wait until it has started a build by itself
		started := waitStamp(before+1, 3*time.Second)
		time.Sleep(time.Duration(rnd.Intn(15)) * time.Millisecond)
		name := fmt.Sprintf("c%d", 2+k)
		last := k == rounds-1
		ok := true
		switch {
		case last:
			ok = call(name, "dispose", func() {
				ctx.Dispose()
				hlog(hid, "ret", map[string]interface{}{"c": name, "op": "dispose"})
			})
		case rnd.Intn(2) == 0:
			ok = call(name, "cancel", func() {
				ctx.Cancel()
				hlog(hid, "ret", map[string]interface{}{"c": name, "op": "cancel"})
			})
		default:
			ok = call(name, "rebuild", func() {
				res := ctx.Rebuild()
				kind, stamp, ver := classify(res)
				hlog(hid, "ret", map[string]interface{}{"c": name, "op": "rebuild", "res": kind, "stamp": stamp, "ver": ver})
			})
		}
		if started {
			h.Overlap = true
		}
		h.Ops = append(h.Ops, fmt.Sprintf("edit;watcher-build-started=%v;%s", started, name))
		if !ok {
			return h
		}
		atomic.StoreInt64(&p.slowMs, 0)
		time.Sleep(20 * time.Millisecond)
	}
	call("c8", "dispose", func() {
		ctx.Dispose()
		hlog(hid, "ret", map[string]interface{}{"c": "c8", "op": "dispose"})
	})
	return h
}

// project the global event log onto the trace of one history
func (h *history) project(all []rec.Event) {
	buildNo := map[string]int{}
	nb := 0
	internal := map[int64]string{}
	name := func(gid int64) string {
		if n, ok := h.callers[gid]; ok {
			return n
		}
		if n, ok := internal[gid]; ok {
			return n
		}
		n := fmt.Sprintf("x%d", len(internal)+1)
		internal[gid] = n
		return n
	}
	isInternal := func(gid int64) bool { _, ok := h.callers[gid]; return !ok }
	inflight := 0
	inWindow := false
	emit := func(m map[string]interface{}) { h.Events = append(h.Events, m) }
	for _, e := range all {
		if hid, ok := e.KV["hid"]; ok {
			if hid.(int) != h.ID {
				continue
			}
			if e.Ev == "hist.begin" {
				inWindow = true
				continue
			}
			if e.Ev == "hist.end" {
				inWindow = false
				continue
			}
			m := map[string]interface{}{"ev": e.Ev}
			for k, v := range e.KV {
				if k != "hid" {
					m[k] = v
				}
			}
			switch e.Ev {
			case "caller":
				continue
			case "issue":
				inflight++
				if inflight >= 2 {
					h.Overlap = true
				}
				h.Ops = append(h.Ops, fmt.Sprintf("%s:%s", m["c"], m["op"]))
			case "ret":
				inflight--
			case "cb.onstart.begin", "cb.onstart.end", "cb.resolve":
			}
			emit(m)
			continue
		}
		if !inWindow {
			continue
		}
		if c, ok := e.KV["ctx"]; ok {
			if c.(string) != h.ctxID {
				continue
			}
		} else if c, ok := e.KV["cwd"]; ok {
			if c.(string) != h.dir {
				continue
			}
		} else {
			continue
		}
		switch e.Ev {
		case "ctx.enter":
			br := e.Str("branch")
			if isInternal(e.Gid) {
				emit(map[string]interface{}{"ev": "issue", "c": name(e.Gid), "op": "rebuild"})
			}
			m := map[string]interface{}{"ev": "ctx.enter", "c": name(e.Gid), "branch": br, "b": 0}
			if br == "start" {
				nb++
				buildNo[e.Str("build")] = nb
			}
			if br != "disposed" {
				m["b"] = buildNo[e.Str("build")]
			}
			emit(m)
			if br == "disposed" && isInternal(e.Gid) {
				emit(map[string]interface{}{"ev": "ret.internal", "c": name(e.Gid)})
			}
		case "rebuild.return":
			if isInternal(e.Gid) {
				emit(map[string]interface{}{"ev": "ret.internal", "c": name(e.Gid)})
			}
		case "build.publish", "build.wgdone":
			emit(map[string]interface{}{"ev": e.Ev, "b": buildNo[e.Str("build")]})
		case "build.scan.done":
			emit(map[string]interface{}{"ev": e.Ev, "errors": e.Bool("errors")})
		case "build.compile.done":
			emit(map[string]interface{}{"ev": e.Ev, "errors": e.Bool("errors"), "cancelled": e.Bool("cancelled")})
		case "build.write.done":
			emit(map[string]interface{}{"ev": e.Ev, "errors": e.Bool("errors")})
		case "out.write", "out.skip", "out.delete":
			emit(map[string]interface{}{"ev": e.Ev, "path": filepath.Base(e.Str("path"))})
		case "cancel.enter", "dispose.enter":
			m := map[string]interface{}{"ev": e.Ev, "c": name(e.Gid), "branch": e.Str("branch"), "b": 0}
			if e.Str("branch") == "active" {
				m["b"] = buildNo[e.Str("build")]
			}
			emit(m)
		case "cancel.flag":
			emit(map[string]interface{}{"ev": e.Ev, "c": name(e.Gid)})
		case "watch.enter":
			emit(map[string]interface{}{"ev": e.Ev, "c": name(e.Gid)})
		}
	}
}

func ndjson(events []map[string]interface{}) string {
	var sb strings.Builder
	for _, m := range events {
		b, _ := json.Marshal(m)
		sb.Write(b)
		sb.WriteByte('\n')
	}
	return sb.String()
}

// validate runs BuildContextTrace on a batch of histories; a rejected history
// is reported and the rest of the batch is re-validated without it.
func validate(r *core.Run, hs []*history) {
	for len(hs) > 0 {
		var all []map[string]interface{}
		bounds := make([]int, len(hs)) // index (1-based) of the last event of history i
		for i, h := range hs {
			if i > 0 {
				all = append(all, map[string]interface{}{"ev": "reset"})
			}
			all = append(all, h.Events...)
			bounds[i] = len(all)
		}
		res, err := tlcrun.Run(r, tlcrun.Options{
			Module: "BuildContextTrace", Config: "BuildContextTrace.cfg", Workers: 1, DFS: true,
			TimeoutSec: 600, NoDeadlock: true, KeepOutput: true,
			Files: map[string]string{"bctrace.ndjson": ndjson(all)},
		})
		if err != nil {
			r.Infra("trace validation failed to run: %v", err)
			return
		}
		if res.Violated == "" && !res.PostFalse {
			r.AddTraces(int64(len(hs)))
			return
		}
		// find the high-water mark: number of distinct l values = depth reached.
		hw := highWater(res.Output)
		idx := len(hs) - 1
		for i, b := range bounds {
			if hw <= b+1 { // hw is the index of the first event that could not be consumed
				idx = i
				break
			}
		}
		bad := hs[idx]
		start := 0
		if idx > 0 {
			start = bounds[idx-1] + 1
		}
		pos := hw - start // 1-based position within the history of the rejected event
		var rejected interface{}
		if pos >= 1 && pos <= len(bad.Events) {
			rejected = bad.Events[pos-1]
		}
		what := fmt.Sprintf("real execution of a build context rejected by BuildContextTrace (violated=%q) at event %d of %d: %v", res.Violated, pos, len(bad.Events), rejected)
		r.Violation(map[string]interface{}{"kind": "trace-rejected", "violated": res.Violated, "event": rejected},
			what, map[string]interface{}{"seed": bad.Seed, "ops": bad.Ops, "trace": bad.Events, "rejected_at": pos, "tlc_tail": tail(res.Output, 30)})
		r.AddTraces(int64(idx))
		hs = hs[idx+1:]
	}
}

var reHW = regexp.MustCompile(`"HIGHWATER", (\d+)`)

var reL = regexp.MustCompile(`(?m)^/\\ l = (\d+)`)

func highWater(out string) int {
	for _, x := range reL.FindAllStringSubmatch(out, -1) {
		var v int
		fmt.Sscan(x[1], &v)
		_ = v
	}
	return highWater2(out)
}

func highWater2(out string) int {
	// the trace spec prints its register on termination through the POSTCONDITION
	m := reHW.FindAllStringSubmatch(out, -1)
	hw := 1
	for _, x := range reL.FindAllStringSubmatch(out, -1) {
		var v int
		fmt.Sscan(x[1], &v)
		if v > hw {
			hw = v
		}
	}
	for _, x := range m {
		var v int
		fmt.Sscan(x[1], &v)
		if v > hw {
			hw = v
		}
	}
	return hw
}

func tail(s string, n int) string {
	lines := strings.Split(s, "\n")
	if len(lines) > n {
		lines = lines[len(lines)-n:]
	}
	return strings.Join(lines, "\n")
}

// Extra parts of the C20 check living in other packages (the stdio service
// driver registers itself here from its init function)
var Parts []func(r *core.Run)

func Run(r *core.Run) {
	defer func() {
		for _, part := range Parts {
			part(r)
		}
	}()
	r.Assume("a trace rejected by BuildContextTrace on a changed tree is attributed to the code: the trace specification accepts every recorded execution of the unchanged tree")
	r.Assume("hook events are emitted inside the critical section they report (or immediately before waitGroup.Done / after Wait), so the log order is a linearization")
	// (1) the design: exhaustive TLC on the small configurations
	cfgs := []string{"BuildContext.quick.cfg", "BuildContext.watch.cfg", "BuildContext.cb.cfg", "BuildContext.live.cfg"}
	if r.Thorough() {
		cfgs = append(cfgs, "BuildContext.thorough.cfg")
	}
	skip := os.Getenv("VERIF_C20_DEV_SKIP") // developer switch only: "model,random"
	if strings.Contains(skip, "model") {
		cfgs = nil
	}
	for _, c := range cfgs {
		res := tlcrun.MustHold(r, tlcrun.Options{Module: "BuildContextMC", Config: c, Workers: 8, TimeoutSec: 1500})
		if res != nil {
			r.Set("tlc_"+strings.TrimSuffix(strings.TrimPrefix(c, "BuildContext."), ".cfg"), map[string]interface{}{"generated": res.Generated, "distinct": res.Distinct, "depth": res.Depth})
		}
	}
	// (2) the code: randomized histories (run in a child process so that a
	// crash of esbuild is observed), trace-validated by TLC
	nh := r.Pick(120, 1500)
	if strings.Contains(skip, "random") {
		nh = 0
	}
	batch := 40
	exes := []string{""}
	if r.Thorough() {
		if race := r.RaceExe(); race != "" {
			exes = append(exes, race)
		}
	}
	for done := 0; done < nh; done += batch {
		exe := exes[(done/batch)%len(exes)]
		var hs []*history
		cr := r.Child("c20.batch", batchIn{Start: done, Count: batch}, &hs, 10*time.Minute, exe, "GORACE=halt_on_error=1")
		if cr.Crashed || cr.TimedOut {
			if core.CrashInEsbuild(cr.Stderr) {
				kind := "crash"
				if strings.Contains(cr.Stderr, "DATA RACE") {
					kind = "data-race"
				}
				r.Violation(map[string]interface{}{"kind": kind, "batch": done}, "the process running concurrent context operations died: "+kind, map[string]interface{}{"stderr": cr.Stderr, "batch_start": done, "seed": r.Seed})
				break
			}
			r.Infra("history driver died without pointing into esbuild (exit %d, timeout=%v):\n%s", cr.ExitCode, cr.TimedOut, cr.Stderr)
			break
		}
		var ok []*history
		for _, h := range hs {
			if h.Hang {
				r.Violation(map[string]interface{}{"kind": "hang", "seed": h.Seed}, "calls on a build context did not terminate within 60s", map[string]interface{}{"seed": h.Seed, "ops": h.Ops})
				continue
			}
			r.Case(fmt.Sprintf("h%d-%d", h.Seed, len(h.Events)), h.Overlap)
			if h.ID%50 == 0 {
				r.Sample(map[string]interface{}{"seed": h.Seed, "ops": h.Ops, "events": len(h.Events)})
			}
			ok = append(ok, h)
		}
		validate(r, ok)
		if r.Violations() > 5 {
			break
		}
	}
	// (3) binding (R): TLC-generated behaviours imposed on the real context through the gates
	if r.Violations() == 0 {
		var scheds []schedule
		seen := map[string]bool{}
		res, err := tlcrun.Run(r, tlcrun.Options{Module: "BuildContextSched", Config: "BuildContextSched.cfg", Workers: 1, TimeoutSec: 600,
			Simulate: fmt.Sprintf("num=%d", r.Pick(1500, 20000)), Depth: 90, Seed: r.Seed,
			OnCase: func(raw []byte) {
				var s schedule
				if json.Unmarshal(raw, &s) == nil && !seen[string(raw)] {
					seen[string(raw)] = true
					scheds = append(scheds, s)
				}
			}})
		if err != nil {
			r.Infra("schedule generation failed: %v", err)
		} else if res.Violated != "" {
			r.Infra("BuildContextSched violates %s on the design alone", res.Violated)
		}
		sort.SliceStable(scheds, func(i, j int) bool { return scheds[i].score() > scheds[j].score() })
		want := r.Pick(60, 1200)
		if len(scheds) > want {
			// the most eventful half plus a seeded sample of the rest
			top := scheds[:want/2]
			rest := scheds[want/2:]
			r.Rand.Shuffle(len(rest), func(i, j int) { rest[i], rest[j] = rest[j], rest[i] })
			scheds = append(append([]schedule{}, top...), rest[:want-want/2]...)
		}
		followed, replayed := 0, 0
		for done := 0; done < len(scheds); done += 30 {
			end := done + 30
			if end > len(scheds) {
				end = len(scheds)
			}
			var out replayBatchOut
			cr := r.Child("c20.replay", replayBatchIn{Start: 100000 + done, Scheds: scheds[done:end]}, &out, 10*time.Minute, "")
			if cr.Crashed || cr.TimedOut {
				if core.CrashInEsbuild(cr.Stderr) {
					r.Violation(map[string]interface{}{"kind": "crash", "phase": "schedule-replay"}, "the process replaying a TLC schedule died", map[string]interface{}{"stderr": cr.Stderr})
				} else {
					r.Infra("schedule replay driver died (exit %d, timeout=%v):\n%s", cr.ExitCode, cr.TimedOut, cr.Stderr)
				}
				break
			}
			followed += out.Followed
			var ok []*history
			for _, h := range out.Histories {
				if h.Hang {
					r.Violation(map[string]interface{}{"kind": "hang", "phase": "schedule-replay"}, "calls on a build context did not terminate within 60s while replaying a TLC schedule", map[string]interface{}{"ops": h.Ops})
					continue
				}
				replayed++
				r.Case(fmt.Sprintf("sched%d-%d", h.ID, len(h.Events)), true)
				ok = append(ok, h)
			}
			if done == 0 && len(ok) > 0 {
				r.Sample(map[string]interface{}{"tlc_schedule_replayed": ok[0].Ops, "events": len(ok[0].Events)})
			}
			validate(r, ok)
			if r.Violations() > 5 {
				break
			}
		}
		r.Set("tlc_schedules_replayed", replayed)
		r.Set("tlc_schedules_followed_to_the_end", followed)
	}
	r.Set("rule", "a history = k goroutines x n seeded random operations (rebuild/cancel/dispose/watch/edit) on one real context with blocking/failing/re-entering plugin callbacks; non-trivial = at least two API calls overlapped in time (by sequence numbers); distinct by (seed, trace length)")
}

type batchIn struct {
	Start int `json:"start"`
	Count int `json:"count"`
}

func init() {
	core.Register("C20", Run)
	core.RegisterChild("c20.batch", func(r *core.Run, in json.RawMessage) (interface{}, error) {
		var b batchIn
		if err := json.Unmarshal(in, &b); err != nil {
			return nil, err
		}
		rec.Install()
		var hs []*history
		var mu sync.Mutex
		core.Parallel(b.Count, 8, func(i int) {
			hid := b.Start + i
			seed := r.Seed*1000003 + int64(hid)
			k := 2 + hid%3
			var h *history
			if hid%6 == 5 {
				h = runWatchHistory(r, hid, seed)
			} else {
				h = runHistory(r, hid, seed, k, 10+hid%7, hid%5 == 4)
			}
			if h != nil {
				mu.Lock()
				hs = append(hs, h)
				mu.Unlock()
			}
		})
		all := rec.Take()
		for _, h := range hs {
			if !h.Hang {
				h.project(all)
			}
		}
		return hs, nil
	})
}
