// Package c15: renaming never changes which declaration a name refers to.
//
// Spec: spec/Rename.tla.  TLC (a) model-checks the two renamer algorithms
// (NumberRenamer, MinifyRenamer) against BindingPreserved,
// NoTwoVisibleSameName, NoReservedOrFreeCapture, PinnedUnchanged on all small
// scope trees (design configs) and (b) generates scope trees (CASE records:
// scopes, declarations, references + the specification's resolution of every
// reference).  Binding (R): every tree is rendered as a marker program (every
// declaration initialised with a marker, every reference logs the value it
// sees, at once and again when the program has finished), compiled by the real
// api.Transform / api.Build under a set of configurations, and input and
// output are executed by Node in fresh vm contexts.  Three-way comparison:
// specification vs V8 on the input (disagreement = SPEC-DRIFT, case excluded),
// input vs output (disagreement = VIOLATION).  props.go covers mangled
// properties.
package c15

import (
	"encoding/json"
	"fmt"
	"os"
	"path/filepath"
	"sort"
	"strings"
	"sync"
	"time"

	"github.com/evanw/esbuild/pkg/api"

	"verifharness/core"
	"verifharness/nodex"
	"verifharness/tlcrun"
)

type scopeT struct {
	Kind   string `json:"kind"`
	Parent int    `json:"parent"`
	Ev     bool   `json:"ev"`
	Wrap   string `json:"wrap"` // files: none | cjs-m | cjs-e | cjs-r | lazy-r | lazy-i
}

func isCJS(w string) bool { return strings.HasPrefix(w, "cjs-") }

type declT struct {
	Scope int    `json:"scope"`
	Kind  string `json:"kind"`
	Name  string `json:"name"`
}
type refT struct {
	Scope int    `json:"scope"`
	Name  string `json:"name"`
	Pos   string `json:"pos"`
}
type symT struct {
	S      int    `json:"s"`
	Lvl    string `json:"lvl"`
	N      string `json:"n"`
	Pinned bool   `json:"pinned"`
	Top    bool   `json:"top"`
	Slot   int    `json:"slot"`
	Num    string `json:"num"`
	Min    string `json:"min"`
	PinNR  bool   `json:"pinNotReserved"`
	Val    int    `json:"val"` // marker the binding holds at the end (-2: undefined)
}
type caseT struct {
	Sloppy  bool     `json:"sloppy"`
	Scopes  []scopeT `json:"scopes"`
	Decls   []declT  `json:"decls"`
	Refs    []refT   `json:"refs"`
	Mark    []int    `json:"mark"`
	AnnexB  []bool   `json:"annexb"`
	Res     []int    `json:"res"`
	Val     []int    `json:"val"`
	ArgsOf  []int    `json:"argsOf"`
	ViaWith []bool   `json:"viaWith"`
	Syms    []symT   `json:"syms"`
	Free    []string `json:"free"`
	Coinc   []string `json:"coinc"`
	FailNum []string `json:"failNum"`
	FailMin []string `json:"failMin"`
	// JSX twin of a generated tree: every name capitalised (a bijection on the alphabet, so the
	// specification's resolution carries over), references rendered as JSX component tags <X />,
	// compiled with JSX preserved (component names must stay capitalised)
	JSX bool `json:"jsx,omitempty"`
}

func capName(n string) string {
	if n == "arguments" || n == "eval" || n == "" || n[0] < 'a' || n[0] > 'z' {
		return n
	}
	return strings.ToUpper(n[:1]) + n[1:]
}

// jsxTwin returns a deep copy of the case with capitalised names
func jsxTwin(c *caseT) *caseT {
	b, _ := json.Marshal(c)
	var t caseT
	json.Unmarshal(b, &t)
	t.JSX = true
	for i := range t.Decls {
		t.Decls[i].Name = capName(t.Decls[i].Name)
	}
	for i := range t.Refs {
		t.Refs[i].Name = capName(t.Refs[i].Name)
	}
	for i := range t.Syms {
		t.Syms[i].N = capName(t.Syms[i].N)
	}
	for i := range t.Free {
		t.Free[i] = capName(t.Free[i])
	}
	return &t
}

// ---------------------------------------------------------------------------
// rendering a tree as a marker program

type program struct {
	Files    map[string]string
	Entries  []string // entry points (module mode: f1.js; with splitting f1.js, f2.js)
	Globals  []string // free names defined on the global object
	Probes   []string // top-level names of a script, read back by name from outside
	HasWith  bool
	HasEval  bool
	Expect   map[string]interface{} // reference id -> value the specification predicts for the deferred read
	JSXFiles map[string]string      // JSX twin: the files given to esbuild (<X />); Files holds the equivalent __JSX(X, null) form executed as the input
	NFiles   int
	Wrapped  bool                // some file has a wrapper kind other than "none"
	FTypes   map[string]string   // file -> "esm" | "cjs" (how the reference loader of the Node runner treats it)
	CJSNames map[string][]string // CommonJS file -> its export names
	extraRef int
}

type renderer struct {
	c        *caseT
	children map[int][]int
	sb       *strings.Builder
	jsx      int // 0: plain; 1: references as JSX tags <X />; 2: as the calls __JSX(X, null) the tags stand for
}

func marker(m int) int { return 100 + m }

func (g *renderer) refExpr(k int) string {
	rf := g.c.Refs[k]
	read := rf.Name
	// direct eval reads a declared name by its source text; a free name inside
	// an eval string is invisible to any compiler and stays a plain reference
	if g.c.Scopes[rf.Scope-1].Ev && g.c.Res[k] != 0 {
		read = fmt.Sprintf("eval(%q)", rf.Name)
	}
	if g.jsx != 0 && read == rf.Name && k%3 != 2 && rf.Name != "arguments" && rf.Name != "eval" && !(rf.Name[0] >= 'a' && rf.Name[0] <= 'z') {
		if g.jsx == 1 {
			read = "<" + rf.Name + " />"
		} else {
			read = "__JSX(" + rf.Name + ", null)"
		}
	}
	return fmt.Sprintf("__L(%d, %s, () => %s)", k+1, read, read)
}

func (g *renderer) declsOf(s int, kinds ...string) []int {
	var out []int
	for i, d := range g.c.Decls {
		if d.Scope != s {
			continue
		}
		for _, k := range kinds {
			if d.Kind == k {
				out = append(out, i)
			}
		}
	}
	return out
}

// body renders the declarations, child scopes and references of scope s
func (g *renderer) body(s int, ind string, skipDecls bool) {
	sb := g.sb
	if !skipDecls {
		for i, d := range g.c.Decls {
			if d.Scope != s {
				continue
			}
			m := marker(g.c.Mark[i])
			switch d.Kind {
			case "var":
				fmt.Fprintf(sb, "%svar %s = %d;\n", ind, d.Name, m)
			case "let":
				fmt.Fprintf(sb, "%slet %s = %d;\n", ind, d.Name, m)
			case "const":
				fmt.Fprintf(sb, "%sconst %s = %d;\n", ind, d.Name, m)
			case "class":
				fmt.Fprintf(sb, "%sclass %s { static m = %d }\n", ind, d.Name, m)
			case "fun":
				fmt.Fprintf(sb, "%sfunction %s() { return %d }\n", ind, d.Name, m)
			}
		}
	}
	evalCalls := 0
	for _, ch := range g.children[s] {
		g.scope(ch, ind)
	}
	for k, rf := range g.c.Refs {
		if rf.Scope == s && rf.Pos == "body" {
			x := g.refExpr(k)
			fmt.Fprintf(sb, "%s%s;\n", ind, x)
			if strings.Contains(x, "eval(") {
				evalCalls++
			}
		}
	}
	// a scope with ev = TRUE always contains a direct eval in its body (references to
	// free names are rendered as plain identifiers, so they do not count)
	if g.c.Scopes[s-1].Ev && evalCalls == 0 {
		fmt.Fprintf(sb, "%seval(\"0\");\n", ind)
	}
}

func (g *renderer) scope(s int, ind string) {
	sb := g.sb
	sc := g.c.Scopes[s-1]
	in2 := ind + "  "
	switch sc.Kind {
	case "fn", "arrow":
		var params, args []string
		for _, i := range g.declsOf(s, "param") {
			params = append(params, g.c.Decls[i].Name)
			args = append(args, fmt.Sprint(marker(g.c.Mark[i])))
		}
		for k, rf := range g.c.Refs {
			if rf.Scope == s && rf.Pos == "param" {
				params = append(params, fmt.Sprintf("__p%d = %s", k+1, g.refExpr(k)))
				args = append(args, "undefined")
			}
		}
		self := g.declsOf(s, "self")
		if sc.Kind == "arrow" {
			fmt.Fprintf(sb, "%s((%s) => {\n", ind, strings.Join(params, ", "))
			g.body(s, in2, false)
			fmt.Fprintf(sb, "%s})(%s);\n", ind, strings.Join(args, ", "))
		} else {
			args = append(args, fmt.Sprintf("\"S%d\"", s))
			if len(self) > 0 {
				fmt.Fprintf(sb, "%s__T(%d, function %s(%s) {\n", ind, marker(g.c.Mark[self[0]]), g.c.Decls[self[0]].Name, strings.Join(params, ", "))
			} else {
				fmt.Fprintf(sb, "%s__T(0, function(%s) {\n", ind, strings.Join(params, ", "))
			}
			g.body(s, in2, false)
			fmt.Fprintf(sb, "%s})(%s);\n", ind, strings.Join(args, ", "))
		}
	case "block":
		fmt.Fprintf(sb, "%s{\n", ind)
		g.body(s, in2, false)
		fmt.Fprintf(sb, "%s}\n", ind)
	case "with":
		fmt.Fprintf(sb, "%swith (__W) {\n", ind)
		g.body(s, in2, false)
		fmt.Fprintf(sb, "%s}\n", ind)
	case "catch":
		cp := g.declsOf(s, "cparam")
		if len(cp) > 0 {
			fmt.Fprintf(sb, "%stry { throw %d } catch (%s) {\n", ind, marker(g.c.Mark[cp[0]]), g.c.Decls[cp[0]].Name)
		} else {
			fmt.Fprintf(sb, "%stry { throw 0 } catch {\n", ind)
		}
		g.body(s, in2, false)
		fmt.Fprintf(sb, "%s}\n", ind)
	case "for":
		ds := g.declsOf(s, "let", "var")
		kw := "const"
		var names, vals []string
		for _, i := range ds {
			kw = g.c.Decls[i].Kind
			names = append(names, g.c.Decls[i].Name)
			vals = append(vals, fmt.Sprint(marker(g.c.Mark[i])))
		}
		fmt.Fprintf(sb, "%sfor (%s [%s] of [[%s]]) {\n", ind, kw, strings.Join(names, ", "), strings.Join(vals, ", "))
		g.body(s, in2, true)
		fmt.Fprintf(sb, "%s}\n", ind)
	case "cls":
		self := g.declsOf(s, "self")
		if len(self) > 0 {
			fmt.Fprintf(sb, "%s__T(%d, class %s { static {\n", ind, marker(g.c.Mark[self[0]]), g.c.Decls[self[0]].Name)
		} else {
			fmt.Fprintf(sb, "%s__T(0, class { static {\n", ind)
		}
		g.body(s, in2, false)
		fmt.Fprintf(sb, "%s} });\n", ind)
	}
}

func expectOf(c *caseT, k int) interface{} {
	switch v := c.Val[k]; {
	case v == 0:
		return "G:" + c.Refs[k].Name
	case v == -1:
		return fmt.Sprintf("ARGS:S%d", c.ArgsOf[k])
	case v == -2:
		return "undefined"
	default:
		return float64(marker(v))
	}
}

func render(c *caseT, splitting bool) *program {
	if c.JSX {
		p := renderJ(c, splitting, 2)
		p.JSXFiles = renderJ(c, splitting, 1).Files
		return p
	}
	return renderJ(c, splitting, 0)
}

func renderJ(c *caseT, splitting bool, jsx int) *program {
	p := &program{Files: map[string]string{}, Expect: map[string]interface{}{}}
	g := &renderer{c: c, children: map[int][]int{}, jsx: jsx}
	nf := 0
	for i, sc := range c.Scopes {
		if sc.Kind == "file" {
			nf++
		} else {
			g.children[sc.Parent] = append(g.children[sc.Parent], i+1)
		}
		if sc.Kind == "with" {
			p.HasWith = true
		}
		if sc.Ev {
			p.HasEval = true
		}
	}
	p.NFiles = nf
	p.Globals = append([]string{}, c.Free...)
	for k := range c.Refs {
		p.Expect[fmt.Sprint(k+1)] = expectOf(c, k)
	}
	// distinct top-level names per file with the marker of their first declaration
	type top struct {
		name string
		mark int
	}
	tops := make([][]top, nf+1)
	for i, d := range c.Decls {
		if d.Scope <= nf {
			dup := false
			for _, t := range tops[d.Scope] {
				if t.name == d.Name {
					dup = true
				}
			}
			if !dup {
				tops[d.Scope] = append(tops[d.Scope], top{d.Name, marker(c.Mark[i])})
			}
		}
	}
	extra := 1000
	p.FTypes = map[string]string{}
	p.CJSNames = map[string][]string{}
	wrapOf := func(f int) string {
		if w := c.Scopes[f-1].Wrap; w != "" {
			return w
		}
		return "none"
	}
	for f := 1; f <= nf; f++ {
		sb := &strings.Builder{}
		g.sb = sb
		name := fmt.Sprintf("f%d.js", f)
		wf := wrapOf(f)
		p.FTypes[name] = "esm"
		if isCJS(wf) {
			p.FTypes[name] = "cjs"
			p.Wrapped = true
			sb.WriteString("\"use strict\";\n") // the model's module mode is strict code throughout
		} else if wf != "none" {
			p.Wrapped = true
		}
		var tail []string
		if !c.Sloppy {
			// every file loads the later ones, for effect and by name (under local names
			// outside the alphabet), in the way that gives the later file its wrapper kind:
			//   none          import "./fj.js"; import { t as ij_t } from "./fj.js"
			//   cjs-m, cjs-e  the same import statements (the imported file is a CommonJS module)
			//   cjs-r         require("./fj.js") for effect (the file has no export syntax at all)
			//   lazy-r        const __rj = require("./fj.js") of an ES module (wrapped in __esm)
			//   lazy-i        import("./fj.js").then(...) without code splitting (wrapped in __esm)
			// a CommonJS file cannot use import statements: it loads everything with require()
			var body []string
			for j := f + 1; j <= nf; j++ {
				wj := wrapOf(j)
				read := func(t top, expr string) {
					extra++
					tail = append(tail, fmt.Sprintf("__L(%d, %s, () => %s);", extra, expr, expr))
					p.Expect[fmt.Sprint(extra)] = float64(t.mark)
				}
				switch {
				case wj == "lazy-i":
					var reads []string
					for _, t := range tops[j] {
						extra++
						reads = append(reads, fmt.Sprintf("__L(%d, __n.%s, () => __n.%s);", extra, t.name, t.name))
						p.Expect[fmt.Sprint(extra)] = float64(t.mark)
					}
					body = append(body, fmt.Sprintf("import(\"./f%d.js\").then((__n) => { %s });", j, strings.Join(reads, " ")))
				case wj == "cjs-r":
					body = append(body, fmt.Sprintf("require(\"./f%d.js\");", j))
				case wj == "lazy-r" || isCJS(wf):
					body = append(body, fmt.Sprintf("const __r%d = require(\"./f%d.js\");", j, j))
					for _, t := range tops[j] {
						read(t, fmt.Sprintf("__r%d.%s", j, t.name))
					}
				default:
					fmt.Fprintf(sb, "import \"./f%d.js\";\n", j)
					for _, t := range tops[j] {
						local := fmt.Sprintf("i%d_%s", j, strings.ReplaceAll(t.name, "$", "S"))
						fmt.Fprintf(sb, "import { %s as %s } from \"./f%d.js\";\n", t.name, local, j)
						read(t, local)
					}
				}
			}
			for _, b := range body {
				sb.WriteString(b + "\n")
			}
		}
		g.body(f, "", false)
		for _, t := range tail {
			sb.WriteString(t + "\n")
		}
		if !c.Sloppy {
			var ex []string
			for _, t := range tops[f] {
				ex = append(ex, t.name)
			}
			switch wf {
			case "cjs-m":
				fmt.Fprintf(sb, "module.exports = { %s };\n", strings.Join(ex, ", "))
				p.CJSNames[name] = ex
			case "cjs-e":
				for _, n := range ex {
					fmt.Fprintf(sb, "exports.%s = %s;\n", n, n)
				}
				p.CJSNames[name] = ex
			case "cjs-r":
				p.CJSNames[name] = nil
			default:
				fmt.Fprintf(sb, "export { %s };\n", strings.Join(ex, ", "))
			}
		} else {
			for _, t := range tops[f] {
				p.Probes = append(p.Probes, t.name)
			}
		}
		p.Files[name] = sb.String()
	}
	p.Entries = []string{"f1.js"}
	if splitting && nf >= 2 {
		p.Entries = []string{"f1.js", "f2.js"}
	}
	return p
}

// ---------------------------------------------------------------------------
// configurations of the real code

type config struct {
	Mode      string `json:"mode"`   // transform | build
	Format    string `json:"format"` // "", iife, cjs, esm
	Minify    bool   `json:"minify"`
	KeepNames bool   `json:"keepNames"`
	Target    string `json:"target"` // "", es2019
	Splitting bool   `json:"splitting"`
	JSX       bool   `json:"jsx,omitempty"` // JSX preserved (only for JSX twins)
}

func (c config) String() string {
	s := c.Mode + "/" + c.Format
	if c.Format == "" {
		s += "none"
	}
	if c.Minify {
		s += "+min"
	}
	if c.KeepNames {
		s += "+keep"
	}
	if c.Target != "" {
		s += "+" + c.Target
	}
	if c.Splitting {
		s += "+split"
	}
	if c.JSX {
		s += "+jsx"
	}
	return s
}

// a function declaration that shares its binding with a var or a parameter
// (the initialiser overwrites the function before esbuild's __name(f, "f")
// helper call runs, which then throws): a keep-names matter, not a renaming one
func funVarAlias(c *caseT) bool {
	for i, d := range c.Decls {
		for j, e := range c.Decls {
			if d.Kind == "fun" && e.Kind != "fun" && c.Mark[i] == c.Mark[j] {
				return true
			}
		}
	}
	return false
}

func allConfigs(c *caseT, p *program) []config {
	all := allConfigs0(c, p)
	if !funVarAlias(c) {
		return all
	}
	var out []config
	for _, cf := range all {
		if !cf.KeepNames {
			out = append(out, cf)
		}
	}
	return out
}

func allConfigs0(c *caseT, p *program) []config {
	var out []config
	bools := []bool{false, true}
	if c.JSX {
		if c.Sloppy {
			for _, f := range []string{"", "iife", "cjs"} {
				for _, m := range bools {
					out = append(out, config{Mode: "transform", Format: f, Minify: m, JSX: true})
				}
			}
			return out
		}
		for _, f := range []string{"esm", "iife", "cjs"} {
			for _, m := range bools {
				out = append(out, config{Mode: "build", Format: f, Minify: m, JSX: true})
			}
		}
		if p.NFiles >= 2 && !p.Wrapped {
			out = append(out, config{Mode: "build", Format: "esm", Minify: true, Splitting: true, JSX: true})
		}
		if p.NFiles == 1 {
			for _, f := range []string{"", "cjs", "iife"} {
				for _, m := range bools {
					out = append(out, config{Mode: "transform", Format: f, Minify: m, JSX: true})
				}
			}
		}
		return out
	}
	if c.Sloppy {
		// a sloppy script is not converted to an ES module: that changes the
		// language mode (function-in-block semantics, "with"), not names
		formats := []string{"", "iife", "cjs"}
		for _, f := range formats {
			for _, m := range bools {
				for _, k := range bools {
					out = append(out, config{Mode: "transform", Format: f, Minify: m, KeepNames: k})
				}
				out = append(out, config{Mode: "transform", Format: f, Minify: m, Target: "es2019"})
			}
		}
		return out
	}
	for _, f := range []string{"esm", "iife", "cjs"} {
		for _, m := range bools {
			for _, k := range bools {
				out = append(out, config{Mode: "build", Format: f, Minify: m, KeepNames: k})
			}
			out = append(out, config{Mode: "build", Format: f, Minify: m, Target: "es2019"})
		}
	}
	if p.NFiles >= 2 && !p.Wrapped { // "lazy-i" is import() without code splitting
		for _, m := range bools {
			for _, k := range bools {
				out = append(out, config{Mode: "build", Format: "esm", Minify: m, KeepNames: k, Splitting: true})
			}
		}
	}
	if p.NFiles == 1 {
		for _, f := range []string{"", "cjs", "iife"} {
			for _, m := range bools {
				out = append(out, config{Mode: "transform", Format: f, Minify: m, KeepNames: m && f == ""})
			}
		}
	}
	return out
}

func apiFormat(f string) api.Format {
	switch f {
	case "iife":
		return api.FormatIIFE
	case "cjs":
		return api.FormatCommonJS
	case "esm":
		return api.FormatESModule
	}
	return api.FormatDefault
}

func msgText(ms []api.Message) string {
	var s []string
	for _, m := range ms {
		s = append(s, m.Text)
	}
	return strings.Join(s, "; ")
}

type compiled struct {
	Files   map[string]string
	Entries []string
	Kind    string // script | esm | cjs
	Global  string
	Err     string
}

const globalName = "__G"

// compile runs the real esbuild on the rendered program
func compile(r *core.Run, dir string, p *program, cf config) compiled {
	out := compiled{Files: map[string]string{}}
	switch cf.Format {
	case "esm":
		out.Kind = "esm"
	case "cjs":
		out.Kind = "cjs"
	default:
		out.Kind = "script"
	}
	target := api.DefaultTarget
	if cf.Target == "es2019" {
		target = api.ES2019
	}
	if cf.Mode == "transform" {
		opts := api.TransformOptions{Format: apiFormat(cf.Format), MinifyIdentifiers: cf.Minify, KeepNames: cf.KeepNames,
			Target: target, Loader: api.LoaderJS, Sourcefile: "f1.js", LogLevel: api.LogLevelSilent}
		src := p.Files["f1.js"]
		if cf.JSX {
			opts.Loader, opts.JSX, src = api.LoaderJSX, api.JSXPreserve, p.JSXFiles["f1.js"]
		}
		if cf.Format == "iife" && strings.Contains(p.Files["f1.js"], "export {") {
			opts.GlobalName = globalName
			out.Global = globalName
		}
		if cf.Format == "" && strings.Contains(p.Files["f1.js"], "export {") {
			out.Kind = "esm"
		}
		res := api.Transform(src, opts)
		if len(res.Errors) > 0 {
			out.Err = msgText(res.Errors)
			return out
		}
		out.Files["f1.js"] = string(res.Code)
		if cf.JSX {
			lowerJSX(&out)
		}
		out.Entries = []string{"f1.js"}
		return out
	}
	var eps []string
	for _, e := range p.Entries {
		eps = append(eps, filepath.Join(dir, e))
	}
	opts := api.BuildOptions{AbsWorkingDir: dir, EntryPoints: eps, Bundle: true, Write: false, Outdir: filepath.Join(dir, "out"),
		Format: apiFormat(cf.Format), MinifyIdentifiers: cf.Minify, KeepNames: cf.KeepNames, Target: target,
		Splitting: cf.Splitting, LogLevel: api.LogLevelSilent}
	if cf.Format == "iife" {
		opts.GlobalName = globalName
		out.Global = globalName
	}
	if cf.JSX {
		opts.Loader = map[string]api.Loader{".js": api.LoaderJSX}
		opts.JSX = api.JSXPreserve
	}
	res := api.Build(opts)
	if len(res.Errors) > 0 {
		out.Err = msgText(res.Errors)
		return out
	}
	outdir := filepath.Join(dir, "out")
	for _, f := range res.OutputFiles {
		rel, err := filepath.Rel(outdir, f.Path)
		if err != nil {
			rel = filepath.Base(f.Path)
		}
		out.Files[filepath.ToSlash(rel)] = string(f.Contents)
	}
	out.Entries = append(out.Entries, p.Entries...)
	if cf.JSX {
		lowerJSX(&out)
	}
	return out
}

// lowerJSX makes an output with preserved JSX executable: every file goes through a second,
// non-renaming pass of esbuild (no bundling, no minification, default format) that turns
// <X /> into __JSX(X, null); the Node runner defines __JSX as the function that returns the tag
func lowerJSX(out *compiled) {
	for name, code := range out.Files {
		res := api.Transform(code, api.TransformOptions{Loader: api.LoaderJSX, JSX: api.JSXTransform, JSXFactory: "__JSX", Sourcefile: name, LogLevel: api.LogLevelSilent})
		if len(res.Errors) > 0 {
			// not hidden: an output that does not parse is reported by the execution
			continue
		}
		out.Files[name] = string(res.Code)
	}
}

// ---------------------------------------------------------------------------
// execution by Node

type job struct {
	ID         string              `json:"id"`
	Kind       string              `json:"kind"`
	Files      map[string]string   `json:"files"`
	Entries    []string            `json:"entries"`
	Globals    []string            `json:"globals"`
	WNames     []string            `json:"wnames"`
	Probes     []string            `json:"probes"`
	GlobalName string              `json:"globalName"`
	FTypes     map[string]string   `json:"ftypes,omitempty"`
	CJSNames   map[string][]string `json:"cjsNames,omitempty"`
}
type jobResult struct {
	ID      string                            `json:"id"`
	Imm     map[string]interface{}            `json:"imm"`
	Def     map[string]interface{}            `json:"def"`
	Exports map[string]map[string]interface{} `json:"exports"`
	Probes  map[string]interface{}            `json:"probes"`
	Sites   map[string]string                 `json:"sites"`
	Error   string                            `json:"error"`
}

func runJobs(r *core.Run, jobs []job) map[string]*jobResult {
	out := map[string]*jobResult{}
	if len(jobs) == 0 {
		return out
	}
	const batch = 400
	var batches [][]job
	for i := 0; i < len(jobs); i += batch {
		j := i + batch
		if j > len(jobs) {
			j = len(jobs)
		}
		batches = append(batches, jobs[i:j])
	}
	var mu sync.Mutex
	core.Parallel(len(batches), 8, func(i int) {
		var res struct {
			Results []*jobResult `json:"results"`
		}
		err := nodex.Run(r, "run_rename.js", map[string]interface{}{"jobs": batches[i]}, &res, 10*time.Minute, "", "--experimental-vm-modules", "--no-warnings")
		if err != nil {
			r.Infra("node runner failed on a batch of %d programs: %v", len(batches[i]), err)
			return
		}
		mu.Lock()
		for _, x := range res.Results {
			out[x.ID] = x
		}
		mu.Unlock()
	})
	return out
}

func eqVal(a, b interface{}) bool { return fmt.Sprint(a) == fmt.Sprint(b) }

// diffKeys returns the reference ids on which two logs differ
func diffKeys(exp, got map[string]interface{}) []int {
	var out []int
	for k, v := range exp {
		if g, ok := got[k]; !ok || !eqVal(v, g) {
			n := 0
			fmt.Sscan(k, &n)
			out = append(out, n)
		}
	}
	sort.Ints(out)
	return out
}

func diffMaps(exp, got map[string]interface{}) []string {
	var d []string
	keys := make([]string, 0, len(exp))
	for k := range exp {
		keys = append(keys, k)
	}
	sort.Strings(keys)
	for _, k := range keys {
		g, ok := got[k]
		if !ok {
			d = append(d, fmt.Sprintf("%s: input saw %v, output did not execute it", k, exp[k]))
		} else if !eqVal(exp[k], g) {
			d = append(d, fmt.Sprintf("%s: input saw %v, output saw %v", k, exp[k], g))
		}
	}
	return d
}

// ---------------------------------------------------------------------------
// one unit of work: a case under a set of configurations

type unit struct {
	idx     int
	raw     json.RawMessage
	c       *caseT
	hash    string
	configs []config
	progs   map[bool]*program // by splitting
	outs    []compiled
}

func wmodes(p *program) []string {
	if p.HasWith {
		return []string{"e", "f"} // with-object empty / full (every name of the alphabet is a property)
	}
	return []string{"e"}
}

// the properties of the with-object in mode "f": the names the program reads
// through a with statement
func wnames(c *caseT, mode string) []string {
	if mode != "f" {
		return nil
	}
	out := []string{}
	for k, rf := range c.Refs {
		if c.ViaWith[k] && rf.Name != "eval" { // a scope below "with" may call eval
			out = append(out, rf.Name)
		}
	}
	return out
}

// treeHash identifies a case by the tree alone (not by the predictions exported
// with it), so that the order of the cases and the configurations picked for
// them do not change when the specification exports another prediction
func treeHash(c *caseT) string {
	return core.Hash(map[string]interface{}{"sloppy": c.Sloppy, "scopes": c.Scopes, "decls": c.Decls, "refs": c.Refs})
}

func inputKind(c *caseT) string {
	if c.Sloppy {
		return "script"
	}
	return "esm"
}

// causeOf attributes a violation to one of the structural features that the
// known findings are about, from the tree and the references whose final
// reads differ (nil: unknown, e.g. the output does not run):
//   - pinned-nested-name-not-reserved: a nested symbol pinned by a reference
//     through "with" whose name is not in the reserved set;
//   - class-expr-name-in-eval-scope: the name of a class expression whose
//     body contains direct eval (all differing references resolve to it);
//   - block-function-in-class-body: a function declared in a block inside a
//     class body of a sloppy script (all differing references have its name);
//   - with-pinned-block-function-and-its-hoisted-var: a sloppy block-level
//     function referenced through "with" and the output does not parse because
//     its name is declared twice.
func causeOf(c *caseT, cf config, bad []int, errText string) string {
	anc := func(s int) []int {
		var out []int
		for s != 0 {
			out = append(out, s)
			s = c.Scopes[s-1].Parent
		}
		return out
	}
	blockLike := func(k string) bool { return k == "block" || k == "catch" || k == "for" || k == "with" }
	fnInCls := map[string]bool{}
	if c.Sloppy {
		for _, d := range c.Decls {
			if d.Kind != "fun" || !blockLike(c.Scopes[d.Scope-1].Kind) {
				continue
			}
			for _, a := range anc(d.Scope) {
				if c.Scopes[a-1].Kind == "cls" {
					fnInCls[d.Name] = true
				}
			}
		}
	}
	clsSelf := map[int]bool{} // index into c.Syms (1-based as in c.Res)
	clsScopes := map[int]bool{}
	pinNR := false
	for i, y := range c.Syms {
		if y.PinNR {
			pinNR = true
		}
		if y.Lvl == "s" && y.Pinned && c.Scopes[y.S-1].Kind == "cls" {
			clsSelf[i+1] = true
			clsScopes[y.S] = true
		}
	}
	// a reference named _a inside such a class: esbuild replaces the class name by
	// the generated symbol _a, which the eval taint pins
	tempCapture := func(k int) bool {
		if c.Refs[k-1].Name != "_a" {
			return false
		}
		for _, a := range anc(c.Refs[k-1].Scope) {
			if clsScopes[a] {
				return true
			}
		}
		return false
	}
	// tree shaking (format iife) removed an unused top-level function whose symbol a
	// sloppy block function of the same name is hoisted into
	if c.Sloppy && cf.Format == "iife" && strings.Contains(errText, "has already been declared") {
		for i, d := range c.Decls {
			if !c.AnnexB[i] {
				continue
			}
			top := true
			for _, a := range anc(d.Scope) {
				if k := c.Scopes[a-1].Kind; k == "fn" || k == "arrow" || k == "cls" {
					top = false
				}
			}
			for _, e := range c.Decls {
				if top && e.Kind == "fun" && e.Name == d.Name && c.Scopes[e.Scope-1].Kind == "file" {
					return "tree-shaken-function-shares-symbol-with-block-function"
				}
			}
		}
	}
	// a sloppy block-level function that is referenced through "with" (pinned): esbuild
	// rewrites it to "let f = function(){}; var f = f", the block-level symbol normally
	// gets another name than the hoisted var, but a pinned one keeps it
	if c.Sloppy && strings.Contains(errText, "has already been declared") {
		for _, d := range c.Decls {
			if d.Kind != "fun" || !blockLike(c.Scopes[d.Scope-1].Kind) || !strings.Contains(errText, "Identifier '"+d.Name+"' has already been declared") {
				continue
			}
			inCls := false
			for _, a := range anc(d.Scope) {
				if c.Scopes[a-1].Kind == "cls" {
					inCls = true
				}
			}
			for k := range c.Refs {
				if y := c.Res[k]; !inCls && c.ViaWith[k] && y > 0 && c.Syms[y-1].S == d.Scope && c.Syms[y-1].N == d.Name && c.Syms[y-1].Lvl == "m" {
					return "with-pinned-block-function-and-its-hoisted-var"
				}
			}
		}
	}
	all := func(pred func(k int) bool) bool {
		if len(bad) == 0 {
			return false
		}
		for _, k := range bad {
			if k < 1 || k > len(c.Refs) || !pred(k) {
				return false
			}
		}
		return true
	}
	switch {
	case len(fnInCls) > 0 && all(func(k int) bool { return fnInCls[c.Refs[k-1].Name] }):
		return "block-function-in-class-body"
	case len(clsSelf) > 0 && all(func(k int) bool { return clsSelf[c.Res[k-1]] || tempCapture(k) }):
		return "class-expr-name-in-eval-scope"
	case pinNR:
		return "pinned-nested-name-not-reserved"
	case cf.JSX && cf.Minify && errText == "" && all(func(k int) bool {
		// a reference rendered as a JSX tag whose symbol is merged from several declarations
		// (var redeclared, var or function with the name of a parameter): the "must start with
		// a capital letter" mark of the merged-away symbol is lost, the tag becomes <n />
		y := c.Res[k-1]
		if y == 0 || (k-1)%3 == 2 {
			return false
		}
		n := 0
		for _, d := range c.Decls {
			if d.Name == c.Syms[y-1].N && (d.Kind == "var" || d.Kind == "param" || d.Kind == "fun") {
				n++
			}
		}
		return n >= 2
	}):
		return "jsx-capital-mark-lost-on-merged-symbol"
	case cf.JSX && cf.Minify && (strings.Contains(errText, "has already been declared") ||
		(errText == "" && all(func(k int) bool { y := c.Res[k-1]; return y == 0 || c.Syms[y-1].Pinned }))):
		// a symbol used as a JSX tag took a capitalised name that is reserved: every differing
		// reference is a free name or a pinned symbol (captured), or the name is declared twice
		return "jsx-capital-name-not-checked-against-reserved"
	case len(bad) == 0 && len(fnInCls) > 0:
		return "block-function-in-class-body"
	case len(bad) == 0 && len(clsSelf) > 0:
		return "class-expr-name-in-eval-scope"
	}
	return "other"
}

func (u *unit) key(cf config, what string, bad []int, errText string) map[string]interface{} {
	renamer := "number"
	if cf.Minify {
		renamer = "minify"
	}
	return map[string]interface{}{"case": u.hash, "mode": cf.Mode, "format": cf.Format, "minify": cf.Minify, "keepNames": cf.KeepNames,
		"target": cf.Target, "splitting": cf.Splitting, "jsx": cf.JSX, "sloppy": u.c.Sloppy, "what": what, "renamer": renamer, "cause": causeOf(u.c, cf, bad, errText)}
}

type stats struct {
	mu              sync.Mutex
	cases           int
	configsRun      int
	rejected        int
	drift           int
	modelOnly       int
	modelAgreed     int
	byCoinc         map[string]int
	byConfig        map[string]int
	executions      int
	rejectedWhy     map[string]int
	rejectedSamples []interface{}
}

// process compiles every unit under its configurations, executes inputs and
// outputs, and compares
func process(r *core.Run, units []*unit, st *stats) {
	// 1. render + compile (real esbuild), in parallel
	core.Parallel(len(units), 8, func(i int) {
		u := units[i]
		u.progs = map[bool]*program{false: render(u.c, false)}
		needSplit := false
		for _, cf := range u.configs {
			if cf.Splitting {
				needSplit = true
			}
		}
		if needSplit {
			u.progs[true] = render(u.c, true)
		}
		dir := ""
		if !u.c.Sloppy {
			dir = filepath.Join(r.Scratch, fmt.Sprintf("case-%d", u.idx))
			if u.c.JSX {
				core.WriteTree(dir, u.progs[false].JSXFiles)
			} else {
				core.WriteTree(dir, u.progs[false].Files)
			}
		}
		u.outs = make([]compiled, len(u.configs))
		for k, cf := range u.configs {
			u.outs[k] = compile(r, dir, u.progs[cf.Splitting], cf)
		}
		if dir != "" {
			os.RemoveAll(dir)
		}
	})
	// 2. execute
	var jobs []job
	for _, u := range units {
		for split, p := range u.progs {
			for _, w := range wmodes(p) {
				jobs = append(jobs, job{ID: fmt.Sprintf("%d/in/%v/%s", u.idx, split, w), Kind: inputKind(u.c), Files: p.Files, Entries: p.Entries,
					Globals: p.Globals, WNames: wnames(u.c, w), Probes: p.Probes, FTypes: p.FTypes, CJSNames: p.CJSNames})
			}
		}
		for k, o := range u.outs {
			if o.Err != "" {
				continue
			}
			p := u.progs[u.configs[k].Splitting]
			for _, w := range wmodes(p) {
				jobs = append(jobs, job{ID: fmt.Sprintf("%d/%d/%s", u.idx, k, w), Kind: o.Kind, Files: o.Files, Entries: o.Entries,
					Globals: p.Globals, WNames: wnames(u.c, w), Probes: p.Probes, GlobalName: o.Global})
			}
		}
	}
	results := runJobs(r, jobs)
	st.mu.Lock()
	st.executions += len(results)
	st.mu.Unlock()
	// 3. compare
	for _, u := range units {
		compare(r, u, results, st)
	}
}

func compare(r *core.Run, u *unit, results map[string]*jobResult, st *stats) {
	c := u.c
	nontrivial := len(c.Coinc) > 0
	// specification vs V8 on the input
	driftMsg := ""
	for split, p := range u.progs {
		for _, w := range wmodes(p) {
			in := results[fmt.Sprintf("%d/in/%v/%s", u.idx, split, w)]
			if in == nil {
				r.Infra("no result for the input program of case %s", u.hash)
				return
			}
			if in.Error != "" {
				driftMsg = fmt.Sprintf("the input program does not run under V8 (%s)", in.Error)
				continue
			}
			if w != "e" {
				continue // a full with-object also receives the writes of initialisers: input vs output only
			}
			for id, want := range p.Expect {
				if got, ok := in.Def[id]; !ok || !eqVal(got, want) {
					driftMsg = fmt.Sprintf("reference %s: the specification resolves it to %v, V8 reads %v (with-mode %s)", id, want, got, w)
				}
			}
			// the final value of every top-level binding of an unwrapped script (read back by
			// name): specification vs V8 (e.g. V8 hoists a sloppy block function past an
			// enclosing block function of the same name, B.3.3 does not)
			for _, y := range c.Syms {
				if !c.Sloppy || !y.Top || y.Lvl != "m" || y.Val == 0 { // 0: a record without the prediction (old replay file)
					continue
				}
				var want interface{} = float64(marker(y.Val))
				if y.Val == -2 {
					want = "undefined"
				}
				if got, ok := in.Probes[y.N]; ok && !eqVal(got, want) {
					driftMsg = fmt.Sprintf("top-level name %s: the specification predicts the final value %v, V8 reads %v", y.N, want, got)
				}
			}
		}
	}
	st.mu.Lock()
	st.cases++
	for _, x := range c.Coinc {
		st.byCoinc[x]++
	}
	st.mu.Unlock()
	if driftMsg != "" {
		r.Drift("case %s: %s\n%s", u.hash, driftMsg, u.progs[false].Files["f1.js"])
		st.mu.Lock()
		st.drift++
		st.mu.Unlock()
		return
	}
	r.Case(u.hash, nontrivial)
	realFailed := map[bool]bool{}
	for k, cf := range u.configs {
		o := u.outs[k]
		p := u.progs[cf.Splitting]
		st.mu.Lock()
		st.configsRun++
		st.byConfig[cf.String()]++
		st.mu.Unlock()
		if o.Err != "" {
			// esbuild refused the input (e.g. a sloppy-only construct under an ESM output): no output, no verdict
			st.mu.Lock()
			st.rejected++
			reason := o.Err
			if len(reason) > 90 {
				reason = reason[:90]
			}
			st.rejectedWhy[reason]++
			if len(st.rejectedSamples) < 3 {
				st.rejectedSamples = append(st.rejectedSamples, map[string]interface{}{"config": cf.String(), "error": o.Err, "input": p.Files})
			}
			st.mu.Unlock()
			continue
		}
		var problems []string
		var bad []int
		what, errText := "", ""
		for _, w := range wmodes(p) {
			in := results[fmt.Sprintf("%d/in/%v/%s", u.idx, cf.Splitting, w)]
			out := results[fmt.Sprintf("%d/%d/%s", u.idx, k, w)]
			if out == nil {
				r.Infra("no result for the output program of case %s config %s", u.hash, cf)
				return
			}
			if out.Error == "harness: TIMEOUT" || in.Error == "harness: TIMEOUT" {
				r.Infra("the Node runner gave up on a program of case %s config %s (a promise that never settles); no verdict for it", u.hash, cf)
				return
			}
			if out.Error != "" {
				problems = append(problems, fmt.Sprintf("[with-%s] output throws: %s", w, out.Error))
				errText = out.Error
				if what == "" {
					what = "output-error"
				}
			}
			if d := diffMaps(in.Def, out.Def); len(d) > 0 {
				if out.Error == "" {
					bad = append(bad, diffKeys(in.Def, out.Def)...)
				}
				problems = append(problems, fmt.Sprintf("[with-%s] final reads differ: %s", w, strings.Join(d, "; ")))
				if what == "" {
					what = "binding"
				}
			}
			if d := diffMaps(in.Imm, out.Imm); len(d) > 0 {
				problems = append(problems, fmt.Sprintf("[with-%s] immediate reads differ: %s", w, strings.Join(d, "; ")))
				if what == "" {
					what = "binding"
				}
			}
			// export names read back from outside
			for _, e := range p.Entries {
				if ie, ok := in.Exports[e]; ok && (o.Kind != "script" || o.Global != "") {
					if d := diffMaps(ie, out.Exports[e]); len(d) > 0 {
						problems = append(problems, fmt.Sprintf("[with-%s] exports of %s differ: %s", w, e, strings.Join(d, "; ")))
						if what == "" {
							what = "export-name"
						}
					}
				}
			}
			// top-level names of a script emitted without wrapper, read back by name
			if cf.Mode == "transform" && cf.Format == "" && c.Sloppy {
				if d := diffMaps(in.Probes, out.Probes); len(d) > 0 {
					problems = append(problems, fmt.Sprintf("[with-%s] top-level names of the unwrapped script differ: %s", w, strings.Join(d, "; ")))
					if what == "" {
						what = "top-level-name"
					}
				}
			}
		}
		if len(problems) > 0 {
			realFailed[cf.Minify] = true
			r.Violation(u.key(cf, what, bad, errText),
				fmt.Sprintf("renaming changed what a name refers to (case %s, config %s): %s", u.hash, cf, strings.Join(problems, " | ")),
				map[string]interface{}{"case": u.raw, "config": cf, "input": p.Files, "entries": p.Entries, "output": o.Files, "problems": problems,
					"model_failNum": c.FailNum, "model_failMin": c.FailMin})
		}
	}
	// counterexamples of the as-implemented model: replayed above; count agreement
	for _, min := range []bool{false, true} {
		pred := c.FailNum
		if min {
			pred = c.FailMin
		}
		ran := false
		for _, cf := range u.configs {
			if cf.Minify == min {
				ran = true
			}
		}
		if len(pred) > 0 && ran {
			st.mu.Lock()
			if realFailed[min] {
				st.modelAgreed++
			} else {
				st.modelOnly++
			}
			st.mu.Unlock()
		}
	}
	if u.idx%997 == 0 {
		r.Sample(map[string]interface{}{"tree": json.RawMessage(u.raw), "program": u.progs[false].Files, "configs": len(u.configs)})
	}
}

// ---------------------------------------------------------------------------

type genSpec struct {
	cfg   string
	seeds int // TLC simulation processes
	num   int // walks per process
}

var genMu sync.Mutex

func generate(r *core.Run, gs genSpec, seedBase int64, sink func(raw []byte)) {
	mu := &genMu
	core.Parallel(gs.seeds, 4, func(i int) {
		res, err := tlcrun.Run(r, tlcrun.Options{Module: "Rename", Config: gs.cfg, Workers: 1, TimeoutSec: 1500,
			Simulate: fmt.Sprintf("num=%d", gs.num), Depth: 40, Seed: seedBase*10 + int64(i) + 1, NoDeadlock: true,
			OnCase: func(raw []byte) {
				cp := append([]byte{}, raw...)
				mu.Lock()
				sink(cp)
				mu.Unlock()
			}})
		if err != nil {
			r.Infra("scenario generation %s failed: %v", gs.cfg, err)
			return
		}
		if res.Violated != "" {
			r.Infra("generator %s: TLC reports %s on the model alone:\n%s", gs.cfg, res.Violated, res.Output)
		}
	})
}

func pickConfigs(all []config, n int, start int) []config {
	if n <= 0 || n >= len(all) {
		return all
	}
	var out []config
	for k := 0; k < n; k++ {
		out = append(out, all[(start+k*(len(all)/n+1))%len(all)])
	}
	// drop duplicates
	seen := map[config]bool{}
	var uniq []config
	for _, c := range out {
		if !seen[c] {
			seen[c] = true
			uniq = append(uniq, c)
		}
	}
	return uniq
}

func replay(r *core.Run) {
	data, err := os.ReadFile(r.Replay)
	if err != nil {
		r.Infra("cannot read replay file: %v", err)
		return
	}
	var rec struct {
		Detail struct {
			Case json.RawMessage `json:"case"`
		} `json:"detail"`
	}
	if err := json.Unmarshal(data, &rec); err != nil || len(rec.Detail.Case) == 0 {
		r.Infra("replay file has no case: %v", err)
		return
	}
	var c caseT
	if err := json.Unmarshal(rec.Detail.Case, &c); err != nil {
		r.Infra("replay case undecodable: %v", err)
		return
	}
	u := &unit{idx: 0, raw: rec.Detail.Case, c: &c, hash: treeHash(&c)}
	u.configs = allConfigs(&c, render(&c, false))
	st := &stats{byCoinc: map[string]int{}, byConfig: map[string]int{}, rejectedWhy: map[string]int{}}
	process(r, []*unit{u}, st)
	dump := os.Getenv("VERIF_C15_DUMP") // developer knob: print the input and every output
	if dump != "" {
		for name, src := range u.progs[false].Files {
			fmt.Fprintf(os.Stderr, "=== input %s\n%s", name, src)
		}
	}
	for k, cf := range u.configs {
		if u.outs[k].Err == "" {
			fmt.Fprintf(os.Stderr, "--- %s\n", cf)
			if dump != "" && (dump == "all" || dump == cf.String()) {
				for name, src := range u.outs[k].Files {
					fmt.Fprintf(os.Stderr, "=== output %s\n%s", name, src)
				}
			}
		} else {
			fmt.Fprintf(os.Stderr, "--- %s: esbuild error: %s\n", cf, u.outs[k].Err)
		}
	}
}

func Run(r *core.Run) {
	r.Assume("the binding graph is observed by execution: every declaration is initialised with a marker (declarations whose initialisers write one binding share it), every reference logs the value it reads immediately and again after the program has finished; all functions are called and all blocks entered, so never-executed code is not covered")
	r.Assume("TDZ-dependent reads, labels and private names are not generated; direct eval and with only occur in sloppy scripts compiled without bundling (esbuild documents that direct eval does not pin top-level names of bundled ES modules)")
	r.Assume("bundles: every file has a wrapper kind (plain ES module, CommonJS via module.exports / exports.x / require()d without export syntax, ES module that is require()d / import()ed without splitting); CommonJS files carry a \"use strict\" directive; wrapped files are not combined with code splitting; a free 'arguments' at the top level of a file is not generated when a file of the chunk is wrapped (the wrapper closure's own arguments object is visible there)")
	r.Assume("the set of generated trees is a function of VERIF_SEED and the tier only (fixed rounds and walks, no wall-clock cut)")
	r.Assume("the abstract minifier sequence of Rename.tla is not the character-frequency order of the real minifier: the model checks the design of the slot assignment, the replay checks the real names")
	if r.Replay != "" {
		replay(r)
		return
	}
	// the machine is shared: keep the JVMs of this check small (fewer GC threads; in
	// the quick tier C1-compiled code only, TLC runs are too short to profit from C2)
	if os.Getenv("JDK_JAVA_OPTIONS") == "" {
		opts := "-XX:ParallelGCThreads=2"
		if !r.Thorough() {
			opts += " -XX:TieredStopAtLevel=1"
		}
		os.Setenv("JDK_JAVA_OPTIONS", opts)
	}
	// (1) the design: both renamer algorithms satisfy the properties on all small trees
	designs := []string{"Rename.design-module.cfg", "Rename.design-script.cfg"}
	if r.Thorough() {
		designs = []string{"Rename.design-module2.cfg", "Rename.design-script2.cfg"} // supersets of the quick ones
	}
	only := os.Getenv("VERIF_C15_ONLY") // developer knob: "trees" | "props" | "cex"
	if only != "" {
		designs = nil
	}
	var wg sync.WaitGroup
	wg.Add(1)
	go func() {
		defer wg.Done()
		core.Parallel(len(designs), 2, func(i int) {
			tlcrun.MustHold(r, tlcrun.Options{Module: "Rename", Config: designs[i], Workers: 4, TimeoutSec: 1400, NoDeadlock: true})
		})
	}()
	// (4) counterexamples of the as-implemented model (ReservePinnedNested = FALSE: a
	// nested name pinned by "with" is not reserved), enumerated exhaustively for a small
	// bound and replayed under every configuration: a counterexample on the model
	// alone is no verdict, only the real code's behaviour is
	// (4b) the same for the hypothetical model ReserveWrappedFree = FALSE (free names used
	// inside CommonJS-wrapped files are not reserved): its counterexamples are exactly
	// the trees on which the reservation matters; the real code must pass them
	cexSt := &stats{byCoinc: map[string]int{}, byConfig: map[string]int{}, rejectedWhy: map[string]int{}}
	cexModSt := &stats{byCoinc: map[string]int{}, byConfig: map[string]int{}, rejectedWhy: map[string]int{}}
	cexRun := func(cfg string, base int, st *stats) {
		var units []*unit
		res, err := tlcrun.Run(r, tlcrun.Options{Module: "Rename", Config: cfg, Workers: 2, TimeoutSec: 1400, NoDeadlock: true,
			OnCase: func(raw []byte) {
				cp := append([]byte{}, raw...)
				var c caseT
				if json.Unmarshal(cp, &c) == nil {
					units = append(units, &unit{raw: cp, c: &c, hash: treeHash(&c)})
				}
			}})
		if err != nil {
			r.Infra("counterexample enumeration %s failed: %v", cfg, err)
			return
		}
		r.Logf("TLC Rename/%s: %d states, %d counterexamples of the model variant, %.1fs", cfg, res.Distinct, len(units), res.Wall.Seconds())
		sort.Slice(units, func(i, j int) bool { return units[i].hash < units[j].hash })
		for i, u := range units {
			u.idx = base + i
			u.configs = allConfigs(u.c, render(u.c, false))
		}
		process(r, units, st)
	}
	wg.Add(1)
	go func() {
		defer wg.Done()
		if only != "" && only != "cex" {
			return
		}
		cexRun("Rename.cex-script.cfg", 1000000, cexSt)
		cexMod := "Rename.cex-module.cfg"
		if r.Thorough() {
			cexMod = "Rename.cex-module2.cfg" // a superset
		}
		cexRun(cexMod, 2000000, cexModSt)
	}()
	// (3) mangled properties (scenarios enumerated by TLC, records validated by TLC)
	wg.Add(1)
	go func() {
		defer wg.Done()
		if only != "trees" && only != "cex" {
			runProps(r)
		}
	}()
	// (2) trees generated by TLC (seeded random walks), replayed through the real
	// esbuild.  The number of rounds and the walks per round are fixed per tier:
	// the set of trees is a function of VERIF_SEED only, never of the machine's
	// speed (a loaded machine takes longer, it does not check less).
	st := &stats{byCoinc: map[string]int{}, byConfig: map[string]int{}, rejectedWhy: map[string]int{}}
	seen := map[string]bool{}
	total := 0
	walks := r.Pick(400, 800)
	procs := r.Pick(2, 3)
	maxRounds := r.Pick(6, 8)                       // thorough: 3 processes per generator, rounds of up to 1600 walks, 8 configurations per tree
	if v := os.Getenv("VERIF_C15_WALKS"); v != "" { // developer knobs
		fmt.Sscan(v, &walks)
	}
	if v := os.Getenv("VERIF_C15_ROUNDS"); v != "" {
		fmt.Sscan(v, &maxRounds)
	}
	nconf := r.Pick(3, 8)
	// JSX twins: of every 4th tree (thorough: every 2nd), 2 configurations each; developer knob VERIF_C15_JSX=<every>
	jsxEvery, jsxTwins := r.Pick(4, 2), 0
	if v := os.Getenv("VERIF_C15_JSX"); v != "" {
		fmt.Sscan(v, &jsxEvery)
	}
	if only == "props" || only == "cex" {
		maxRounds = 0
	}
	for round := 0; round < maxRounds; round++ {
		t0 := time.Now()
		var units []*unit
		sink := func(raw []byte) {
			var c caseT
			if err := json.Unmarshal(raw, &c); err != nil {
				r.Infra("undecodable CASE record: %v", err)
				return
			}
			h := treeHash(&c)
			if seen[h] {
				return
			}
			seen[h] = true
			units = append(units, &unit{idx: total + len(units), raw: raw, c: &c, hash: h})
		}
		// rounds grow (fixed schedule): the first ones are small so that a problem shows early
		w := walks * (round + 1) / 2
		if w > walks*2 {
			w = walks * 2
		}
		gens := []genSpec{{"Rename.gen-module.cfg", procs, w}, {"Rename.gen-script.cfg", procs, w}}
		if v := os.Getenv("VERIF_C15_GEN"); v == "module" { // developer knob
			gens = gens[:1]
		} else if v == "script" {
			gens = gens[1:]
		}
		core.Parallel(len(gens), 2, func(i int) { generate(r, gens[i], r.Seed*100+int64(round), sink) })
		r.Logf("round %d: TLC generated %d new trees in %.0fs", round+1, len(units), time.Since(t0).Seconds())
		sort.Slice(units, func(i, j int) bool { return units[i].hash < units[j].hash }) // arrival order of the TLC processes does not matter
		for i, u := range units {
			u.idx = total + i
			all := allConfigs(u.c, render(u.c, false))
			u.configs = pickConfigs(all, nconf, u.idx+int(r.Seed))
		}
		total += len(units)
		if jsxEvery > 0 {
			// JSX twins of every jsxEvery-th tree (capitalised names, references as component tags, JSX preserved)
			for _, u := range append([]*unit{}, units...) {
				if u.idx%jsxEvery != 0 {
					continue
				}
				t := jsxTwin(u.c)
				raw, _ := json.Marshal(t)
				tu := &unit{idx: 5000000 + u.idx, raw: raw, c: t, hash: treeHash(t)}
				tu.configs = pickConfigs(allConfigs(t, render(t, false)), 2, tu.idx+int(r.Seed))
				units = append(units, tu)
				jsxTwins++
			}
		}
		process(r, units, st)
		r.Logf("round %d: %d new trees (%d so far, %d configurations, %d executions, %d violations, %d drift), %.0fs", round+1, len(units), total,
			st.configsRun, st.executions, r.Violations(), st.drift, time.Since(t0).Seconds())
	}
	wg.Wait()
	r.AddTraces(int64(st.executions + cexSt.executions + cexModSt.executions))
	r.Set("trees", st.cases)
	r.Set("jsx_twin_trees", jsxTwins)
	r.Set("configurations_run", st.configsRun)
	r.Set("configurations_rejected_by_esbuild", st.rejected)
	r.Set("configurations_rejected_reasons", st.rejectedWhy)
	r.Set("configurations_rejected_samples", st.rejectedSamples)
	r.Set("node_executions", st.executions)
	r.Set("by_coincidence", st.byCoinc)
	r.Set("by_configuration", st.byConfig)
	r.Set("model_counterexamples_reproduced_by_real_code", st.modelAgreed+cexSt.modelAgreed)
	r.Set("model_counterexamples_not_reproduced", st.modelOnly+cexSt.modelOnly)
	r.Set("model_counterexample_trees_replayed", cexSt.cases)
	r.Set("wrapped_free_name_trees_replayed", cexModSt.cases)
	r.Set("wrapped_free_name_configurations_run", cexModSt.configsRun)
	st.executions += cexSt.executions + cexModSt.executions
	r.Set("node_executions", st.executions)
	r.Set("rule", "case = one scope tree generated by TLC from Rename.tla (-simulate, seeded) rendered as a marker program and compiled by the real esbuild under several configurations (mode x format x minify-identifiers x keep-names x target x splitting); distinct by the hash of the tree; non-trivial = the tree has at least one name coincidence computed by the specification (shadowing candidate, duplicate top-level name across files, a name the number renamer has to change or that equals a generated numbered name, a declared or free name that equals a minified name, a declared name equal to a free name)")
	if st.drift > 0 && st.drift*50 > st.cases {
		r.Infra("specification and V8 disagree on %d of %d input programs (more than 2%%)", st.drift, st.cases)
	}
}

func init() { core.Register("C15", Run) }
