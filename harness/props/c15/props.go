package c15

// Mangled properties: scenarios enumerated by TLC from RenamePropsGen.tla are
// built with the real esbuild (one bundle / two entry points with splitting /
// a chain of transforms handing the mangle cache on); the outputs are executed
// and the property key every site really uses is observed (proxy traps, own
// keys); TLC evaluates the invariants of RenameProps.tla on the records.

import (
	"encoding/json"
	"fmt"
	"path/filepath"
	"regexp"
	"sort"
	"strings"
	"sync"

	"github.com/evanw/esbuild/pkg/api"

	"verifharness/core"
	"verifharness/tlcrun"
)

type propScen struct {
	Foo          string `json:"foo"`
	Bar          string `json:"bar"`
	Keep         string `json:"keep"`
	Plain        string `json:"plain"`
	PlainName    string `json:"plainName"`
	MangleQuoted bool   `json:"mangleQuoted"`
	Cache        string `json:"cache"`
	Layout       string `json:"layout"`
	// the "bulk" family (generator vs kept names)
	Bulk      bool   `json:"bulk,omitempty"`
	Pattern   string `json:"pattern,omitempty"`
	N         int    `json:"n,omitempty"`
	Pin       string `json:"pin,omitempty"`
	PinWhich  string `json:"pinWhich,omitempty"`
	PinUsed   bool   `json:"pinUsed,omitempty"`
	Target    string `json:"target,omitempty"`
	QuotedUse bool   `json:"quotedUse,omitempty"`
}

func (s propScen) id() string {
	if s.Bulk {
		return fmt.Sprintf("props-bulk/%s/n%d/pin-%s-%s-used%v/target-%s/q%v/quse%v/%s", s.Pattern, s.N, s.Pin, s.PinWhich, s.PinUsed, s.Target, s.MangleQuoted, s.QuotedUse, s.Layout)
	}
	return fmt.Sprintf("props/%s/%s/%s/%s/%s/q%v/%s/%s", s.Foo, s.Bar, s.Keep, s.Plain, s.PlainName, s.MangleQuoted, s.Cache, s.Layout)
}

type pv struct {
	P string `json:"p"`
	V string `json:"v"`
}
type siteRec struct {
	I        int    `json:"i"`
	File     int    `json:"file"`
	Prop     string `json:"prop"`
	Form     string `json:"form"`
	Matches  bool   `json:"matches"`
	Reserved bool   `json:"reserved"`
	Key      string `json:"key"`
}
type litRec struct {
	InKeys  int `json:"inKeys"`
	InSum   int `json:"inSum"`
	OutKeys int `json:"outKeys"`
	OutSum  int `json:"outSum"`
}
type propRec struct {
	Lit          litRec    `json:"lit"`
	PinName      string    `json:"pinName,omitempty"`
	ID           int       `json:"id"`
	MangleQuoted bool      `json:"mangleQuoted"`
	HasCache     bool      `json:"hasCache"`
	CacheIn      []pv      `json:"cacheIn"`
	CacheOut     []pv      `json:"cacheOut"`
	Sites        []siteRec `json:"sites"`
	scen         propScen
	origJob      *job
	generated    []string
	outputs      map[string]string
	inputs       map[string]string
}

var rePat = regexp.MustCompile(`^([a-z]+)([123])$`)

var specForm = map[string]string{"set": "set", "get": "get", "lit": "lit", "destr": "destr", "opt": "opt", "class": "class", "call": "call",
	"litq": "lit-q", "getq": "get-q", "inq": "in-q", "keyannot": "keyannot", "runtime": "runtime"}

func siteCode(form string, i int, n string) string {
	switch form {
	case "set":
		return fmt.Sprintf("__P(%d).%s = 1;", i, n)
	case "get":
		return fmt.Sprintf("__STR(__P(%d).%s);", i, n)
	case "lit":
		return fmt.Sprintf("__K(%d, { %s: 1 });", i, n)
	case "destr":
		return fmt.Sprintf("var { %s: __v%d } = __P(%d); __STR(__v%d);", n, i, i, i)
	case "opt":
		return fmt.Sprintf("__STR(__P(%d)?.%s);", i, n)
	case "class":
		return fmt.Sprintf("__K(%d, new (class { %s = 1 })());", i, n)
	case "call":
		return fmt.Sprintf("__P(%d).%s();", i, n)
	case "litq":
		return fmt.Sprintf("__K(%d, { '%s': 1 });", i, n)
	case "getq":
		return fmt.Sprintf("__STR(__P(%d)['%s']);", i, n)
	case "inq":
		return fmt.Sprintf("__STR('%s' in __P(%d));", n, i)
	case "keyannot":
		return fmt.Sprintf("__STR(__P(%d)[/* @__KEY__ */ '%s']);", i, n)
	case "runtime":
		return fmt.Sprintf("__STR(__P(%d)[__STR('%s')]);", i, n)
	}
	return ""
}

func cacheToPV(m map[string]interface{}) []pv {
	out := []pv{}
	for k, v := range m {
		switch x := v.(type) {
		case string:
			out = append(out, pv{k, x})
		case bool:
			if !x {
				out = append(out, pv{k, "<false>"})
			}
		}
	}
	sort.Slice(out, func(i, j int) bool { return out[i].P < out[j].P })
	return out
}

func copyCache(m map[string]interface{}) map[string]interface{} {
	if m == nil {
		return nil
	}
	out := map[string]interface{}{}
	for k, v := range m {
		out[k] = v
	}
	return out
}

// ---------------------------------------------------------------------------
// the bulk family: n properties that match the pattern, one kept property S
// whose name is one of the generator's own names (learned by a probe build)

var bulkPatterns = map[string]string{"suffix": "_$", "prefix": "^_", "short": "_$|^[a-zA-Z_$]$"}

func bulkName(pattern string, k int) string {
	if pattern == "prefix" {
		return fmt.Sprintf("_p%d", k)
	}
	return fmt.Sprintf("p%d_", k)
}

type bulkBuild struct {
	outputs  map[string]string
	entries  []string
	cacheOut map[string]interface{}
}

func buildLayout(r *core.Run, dirName, layout string, files map[string]string, mangle, reserve string, mq api.MangleQuoted, cacheIn map[string]interface{}) (*bulkBuild, string) {
	names := []string{"A.js", "B.js", "C.js"}
	b := &bulkBuild{outputs: map[string]string{}}
	if layout == "chain" {
		cache := copyCache(cacheIn)
		for _, n := range names {
			res := api.Transform(files[n], api.TransformOptions{Loader: api.LoaderJS, Format: api.FormatESModule, Sourcefile: n,
				MangleProps: mangle, ReserveProps: reserve, MangleQuoted: mq, MangleCache: copyCache(cache), LogLevel: api.LogLevelSilent})
			if len(res.Errors) > 0 {
				return nil, msgText(res.Errors)
			}
			b.outputs[n] = string(res.Code)
			b.entries = append(b.entries, n)
			if cache != nil {
				cache = res.MangleCache
			}
		}
		b.cacheOut = cache
		return b, ""
	}
	dir := filepath.Join(r.Scratch, dirName)
	core.WriteTree(dir, files)
	eps := []string{filepath.Join(dir, "A.js")}
	if layout == "split" {
		eps = append(eps, filepath.Join(dir, "B.js"))
	}
	res := api.Build(api.BuildOptions{AbsWorkingDir: dir, EntryPoints: eps, Bundle: true, Write: false, Outdir: filepath.Join(dir, "out"),
		Format: api.FormatESModule, Splitting: layout == "split", MangleProps: mangle, ReserveProps: reserve, MangleQuoted: mq,
		MangleCache: copyCache(cacheIn), LogLevel: api.LogLevelSilent})
	if len(res.Errors) > 0 {
		return nil, msgText(res.Errors)
	}
	for _, f := range res.OutputFiles {
		rel, _ := filepath.Rel(filepath.Join(dir, "out"), f.Path)
		b.outputs[filepath.ToSlash(rel)] = string(f.Contents)
	}
	b.entries = []string{"A.js"}
	if layout == "split" {
		b.entries = append(b.entries, "B.js")
	}
	b.cacheOut = res.MangleCache
	return b, ""
}

func buildBulk(r *core.Run, idx int, s propScen) (*propRec, *job, string) {
	mangle := bulkPatterns[s.Pattern]
	reMangle := regexp.MustCompile(mangle)
	mq := api.MangleQuotedFalse
	if s.MangleQuoted {
		mq = api.MangleQuotedTrue
	}
	// render the three files for a given name of S; returns the files and the sites
	render := func(sName string, pinQuoted bool, reReserve *regexp.Regexp) (map[string]string, []siteRec, int, int) {
		var sites []siteRec
		body := map[int][]string{}
		n := 0
		site := func(f int, form, prop string) {
			n++
			body[f] = append(body[f], siteCode(form, n, prop))
			sites = append(sites, siteRec{I: n, File: f, Prop: prop, Form: specForm[form], Matches: reMangle.MatchString(prop), Reserved: reReserve.MatchString(prop)})
		}
		var lit []string
		litSum := 0
		for k := 1; k <= s.N; k++ {
			site(1, "set", bulkName(s.Pattern, k))
			lit = append(lit, fmt.Sprintf("%s: %d", bulkName(s.Pattern, k), k))
			litSum += k
		}
		litN := s.N
		if sName != "" {
			litN++
			litSum += 1000
			if pinQuoted {
				site(1, "litq", sName)
				lit = append(lit, fmt.Sprintf("'%s': 1000", sName))
			} else {
				site(1, "set", sName)
				lit = append(lit, fmt.Sprintf("%s: 1000", sName))
			}
		}
		body[1] = append(body[1], "__O({ "+strings.Join(lit, ", ")+" });")
		for k := 1; k <= s.N; k++ {
			if k <= 4 || k > s.N-2 {
				site(2, "get", bulkName(s.Pattern, k))
			}
		}
		if s.QuotedUse {
			site(2, "getq", bulkName(s.Pattern, 1))
			site(2, "litq", bulkName(s.Pattern, 3))
		}
		site(3, "opt", bulkName(s.Pattern, 2))
		if sName != "" {
			if pinQuoted {
				site(3, "getq", sName)
			} else {
				site(3, "get", sName)
			}
		}
		names := map[int]string{1: "A.js", 2: "B.js", 3: "C.js"}
		files := map[string]string{}
		for f := 1; f <= 3; f++ {
			var sb strings.Builder
			if s.Layout != "chain" {
				switch {
				case f == 1 && s.Layout == "bundle":
					sb.WriteString("import './B.js';\nimport './C.js';\n")
				case f == 1 || f == 2:
					sb.WriteString("import './C.js';\n")
				}
			}
			for _, l := range body[f] {
				sb.WriteString(l + "\n")
			}
			sb.WriteString("export {};\n")
			files[names[f]] = sb.String()
		}
		return files, sites, litN, litSum
	}
	rec := &propRec{ID: idx, MangleQuoted: s.MangleQuoted, scen: s, CacheIn: []pv{}, CacheOut: []pv{}, Sites: []siteRec{}}
	reKeep := regexp.MustCompile("^keep_")
	// (a) the probe: the same build with a placeholder for S and an empty cache tells which
	// names the generator hands out for a build of this size (an observation that selects
	// the scenario; it is not used as an expectation)
	placeholder := bulkName(s.Pattern, 0)
	pfiles, _, _, _ := render(placeholder, false, reKeep)
	probe, errText := buildLayout(r, fmt.Sprintf("props-%d-probe", idx), s.Layout, pfiles, mangle, "^keep_", api.MangleQuotedTrue, map[string]interface{}{})
	if errText != "" {
		return rec, nil, "probe: " + errText
	}
	var gen []string
	for _, v := range probe.cacheOut {
		if t, ok := v.(string); ok {
			gen = append(gen, t)
		}
	}
	sort.Slice(gen, func(i, j int) bool {
		if len(gen[i]) != len(gen[j]) {
			return len(gen[i]) < len(gen[j])
		}
		return gen[i] < gen[j]
	})
	rec.generated = gen
	// (b) the kept property S: one of the generated names that fits the mechanism
	sName := ""
	if s.Pin != "none" {
		var cand []string
		for _, g := range gen {
			m := reMangle.MatchString(g)
			if (s.Pin == "plain") != m { // "plain": a name that does not match the pattern; otherwise one that does
				cand = append(cand, g)
			}
		}
		if len(cand) == 0 {
			return rec, nil, "no-candidate: the generator hands out no name that fits pin=" + s.Pin
		}
		sName = cand[0]
		if s.PinWhich == "last" {
			sName = cand[len(cand)-1]
		}
	}
	rec.PinName = sName
	reserve := "^keep_"
	if s.Pin == "reserved" {
		reserve = "^keep_|^" + regexp.QuoteMeta(sName) + "$"
	}
	reReserve := regexp.MustCompile(reserve)
	used := sName
	if !s.PinUsed {
		used = ""
	}
	files, sites, litN, litSum := render(used, s.Pin == "quoted", reReserve)
	rec.Sites = sites
	rec.inputs = files
	_ = litN
	_ = litSum
	// (c) the cache given
	cacheIn := map[string]interface{}{}
	if s.Pin == "false" {
		cacheIn[sName] = false
	}
	if s.Target != "none" {
		var cand []string
		for _, g := range gen {
			if g != sName {
				cand = append(cand, g)
			}
		}
		if len(cand) == 0 {
			return rec, nil, "no-candidate: no generated name left for a string target"
		}
		t := cand[0]
		if s.Target == "late" {
			t = cand[len(cand)-1]
		} else if s.Target == "unused" {
			t = cand[len(cand)/2]
		}
		p := bulkName(s.Pattern, 2)
		if s.Target == "unused" {
			p = bulkName(s.Pattern, 9999)
		}
		cacheIn[p] = t
	}
	rec.CacheIn = cacheToPV(cacheIn)
	rec.HasCache = true
	b, errText := buildLayout(r, fmt.Sprintf("props-%d", idx), s.Layout, files, mangle, reserve, mq, cacheIn)
	if errText != "" {
		return rec, nil, errText
	}
	rec.CacheOut = cacheToPV(b.cacheOut)
	rec.outputs = b.outputs
	entries := []string{"A.js", "B.js", "C.js"}
	if s.Layout == "bundle" {
		entries = []string{"A.js"}
	} else if s.Layout == "split" {
		entries = []string{"A.js", "B.js"}
	}
	rec.origJob = &job{ID: fmt.Sprintf("p%dorig", idx), Kind: "esm", Files: files, Entries: entries}
	return rec, &job{ID: fmt.Sprintf("p%d", idx), Kind: "esm", Files: b.outputs, Entries: b.entries}, ""
}

// buildProps renders and compiles one scenario; returns the record without observed keys and the node job
func buildProps(r *core.Run, idx int, s propScen) (*propRec, *job, string) {
	if s.Bulk {
		return buildBulk(r, idx, s)
	}
	rec := &propRec{ID: idx, MangleQuoted: s.MangleQuoted, scen: s, CacheIn: []pv{}, CacheOut: []pv{}, Sites: []siteRec{}}
	body := map[int][]string{}
	n := 0
	add := func(pattern, prop string, matches, reserved bool) {
		if pattern == "none" {
			return
		}
		for _, part := range strings.Split(pattern, "-") {
			m := rePat.FindStringSubmatch(part)
			if m == nil {
				continue
			}
			n++
			f := int(m[2][0] - '0')
			body[f] = append(body[f], siteCode(m[1], n, prop))
			rec.Sites = append(rec.Sites, siteRec{I: n, File: f, Prop: prop, Form: specForm[m[1]], Matches: matches, Reserved: reserved})
		}
	}
	add(s.Foo, "foo_", true, false)
	add(s.Bar, "bar_", true, false)
	add(s.Keep, "keep_x_", true, true)
	add(s.Plain, s.PlainName, false, false)
	names := map[int]string{1: "A.js", 2: "B.js", 3: "C.js"}
	files := map[string]string{}
	for f := 1; f <= 3; f++ {
		var sb strings.Builder
		if s.Layout != "chain" {
			switch {
			case f == 1 && s.Layout == "bundle":
				sb.WriteString("import './B.js';\nimport './C.js';\n")
			case f == 1 || f == 2:
				sb.WriteString("import './C.js';\n")
			}
		}
		for _, l := range body[f] {
			sb.WriteString(l + "\n")
		}
		sb.WriteString("export {};\n")
		files[names[f]] = sb.String()
	}
	rec.inputs = files
	var cacheIn map[string]interface{}
	switch s.Cache {
	case "empty":
		cacheIn = map[string]interface{}{}
	case "preset-foo":
		cacheIn = map[string]interface{}{"foo_": "zz"}
	case "false-bar":
		cacheIn = map[string]interface{}{"bar_": false}
	}
	rec.CacheIn = cacheToPV(cacheIn)
	rec.HasCache = cacheIn != nil
	mq := api.MangleQuotedFalse
	if s.MangleQuoted {
		mq = api.MangleQuotedTrue
	}
	outputs := map[string]string{}
	var entries []string
	var cacheOut map[string]interface{}
	if s.Layout == "chain" {
		cache := copyCache(cacheIn)
		for f := 1; f <= 3; f++ {
			res := api.Transform(files[names[f]], api.TransformOptions{Loader: api.LoaderJS, Format: api.FormatESModule, Sourcefile: names[f],
				MangleProps: "_$", ReserveProps: "^keep_", MangleQuoted: mq, MangleCache: copyCache(cache), LogLevel: api.LogLevelSilent})
			if len(res.Errors) > 0 {
				return rec, nil, msgText(res.Errors)
			}
			outputs[names[f]] = string(res.Code)
			entries = append(entries, names[f])
			if cache != nil {
				cache = res.MangleCache
			}
		}
		cacheOut = cache
	} else {
		dir := filepath.Join(r.Scratch, fmt.Sprintf("props-%d", idx))
		core.WriteTree(dir, files)
		eps := []string{filepath.Join(dir, "A.js")}
		if s.Layout == "split" {
			eps = append(eps, filepath.Join(dir, "B.js"))
		}
		res := api.Build(api.BuildOptions{AbsWorkingDir: dir, EntryPoints: eps, Bundle: true, Write: false, Outdir: filepath.Join(dir, "out"),
			Format: api.FormatESModule, Splitting: s.Layout == "split", MangleProps: "_$", ReserveProps: "^keep_", MangleQuoted: mq,
			MangleCache: copyCache(cacheIn), LogLevel: api.LogLevelSilent})
		if len(res.Errors) > 0 {
			return rec, nil, msgText(res.Errors)
		}
		for _, f := range res.OutputFiles {
			rel, _ := filepath.Rel(filepath.Join(dir, "out"), f.Path)
			outputs[filepath.ToSlash(rel)] = string(f.Contents)
		}
		entries = []string{"A.js"}
		if s.Layout == "split" {
			entries = append(entries, "B.js")
		}
		cacheOut = res.MangleCache
	}
	rec.CacheOut = cacheToPV(cacheOut)
	rec.outputs = outputs
	return rec, &job{ID: fmt.Sprintf("p%d", idx), Kind: "esm", Files: outputs, Entries: entries}, ""
}

type propVerdict struct {
	I       int      `json:"i"`
	Failing []string `json:"failing"`
	Mangled int      `json:"mangled"`
	Renamed int      `json:"renamed"`
}

func runProps(r *core.Run) {
	var scens []propScen
	res := tlcrun.MustHold(r, tlcrun.Options{Module: "RenamePropsGen", Config: "RenamePropsGen.cfg", Workers: 1, TimeoutSec: 600, OnCase: func(raw []byte) {
		var s propScen
		if json.Unmarshal(raw, &s) == nil {
			scens = append(scens, s)
		}
	}})
	if res == nil || len(scens) == 0 {
		r.Infra("no property scenarios exported by RenamePropsGen")
		return
	}
	r.Set("prop_scenarios_enumerated", len(scens))
	// chain without a cache shares nothing between the transforms: not a scenario
	var pick []propScen
	want := r.Pick(400, 3000)
	wantBulk := r.Pick(240, 2000)
	r.Rand.Shuffle(len(scens), func(i, j int) { scens[i], scens[j] = scens[j], scens[i] })
	nb, ns, bulkAll := 0, 0, 0
	for _, s := range scens {
		if s.Bulk {
			bulkAll++
			if nb < wantBulk {
				nb++
				pick = append(pick, s)
			}
			continue
		}
		if s.Layout == "chain" && s.Cache == "nil" {
			continue
		}
		if ns < want {
			ns++
			pick = append(pick, s)
		}
	}
	r.Set("prop_bulk_scenarios_enumerated", bulkAll)
	recs := make([]*propRec, len(pick))
	jobs := make([]*job, len(pick))
	var mu sync.Mutex
	rejected, noCand := 0, 0
	core.Parallel(len(pick), 8, func(i int) {
		rec, j, errText := buildProps(r, i+1, pick[i])
		mu.Lock()
		defer mu.Unlock()
		if errText != "" {
			if strings.HasPrefix(errText, "no-candidate") {
				noCand++
			} else {
				rejected++
				if pick[i].Bulk {
					r.Infra("bulk mangle-props scenario %s rejected by esbuild: %s", pick[i].id(), errText)
				}
			}
			return
		}
		recs[i], jobs[i] = rec, j
	})
	var js []job
	for i, j := range jobs {
		if j != nil {
			js = append(js, *j)
			if recs[i].origJob != nil {
				js = append(js, *recs[i].origJob)
			}
		}
	}
	results := runJobs(r, js)
	var valid []*propRec
	bulkBuilds := 0
	bulkByPin := map[string]int{}
	for i, rec := range recs {
		if rec == nil {
			continue
		}
		out := results[fmt.Sprintf("p%d", i+1)]
		if out == nil {
			r.Infra("no result for property scenario %s", rec.scen.id())
			continue
		}
		s := rec.scen
		key := scenKey(s)
		if out.Error != "" {
			key["invariant"] = "output-runs"
			r.Violation(key, fmt.Sprintf("the output of a build with mangled properties throws (%s): %s", s.id(), out.Error),
				map[string]interface{}{"scenario": s, "input": rec.inputs, "output": rec.outputs})
			continue
		}
		for k := range rec.Sites {
			if v, ok := out.Sites[fmt.Sprint(rec.Sites[k].I)]; ok {
				rec.Sites[k].Key = v
			} else {
				rec.Sites[k].Key = "<not executed>"
			}
		}
		if rec.origJob != nil {
			orig := results[rec.origJob.ID]
			if orig == nil || orig.Error != "" {
				r.Infra("the input of bulk scenario %s does not run: %+v", rec.scen.id(), orig)
				continue
			}
			fmt.Sscan(orig.Sites["litKeys"], &rec.Lit.InKeys)
			fmt.Sscan(orig.Sites["litSum"], &rec.Lit.InSum)
			fmt.Sscan(out.Sites["litKeys"], &rec.Lit.OutKeys)
			fmt.Sscan(out.Sites["litSum"], &rec.Lit.OutSum)
			if rec.Lit.InKeys == 0 {
				r.Infra("bulk scenario %s: the literal of the input was not observed", rec.scen.id())
				continue
			}
			bulkBuilds++
			pinnedReached := false
			for _, g := range rec.generated {
				if g == rec.PinName {
					pinnedReached = true
				}
			}
			r.Case(s.id(), pinnedReached && s.N > 50)
			if s.Pin != "none" {
				bulkByPin[s.Pin+"/"+s.Pattern]++
			}
		}
		rec.ID = len(valid) + 1
		valid = append(valid, rec)
		if s.Bulk {
			continue
		}
		files := map[int]bool{}
		for _, st := range rec.Sites {
			if st.Prop == "foo_" {
				files[st.File] = true
			}
		}
		r.Case(s.id(), len(files) >= 2 || s.PlainName != "plain")
	}
	r.Set("prop_builds", len(valid))
	r.Set("prop_bulk_builds", bulkBuilds)
	r.Set("prop_bulk_no_candidate_name", noCand)
	r.Set("prop_bulk_by_pin_and_pattern", bulkByPin)
	r.Set("prop_builds_rejected", rejected)
	if len(valid) == 0 {
		return
	}
	var sb strings.Builder
	for _, rec := range valid {
		b, _ := json.Marshal(rec)
		sb.Write(b)
		sb.WriteByte('\n')
	}
	var verdicts []propVerdict
	vres, err := tlcrun.Run(r, tlcrun.Options{Module: "RenameProps", Config: "RenameProps.cfg", Workers: 1, TimeoutSec: 2400,
		Files: map[string]string{"c15props.ndjson": sb.String()},
		OnCase: func(raw []byte) {
			var v propVerdict
			if json.Unmarshal(raw, &v) == nil {
				verdicts = append(verdicts, v)
			}
		}})
	if err != nil {
		r.Infra("state validation of mangled properties failed to run: %v", err)
		return
	}
	if vres.Violated != "" || len(verdicts) != len(valid) {
		r.Infra("state validation of mangled properties incomplete: %d verdicts for %d records (violated=%q)\n%s", len(verdicts), len(valid), vres.Violated, vres.Output)
		return
	}
	r.AddTraces(int64(len(valid)))
	mangledSites, renamedSites := 0, 0
	for _, v := range verdicts {
		mangledSites += v.Mangled
		renamedSites += v.Renamed
		if len(v.Failing) == 0 || v.I < 1 || v.I > len(valid) {
			continue
		}
		rec := valid[v.I-1]
		s := rec.scen
		for _, inv := range v.Failing {
			key := scenKey(s)
			key["invariant"] = inv
			key["cause"] = propCause(rec, inv)
			r.Violation(key,
				fmt.Sprintf("mangled properties: a real build violates %s (%s): %s; kept name %q, cache in %+v, cache out %+v, literal own keys %d -> %d", inv, s.id(), collisions(rec), rec.PinName, rec.CacheIn, rec.CacheOut, rec.Lit.InKeys, rec.Lit.OutKeys),
				map[string]interface{}{"scenario": s, "record": rec, "input": rec.inputs, "output": rec.outputs})
		}
	}
	r.Set("prop_sites_expected_mangled", mangledSites)
	r.Set("prop_sites_observed_renamed", renamedSites)
	if len(valid) > 0 {
		r.Sample(map[string]interface{}{"mangle_props_scenario": valid[0].scen, "record": valid[0]})
	}
}

func scenKey(s propScen) map[string]interface{} {
	if s.Bulk {
		return map[string]interface{}{"kind": "mangle-props", "family": "bulk", "pattern": s.Pattern, "n": s.N, "pin": s.Pin, "pinWhich": s.PinWhich, "pinUsed": s.PinUsed,
			"target": s.Target, "mangleQuoted": s.MangleQuoted, "quotedUse": s.QuotedUse, "layout": s.Layout}
	}
	return map[string]interface{}{"kind": "mangle-props", "foo": s.Foo, "bar": s.Bar, "keep": s.Keep, "plain": s.Plain, "plainName": s.PlainName,
		"mangleQuoted": s.MangleQuoted, "cache": s.Cache, "layout": s.Layout}
}

// collisions lists the sites whose observed key differs from the property's name and the pairs of properties under one key
func collisions(rec *propRec) string {
	var out []string
	byKey := map[string]map[string]bool{}
	for _, st := range rec.Sites {
		if byKey[st.Key] == nil {
			byKey[st.Key] = map[string]bool{}
		}
		byKey[st.Key][st.Prop] = true
	}
	keys := make([]string, 0, len(byKey))
	for k := range byKey {
		keys = append(keys, k)
	}
	sort.Strings(keys)
	for _, k := range keys {
		if len(byKey[k]) > 1 {
			var ps []string
			for p := range byKey[k] {
				ps = append(ps, p)
			}
			sort.Strings(ps)
			out = append(out, fmt.Sprintf("key %q is used for the properties %v", k, ps))
		}
	}
	if len(out) == 0 {
		if len(rec.Sites) > 12 {
			return fmt.Sprintf("%d sites, no two properties under one key at the sites", len(rec.Sites))
		}
		return fmt.Sprintf("sites %+v", rec.Sites)
	}
	return strings.Join(out, "; ")
}

// propCause attributes a key collision: "new-name-equals-quoted-key" when every
// pair of sites of different properties that share a key consists of a
// mangled site and an untouched QUOTED key (mangle-quoted off)
func propCause(rec *propRec, inv string) string {
	if inv != "DistinctPropsDistinctKeys" && inv != "LiteralPreserved" {
		return "other"
	}
	quoted := func(f string) bool { return f == "lit-q" || f == "get-q" || f == "in-q" }
	pairs, explained := 0, 0
	for _, a := range rec.Sites {
		for _, b := range rec.Sites {
			if a.I < b.I && a.Prop != b.Prop && a.Key == b.Key {
				pairs++
				if !rec.MangleQuoted && ((quoted(a.Form) && a.Key == a.Prop && b.Key != b.Prop) || (quoted(b.Form) && b.Key == b.Prop && a.Key != a.Prop)) {
					explained++
				}
			}
		}
	}
	if pairs > 0 && pairs == explained {
		return "new-name-equals-quoted-key"
	}
	return "other"
}
