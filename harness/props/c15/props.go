package c15

import "verifharness/core"

func runProps(r *core.Run) {}
