package c15

// Mangled properties: scenarios enumerated by TLC from RenamePropsGen.tla are
// built with the real esbuild (one bundle / two entry points with splitting /
// a chain of transforms handing the mangle cache on); the outputs are executed
// and the property key every site really uses is observed (proxy traps, own
// keys); TLC evaluates the invariants of RenameProps.tla on the records.

import (
	"encoding/json"
	"fmt"
	"path/filepath"
	"regexp"
	"sort"
	"strings"
	"sync"

	"github.com/evanw/esbuild/pkg/api"

	"verifharness/core"
	"verifharness/tlcrun"
)

type propScen struct {
	Foo          string `json:"foo"`
	Bar          string `json:"bar"`
	Keep         string `json:"keep"`
	Plain        string `json:"plain"`
	PlainName    string `json:"plainName"`
	MangleQuoted bool   `json:"mangleQuoted"`
	Cache        string `json:"cache"`
	Layout       string `json:"layout"`
}

func (s propScen) id() string {
	return fmt.Sprintf("props/%s/%s/%s/%s/%s/q%v/%s/%s", s.Foo, s.Bar, s.Keep, s.Plain, s.PlainName, s.MangleQuoted, s.Cache, s.Layout)
}

type pv struct {
	P string `json:"p"`
	V string `json:"v"`
}
type siteRec struct {
	I        int    `json:"i"`
	File     int    `json:"file"`
	Prop     string `json:"prop"`
	Form     string `json:"form"`
	Matches  bool   `json:"matches"`
	Reserved bool   `json:"reserved"`
	Key      string `json:"key"`
}
type propRec struct {
	ID           int       `json:"id"`
	MangleQuoted bool      `json:"mangleQuoted"`
	HasCache     bool      `json:"hasCache"`
	CacheIn      []pv      `json:"cacheIn"`
	CacheOut     []pv      `json:"cacheOut"`
	Sites        []siteRec `json:"sites"`
	scen         propScen
	outputs      map[string]string
	inputs       map[string]string
}

var rePat = regexp.MustCompile(`^([a-z]+)([123])$`)

var specForm = map[string]string{"set": "set", "get": "get", "lit": "lit", "destr": "destr", "opt": "opt", "class": "class", "call": "call",
	"litq": "lit-q", "getq": "get-q", "inq": "in-q", "keyannot": "keyannot", "runtime": "runtime"}

func siteCode(form string, i int, n string) string {
	switch form {
	case "set":
		return fmt.Sprintf("__P(%d).%s = 1;", i, n)
	case "get":
		return fmt.Sprintf("__STR(__P(%d).%s);", i, n)
	case "lit":
		return fmt.Sprintf("__K(%d, { %s: 1 });", i, n)
	case "destr":
		return fmt.Sprintf("var { %s: __v%d } = __P(%d); __STR(__v%d);", n, i, i, i)
	case "opt":
		return fmt.Sprintf("__STR(__P(%d)?.%s);", i, n)
	case "class":
		return fmt.Sprintf("__K(%d, new (class { %s = 1 })());", i, n)
	case "call":
		return fmt.Sprintf("__P(%d).%s();", i, n)
	case "litq":
		return fmt.Sprintf("__K(%d, { '%s': 1 });", i, n)
	case "getq":
		return fmt.Sprintf("__STR(__P(%d)['%s']);", i, n)
	case "inq":
		return fmt.Sprintf("__STR('%s' in __P(%d));", n, i)
	case "keyannot":
		return fmt.Sprintf("__STR(__P(%d)[/* @__KEY__ */ '%s']);", i, n)
	case "runtime":
		return fmt.Sprintf("__STR(__P(%d)[__STR('%s')]);", i, n)
	}
	return ""
}

func cacheToPV(m map[string]interface{}) []pv {
	out := []pv{}
	for k, v := range m {
		switch x := v.(type) {
		case string:
			out = append(out, pv{k, x})
		case bool:
			if !x {
				out = append(out, pv{k, "<false>"})
			}
		}
	}
	sort.Slice(out, func(i, j int) bool { return out[i].P < out[j].P })
	return out
}

func copyCache(m map[string]interface{}) map[string]interface{} {
	if m == nil {
		return nil
	}
	out := map[string]interface{}{}
	for k, v := range m {
		out[k] = v
	}
	return out
}

// buildProps renders and compiles one scenario; returns the record without observed keys and the node job
func buildProps(r *core.Run, idx int, s propScen) (*propRec, *job, string) {
	rec := &propRec{ID: idx, MangleQuoted: s.MangleQuoted, scen: s, CacheIn: []pv{}, CacheOut: []pv{}, Sites: []siteRec{}}
	body := map[int][]string{}
	n := 0
	add := func(pattern, prop string, matches, reserved bool) {
		if pattern == "none" {
			return
		}
		for _, part := range strings.Split(pattern, "-") {
			m := rePat.FindStringSubmatch(part)
			if m == nil {
				continue
			}
			n++
			f := int(m[2][0] - '0')
			body[f] = append(body[f], siteCode(m[1], n, prop))
			rec.Sites = append(rec.Sites, siteRec{I: n, File: f, Prop: prop, Form: specForm[m[1]], Matches: matches, Reserved: reserved})
		}
	}
	add(s.Foo, "foo_", true, false)
	add(s.Bar, "bar_", true, false)
	add(s.Keep, "keep_x_", true, true)
	add(s.Plain, s.PlainName, false, false)
	names := map[int]string{1: "A.js", 2: "B.js", 3: "C.js"}
	files := map[string]string{}
	for f := 1; f <= 3; f++ {
		var sb strings.Builder
		if s.Layout != "chain" {
			switch {
			case f == 1 && s.Layout == "bundle":
				sb.WriteString("import './B.js';\nimport './C.js';\n")
			case f == 1 || f == 2:
				sb.WriteString("import './C.js';\n")
			}
		}
		for _, l := range body[f] {
			sb.WriteString(l + "\n")
		}
		sb.WriteString("export {};\n")
		files[names[f]] = sb.String()
	}
	rec.inputs = files
	var cacheIn map[string]interface{}
	switch s.Cache {
	case "empty":
		cacheIn = map[string]interface{}{}
	case "preset-foo":
		cacheIn = map[string]interface{}{"foo_": "zz"}
	case "false-bar":
		cacheIn = map[string]interface{}{"bar_": false}
	}
	rec.CacheIn = cacheToPV(cacheIn)
	rec.HasCache = cacheIn != nil
	mq := api.MangleQuotedFalse
	if s.MangleQuoted {
		mq = api.MangleQuotedTrue
	}
	outputs := map[string]string{}
	var entries []string
	var cacheOut map[string]interface{}
	if s.Layout == "chain" {
		cache := copyCache(cacheIn)
		for f := 1; f <= 3; f++ {
			res := api.Transform(files[names[f]], api.TransformOptions{Loader: api.LoaderJS, Format: api.FormatESModule, Sourcefile: names[f],
				MangleProps: "_$", ReserveProps: "^keep_", MangleQuoted: mq, MangleCache: copyCache(cache), LogLevel: api.LogLevelSilent})
			if len(res.Errors) > 0 {
				return rec, nil, msgText(res.Errors)
			}
			outputs[names[f]] = string(res.Code)
			entries = append(entries, names[f])
			if cache != nil {
				cache = res.MangleCache
			}
		}
		cacheOut = cache
	} else {
		dir := filepath.Join(r.Scratch, fmt.Sprintf("props-%d", idx))
		core.WriteTree(dir, files)
		eps := []string{filepath.Join(dir, "A.js")}
		if s.Layout == "split" {
			eps = append(eps, filepath.Join(dir, "B.js"))
		}
		res := api.Build(api.BuildOptions{AbsWorkingDir: dir, EntryPoints: eps, Bundle: true, Write: false, Outdir: filepath.Join(dir, "out"),
			Format: api.FormatESModule, Splitting: s.Layout == "split", MangleProps: "_$", ReserveProps: "^keep_", MangleQuoted: mq,
			MangleCache: copyCache(cacheIn), LogLevel: api.LogLevelSilent})
		if len(res.Errors) > 0 {
			return rec, nil, msgText(res.Errors)
		}
		for _, f := range res.OutputFiles {
			rel, _ := filepath.Rel(filepath.Join(dir, "out"), f.Path)
			outputs[filepath.ToSlash(rel)] = string(f.Contents)
		}
		entries = []string{"A.js"}
		if s.Layout == "split" {
			entries = append(entries, "B.js")
		}
		cacheOut = res.MangleCache
	}
	rec.CacheOut = cacheToPV(cacheOut)
	rec.outputs = outputs
	return rec, &job{ID: fmt.Sprintf("p%d", idx), Kind: "esm", Files: outputs, Entries: entries}, ""
}

type propVerdict struct {
	I       int      `json:"i"`
	Failing []string `json:"failing"`
	Mangled int      `json:"mangled"`
	Renamed int      `json:"renamed"`
}

func runProps(r *core.Run) {
	var scens []propScen
	res := tlcrun.MustHold(r, tlcrun.Options{Module: "RenamePropsGen", Config: "RenamePropsGen.cfg", Workers: 1, TimeoutSec: 600, OnCase: func(raw []byte) {
		var s propScen
		if json.Unmarshal(raw, &s) == nil {
			scens = append(scens, s)
		}
	}})
	if res == nil || len(scens) == 0 {
		r.Infra("no property scenarios exported by RenamePropsGen")
		return
	}
	r.Set("prop_scenarios_enumerated", len(scens))
	// chain without a cache shares nothing between the transforms: not a scenario
	var pick []propScen
	want := r.Pick(400, 3000)
	r.Rand.Shuffle(len(scens), func(i, j int) { scens[i], scens[j] = scens[j], scens[i] })
	for _, s := range scens {
		if s.Layout == "chain" && s.Cache == "nil" {
			continue
		}
		if len(pick) < want {
			pick = append(pick, s)
		}
	}
	recs := make([]*propRec, len(pick))
	jobs := make([]*job, len(pick))
	var mu sync.Mutex
	rejected := 0
	core.Parallel(len(pick), 8, func(i int) {
		rec, j, errText := buildProps(r, i+1, pick[i])
		mu.Lock()
		defer mu.Unlock()
		if errText != "" {
			rejected++
			return
		}
		recs[i], jobs[i] = rec, j
	})
	var js []job
	for _, j := range jobs {
		if j != nil {
			js = append(js, *j)
		}
	}
	results := runJobs(r, js)
	var valid []*propRec
	for i, rec := range recs {
		if rec == nil {
			continue
		}
		out := results[fmt.Sprintf("p%d", i+1)]
		if out == nil {
			r.Infra("no result for property scenario %s", rec.scen.id())
			continue
		}
		s := rec.scen
		key := map[string]interface{}{"kind": "mangle-props", "foo": s.Foo, "bar": s.Bar, "keep": s.Keep, "plain": s.Plain, "plainName": s.PlainName,
			"mangleQuoted": s.MangleQuoted, "cache": s.Cache, "layout": s.Layout}
		if out.Error != "" {
			key["invariant"] = "output-runs"
			r.Violation(key, fmt.Sprintf("the output of a build with mangled properties throws (%s): %s", s.id(), out.Error),
				map[string]interface{}{"scenario": s, "input": rec.inputs, "output": rec.outputs})
			continue
		}
		for k := range rec.Sites {
			if v, ok := out.Sites[fmt.Sprint(rec.Sites[k].I)]; ok {
				rec.Sites[k].Key = v
			} else {
				rec.Sites[k].Key = "<not executed>"
			}
		}
		rec.ID = len(valid) + 1
		valid = append(valid, rec)
		files := map[int]bool{}
		for _, st := range rec.Sites {
			if st.Prop == "foo_" {
				files[st.File] = true
			}
		}
		r.Case(s.id(), len(files) >= 2 || s.PlainName != "plain")
	}
	r.Set("prop_builds", len(valid))
	r.Set("prop_builds_rejected", rejected)
	if len(valid) == 0 {
		return
	}
	var sb strings.Builder
	for _, rec := range valid {
		b, _ := json.Marshal(rec)
		sb.Write(b)
		sb.WriteByte('\n')
	}
	var verdicts []propVerdict
	vres, err := tlcrun.Run(r, tlcrun.Options{Module: "RenameProps", Config: "RenameProps.cfg", Workers: 1, TimeoutSec: 900,
		Files: map[string]string{"c15props.ndjson": sb.String()},
		OnCase: func(raw []byte) {
			var v propVerdict
			if json.Unmarshal(raw, &v) == nil {
				verdicts = append(verdicts, v)
			}
		}})
	if err != nil {
		r.Infra("state validation of mangled properties failed to run: %v", err)
		return
	}
	if vres.Violated != "" || len(verdicts) != len(valid) {
		r.Infra("state validation of mangled properties incomplete: %d verdicts for %d records (violated=%q)\n%s", len(verdicts), len(valid), vres.Violated, vres.Output)
		return
	}
	r.AddTraces(int64(len(valid)))
	mangledSites, renamedSites := 0, 0
	for _, v := range verdicts {
		mangledSites += v.Mangled
		renamedSites += v.Renamed
		if len(v.Failing) == 0 || v.I < 1 || v.I > len(valid) {
			continue
		}
		rec := valid[v.I-1]
		s := rec.scen
		for _, inv := range v.Failing {
			r.Violation(map[string]interface{}{"kind": "mangle-props", "invariant": inv, "cause": propCause(rec, inv), "foo": s.Foo, "bar": s.Bar, "keep": s.Keep, "plain": s.Plain,
				"plainName": s.PlainName, "mangleQuoted": s.MangleQuoted, "cache": s.Cache, "layout": s.Layout},
				fmt.Sprintf("mangled properties: a real build violates %s (%s): sites %+v, cache out %+v", inv, s.id(), rec.Sites, rec.CacheOut),
				map[string]interface{}{"scenario": s, "record": rec, "input": rec.inputs, "output": rec.outputs})
		}
	}
	r.Set("prop_sites_expected_mangled", mangledSites)
	r.Set("prop_sites_observed_renamed", renamedSites)
	if len(valid) > 0 {
		r.Sample(map[string]interface{}{"mangle_props_scenario": valid[0].scen, "record": valid[0]})
	}
}

// propCause attributes a key collision: "new-name-equals-quoted-key" when every
// pair of sites of different properties that share a key consists of a
// mangled site and an untouched QUOTED key (mangle-quoted off)
func propCause(rec *propRec, inv string) string {
	if inv != "DistinctPropsDistinctKeys" {
		return "other"
	}
	quoted := func(f string) bool { return f == "lit-q" || f == "get-q" || f == "in-q" }
	pairs, explained := 0, 0
	for _, a := range rec.Sites {
		for _, b := range rec.Sites {
			if a.I < b.I && a.Prop != b.Prop && a.Key == b.Key {
				pairs++
				if !rec.MangleQuoted && ((quoted(a.Form) && a.Key == a.Prop && b.Key != b.Prop) || (quoted(b.Form) && b.Key == b.Prop && a.Key != a.Prop)) {
					explained++
				}
			}
		}
	}
	if pairs > 0 && pairs == explained {
		return "new-name-equals-quoted-key"
	}
	return "other"
}
