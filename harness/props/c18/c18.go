// Package c18: hashed file names identify content; references between
// outputs resolve.
// Spec: Hash.tla (how names depend on content: isolated hash, final hash over
// the transitive closure of chunk imports, companion files; model-checked by
// HashMC.tla), HashGen.tla (the (graph shape x options x edit) triples,
// enumerated by TLC together with the model's prediction), HashState.tla (the
// invariants evaluated by TLC on records of pairs of real builds).
// Binding: (R) every triple is built twice with the real api.Build (before
// and after the edit); (S) each pair becomes one record (paths, digests, roles,
// parsed references, unique-key hits) validated by TLC.
package c18

import (
	"crypto/sha1"
	"encoding/base64"
	"encoding/hex"
	"encoding/json"
	"fmt"
	"net/url"
	"os"
	"path"
	"path/filepath"
	"regexp"
	"sort"
	"strings"
	"sync"
	"time"

	"github.com/evanw/esbuild/pkg/api"

	"verifharness/core"
	"verifharness/nodex"
	"verifharness/rec"
	"verifharness/tlcrun"
)

type scenario struct {
	Shape  string   `json:"shape"`
	Target string   `json:"target"`
	Edit   string   `json:"edit"`
	To     string   `json:"to"`
	PP     bool     `json:"pp"`
	Fam    string   `json:"fam"`
	HE     bool     `json:"he"`
	HC     bool     `json:"hc"`
	HA     bool     `json:"ha"`
	TStyle string   `json:"tstyle"`
	SM     string   `json:"sm"`
	SC     bool     `json:"sc"`
	SRoot  bool     `json:"sroot"`
	Legal  string   `json:"legal"`
	Minify bool     `json:"minify"`
	Expect []string `json:"expect"`
	Touch  []string `json:"touch"`
}

func (s scenario) id() string {
	to := ""
	if s.To != "" && s.To != "-" {
		to = ">" + s.To
	}
	b := func(x bool) string {
		if x {
			return "1"
		}
		return "0"
	}
	return fmt.Sprintf("%s/%s/%s%s/pp%v/h%s%s%s-%s/%s/sc%v/sr%v/%s/m%v", s.Shape, s.Target, s.Edit, to, s.PP, b(s.HE), b(s.HC), b(s.HA), s.TStyle, s.SM, s.SC, s.SRoot, s.Legal, s.Minify)
}

// one emitted file as HashState.tla sees it
type fileRec struct {
	Path    string   `json:"path"`
	Dig     string   `json:"dig"`
	Role    string   `json:"role"`
	Hashed  bool     `json:"hashed"`
	Tpl     string   `json:"tpl"` // the name template that names the file: entry, chunk, asset
	HP      string   `json:"hp"`  // the hash part of the path (located by the template): none, ok (8 base32 characters), empty, bad:<text>
	Kind    string   `json:"kind"`
	Parent  string   `json:"parent"`
	Refs    []string `json:"refs"`
	KeyHits int      `json:"keyhits"`
	text    string
}

type record struct {
	ID       int       `json:"id"`
	B1       []fileRec `json:"b1"`
	B2       []fileRec `json:"b2"`
	MetaKeys int       `json:"metakeys"`
	scen     scenario
	files1   map[string]string
	files2   map[string]string
	opts1    string
	opts2    string
	msgs     []string
	differs  bool
}

// ---------- scenario materialisation ----------

const fakeKeys = "AAAAAAAAAAAAAAAAC00000000 BBBBBBBBBBBBBBBBA00000001 CCCCCCCCCCCCCCCCC00000001"

// the parts of a module's text that the single-point edits change
type variant struct {
	code, note, legal, indent, blank, ident, inmap string
}

// an inline input source map (edit "inmap": only its "sources" entry differs between the two builds)
func inputMap(name, v string) string {
	m := fmt.Sprintf(`{"version":3,"sources":["orig-%s-%s.ts"],"sourcesContent":["// original of %s\n"],"names":[],"mappings":"AAAA;AACA;AACA;AACA;AACA;AACA;AACA;AACA;AACA;AACA"}`, name, v, name)
	return "//# sourceMappingURL=data:application/json;base64," + base64.StdEncoding.EncodeToString([]byte(m)) + "\n"
}

// module a additionally carries what the option-only edits act on: a define,
// syntax that a lower target rewrites, a non-ASCII string (charset) and user
// text of the placeholder shape
const jsExtras = "export const opt = (o) => o?.v ?? \"d\"\nconsole.log(FLAG_X, \"caf\u00e9\")\nexport const fake = \"" + fakeKeys + "\"\n"

func jsModule(name string, v variant, body string) string {
	extras := ""
	if name == "a" {
		extras = jsExtras
	}
	tail := ""
	if v.inmap != "" {
		tail = inputMap(name, v.inmap)
	}
	return fmt.Sprintf("/*! legal %s %s */\n// note %s %s\n%s%s%sfunction helper_%s_%s(p) { return [p, \"%s-marker-%s\"] }\n%sconsole.log(helper_%s_%s(\"%s\"))\n%s",
		name, v.legal, name, v.note, v.blank, body, extras, name, v.ident, name, v.code, v.indent, name, v.ident, name, tail)
}

func cssModule(name string, v variant, body string) string {
	return fmt.Sprintf("/*! legal %s %s */\n/* note %s %s */\n%s%s.m::after { content: \"%s-marker-%s caf\u00e9 %s\" }\n.t { inset: 0 }\n", name, v.legal, name, v.note, v.blank, body, name, v.code, fakeKeys)
}

type world struct {
	files   map[string]string
	entries []string
	loaders map[string]api.Loader
	virt    map[string]string // modules provided by a plug-in in the namespace "virt"
	outfile string            // an outfile build (no splitting, no outdir)
}

// in the template style "dir" the entry point a lives in a nested directory (src/pages), so that [dir] is not empty for it
func relocate(w *world) {
	for _, name := range []string{"src/a.js", "src/a.css"} {
		isEntry := false
		for i, e := range w.entries {
			if e == name {
				isEntry = true
				w.entries[i] = "src/pages/" + path.Base(name)
			}
		}
		if !isEntry {
			continue
		}
		txt := w.files[name]
		delete(w.files, name)
		txt = strings.ReplaceAll(txt, "'./", "'../")
		txt = strings.ReplaceAll(txt, "url(./", "url(../")
		w.files["src/pages/"+path.Base(name)] = txt
		for k, v := range w.files {
			if k != "src/pages/"+path.Base(name) {
				w.files[k] = strings.ReplaceAll(v, "'./"+path.Base(name)+"'", "'./pages/"+path.Base(name)+"'")
			}
		}
	}
}

// materialise returns the input tree of a scenario; edited = after the edit
func materialise(s scenario, edited bool) world {
	base := variant{code: "v1", note: "v1", legal: "v1", ident: "v1"}
	vOf := func(target string) variant {
		v := base
		if s.Edit == "inmap" && target == s.Target {
			v.inmap = "v1"
		}
		if !edited || target != s.Target {
			return v
		}
		switch s.Edit {
		case "code":
			v.code = "v2"
		case "comment":
			v.note = "v2"
		case "blank":
			v.blank = "\n"
		case "indent":
			v.indent = "      "
		case "legal":
			v.legal = "v2"
		case "ident":
			v.ident = "v2"
		case "inmap":
			v.inmap = "v2"
		}
		return v
	}
	asset := "ASSET-BYTES-v1\x00\x01"
	if edited && s.Edit == "asset" {
		asset = "ASSET-BYTES-v2\x00\x01"
	}
	asset2 := "ASSET2-BYTES-v1\x00\x02"
	if edited && s.Edit == "asset2" {
		asset2 = "ASSET2-BYTES-v2\x00\x02"
	}
	w := world{files: map[string]string{}, loaders: map[string]api.Loader{".bin": api.LoaderFile, ".png": api.LoaderFile, ".dat": api.LoaderCopy}}
	extra := ""
	if edited && s.Edit == "importadd" {
		extra = "export const lazyb = () => import('./b.js')\n"
	}
	switch s.Shape {
	case "split", "splitasset", "mixed":
		w.files["src/a.js"] = jsModule("a", vOf("a"), "import {s} from './shared.js'\n"+extra+"console.log(s)\n")
		w.files["src/b.js"] = jsModule("b", vOf("b"), "import {s} from './shared.js'\nconsole.log(s, 'b')\n")
		if s.Shape == "splitasset" || s.Shape == "mixed" {
			w.files["src/shared.js"] = jsModule("shared", vOf("shared"), "import x from './x.bin'\nexport const s = 'shared:' + x\n")
			w.files["src/x.bin"] = asset
		} else {
			w.files["src/shared.js"] = jsModule("shared", vOf("shared"), "export const s = 'shared'\n")
		}
		w.entries = []string{"src/a.js", "src/b.js"}
		if s.Shape == "mixed" {
			// a copied entry point next to the chunks and the file-loader asset: all three templates name outputs of one build
			w.files["src/static/d.dat"] = asset2
			w.entries = append(w.entries, "src/static/d.dat")
		}
	case "copyonly":
		w.files["src/a.js"] = jsModule("a", vOf("a"), "console.log('solo')\n")
		w.files["src/static/d.dat"] = asset2
		w.entries = []string{"src/a.js", "src/static/d.dat"}
	case "outfilecopy":
		w.files["src/static/d.dat"] = asset2
		w.entries = []string{"src/static/d.dat"}
		w.outfile = "out/copied.dat"
	case "twoassets":
		w.files["src/a.js"] = jsModule("a", vOf("a"), "import x from './x.bin'\nimport y from './y.bin'\nconsole.log(x, y)\n")
		w.files["src/x.bin"] = asset
		w.files["src/y.bin"] = asset2
		w.entries = []string{"src/a.js"}
	case "outfile":
		w.files["src/a.js"] = jsModule("a", vOf("a"), "import x from './x.bin'\nconsole.log(x)\n")
		w.files["src/x.bin"] = asset
		w.entries = []string{"src/a.js"}
		w.outfile = "out/bundle.js"
	case "plugin":
		w.files["src/a.js"] = jsModule("a", vOf("a"), "import {v} from 'virtual:v.js'\nimport x from 'virtual:x.bin'\nconsole.log(v, x)\n")
		w.virt = map[string]string{"v.js": jsModule("v", vOf("v"), "export const v = 'virtual'\n"), "x.bin": asset}
		w.entries = []string{"src/a.js"}
	case "statchain":
		// shared.js is in the chunk of {a, b}, m2.js in the chunk of {a, b, c}: chunk -> chunk -> chunk
		w.files["src/a.js"] = jsModule("a", vOf("a"), "import {s} from './shared.js'\n"+extra+"console.log(s)\n")
		w.files["src/b.js"] = jsModule("b", vOf("b"), "import {s} from './shared.js'\nconsole.log(s, 'b')\n")
		w.files["src/c.js"] = jsModule("c", vOf("c"), "import {m2} from './m2.js'\nconsole.log(m2, 'c')\n")
		w.files["src/shared.js"] = jsModule("shared", vOf("shared"), "import {m2} from './m2.js'\nexport const s = 'shared:' + m2\n")
		w.files["src/m2.js"] = jsModule("m2", vOf("m2"), "export const m2 = 'm2'\n")
		w.entries = []string{"src/a.js", "src/b.js", "src/c.js"}
	case "dyncycle":
		w.files["src/a.js"] = jsModule("a", vOf("a"), "export const toB = () => import('./b.js')\n")
		w.files["src/b.js"] = jsModule("b", vOf("b"), "export const toA = () => import('./a.js')\n")
		w.entries = []string{"src/a.js"}
	case "dynchain":
		w.files["src/a.js"] = jsModule("a", vOf("a"), "export const toB = () => import('./b.js')\n")
		w.files["src/b.js"] = jsModule("b", vOf("b"), "export const toC = () => import('./c.js')\n")
		w.files["src/c.js"] = jsModule("c", vOf("c"), "export const leaf = 'c'\n")
		w.entries = []string{"src/a.js"}
	case "cycle3":
		w.files["src/a.js"] = jsModule("a", vOf("a"), "export const toB = () => import('./b.js')\n")
		w.files["src/b.js"] = jsModule("b", vOf("b"), "export const toC = () => import('./c.js')\n")
		w.files["src/c.js"] = jsModule("c", vOf("c"), "export const toA = () => import('./a.js')\n")
		w.entries = []string{"src/a.js"}
	case "fileasset", "copy", "dataurl", "copyentry":
		w.files["src/a.js"] = jsModule("a", vOf("a"), "import x from './x.bin'\nconsole.log(x)\n")
		w.files["src/x.bin"] = asset
		if s.Shape == "copyentry" {
			// the copied file is an entry point itself: it is named by the entry template (bundler.go)
			w.loaders[".bin"] = api.LoaderCopy
			w.entries = []string{"src/a.js", "src/x.bin"}
			break
		}
		if s.Shape == "copy" {
			w.loaders[".bin"] = api.LoaderCopy
		} else if s.Shape == "dataurl" {
			w.loaders[".bin"] = api.LoaderDataURL
		}
		w.entries = []string{"src/a.js"}
	case "cssurl":
		w.files["src/a.css"] = cssModule("a", vOf("a"), "body { background: url(./x.png) }\n")
		w.files["src/x.png"] = asset
		w.entries = []string{"src/a.css"}
	case "jscss":
		w.files["src/a.js"] = jsModule("a", vOf("a"), "import './a.css'\n")
		w.files["src/a.css"] = cssModule("css", vOf("css"), "body { background: url(./x.png) }\n")
		w.files["src/x.png"] = asset
		w.entries = []string{"src/a.js"}
	}
	if s.TStyle == "dir" {
		relocate(&w)
	}
	return w
}

// the three name templates of a scenario: [hash] in each of them independently, four styles
func templates(s scenario) (entry, chunk, asset string) {
	pick := func(hashed bool, with, without string) string {
		if hashed {
			return with
		}
		return without
	}
	switch s.TStyle {
	case "dir":
		return pick(s.HE, "[dir]/[name]-[hash]", "[dir]/[name]"), pick(s.HC, "[dir]/chunks/[name]-[hash]", "[dir]/chunks/[name]"), pick(s.HA, "[dir]/media/[name]-[hash]", "[dir]/media/[name]")
	case "ext":
		return pick(s.HE, "[ext]/[hash]-[name]", "[ext]/[name]"), pick(s.HC, "c-[ext]/[hash]-[name]", "c-[ext]/[name]"), pick(s.HA, "assets/[ext]/[hash]-[name]", "assets/[ext]/[name]")
	}
	return pick(s.HE, "[name]-[hash]", "[name]"), pick(s.HC, "chunks/[name]-[hash]", "chunks/[name]"), pick(s.HA, "assets/[name]-[hash]", "assets/[name]")
}

// the plug-in of the shape "plugin": modules and an asset in a non-file namespace
func virtPlugin(virt map[string]string) api.Plugin {
	return api.Plugin{Name: "virt", Setup: func(b api.PluginBuild) {
		b.OnResolve(api.OnResolveOptions{Filter: "^virtual:"}, func(a api.OnResolveArgs) (api.OnResolveResult, error) {
			return api.OnResolveResult{Path: strings.TrimPrefix(a.Path, "virtual:"), Namespace: "virt"}, nil
		})
		b.OnLoad(api.OnLoadOptions{Filter: ".*", Namespace: "virt"}, func(a api.OnLoadArgs) (api.OnLoadResult, error) {
			c, ok := virt[a.Path]
			if !ok {
				return api.OnLoadResult{}, fmt.Errorf("no virtual module %q", a.Path)
			}
			l := api.LoaderJS
			if strings.HasSuffix(a.Path, ".bin") {
				l = api.LoaderFile
			}
			return api.OnLoadResult{Contents: &c, Loader: l}, nil
		})
	}}
}

const (
	pp1   = "https://cdn.example/v1/"
	pp2   = "https://cdn.example/v2/"
	root1 = "https://src.example/r1/"
	root2 = "https://src.example/r2/"
)

func options(s scenario, edited bool, root string, w world) api.BuildOptions {
	o := api.BuildOptions{
		AbsWorkingDir: root,
		EntryPoints:   w.entries,
		Outbase:       "src",
		Outdir:        "out",
		Bundle:        true,
		Splitting:     true,
		Format:        api.FormatESModule,
		Loader:        w.loaders,
		Define:        map[string]string{"FLAG_X": "1"},
		Write:         false,
		Metafile:      true,
		LogLevel:      api.LogLevelSilent,
	}
	is := func(e string) bool { return edited && s.Edit == e }
	o.EntryNames, o.ChunkNames, o.AssetNames = templates(s)
	if w.outfile != "" {
		// outfile build: no outdir, no splitting; the entry template is applied to the base name of the outfile
		o.Outdir, o.Outbase, o.Splitting, o.Outfile = "", "", false, w.outfile
	}
	if w.virt != nil {
		o.Plugins = []api.Plugin{virtPlugin(w.virt)}
	}
	if is("entrynames") {
		o.EntryNames = "e/" + o.EntryNames
	}
	if is("chunknames") {
		o.ChunkNames = "c2/" + o.ChunkNames
	}
	if is("assetnames") {
		o.AssetNames = "m2/" + o.AssetNames
	}
	if is("outext") || s.TStyle == "outext" {
		o.OutExtension = map[string]string{".js": ".mjs", ".css": ".pcss"}
	}
	if s.PP {
		o.PublicPath = pp1
		if is("pp") {
			o.PublicPath = pp2
		}
	} else if is("ppon") {
		o.PublicPath = pp1
	}
	sm := s.SM
	if is("smmode") {
		sm = s.To
	}
	switch sm {
	case "linked":
		o.Sourcemap = api.SourceMapLinked
	case "external":
		o.Sourcemap = api.SourceMapExternal
	case "inline":
		o.Sourcemap = api.SourceMapInline
	case "both":
		o.Sourcemap = api.SourceMapInlineAndExternal
	}
	sc := s.SC
	if is("sctoggle") {
		sc = !sc
	}
	if !sc {
		o.SourcesContent = api.SourcesContentExclude
	}
	if s.SRoot {
		o.SourceRoot = root1
		if is("sroot") {
			o.SourceRoot = root2
		}
	} else if is("sroot") {
		o.SourceRoot = root1
	}
	legal := s.Legal
	if is("legalmode") {
		legal = s.To
	}
	switch legal {
	case "none":
		o.LegalComments = api.LegalCommentsNone
	case "inline":
		o.LegalComments = api.LegalCommentsInline
	case "eof":
		o.LegalComments = api.LegalCommentsEndOfFile
	case "linked":
		o.LegalComments = api.LegalCommentsLinked
	case "external":
		o.LegalComments = api.LegalCommentsExternal
	}
	o.MinifyWhitespace, o.MinifyIdentifiers, o.MinifySyntax = s.Minify, s.Minify, s.Minify
	if is("minws") {
		o.MinifyWhitespace = !s.Minify
	}
	if is("minid") {
		o.MinifyIdentifiers = !s.Minify
	}
	if is("minsyn") {
		o.MinifySyntax = !s.Minify
	}
	if is("banner") {
		o.Banner = map[string]string{"js": "/* banner text */", "css": "/* banner text */"}
	}
	if is("footer") {
		o.Footer = map[string]string{"js": "/* footer text */", "css": "/* footer text */"}
	}
	if is("define") {
		o.Define = map[string]string{"FLAG_X": "2"}
	}
	if is("target") {
		o.Engines = []api.Engine{{Name: api.EngineChrome, Version: "70"}}
	}
	if is("charset") {
		o.Charset = api.CharsetUTF8
	}
	if is("keepnames") {
		o.KeepNames = true
	}
	return o
}

// the inputs of a scenario for the replay file (plug-in modules under virt:)
func inputsOf(w world) map[string]string {
	m := map[string]string{}
	for k, v := range w.files {
		m[k] = v
	}
	for k, v := range w.virt {
		m["virt:"+k] = v
	}
	return m
}

// ---------- one real build, projected ----------

type metaOut struct {
	EntryPoint string                     `json:"entryPoint"`
	CSSBundle  string                     `json:"cssBundle"`
	Inputs     map[string]json.RawMessage `json:"inputs"`
}
type metafile struct {
	Outputs map[string]metaOut `json:"outputs"`
}

type built struct {
	root    string
	pp      string
	files   []fileRec
	meta    string
	errs    []string
	optsStr string
}

func digest(b []byte) string {
	h := sha1.Sum(b)
	return hex.EncodeToString(h[:8])
}

func build(s scenario, edited bool, root string) built {
	w := materialise(s, edited)
	os.MkdirAll(root, 0755)
	core.WriteTree(root, w.files)
	o := options(s, edited, root, w)
	res := api.Build(o)
	b := built{root: root, pp: o.PublicPath, meta: res.Metafile}
	b.optsStr = fmt.Sprintf("EntryNames=%s ChunkNames=%s AssetNames=%s OutExtension=%v PublicPath=%q Sourcemap=%v SourcesContent=%v SourceRoot=%q LegalComments=%v MinifyWhitespace=%v MinifyIdentifiers=%v MinifySyntax=%v Banner=%v Footer=%v Define=%v Engines=%v Charset=%v KeepNames=%v Splitting ESM Bundle entries=%v loaders=%v",
		o.EntryNames, o.ChunkNames, o.AssetNames, o.OutExtension, o.PublicPath, o.Sourcemap, o.SourcesContent, o.SourceRoot, o.LegalComments, o.MinifyWhitespace, o.MinifyIdentifiers, o.MinifySyntax,
		o.Banner, o.Footer, o.Define, o.Engines, o.Charset, o.KeepNames, w.entries, w.loaders)
	for _, e := range res.Errors {
		b.errs = append(b.errs, e.Text)
	}
	var mf metafile
	if res.Metafile != "" {
		json.Unmarshal([]byte(res.Metafile), &mf)
	}
	isEntry := map[string]bool{}
	for _, e := range w.entries {
		isEntry[e] = true
	}
	tplText := map[string]string{"entry": o.EntryNames, "chunk": o.ChunkNames, "asset": o.AssetNames}
	hashedBy := func(tpl string) bool { return strings.Contains(tplText[tpl], "[hash]") }
	isCopied := func(in string) bool { return w.loaders[path.Ext(in)] == api.LoaderCopy }
	paths := map[string]bool{}
	for _, f := range res.OutputFiles {
		rel, _ := filepath.Rel(root, f.Path)
		paths[filepath.ToSlash(rel)] = true
	}
	// the CSS bundle of a JS entry point is named by the entry template too
	cssBundleOf := map[string]string{}
	for _, m := range mf.Outputs {
		if m.CSSBundle != "" && m.EntryPoint != "" {
			cssBundleOf[m.CSSBundle] = m.EntryPoint
		}
	}
	roleOf := func(p string) (role string, tpl string, kind string) {
		m := mf.Outputs[p]
		if ep := cssBundleOf[p]; ep != "" && m.EntryPoint == "" {
			m.EntryPoint = ep
		}
		kind = kindOfPath(p)
		sfx := ""
		if kind == "css" {
			// the CSS bundle of a JS entry point has the same entry point as the JS file
			sfx = "#css"
		}
		switch {
		case m.EntryPoint != "" && isEntry[m.EntryPoint]:
			return "entry:" + m.EntryPoint + sfx, "entry", kind
		case m.EntryPoint != "":
			// the entry chunk of a dynamic import is named by the chunk template
			return "dyn:" + m.EntryPoint + sfx, "chunk", kind
		case kind != "asset":
			ins := make([]string, 0, len(m.Inputs))
			for k := range m.Inputs {
				ins = append(ins, k)
			}
			sort.Strings(ins)
			return "chunk:" + strings.Join(ins, "+") + sfx, "chunk", kind
		default:
			ins := make([]string, 0, len(m.Inputs))
			for k := range m.Inputs {
				ins = append(ins, k)
			}
			sort.Strings(ins)
			// file / copy-loader output: asset template, except a copied file that is an entry point itself
			tpl := "asset"
			if len(ins) == 1 && isEntry[ins[0]] && isCopied(ins[0]) {
				tpl = "entry"
			}
			return "asset:" + strings.Join(ins, "+"), tpl, kind
		}
	}
	for _, f := range res.OutputFiles {
		rel, _ := filepath.Rel(root, f.Path)
		p := filepath.ToSlash(rel)
		fr := fileRec{Path: p, Dig: digest(f.Contents), Refs: []string{}, text: string(f.Contents)}
		switch {
		case strings.HasSuffix(p, ".map") && paths[strings.TrimSuffix(p, ".map")]:
			pr, tp, _ := roleOf(strings.TrimSuffix(p, ".map"))
			fr.Role, fr.Tpl, fr.Kind, fr.Parent = pr+".map", tp, "map", pr
			fr.HP = hashPart(tplText[tp], strings.TrimSuffix(p, ".map"))
		case strings.HasSuffix(p, ".LEGAL.txt") && paths[strings.TrimSuffix(p, ".LEGAL.txt")]:
			pr, tp, _ := roleOf(strings.TrimSuffix(p, ".LEGAL.txt"))
			fr.Role, fr.Tpl, fr.Kind, fr.Parent = pr+".legal", tp, "legal", pr
			fr.HP = hashPart(tplText[tp], strings.TrimSuffix(p, ".LEGAL.txt"))
		default:
			fr.Role, fr.Tpl, fr.Kind = roleOf(p)
			fr.HP = hashPart(tplText[fr.Tpl], p)
		}
		// a file is subject to 'same path => same bytes' iff ITS OWN template contains [hash]
		fr.Hashed = hashedBy(fr.Tpl)
		b.files = append(b.files, fr)
	}
	return b
}

// hashPart locates the text substituted for [hash] in an emitted path with a
// regular expression derived from the name template: "none" if the template
// has no [hash], "ok" if it is 8 characters of the base32 alphabet, "empty",
// "bad:<text>" otherwise, "nomatch" if the path does not have the shape of the
// template at all (a projection error, never a verdict).
var tplRegexps sync.Map

func hashPart(tpl, p string) string {
	if !strings.Contains(tpl, "[hash]") {
		return "none"
	}
	var re *regexp.Regexp
	if v, ok := tplRegexps.Load(tpl); ok {
		re = v.(*regexp.Regexp)
	} else {
		var sb strings.Builder
		sb.WriteString(`^out/`)
		rest := tpl
		for rest != "" {
			switch {
			case strings.HasPrefix(rest, "[dir]/"):
				sb.WriteString(`(?:.+/)?`)
				rest = rest[len("[dir]/"):]
			case strings.HasPrefix(rest, "[dir]"):
				sb.WriteString(`.*`)
				rest = rest[len("[dir]"):]
			case strings.HasPrefix(rest, "[name]"):
				sb.WriteString(`[^/]+?`)
				rest = rest[len("[name]"):]
			case strings.HasPrefix(rest, "[ext]"):
				sb.WriteString(`[A-Za-z0-9]+`)
				rest = rest[len("[ext]"):]
			case strings.HasPrefix(rest, "[hash]"):
				sb.WriteString(`([^/.-]*)`)
				rest = rest[len("[hash]"):]
			default:
				sb.WriteString(regexp.QuoteMeta(rest[:1]))
				rest = rest[1:]
			}
		}
		sb.WriteString(`\.[A-Za-z0-9]+$`)
		re = regexp.MustCompile(sb.String())
		tplRegexps.Store(tpl, re)
	}
	m := re.FindStringSubmatch(p)
	if m == nil {
		return "nomatch"
	}
	switch {
	case m[1] == "":
		return "empty"
	case base32Hash.MatchString(m[1]):
		return "ok"
	}
	return "bad:" + m[1]
}

var base32Hash = regexp.MustCompile(`^[A-Z2-7]{8}$`)

// ---------- parsing the emitted text (node/imports_of.js) ----------

type parseReq struct {
	ID   string `json:"id"`
	Code string `json:"code"`
	Kind string `json:"kind"`
}
type parsedImport struct {
	Path string `json:"path"`
	Kind string `json:"kind"`
}
type parsed struct {
	ID      string         `json:"id"`
	OK      bool           `json:"ok"`
	Error   string         `json:"error"`
	Imports []parsedImport `json:"imports"`
	Strings []string       `json:"strings"`
	SMURL   string         `json:"smurl"`
	Legal   string         `json:"legal"`
}

func resolveRef(b *built, from, ref string) string {
	if b.pp != "" && strings.HasPrefix(ref, b.pp) {
		return path.Join("out", ref[len(b.pp):])
	}
	return path.Join(path.Dir(from), ref)
}

func isAssetURL(s string) bool {
	return (strings.HasSuffix(s, ".bin") || strings.HasSuffix(s, ".png") || strings.HasSuffix(s, ".dat")) && !strings.ContainsAny(s, " \n")
}

func fillRefs(b *built, byID map[string]*parsed, idPrefix string) error {
	for i := range b.files {
		f := &b.files[i]
		if f.Kind != "js" && f.Kind != "css" {
			continue
		}
		p := byID[idPrefix+f.Path]
		if p == nil || !p.OK {
			msg := "missing"
			if p != nil {
				msg = p.Error
			}
			return fmt.Errorf("emitted %s could not be re-parsed: %s", f.Path, msg)
		}
		set := map[string]bool{}
		for _, im := range p.Imports {
			if strings.HasPrefix(im.Path, "data:") || strings.HasPrefix(im.Path, "http://example.com/") {
				continue
			}
			set[resolveRef(b, f.Path, im.Path)] = true
		}
		if f.Kind == "js" {
			for _, s := range p.Strings {
				if isAssetURL(s) {
					set[resolveRef(b, f.Path, s)] = true
				}
			}
		}
		if p.SMURL != "" && !strings.HasPrefix(p.SMURL, "data:") {
			u := p.SMURL
			if un, err := url.PathUnescape(u); err == nil {
				u = un
			}
			set[resolveRef(b, f.Path, u)] = true
		}
		if p.Legal != "" {
			set[resolveRef(b, f.Path, p.Legal)] = true
		}
		for r := range set {
			f.Refs = append(f.Refs, r)
		}
		sort.Strings(f.Refs)
	}
	return nil
}

// ---------- TLC state validation ----------

type pathPair struct {
	From string `json:"from"`
	To   string `json:"to"`
}
type verdict struct {
	I          int        `json:"i"`
	Failing    []string   `json:"failing"`
	Collisions []string   `json:"collisions"`
	Stuck      []string   `json:"stuck"`
	Changed    []string   `json:"changed"`
	Unresolved []pathPair `json:"unresolved"`
	WithKeys   []string   `json:"withkeys"`
	BadHash    []string   `json:"badhash"`
}

func kindOfPath(p string) string {
	switch {
	case strings.HasSuffix(p, ".LEGAL.txt"):
		return "legal"
	case strings.HasSuffix(p, ".map"):
		return "map"
	case strings.HasSuffix(p, ".js"), strings.HasSuffix(p, ".mjs"):
		return "js"
	case strings.HasSuffix(p, ".css"), strings.HasSuffix(p, ".pcss"):
		return "css"
	}
	return "asset"
}

func kindOfRole(role string) string {
	switch {
	case strings.HasSuffix(role, ".legal"):
		return "legal"
	case strings.HasSuffix(role, ".map"):
		return "map"
	case strings.HasPrefix(role, "asset:"):
		return "asset"
	}
	return "code"
}

func kinds(xs []string, f func(string) string) []string {
	m := map[string]bool{}
	for _, x := range xs {
		m[f(x)] = true
	}
	out := []string{}
	for k := range m {
		out = append(out, k)
	}
	sort.Strings(out)
	return out
}

func validate(r *core.Run, recs []*record, confirmed map[string]int, mu *sync.Mutex) {
	var sb strings.Builder
	for _, rc := range recs {
		b, _ := json.Marshal(rc)
		sb.Write(b)
		sb.WriteByte('\n')
	}
	var verdicts []verdict
	res, err := tlcrun.Run(r, tlcrun.Options{Module: "HashState", Config: "HashState.cfg", Workers: 1, TimeoutSec: 900,
		Files: map[string]string{"c18records.ndjson": sb.String()},
		OnCase: func(raw []byte) {
			var v verdict
			if json.Unmarshal(raw, &v) == nil {
				verdicts = append(verdicts, v)
			}
		}})
	if err != nil {
		r.Infra("state validation failed to run: %v", err)
		return
	}
	if res.Violated != "" || len(verdicts) != len(recs) {
		r.Infra("state validation incomplete: %d verdicts for %d records (violated=%q)\n%s", len(verdicts), len(recs), res.Violated, res.Output)
		return
	}
	r.AddTraces(int64(len(recs)))
	for _, v := range verdicts {
		if v.I < 1 || v.I > len(recs) {
			continue
		}
		rc := recs[v.I-1]
		s := rc.scen
		predicted := map[string]bool{}
		for _, e := range s.Expect {
			predicted[e] = true
		}
		observed := map[string]bool{}
		for _, inv := range v.Failing {
			observed[inv] = true
			if inv == "WellFormed" {
				r.Infra("projection error: roles are not unique in scenario %s", s.id())
				continue
			}
			var witness []string
			switch inv {
			case "SamePathSameBytes":
				witness = kinds(v.Collisions, kindOfPath)
			case "ChangePropagates":
				witness = kinds(v.Changed, kindOfRole)
			case "RefsResolve":
				for _, u := range v.Unresolved {
					witness = append(witness, kindOfPath(u.From))
				}
				witness = kinds(witness, func(x string) string { return x })
			case "NoEmptyHash":
				witness = kinds(v.BadHash, kindOfPath)
			case "NoPlaceholderSurvives":
				witness = kinds(v.WithKeys, kindOfPath)
				if rc.MetaKeys > 0 {
					witness = append(witness, "metafile")
				}
			}
			if predicted[inv] {
				mu.Lock()
				confirmed[inv+"/"+s.Edit+"/"+s.Legal]++
				mu.Unlock()
			}
			r.Violation(map[string]interface{}{"invariant": inv, "edit": s.Edit, "legal": s.Legal, "witness": strings.Join(witness, "+"),
				"shape": s.Shape, "target": s.Target, "to": s.To, "pp": s.PP, "he": s.HE, "hc": s.HC, "ha": s.HA, "tstyle": s.TStyle, "sm": s.SM, "sc": s.SC, "sroot": s.SRoot, "minify": s.Minify},
				fmt.Sprintf("pair of real builds violates %s (scenario %s): collisions %v, names that did not change %v, changed roles %v, unresolved %v, unique keys in %v (metafile %d), names whose [hash] part is not 8 base32 characters %v; predicted by Hash.tla: %v",
					inv, s.id(), v.Collisions, v.Stuck, v.Changed, v.Unresolved, v.WithKeys, rc.MetaKeys, v.BadHash, predicted[inv]),
				map[string]interface{}{"scenario": s, "files_before": rc.files1, "files_after": rc.files2, "options_before": rc.opts1, "options_after": rc.opts2,
					"record": rc, "verdict": v, "messages": rc.msgs})
		}
		for inv := range predicted {
			if !observed[inv] {
				// the model predicted a failure the real builds do not show: the model
				// over-approximates here (guard 3: a candidate only), never a verdict
				r.Drift("Hash.tla predicts %s to fail for %s but the real builds satisfy it", inv, s.id())
			}
		}
	}
}

// ---------- the run ----------

func runBatch(r *core.Run, scens []scenario, base int, confirmed map[string]int, cmu *sync.Mutex, vwg *sync.WaitGroup) {
	type pair struct {
		b1, b2 built
	}
	pairs := make([]pair, len(scens))
	rec.Take()
	core.Parallel(len(scens), 8, func(i int) {
		root := filepath.Join(r.Scratch, fmt.Sprintf("p%d", base+i))
		pairs[i].b1 = build(scens[i], false, filepath.Join(root, "1"))
		pairs[i].b2 = build(scens[i], true, filepath.Join(root, "2"))
		os.RemoveAll(root)
	})
	r.Logf("batch at %d: %d pairs built", base, len(scens))
	prefixes := map[string]string{}
	for _, e := range rec.Take() {
		if e.Ev == "hash.done" {
			prefixes[e.Str("cwd")] = e.Str("prefix")
		}
	}
	// re-parse every emitted JS/CSS file
	var reqs []parseReq
	for i := range pairs {
		for k, b := range []*built{&pairs[i].b1, &pairs[i].b2} {
			for _, f := range b.files {
				if f.Kind == "js" || f.Kind == "css" {
					reqs = append(reqs, parseReq{ID: fmt.Sprintf("%d/%d/%s", i, k, f.Path), Code: f.text, Kind: f.Kind})
				}
			}
		}
	}
	var out struct {
		Results []parsed `json:"results"`
	}
	if len(reqs) == 0 {
		// only copied files were emitted: nothing to re-parse
	} else if err := nodex.Run(r, "imports_of.js", map[string]interface{}{"files": reqs}, &out, 10*time.Minute, "", "--expose-internals"); err != nil {
		r.Infra("re-parsing the emitted files failed: %v", err)
		return
	}
	r.Logf("batch at %d: %d emitted files re-parsed", base, len(reqs))
	byID := map[string]*parsed{}
	for i := range out.Results {
		byID[out.Results[i].ID] = &out.Results[i]
	}
	var recs []*record
	for i := range pairs {
		s := scens[i]
		p := &pairs[i]
		if len(p.b1.errs) > 0 || len(p.b2.errs) > 0 || len(p.b1.files) == 0 || len(p.b2.files) == 0 {
			r.Infra("scenario %s does not build: %v %v", s.id(), p.b1.errs, p.b2.errs)
			continue
		}
		rc := &record{ID: base + i, scen: s, opts1: p.b1.optsStr, opts2: p.b2.optsStr,
			files1: inputsOf(materialise(s, false)), files2: inputsOf(materialise(s, true))}
		ok := true
		for k, b := range []*built{&p.b1, &p.b2} {
			prefix := prefixes[b.root]
			if prefix == "" {
				r.Infra("no hash.done event for the build in %s (hook missing?)", b.root)
				ok = false
				break
			}
			if err := fillRefs(b, byID, fmt.Sprintf("%d/%d/", i, k)); err != nil {
				// output that the reference parser rejects is not this property's subject (C13); no verdict
				r.Infra("scenario %s: %v", s.id(), err)
				ok = false
				break
			}
			for j := range b.files {
				b.files[j].KeyHits = strings.Count(b.files[j].text, prefix)
				if b.files[j].HP == "nomatch" {
					r.Infra("projection error: %s (template %s of scenario %s) does not have the shape of its name template", b.files[j].Path, b.files[j].Tpl, s.id())
					ok = false
				}
			}
			if !ok {
				break
			}
			rc.MetaKeys += strings.Count(b.meta, prefix)
		}
		if !ok {
			continue
		}
		rc.B1, rc.B2 = p.b1.files, p.b2.files
		d1 := map[string]string{}
		for _, f := range rc.B1 {
			d1[f.Path] = f.Dig
		}
		rc.differs = len(rc.B1) != len(rc.B2)
		for _, f := range rc.B2 {
			if d, ok := d1[f.Path]; !ok || d != f.Dig {
				rc.differs = true
			}
		}
		r.Case(s.id(), rc.differs)
		if (base+i)%97 == 0 {
			var paths1, paths2 []string
			for _, f := range rc.B1 {
				paths1 = append(paths1, f.Path)
			}
			for _, f := range rc.B2 {
				paths2 = append(paths2, f.Path)
			}
			r.Sample(map[string]interface{}{"scenario": s, "before": paths1, "after": paths2, "bytes_differ": rc.differs})
		}
		recs = append(recs, rc)
	}
	for i := range pairs {
		pairs[i] = pair{}
	}
	// state validation runs while the next batch is being built
	vwg.Add(1)
	go func() {
		defer vwg.Done()
		validate(r, recs, confirmed, cmu)
	}()
}

type candidate struct {
	Edit    string   `json:"edit"`
	Legal   string   `json:"legal"`
	SM      string   `json:"sm"`
	LV      int      `json:"lv"`
	Failing []string `json:"failing"`
	Variant []string `json:"variant"`
}

func Run(r *core.Run) {
	r.Assume("hash functions are idealised as injective in Hash.tla (a collision of xxhash or of the 8 base32 characters kept in the name is outside the model)")
	r.Assume("a file is subject to 'same path => same bytes' and to NoEmptyHash iff ITS OWN name template (entry / chunk / asset, decided per output) contains [hash]; an asset whose template has no [hash] opts out: a change of its bytes need not change the names of the chunks that refer to it (their bytes contain only its path)")
	r.Assume("references are recognised in the emitted text by re-parsing it (acorn / CSS tokenizer): import specifiers, import(), url(), @import, string literals ending in an asset extension, sourceMappingURL and the legal-comment link")
	r.Assume("the unique-key prefix of each build is read through the hash.done hook; user text of the placeholder shape (foreign prefix) is present in every scenario")
	rec.Install()
	root, err := filepath.EvalSymlinks(r.Scratch)
	if err == nil {
		r.Scratch = root
	}

	if r.Replay != "" {
		// re-run exactly the scenario of a replay file (no design checks)
		var rp struct {
			Detail struct {
				Scenario scenario `json:"scenario"`
			} `json:"detail"`
		}
		b, err := os.ReadFile(r.Replay)
		if err != nil || json.Unmarshal(b, &rp) != nil || rp.Detail.Scenario.Shape == "" {
			r.Infra("cannot read the scenario of replay file %s", r.Replay)
			return
		}
		confirmed := map[string]int{}
		var cmu sync.Mutex
		var vwg sync.WaitGroup
		runBatch(r, []scenario{rp.Detail.Scenario}, 0, confirmed, &cmu, &vwg)
		vwg.Wait()
		r.Set("rule", "replay of one scenario")
		return
	}

	// design checks run concurrently with the real builds
	var wg sync.WaitGroup
	var cands []candidate
	var candMu sync.Mutex
	// necessity[ingredient] = the edit kinds that reveal (on the model) that the ingredient is left out of the hashes
	necessity := map[string]map[string]bool{}
	cfgs := []string{"Hash.quick.cfg", "Hash.dropq.cfg", "Hash.tpl.cfg"}
	if r.Thorough() {
		cfgs = []string{"Hash.quick.cfg", "Hash.thorough.cfg", "Hash.n3.cfg", "Hash.drop.cfg", "Hash.tpl.cfg", "Hash.tpl3.cfg"}
	}
	seen := map[string]bool{}
	for _, cfg := range cfgs {
		wg.Add(1)
		go func(cfg string) {
			defer wg.Done()
			// the design (nothing dropped, both repairs): all four properties must hold on the model (AllHold);
			// every other variant (an ingredient left out, the code before a repair): its counterexamples on
			// the model are exported (candidates / necessity of the ingredient), never verdicts
			tlcrun.MustHold(r, tlcrun.Options{Module: "HashMC", Config: cfg, Workers: r.Pick(2, 4), TimeoutSec: 2400, OnCase: func(raw []byte) {
				var c candidate
				if json.Unmarshal(raw, &c) != nil {
					return
				}
				candMu.Lock()
				defer candMu.Unlock()
				if len(c.Variant) == 1 && c.Variant[0] != "mih" && c.Variant[0] != "lih" {
					if necessity[c.Variant[0]] == nil {
						necessity[c.Variant[0]] = map[string]bool{}
					}
					necessity[c.Variant[0]][c.Edit] = true
					return
				}
				k := fmt.Sprintf("%s/%s/%v/%v", c.Edit, c.Legal, c.Failing, c.Variant)
				if !seen[k] {
					seen[k] = true
					c.SM, c.LV = "", 0
					cands = append(cands, c)
				}
			}})
		}(cfg)
	}

	// the scenario triples: one seeded slice of the space of HashGen.tla (several in the thorough tier)
	var scens []scenario
	genCfg := "HashGen.cfg"
	nSlices := 1
	if r.Thorough() {
		genCfg = "HashGen.thorough.cfg"
		nSlices = 8
	}
	genFiles := map[string]string{}
	{
		b, err := os.ReadFile(filepath.Join(r.Verif, "spec", "cfg", genCfg))
		if err != nil {
			r.Infra("cannot read %s: %v", genCfg, err)
			return
		}
		var sl []string
		for i := 0; i < nSlices; i++ {
			sl = append(sl, fmt.Sprint(i))
		}
		txt := string(b)
		txt = replaceLine(txt, "  Slices = ", "  Slices = {"+strings.Join(sl, ", ")+"}")
		txt = replaceLine(txt, "  Salt = ", fmt.Sprintf("  Salt = %d", (r.Seed%1000003+1000003)%1000003))
		genFiles[genCfg] = txt
	}
	var smu sync.Mutex
	res := tlcrun.MustHold(r, tlcrun.Options{Module: "HashGen", Config: genCfg, Files: genFiles, Workers: r.Pick(4, 8), TimeoutSec: 1200, OnCase: func(raw []byte) {
		var s scenario
		if json.Unmarshal(raw, &s) == nil {
			smu.Lock()
			scens = append(scens, s)
			smu.Unlock()
		}
	}})
	if res == nil || len(scens) == 0 {
		r.Infra("no scenarios exported by HashGen")
		wg.Wait()
		return
	}
	sort.SliceStable(scens, func(i, j int) bool { return scens[i].id() < scens[j].id() })
	{
		// a scenario of the template family may also be in the slice of the general family
		uniq := scens[:0]
		for i, s := range scens {
			if i == 0 || s.id() != scens[i-1].id() {
				uniq = append(uniq, s)
			}
		}
		scens = uniq
	}
	r.Set("scenarios_enumerated", len(scens))
	predicted := 0
	isolating := map[string]int{}
	dims := map[string]map[string]int{"shape": {}, "edit": {}, "sm": {}, "legal": {}, "family": {}, "hash_in_entry_chunk_asset_template": {}, "template_style": {}, "shape_x_templates": {}}
	bit := func(x bool) string {
		if x {
			return "1"
		}
		return "0"
	}
	for _, s := range scens {
		if len(s.Expect) > 0 {
			predicted++
		}
		// "imports" is touched whenever the edited chunk is imported by another one: it is never alone
		var own []string
		for _, t := range s.Touch {
			if t == "imports" || t == "owntpl" {
				isolating[t]++
			} else {
				own = append(own, t)
			}
		}
		if len(own) == 1 {
			isolating[own[0]]++
		}
		dims["shape"][s.Shape]++
		dims["edit"][s.Edit]++
		dims["sm"][s.SM]++
		dims["legal"][s.Legal]++
		dims["family"][s.Fam]++
		dims["hash_in_entry_chunk_asset_template"][bit(s.HE)+bit(s.HC)+bit(s.HA)]++
		dims["template_style"][s.TStyle]++
		dims["shape_x_templates"][s.Shape+"/"+bit(s.HE)+bit(s.HC)+bit(s.HA)]++
	}
	r.Set("scenarios_predicted_to_fail_by_model", predicted)
	r.Set("scenarios_isolating_one_hash_ingredient", isolating)
	r.Set("scenarios_per_dimension_value", dims)
	r.Logf("%d scenario triples to build twice (isolating one ingredient: %v)", len(scens), isolating)
	confirmed := map[string]int{}
	var cmu sync.Mutex
	const chunk = 800
	var vwg sync.WaitGroup
	for i := 0; i < len(scens); i += chunk {
		j := i + chunk
		if j > len(scens) {
			j = len(scens)
		}
		runBatch(r, scens[i:j], i, confirmed, &cmu, &vwg)
	}
	vwg.Wait()
	wg.Wait()
	candMu.Lock()
	if cands == nil {
		cands = []candidate{}
	}
	r.Set("model_candidates_code_before_repair", cands)
	nec := map[string][]string{}
	var uncovered []string
	for d, eds := range necessity {
		for e := range eds {
			nec[d] = append(nec[d], e)
		}
		sort.Strings(nec[d])
		if isolating[d] == 0 {
			uncovered = append(uncovered, d)
		}
	}
	sort.Strings(uncovered)
	candMu.Unlock()
	r.Set("model_ingredient_necessity", nec)
	r.Set("necessary_ingredients_without_isolating_scenario", uncovered)
	if len(uncovered) > 0 {
		r.Logf("coverage gap: no built scenario isolates the necessary ingredient(s) %v", uncovered)
	}
	r.Set("model_candidates_confirmed_on_real_builds", confirmed)
	r.Set("rule", "case = one (graph shape x options x edit) triple of HashGen.tla built twice with the real api.Build (before/after the edit); non-trivial = the edit changed at least one emitted byte or path; every pair becomes one record (paths, digests, roles, parsed references, unique-key hits) validated by TLC against HashState.tla")
}

func replaceLine(txt, prefix, with string) string {
	lines := strings.Split(txt, "\n")
	for i, l := range lines {
		if strings.HasPrefix(l, prefix) {
			lines[i] = with
		}
	}
	return strings.Join(lines, "\n")
}

func init() { core.Register("C18", Run) }
