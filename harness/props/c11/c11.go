// Package c11: module resolution agrees with Node's algorithm.
//
// Spec: spec/Resolve.tla (Node's documented ESM and CommonJS resolution
// algorithms, transcribed) + spec/ResolveMC.tla (bounded family of package
// trees x questions, model-level invariants).  TLC enumerates every
// (tree, importer, specifier, kind, conditions) question of the family with the
// answer the transcription predicts and the algorithm branches it took.
// Binding (R): every tree is materialised on the real file system; real Node
// (node/resolve_oracle.js: require.resolve, import.meta.resolve + the ESM
// loader's defaultResolve) and real esbuild (PluginBuild.Resolve in a Go plugin,
// and the metafile of a real bundle for a subset) answer the same question.
// spec != Node => SPEC-DRIFT (excluded); Node vs esbuild decides the verdict
// exactly as the property states.
package c11

import (
	"encoding/json"
	"fmt"
	"os"
	"path/filepath"
	"regexp"
	"sort"
	"strconv"
	"strings"
	"sync"
	"time"

	"github.com/evanw/esbuild/pkg/api"

	"verifharness/core"
	"verifharness/nodex"
	"verifharness/tlcrun"
)

func init() { core.Register("C11", Run) }

// ---- records exported by TLC ------------------------------------------------

// jval is the tagged JSON value of Resolve.tla: k = str|null|num|undef|arr|obj
type jval struct {
	K  string   `json:"k"`
	S  string   `json:"s"`
	Ks []string `json:"ks"`
	Vs []jval   `json:"vs"`
}

// render prints the value as JSON text, keeping the object key order
func (j jval) render() string {
	switch j.K {
	case "str":
		b, _ := json.Marshal(j.S)
		return string(b)
	case "null":
		return "null"
	case "num":
		return "1"
	case "arr":
		parts := make([]string, len(j.Vs))
		for i, v := range j.Vs {
			parts[i] = v.render()
		}
		return "[" + strings.Join(parts, ",") + "]"
	case "obj":
		parts := make([]string, len(j.Vs))
		for i, v := range j.Vs {
			k, _ := json.Marshal(j.Ks[i])
			parts[i] = string(k) + ":" + v.render()
		}
		return "{" + strings.Join(parts, ",") + "}"
	}
	return ""
}

type pjRec struct {
	Exists  bool   `json:"exists"`
	Name    string `json:"name"`
	Type    string `json:"type"`
	Main    jval   `json:"main"`
	Exports jval   `json:"exports"`
	Imports jval   `json:"imports"`
}

func (p pjRec) render() string {
	var parts []string
	if p.Name != "" {
		b, _ := json.Marshal(p.Name)
		parts = append(parts, `"name":`+string(b))
	}
	if p.Type != "" {
		b, _ := json.Marshal(p.Type)
		parts = append(parts, `"type":`+string(b))
	}
	if p.Main.K != "undef" {
		parts = append(parts, `"main":`+p.Main.render())
	}
	if p.Exports.K != "undef" {
		parts = append(parts, `"exports":`+p.Exports.render())
	}
	if p.Imports.K != "undef" {
		parts = append(parts, `"imports":`+p.Imports.render())
	}
	return "{" + strings.Join(parts, ",") + "}"
}

type treeRec struct {
	Ti    int                 `json:"ti"`
	Fam   string              `json:"fam"`
	Files []string            `json:"files"`
	Links [][]string          `json:"links"`
	PjRaw [][]json.RawMessage `json:"pj"`

	pj     map[string]pjRec
	pjText map[string]string // "<dir>/package.json" -> text
	root   string            // set when materialised
	once   sync.Once
	err    error
}

type question struct {
	Ti    int      `json:"ti"`
	Qi    int      `json:"qi"`
	Imp   string   `json:"imp"`
	Spec  string   `json:"spec"`
	Kind  string   `json:"kind"`
	Conds []string `json:"conds"`
	T     string   `json:"t"` // file | err
	V     string   `json:"v"` // abstract path | error class
	B     []string `json:"b"` // branch labels
	Scope string   `json:"scope"`
	Key   string   `json:"key"`

	id      string
	node    nodeAnswer
	hasNode bool
	esb     esbAnswer
}

type nodeAnswer struct {
	ID     int    `json:"id"`
	Path   string `json:"path"`
	Code   string `json:"code"`
	Msg    string `json:"msg"`
	Unsure string `json:"unsure"`
}

type esbAnswer struct {
	Path     string // "" = rejected
	Err      string
	External bool
	asked    bool
}

var nodeClass = map[string]string{
	"MODULE_NOT_FOUND":               "not-found",
	"ERR_MODULE_NOT_FOUND":           "not-found",
	"ERR_PACKAGE_PATH_NOT_EXPORTED":  "not-exported",
	"ERR_INVALID_PACKAGE_TARGET":     "invalid-target",
	"ERR_PACKAGE_IMPORT_NOT_DEFINED": "import-not-defined",
	"ERR_INVALID_MODULE_SPECIFIER":   "invalid-specifier",
	"ERR_INVALID_PACKAGE_CONFIG":     "invalid-config",
	"ERR_UNSUPPORTED_DIR_IMPORT":     "dir-import",
}

// labels that make a question non-trivial by the rule of DESIGN.md A.6: the
// question reaches an exports/imports map or a nested node_modules
var nontrivialLabels = map[string]bool{
	"PKG.walk.exports": true, "CJS.package-exports": true, "SELF.match": true, "CJS.self": true,
	"IMPORTS.resolved": true, "IMPORTS.null-or-undefined": true,
	"PKG.walk.found-nested-or-inner": true, "CJS.node_modules.nested-or-inner": true,
}

func has(labels []string, l string) bool {
	for _, x := range labels {
		if x == l {
			return true
		}
	}
	return false
}

func condKey(c []string) string {
	s := append([]string{}, c...)
	sort.Strings(s)
	return strings.Join(s, ",")
}

// ---- materialisation ----------------------------------------------------------

func fileContent(path string) string {
	switch filepath.Ext(path) {
	case ".json":
		return "{}"
	case ".mjs":
		return "export default 1\n"
	default:
		return ""
	}
}

func (t *treeRec) materialise(base string) error {
	t.once.Do(func() {
		root := filepath.Join(base, fmt.Sprintf("t%d", t.Ti))
		for _, f := range t.Files {
			p := filepath.Join(root, f)
			if err := os.MkdirAll(filepath.Dir(p), 0755); err != nil {
				t.err = err
				return
			}
			content := fileContent(f)
			if text, ok := t.pjText[f]; ok {
				content = text
			}
			if err := os.WriteFile(p, []byte(content), 0644); err != nil {
				t.err = err
				return
			}
		}
		for _, l := range t.Links {
			from := filepath.Join(root, l[0])
			if err := os.MkdirAll(filepath.Dir(from), 0755); err != nil {
				t.err = err
				return
			}
			if err := os.Symlink(filepath.Join(root, l[1]), from); err != nil {
				t.err = err
				return
			}
		}
		t.root = root
	})
	return t.err
}

// specifier as given to Node and esbuild: an absolute specifier is below the root
func (t *treeRec) realSpec(spec string) string {
	if strings.HasPrefix(spec, "/") {
		return t.root + spec
	}
	return spec
}

func (t *treeRec) rel(p string) string {
	if p == "" {
		return ""
	}
	if strings.HasPrefix(p, t.root+"/") {
		return p[len(t.root):]
	}
	return "<outside>" + p
}

// ---- esbuild ------------------------------------------------------------------

func buildOptions(t *treeRec, conds []string) api.BuildOptions {
	// Node's own configuration: platform node (adds the "node" condition; the kind
	// adds "import" or "require"; "default" always applies).  Conditions is set
	// explicitly (possibly to an empty, non-nil list) so that esbuild's automatic
	// "module" condition, which Node does not have, is off.  Node reads only
	// "main".
	c := append([]string{}, conds...)
	return api.BuildOptions{
		AbsWorkingDir: t.root,
		Platform:      api.PlatformNode,
		Bundle:        true,
		Write:         false,
		LogLevel:      api.LogLevelSilent,
		Conditions:    c,
		MainFields:    []string{"main"},
	}
}

func askEsbuild(t *treeRec, conds []string, qs []*question) error {
	opts := buildOptions(t, conds)
	opts.Stdin = &api.StdinOptions{Contents: "", ResolveDir: t.root, Sourcefile: "verif-stdin.js"}
	done := false
	opts.Plugins = []api.Plugin{{
		Name: "verif-c11",
		Setup: func(b api.PluginBuild) {
			b.OnStart(func() (api.OnStartResult, error) {
				for _, q := range qs {
					kind := api.ResolveJSImportStatement
					if q.Kind == "require" {
						kind = api.ResolveJSRequireCall
					}
					imp := t.root + q.Imp
					res := b.Resolve(t.realSpec(q.Spec), api.ResolveOptions{
						Importer:   imp,
						ResolveDir: filepath.Dir(imp),
						Kind:       kind,
					})
					a := esbAnswer{asked: true, External: res.External}
					if len(res.Errors) > 0 || res.Path == "" {
						if len(res.Errors) > 0 {
							a.Err = res.Errors[0].Text
							for _, n := range res.Errors[0].Notes {
								a.Err += " | " + n.Text
							}
						} else {
							a.Err = "empty path"
						}
					} else if res.Namespace != "file" || res.External {
						a.Err = fmt.Sprintf("not a file: namespace=%s external=%v path=%s", res.Namespace, res.External, res.Path)
					} else {
						a.Path = res.Path
					}
					q.esb = a
				}
				done = true
				return api.OnStartResult{}, nil
			})
		},
	}}
	res := api.Build(opts)
	if !done {
		msg := ""
		if len(res.Errors) > 0 {
			msg = res.Errors[0].Text
		}
		return fmt.Errorf("esbuild did not run the on-start callback: %s", msg)
	}
	return nil
}

// askMetafile resolves one question through a real bundle and its metafile
func askMetafile(t *treeRec, q *question, n int) (esbAnswer, error) {
	opts := buildOptions(t, q.Conds)
	dir := filepath.Dir(t.root + q.Imp)
	entry := filepath.Join(dir, fmt.Sprintf("verif-entry-%d.js", n))
	spec, _ := json.Marshal(t.realSpec(q.Spec))
	src := "import " + string(spec) + "\n"
	if q.Kind == "require" {
		src = "require(" + string(spec) + ")\n"
	}
	if err := os.WriteFile(entry, []byte(src), 0644); err != nil {
		return esbAnswer{}, err
	}
	defer os.Remove(entry)
	opts.EntryPoints = []string{entry}
	opts.Metafile = true
	opts.Outdir = filepath.Join(t.root, "verif-out")
	opts.Loader = map[string]api.Loader{"": api.LoaderJS, ".node": api.LoaderCopy}
	res := api.Build(opts)
	a := esbAnswer{asked: true}
	if len(res.Errors) > 0 {
		// only a resolution failure is an answer; any other build error (loading,
		// parsing) says nothing about resolution
		for _, e := range res.Errors {
			if strings.HasPrefix(e.Text, "Could not resolve ") {
				a.Err = e.Text
				return a, nil
			}
		}
		return a, fmt.Errorf("build failed for a reason other than resolution: %s", res.Errors[0].Text)
	}
	var meta struct {
		Inputs map[string]struct {
			Imports []struct {
				Path     string `json:"path"`
				Kind     string `json:"kind"`
				External bool   `json:"external"`
				Original string `json:"original"`
			} `json:"imports"`
		} `json:"inputs"`
	}
	if err := json.Unmarshal([]byte(res.Metafile), &meta); err != nil {
		return a, fmt.Errorf("metafile: %v", err)
	}
	relEntry, _ := filepath.Rel(t.root, entry)
	in, ok := meta.Inputs[filepath.ToSlash(relEntry)]
	if !ok || len(in.Imports) != 1 {
		return a, fmt.Errorf("metafile has no single import for %s: %s", relEntry, res.Metafile)
	}
	if in.Imports[0].External {
		a.Err = "external: " + in.Imports[0].Path
		return a, nil
	}
	p := in.Imports[0].Path
	// the metafile path carries the ignored "?query" / "#hash" suffix of the specifier
	if i := strings.IndexAny(q.Spec, "?#"); i >= 0 && strings.HasSuffix(p, q.Spec[i:]) {
		p = strings.TrimSuffix(p, q.Spec[i:])
	}
	a.Path = filepath.Join(t.root, filepath.FromSlash(p))
	return a, nil
}

// ---- the check ------------------------------------------------------------------

type runState struct {
	r      *core.Run
	trees  map[int]*treeRec
	qs     []*question
	labels []string
	mu     sync.Mutex
}

var reLabelCall = regexp.MustCompile(`\bL\((?:"([^"]+)"|IF .*? THEN "([^"]+)" ELSE "([^"]+)")`)

func Run(r *core.Run) {
	st := &runState{r: r, trees: map[int]*treeRec{}}
	r.Set("rule", "TLC enumerates the bounded family of ResolveMC.tla (package trees = fixed skeleton x package.json variants of exports/imports/main; questions = importer x specifier x kind x extra conditions) with the transcription's answer; each replayed question is asked of real Node and real esbuild on the materialised tree. distinct = hash of (package.json texts, file set, importer, specifier, kind, conditions); non-trivial = the question reaches an exports/imports map or a node_modules directory other than the root one (labels PKG.walk.exports, CJS.package-exports, SELF.match, CJS.self, IMPORTS.*, *.nested-or-inner)")
	r.Assume("no package.json and no node_modules directory exists in the ancestors of the scratch directory (the abstract root is not the file-system root)")
	r.Assume("Node 20.20 is the reference implementation of Node's algorithm; its --conditions flag and esbuild's Conditions option carry the same extra conditions")
	r.Assume("esbuild is configured as Node: Platform node, MainFields [main], Conditions set explicitly (no automatic \"module\" condition), default resolve extensions (the trees contain only .js/.mjs/.cjs/.json and extensionless files)")
	r.Assume("Resolve.tla models lower-case ASCII names without percent-encoding; builtin modules, URL specifiers, trailing-slash specifiers and folder mappings are outside the family (the last two are excluded by the property)")

	if r.Replay != "" {
		st.replay()
		return
	}

	// 1. TLC: enumerate and check the model
	cfg := "ResolveMC.quick.cfg"
	if r.Thorough() {
		cfg = "ResolveMC.thorough.cfg"
	}
	var decodeErr error
	res := tlcrun.MustHold(r, tlcrun.Options{
		Module: "ResolveMC", Config: cfg, Workers: 8, TimeoutSec: r.Pick(900, 2400), NoDeadlock: true,
		Coverage: r.Thorough(), KeepOutput: r.Thorough(), XssMB: 64,
		OnCase: func(raw []byte) {
			var head struct {
				Rec string   `json:"rec"`
				All []string `json:"all"`
			}
			if err := json.Unmarshal(raw, &head); err != nil {
				decodeErr = err
				return
			}
			switch head.Rec {
			case "labels":
				st.labels = head.All
			case "tree":
				t := &treeRec{}
				if err := json.Unmarshal(raw, t); err != nil {
					decodeErr = err
					return
				}
				t.pj = map[string]pjRec{}
				t.pjText = map[string]string{}
				for _, pair := range t.PjRaw {
					var dir string
					var pj pjRec
					if len(pair) != 2 || json.Unmarshal(pair[0], &dir) != nil || json.Unmarshal(pair[1], &pj) != nil {
						decodeErr = fmt.Errorf("bad pj pair in tree %d", t.Ti)
						return
					}
					t.pj[dir] = pj
					t.pjText[dir+"/package.json"] = pj.render()
				}
				st.trees[t.Ti] = t
			case "q":
				q := &question{}
				if err := json.Unmarshal(raw, q); err != nil {
					decodeErr = err
					return
				}
				st.qs = append(st.qs, q)
			}
		},
	})
	if res == nil || res.ExitCode != 0 || res.TimedOut || res.Violated != "" {
		return // MustHold has reported the infrastructure error; no verdict
	}
	if decodeErr != nil || len(st.qs) == 0 || len(st.labels) == 0 {
		r.Infra("TLC produced no usable cases (decode error: %v, questions: %d, labels: %d)", decodeErr, len(st.qs), len(st.labels))
		return
	}
	r.Set("tlc_config", cfg)
	r.Set("tlc_trees", len(st.trees))
	r.Set("tlc_questions", len(st.qs))
	r.Set("exhaustive", r.Thorough()) // TLC enumerates the whole bounded family in both tiers; quick replays a sample of it
	for _, q := range st.qs {
		if st.trees[q.Ti] == nil {
			r.Infra("question refers to unknown tree %d", q.Ti)
			return
		}
	}
	sort.Slice(st.qs, func(i, j int) bool {
		if st.qs[i].Ti != st.qs[j].Ti {
			return st.qs[i].Ti < st.qs[j].Ti
		}
		return st.qs[i].Qi < st.qs[j].Qi
	})
	enumerated := map[string]int64{}
	for _, q := range st.qs {
		for _, l := range q.B {
			enumerated[l]++
		}
	}
	if r.Thorough() && res.Output != "" {
		st.tlcCoverage(res.Output)
	}

	// 2. choose the questions to replay
	selected := st.selectQuestions(r.Pick(5000, 1<<30))
	r.Logf("replaying %d of %d questions on %d trees", len(selected), len(st.qs), countTrees(selected))

	// 3. materialise, ask Node, ask esbuild
	base, err := filepath.EvalSymlinks(r.Scratch)
	if err != nil {
		r.Infra("scratch: %v", err)
		return
	}
	base = filepath.Join(base, "trees")
	for dir := filepath.Dir(base); dir != "."; dir = filepath.Dir(dir) {
		for _, n := range []string{"package.json", "node_modules"} {
			if _, err := os.Stat(filepath.Join(dir, n)); err == nil {
				r.Infra("assumption broken: %s exists above the scratch directory", filepath.Join(dir, n))
				return
			}
		}
		if dir == "/" {
			break
		}
	}
	byTree := map[int][]*question{}
	var treeIDs []int
	for _, q := range selected {
		if byTree[q.Ti] == nil {
			treeIDs = append(treeIDs, q.Ti)
		}
		byTree[q.Ti] = append(byTree[q.Ti], q)
	}
	core.Parallel(len(treeIDs), 8, func(i int) {
		if err := st.trees[treeIDs[i]].materialise(base); err != nil {
			r.Infra("materialise tree %d: %v", treeIDs[i], err)
		}
	})
	r.Logf("materialised %d trees", len(treeIDs))
	st.askNode(selected)
	r.Logf("Node answered")
	core.Parallel(len(treeIDs), 8, func(i int) {
		t := st.trees[treeIDs[i]]
		if t.root == "" {
			return
		}
		groups := map[string][]*question{}
		for _, q := range byTree[t.Ti] {
			groups[condKey(q.Conds)] = append(groups[condKey(q.Conds)], q)
		}
		for _, g := range groups {
			if err := askEsbuild(t, g[0].Conds, g); err != nil {
				r.Infra("tree %d: %v", t.Ti, err)
			}
		}
	})
	r.Logf("esbuild answered")

	// 4. compare
	taken := map[string]int64{}
	outcome := map[string]int64{}
	sampled := map[string]int{}
	for _, q := range selected {
		t := st.trees[q.Ti]
		if t.root == "" || !q.hasNode || !q.esb.asked {
			continue
		}
		verdict := st.compare(t, q, q.esb, "plugin-resolve")
		outcome[verdict]++
		if verdict == "drift" || verdict == "unsure" {
			continue
		}
		nontrivial := false
		for _, l := range q.B {
			taken[l]++
			if nontrivialLabels[l] {
				nontrivial = true
			}
		}
		r.Case(q.id, nontrivial)
		if nontrivial && sampled[t.Fam] < 1 && q.T == "file" {
			sampled[t.Fam]++
			r.Sample(st.describe(t, q, q.esb))
		}
	}

	// 5. the same question through a real bundle and its metafile (subset)
	nMeta := r.Pick(150, 3000)
	metaQs := st.metaSubset(selected, nMeta)
	var metaMu sync.Mutex
	metaOutcome := map[string]int64{}
	core.Parallel(len(metaQs), 8, func(i int) {
		q := metaQs[i]
		t := st.trees[q.Ti]
		a, err := askMetafile(t, q, i)
		if err != nil {
			r.Infra("metafile build, tree %d %s %q: %v", q.Ti, q.Kind, q.Spec, err)
			return
		}
		v := st.compare(t, q, a, "metafile")
		metaMu.Lock()
		metaOutcome[v]++
		metaMu.Unlock()
	})
	r.AddTraces(int64(len(metaQs)))

	// 6. evidence
	var never, neverEnumerated []string
	for _, l := range st.labels {
		if taken[l] == 0 {
			never = append(never, l)
		}
		if enumerated[l] == 0 {
			neverEnumerated = append(neverEnumerated, l)
		}
	}
	sort.Strings(never)
	sort.Strings(neverEnumerated)
	r.Set("branches_never_taken_reason", map[string]string{
		"PKG.empty-specifier": "the empty specifier is not in the family",
		"PKG.trailing-slash":  "specifiers ending in \"/\" are excluded by the property",
	})
	r.Set("branches_total", len(st.labels))
	r.Set("branches_enumerated_by_tlc", enumerated)
	r.Set("branches_replayed", taken)
	r.Set("branches_never_replayed", never)
	r.Set("branches_never_enumerated", neverEnumerated)
	r.Set("outcomes_plugin_resolve", outcome)
	r.Set("outcomes_metafile", metaOutcome)
	r.Set("questions_replayed", len(selected))
	r.Set("trees_materialised", len(treeIDs))
	r.Logf("outcomes %v; metafile %v; branches replayed %d/%d (never: %v)", outcome, metaOutcome, len(st.labels)-len(never), len(st.labels), never)
	total := len(selected)
	if d := r.DriftCount(); d > total/50+5 {
		r.Infra("SPEC-DRIFT budget exceeded: %d of %d questions (the transcription disagrees with Node too often)", d, total)
	}
	if n := outcome["unsure"]; n > int64(total/50+5) {
		r.Infra("the two Node witnesses for kind=import disagree on %d questions", n)
	}
}

func countTrees(qs []*question) int {
	m := map[int]bool{}
	for _, q := range qs {
		m[q.Ti] = true
	}
	return len(m)
}

// selectQuestions: everything if it fits the budget; otherwise a seeded sample
// that first covers every branch label (rarest labels first) and then whole
// trees in seeded random order.
func (st *runState) selectQuestions(budget int) []*question {
	for _, q := range st.qs {
		t := st.trees[q.Ti]
		var pjs []string
		for f, text := range t.pjText {
			pjs = append(pjs, f+"="+text)
		}
		sort.Strings(pjs)
		q.id = core.Hash([]interface{}{pjs, len(t.Files), len(t.Links), q.Imp, q.Spec, q.Kind, condKey(q.Conds)})
	}
	if len(st.qs) <= budget {
		return st.qs
	}
	r := st.r
	chosen := map[*question]bool{}
	var out []*question
	add := func(q *question) {
		if !chosen[q] {
			chosen[q] = true
			out = append(out, q)
		}
	}
	// a. every label: up to 12 seeded-random witnesses
	byLabel := map[string][]*question{}
	for _, q := range st.qs {
		for _, l := range q.B {
			byLabel[l] = append(byLabel[l], q)
		}
	}
	labels := make([]string, 0, len(byLabel))
	for l := range byLabel {
		labels = append(labels, l)
	}
	sort.Strings(labels)
	for _, l := range labels {
		qs := byLabel[l]
		for k := 0; k < 12 && k < len(qs); k++ {
			add(qs[r.Rand.Intn(len(qs))])
		}
	}
	// b. whole trees in random order (all their questions: one build per tree)
	byTree := map[int][]*question{}
	var ids []int
	for _, q := range st.qs {
		if byTree[q.Ti] == nil {
			ids = append(ids, q.Ti)
		}
		byTree[q.Ti] = append(byTree[q.Ti], q)
	}
	r.Rand.Shuffle(len(ids), func(i, j int) { ids[i], ids[j] = ids[j], ids[i] })
	for _, id := range ids {
		if len(out)+len(byTree[id]) > budget {
			continue
		}
		for _, q := range byTree[id] {
			add(q)
		}
	}
	sort.Slice(out, func(i, j int) bool {
		if out[i].Ti != out[j].Ti {
			return out[i].Ti < out[j].Ti
		}
		return out[i].Qi < out[j].Qi
	})
	return out
}

func (st *runState) askNode(selected []*question) {
	r := st.r
	groups := map[string][]*question{}
	for _, q := range selected {
		if st.trees[q.Ti].root != "" {
			groups[condKey(q.Conds)] = append(groups[condKey(q.Conds)], q)
		}
	}
	type batch struct {
		conds []string
		qs    []*question
	}
	var batches []batch
	for _, g := range groups {
		for i := 0; i < len(g); i += 600 {
			j := i + 600
			if j > len(g) {
				j = len(g)
			}
			batches = append(batches, batch{g[0].Conds, g[i:j]})
		}
	}
	core.Parallel(len(batches), 8, func(bi int) {
		b := batches[bi]
		type inQ struct {
			ID   int    `json:"id"`
			Imp  string `json:"imp"`
			Spec string `json:"spec"`
			Kind string `json:"kind"`
		}
		in := struct {
			Conds     []string `json:"conds"`
			Questions []inQ    `json:"questions"`
		}{Conds: b.conds}
		for i, q := range b.qs {
			t := st.trees[q.Ti]
			in.Questions = append(in.Questions, inQ{i, t.root + q.Imp, t.realSpec(q.Spec), q.Kind})
		}
		var out struct {
			Answers []nodeAnswer `json:"answers"`
		}
		args := []string{"--expose-internals", "--experimental-import-meta-resolve", "--no-warnings"}
		for _, c := range b.conds {
			args = append(args, "-C", c)
		}
		if err := nodex.Run(r, "resolve_oracle.js", in, &out, 120*time.Second, "", args...); err != nil {
			r.Infra("node oracle: %v", err)
			return
		}
		if len(out.Answers) != len(b.qs) {
			r.Infra("node oracle answered %d of %d questions", len(out.Answers), len(b.qs))
			return
		}
		for _, a := range out.Answers {
			q := b.qs[a.ID]
			q.node = a
			q.hasNode = true
		}
	})
}

func (st *runState) describe(t *treeRec, q *question, a esbAnswer) map[string]interface{} {
	nodeAns := t.rel(q.node.Path)
	if q.node.Path == "" {
		nodeAns = q.node.Code
	}
	esb := t.rel(a.Path)
	if a.Path == "" {
		esb = "rejected"
	}
	m := map[string]interface{}{
		"family": t.Fam, "importer": q.Imp, "specifier": q.Spec, "kind": q.Kind, "conditions": condKey(q.Conds),
		"spec_answer": q.T + ":" + q.V, "node": nodeAns, "esbuild": esb, "branches": q.B,
	}
	for file, name := range map[string]string{"/node_modules/p/package.json": "p_package_json", "/package.json": "app_package_json"} {
		if text, ok := t.pjText[file]; ok {
			m[name] = text
		}
	}
	return m
}

// compare decides one question. Returns one of: drift, unsure, agree-file,
// agree-reject, esbuild-lenient (esbuild accepts what Node rejects for a reason
// other than an exports/imports map: allowed), esbuild-strict (both reject...),
// violation.
func (st *runState) compare(t *treeRec, q *question, a esbAnswer, via string) string {
	r := st.r
	if q.node.Unsure != "" {
		return "unsure"
	}
	// spec vs Node
	nodeFile := q.node.Path != ""
	nodeCls := ""
	if !nodeFile {
		nodeCls = nodeClass[q.node.Code]
		if nodeCls == "" {
			nodeCls = "other:" + q.node.Code
		}
	}
	specAgrees := (q.T == "file" && nodeFile && t.root+q.V == q.node.Path) || (q.T == "err" && !nodeFile && q.V == nodeCls)
	if !specAgrees {
		if via == "plugin-resolve" {
			if os.Getenv("C11_DEBUG") != "" {
				fmt.Fprintf(os.Stderr, "DRIFT-DEBUG fam=%s %s %q from %s conds=[%s] spec=%s:%s node=%s%s p=%s app=%s\n", t.Fam, q.Kind, q.Spec, q.Imp, condKey(q.Conds), q.T, q.V, t.rel(q.node.Path), q.node.Code, t.pjText["/node_modules/p/package.json"], t.pjText["/package.json"])
			}
			r.Drift("tree %d (%s) %s %q from %s conds=[%s]: spec %s:%s, Node %s%s  p=%s app=%s", t.Ti, t.Fam, q.Kind, q.Spec, q.Imp,
				condKey(q.Conds), q.T, q.V, t.rel(q.node.Path), q.node.Code, t.pjText["/node_modules/p/package.json"], t.pjText["/package.json"])
		}
		return "drift"
	}
	esbPath := a.Path
	if esbPath != "" {
		if real, err := filepath.EvalSymlinks(esbPath); err == nil {
			esbPath = real
		}
	}
	key := func() map[string]interface{} {
		m := st.describe(t, q, a)
		delete(m, "branches")
		delete(m, "spec_answer")
		m["via"] = via
		return m
	}
	detail := func() map[string]interface{} {
		files := map[string]string{}
		for f, text := range t.pjText {
			files[f] = text
		}
		return map[string]interface{}{
			"spec": "Resolve.tla", "scenario": q, "expected": q.T + ":" + q.V, "native": q.node, "via": via, "family": t.Fam,
			"observed":     map[string]interface{}{"path": t.rel(a.Path), "error": a.Err},
			"package_json": files, "files": t.Files, "links": t.Links,
			"config": map[string]interface{}{"platform": "node", "mainFields": []string{"main"}, "conditions": q.Conds, "bundle": true},
		}
	}
	if nodeFile {
		if esbPath == q.node.Path {
			return "agree-file"
		}
		what := fmt.Sprintf("Node resolves %s %q from %s to %s but esbuild (%s) ", q.Kind, q.Spec, q.Imp, t.rel(q.node.Path), via)
		if esbPath == "" {
			what += "fails: " + a.Err
		} else {
			what += "resolves it to " + t.rel(esbPath)
		}
		if r.Violation(key(), what, detail()) {
			return "violation"
		}
		return "known-finding"
	}
	mapCaused := nodeCls == "not-exported" || nodeCls == "invalid-target" ||
		(nodeCls == "import-not-defined" && has(q.B, "IMPORTS.null-or-undefined"))
	if esbPath == "" {
		return "agree-reject"
	}
	if !mapCaused {
		if os.Getenv("C11_DEBUG") != "" && via == "plugin-resolve" {
			fmt.Fprintf(os.Stderr, "LENIENT-DEBUG fam=%s %s %q from %s node=%s esbuild=%s labels=%v\n", t.Fam, q.Kind, q.Spec, q.Imp, q.node.Code, t.rel(esbPath), q.B)
		}
		return "esbuild-lenient"
	}
	what := fmt.Sprintf("Node rejects %s %q from %s because of the exports/imports map (%s) but esbuild (%s) resolves it to %s",
		q.Kind, q.Spec, q.Imp, q.node.Code, via, t.rel(esbPath))
	if r.Violation(key(), what, detail()) {
		return "violation"
	}
	return "known-finding"
}

// metaSubset picks questions for the metafile binding: seeded, spread over the
// families, only answers whose file has an extension esbuild can load
func (st *runState) metaSubset(selected []*question, n int) []*question {
	var cand []*question
	for _, q := range selected {
		if st.trees[q.Ti].root == "" || !q.hasNode || q.node.Unsure != "" {
			continue
		}
		if strings.HasPrefix(q.Spec, "/") {
			continue
		}
		cand = append(cand, q)
	}
	st.r.Rand.Shuffle(len(cand), func(i, j int) { cand[i], cand[j] = cand[j], cand[i] })
	if len(cand) > n {
		cand = cand[:n]
	}
	return cand
}

// tlcCoverage extracts TLC's own -coverage counts for the branch labels: every
// label is a string literal at a known position of Resolve.tla, and TLC reports
// how often the expression at that position was evaluated.
func (st *runState) tlcCoverage(output string) {
	src, err := os.ReadFile(filepath.Join(st.r.Verif, "spec", "Resolve.tla"))
	if err != nil {
		return
	}
	type pos struct{ line, col int }
	at := map[pos]string{}
	for i, line := range strings.Split(string(src), "\n") {
		if strings.HasPrefix(line, "AllLabels ==") {
			break
		}
		if idx := strings.Index(line, `\*`); idx >= 0 {
			line = line[:idx]
		}
		// a branch is a call L("label", ...) or L(IF c THEN "a" ELSE "b", ...);
		// TLC reports the span of the call, which starts at the L
		for _, m := range reLabelCall.FindAllStringSubmatchIndex(line, -1) {
			label := ""
			if m[2] >= 0 {
				label = line[m[2]:m[3]]
			} else {
				label = line[m[4]:m[5]] + "|" + line[m[6]:m[7]]
			}
			at[pos{i + 1, m[0] + 1}] = label
		}
	}
	re := regexp.MustCompile(`^\s*\|*line (\d+), col (\d+) to line (\d+), col (\d+) of module Resolve: (\d+)`)
	counts := map[string]int64{}
	for _, line := range strings.Split(output, "\n") {
		m := re.FindStringSubmatch(line)
		if m == nil {
			continue
		}
		l, _ := strconv.Atoi(m[1])
		c, _ := strconv.Atoi(m[2])
		if label, ok := at[pos{l, c}]; ok {
			n, _ := strconv.ParseInt(m[5], 10, 64)
			counts[label] += n
		}
	}
	if len(counts) > 0 {
		st.r.Set("branches_tlc_coverage", counts)
	}
}

// replay re-runs the one question of a replay file written by a violation:
// the tree is rebuilt from the file, Node and esbuild are asked again.
func (st *runState) replay() {
	r := st.r
	data, err := os.ReadFile(r.Replay)
	if err != nil {
		r.Infra("replay: %v", err)
		return
	}
	var rec struct {
		Detail struct {
			Scenario    question          `json:"scenario"`
			Via         string            `json:"via"`
			Family      string            `json:"family"`
			PackageJSON map[string]string `json:"package_json"`
			Files       []string          `json:"files"`
			Links       [][]string        `json:"links"`
		} `json:"detail"`
	}
	if err := json.Unmarshal(data, &rec); err != nil || rec.Detail.Scenario.Spec == "" {
		r.Infra("replay: cannot decode %s: %v", r.Replay, err)
		return
	}
	d := rec.Detail
	t := &treeRec{Ti: d.Scenario.Ti, Fam: d.Family, Files: d.Files, Links: d.Links, pjText: d.PackageJSON, pj: map[string]pjRec{}}
	st.trees[t.Ti] = t
	base, err := filepath.EvalSymlinks(r.Scratch)
	if err != nil || t.materialise(filepath.Join(base, "trees")) != nil {
		r.Infra("replay: cannot materialise the tree: %v %v", err, t.err)
		return
	}
	q := &d.Scenario
	q.id = "replay"
	st.askNode([]*question{q})
	if !q.hasNode {
		return
	}
	var a esbAnswer
	if d.Via == "metafile" {
		a, err = askMetafile(t, q, 0)
	} else {
		err = askEsbuild(t, q.Conds, []*question{q})
		a = q.esb
		d.Via = "plugin-resolve"
	}
	if err != nil {
		r.Infra("replay: %v", err)
		return
	}
	verdict := st.compare(t, q, a, d.Via)
	r.Case(q.id, true)
	r.Sample(st.describe(t, q, a))
	r.AddStates(1, 1)
	r.Logf("replay of %s: %s", r.Replay, verdict)
}
