// Package c17: builds never clobber inputs; failed builds write nothing.
// Spec: Output.tla (design of the write/delete phase, model-checked),
// OutputGen.tla (scenario space, enumerated by TLC), OutputState.tla (the
// invariants evaluated by TLC on records of real build steps: full tree
// snapshots before/after, reported outputs, canonical input paths).
package c17

import (
	"crypto/sha1"
	"encoding/hex"
	"encoding/json"
	"fmt"
	"io/fs"
	"os"
	"path/filepath"
	"sort"
	"strings"
	"sync"
	"time"

	"github.com/evanw/esbuild/pkg/api"

	"verifharness/core"
	"verifharness/tlcrun"
)

type scenario struct {
	Outdir   string `json:"outdir"`
	Entry    string `json:"entry"`
	OutExt   string `json:"outExt"`
	Names    string `json:"names"`
	Asset    string `json:"asset"`
	Write    bool   `json:"write"`
	Allow    bool   `json:"allow"`
	Fail     string `json:"fail"`
	History  string `json:"history"`
	Collides bool   `json:"collides"`
	Expect   string `json:"expect"`
}

func (s scenario) id() string {
	return fmt.Sprintf("%s/%s/%s/%s/%s/w%v/a%v/%s/%s", s.Outdir, s.Entry, s.OutExt, s.Names, s.Asset, s.Write, s.Allow, s.Fail, s.History)
}

type ph struct {
	P []string `json:"p"`
	H string   `json:"h"`
}

type record struct {
	ID             int        `json:"id"`
	Step           int        `json:"step"`
	Write          bool       `json:"write"`
	AllowOverwrite bool       `json:"allowOverwrite"`
	Errors         bool       `json:"errors"`
	NoParent       bool       `json:"noParent"`
	Outdir         []string   `json:"outdir"`
	Inputs         [][]string `json:"inputs"`
	Reported       []ph       `json:"reported"`
	Before         []ph       `json:"before"`
	After          []ph       `json:"after"`
	Owned          [][]string `json:"owned"`
	scen           scenario
	msgs           []string
}

func hashBytes(b []byte) string {
	h := sha1.Sum(b)
	return hex.EncodeToString(h[:6])
}

func segs(rel string) []string {
	rel = filepath.ToSlash(rel)
	if rel == "." || rel == "" {
		return []string{}
	}
	return strings.Split(rel, "/")
}

func snapshot(root string) []ph {
	var out []ph
	filepath.WalkDir(root, func(p string, d fs.DirEntry, err error) error {
		if err != nil || p == root {
			return nil
		}
		rel, _ := filepath.Rel(root, p)
		if d.Type()&fs.ModeSymlink != 0 {
			t, _ := os.Readlink(p)
			out = append(out, ph{P: segs(rel), H: "link:" + t})
			return nil
		}
		if d.IsDir() {
			return nil
		}
		b, err := os.ReadFile(p)
		if err != nil {
			out = append(out, ph{P: segs(rel), H: "unreadable"})
			return nil
		}
		out = append(out, ph{P: segs(rel), H: hashBytes(b)})
		return nil
	})
	sort.Slice(out, func(i, j int) bool { return strings.Join(out[i].P, "/") < strings.Join(out[j].P, "/") })
	return out
}

// canonical path relative to root: symlinks in the directory part resolved
func canon(root, p string) []string {
	dir, base := filepath.Dir(p), filepath.Base(p)
	// resolve the longest existing prefix of dir
	rest := []string{}
	for {
		if r, err := filepath.EvalSymlinks(dir); err == nil {
			dir = r
			break
		}
		rest = append([]string{filepath.Base(dir)}, rest...)
		nd := filepath.Dir(dir)
		if nd == dir {
			break
		}
		dir = nd
	}
	full := filepath.Join(append([]string{dir}, append(rest, base)...)...)
	// if the file itself is a symlink, follow it
	if r, err := filepath.EvalSymlinks(full); err == nil {
		full = r
	}
	rel, err := filepath.Rel(root, full)
	if err != nil {
		return segs(full)
	}
	return segs(rel)
}

type stepResult struct {
	res    api.BuildResult
	before []ph
	after  []ph
}

func runScenario(r *core.Run, idx int, s scenario) []*record {
	root0 := filepath.Join(r.Scratch, fmt.Sprintf("s%d", idx))
	os.MkdirAll(root0, 0755)
	root, _ := filepath.EvalSymlinks(root0)
	defer os.RemoveAll(root0)
	entryName := "a." + s.Entry
	entrySrc := func(withLazy bool) string {
		var sb strings.Builder
		sb.WriteString("import {d} from './dep.js'\n")
		if s.Asset != "none" {
			sb.WriteString("import u from './asset.bin'\nconsole.log(u)\n")
		}
		if withLazy {
			sb.WriteString("export const lazy = () => import('./lazy.js')\n")
		}
		sb.WriteString("console.log('entry', d)\n")
		return sb.String()
	}
	depOK := "export const d = 'dep'\n"
	depBad := "export const d = = 'dep'\n"
	files := map[string]string{
		"src/" + entryName: entrySrc(s.History == "remove-chunk"),
		"src/dep.js":       depOK,
		"src/lazy.js":      "export const z = 'lazy'\nconsole.log(z)\n",
		"src/keep.txt":     "user file that must never be touched\n",
		"src/asset.bin":    "ASSET-BYTES\x00\x01",
		"other/keep.txt":   "another user file\n",
	}
	if s.Fail == "scan" {
		files["src/dep.js"] = depBad
	}
	core.WriteTree(root, files)
	outdirRel := "out"
	switch s.Outdir {
	case "same":
		outdirRel = "src"
	case "inside":
		outdirRel = "src/out"
	case "symlink":
		outdirRel = "outlink"
		os.Symlink("src", filepath.Join(root, "outlink"))
	}
	if s.Outdir == "separate" || s.Outdir == "inside" {
		os.MkdirAll(filepath.Join(root, outdirRel), 0755)
		os.WriteFile(filepath.Join(root, outdirRel, "foreign.txt"), []byte("foreign file in the output directory\n"), 0644)
	}
	names := map[string]string{"name": "[name]", "name-hash": "[name]-[hash]", "dir-name": "[dir]/[name]", "parent": "../[name]"}[s.Names]
	opts := api.BuildOptions{
		AbsWorkingDir:  root,
		EntryPoints:    []string{"src/" + entryName},
		Outbase:        "src",
		Outdir:         outdirRel,
		Bundle:         true,
		Splitting:      true,
		Format:         api.FormatESModule,
		EntryNames:     names,
		AssetNames:     "[name]",
		ChunkNames:     "chunk-[name]-[hash]",
		Write:          s.Write,
		AllowOverwrite: s.Allow,
		LogLevel:       api.LogLevelSilent,
	}
	switch s.Asset {
	case "file":
		opts.Loader = map[string]api.Loader{".bin": api.LoaderFile}
	case "copy":
		opts.Loader = map[string]api.Loader{".bin": api.LoaderCopy}
	}
	if s.OutExt == "equal-input" && s.Entry == "ts" {
		opts.OutExtension = map[string]string{".js": ".ts"}
	}
	inputs := [][]string{canon(root, filepath.Join(root, "src", entryName)), canon(root, filepath.Join(root, "src/dep.js"))}
	if s.History == "remove-chunk" {
		inputs = append(inputs, canon(root, filepath.Join(root, "src/lazy.js")))
	}
	if s.Asset != "none" {
		inputs = append(inputs, canon(root, filepath.Join(root, "src/asset.bin")))
	}
	var recs []*record
	owned := map[string][]string{}
	mk := func(step int, before []ph, res api.BuildResult, after []ph) {
		rc := &record{ID: idx, Step: step, Write: s.Write, AllowOverwrite: s.Allow, Errors: len(res.Errors) > 0, NoParent: s.Names != "parent",
			Outdir: canon(root, filepath.Join(root, outdirRel, "x"))[:len(canon(root, filepath.Join(root, outdirRel, "x")))-1],
			Inputs: inputs, Before: before, After: after, scen: s, Reported: []ph{}, Owned: [][]string{}}
		for _, k := range sortedKeys(owned) {
			rc.Owned = append(rc.Owned, owned[k])
		}
		for _, f := range res.OutputFiles {
			p := canon(root, f.Path)
			rc.Reported = append(rc.Reported, ph{P: p, H: hashBytes(f.Contents)})
		}
		for _, e := range res.Errors {
			rc.msgs = append(rc.msgs, e.Text)
		}
		if s.Write {
			for _, p := range rc.Reported {
				owned[strings.Join(p.P, "/")] = p.P
			}
		}
		recs = append(recs, rc)
	}
	if s.History == "single" && s.Fail != "cancel" {
		before := snapshot(root)
		res := api.Build(opts)
		mk(1, before, res, snapshot(root))
		return recs
	}
	// context-based histories (and the cancelled single build)
	var gate chan struct{}
	if s.Fail == "cancel" {
		gate = make(chan struct{})
		opts.Plugins = []api.Plugin{{Name: "block", Setup: func(b api.PluginBuild) {
			b.OnLoad(api.OnLoadOptions{Filter: `dep\.js$`}, func(a api.OnLoadArgs) (api.OnLoadResult, error) {
				<-gate
				return api.OnLoadResult{}, nil
			})
		}}}
	}
	ctx, cerr := api.Context(opts)
	if cerr != nil {
		// option validation refused the configuration: nothing may have been written
		before := snapshot(root)
		res := api.BuildResult{Errors: cerr.Errors}
		mk(1, before, res, before)
		return recs
	}
	defer ctx.Dispose()
	rebuild := func(step int) api.BuildResult {
		before := snapshot(root)
		res := ctx.Rebuild()
		mk(step, before, res, snapshot(root))
		return res
	}
	switch {
	case s.Fail == "cancel":
		before := snapshot(root)
		var res api.BuildResult
		var wg sync.WaitGroup
		wg.Add(1)
		go func() { defer wg.Done(); res = ctx.Rebuild() }()
		time.Sleep(3 * time.Millisecond)
		go func() { time.Sleep(2 * time.Millisecond); close(gate) }()
		ctx.Cancel()
		wg.Wait()
		mk(1, before, res, snapshot(root))
	case s.History == "rebuild-same":
		rebuild(1)
		rebuild(2)
	case s.History == "remove-chunk":
		rebuild(1)
		os.WriteFile(filepath.Join(root, "src", entryName), []byte(entrySrc(false)), 0644)
		rebuild(2)
		rebuild(3)
	case s.History == "fail-then-ok":
		rebuild(1)
		os.WriteFile(filepath.Join(root, "src/dep.js"), []byte(depBad), 0644)
		rebuild(2)
		os.WriteFile(filepath.Join(root, "src/dep.js"), []byte(depOK), 0644)
		rebuild(3)
	default:
		rebuild(1)
	}
	return recs
}

func sortedKeys(m map[string][]string) []string {
	ks := make([]string, 0, len(m))
	for k := range m {
		ks = append(ks, k)
	}
	sort.Strings(ks)
	return ks
}

type verdict struct {
	I       int        `json:"i"`
	Failing []string   `json:"failing"`
	Touched [][]string `json:"touched"`
	Deleted [][]string `json:"deleted"`
}

// validate lets TLC evaluate every invariant of OutputState.tla on every record (one pass)
func validate(r *core.Run, recs []*record) {
	var sb strings.Builder
	for _, rc := range recs {
		b, _ := json.Marshal(rc)
		sb.Write(b)
		sb.WriteByte('\n')
	}
	var verdicts []verdict
	res, err := tlcrun.Run(r, tlcrun.Options{Module: "OutputState", Config: "OutputState.cfg", Workers: 1, TimeoutSec: 900,
		Files: map[string]string{"c17records.ndjson": sb.String()},
		OnCase: func(raw []byte) {
			var v verdict
			if json.Unmarshal(raw, &v) == nil {
				verdicts = append(verdicts, v)
			}
		}})
	if err != nil {
		r.Infra("state validation failed to run: %v", err)
		return
	}
	if res.Violated != "" || len(verdicts) != len(recs) {
		r.Infra("state validation incomplete: %d verdicts for %d records (violated=%q)\n%s", len(verdicts), len(recs), res.Violated, res.Output)
		return
	}
	r.AddTraces(int64(len(recs)))
	for _, v := range verdicts {
		if len(v.Failing) == 0 || v.I < 1 || v.I > len(recs) {
			continue
		}
		bad := recs[v.I-1]
		s := bad.scen
		for _, inv := range v.Failing {
			r.Violation(map[string]interface{}{"invariant": inv, "outdir": s.Outdir, "entry": s.Entry, "outExt": s.OutExt, "names": s.Names,
				"asset": s.Asset, "write": s.Write, "allow": s.Allow, "fail": s.Fail, "history": s.History, "step": bad.Step},
				fmt.Sprintf("real build step violates %s (scenario %s, step %d): touched %v deleted %v", inv, s.id(), bad.Step, v.Touched, v.Deleted),
				map[string]interface{}{"scenario": s, "record": bad, "messages": bad.msgs, "touched": v.Touched, "deleted": v.Deleted})
		}
	}
}

func Run(r *core.Run) {
	r.Assume("paths are compared after resolving symlinks (canonical paths relative to the scenario root); file identity = path + content hash")
	r.Assume("errors added by on-end callbacks after the outputs were written are outside the clause 'a build that reports errors writes nothing' (on-end runs after the write phase by design)")
	designs := []string{"Output.aTRUEwTRUE.cfg", "Output.aFALSEwTRUE.cfg", "Output.aTRUEwFALSE.cfg", "Output.aFALSEwFALSE.cfg"}
	core.Parallel(len(designs), 4, func(i int) {
		tlcrun.MustHold(r, tlcrun.Options{Module: "Output", Config: designs[i], Workers: 2, TimeoutSec: 900})
	})
	var scens []scenario
	res := tlcrun.MustHold(r, tlcrun.Options{Module: "OutputGen", Config: "OutputGen.cfg", Workers: 1, TimeoutSec: 300, OnCase: func(raw []byte) {
		var s scenario
		if json.Unmarshal(raw, &s) == nil {
			scens = append(scens, s)
		}
	}})
	if res == nil || len(scens) == 0 {
		r.Infra("no scenarios exported by OutputGen")
		return
	}
	r.Set("scenarios_enumerated", len(scens))
	if !r.Thorough() {
		// a seeded slice, always containing every scenario whose planned outputs collide with inputs
		var pick []scenario
		for _, s := range scens {
			if (s.Collides && s.Write && s.History != "rebuild-same") || r.Rand.Intn(10) == 0 {
				pick = append(pick, s)
			}
		}
		scens = pick
	}
	var mu sync.Mutex
	var all []*record
	drift := 0
	core.Parallel(len(scens), 8, func(i int) {
		s := scens[i]
		recs := runScenario(r, i, s)
		mu.Lock()
		defer mu.Unlock()
		all = append(all, recs...)
		nontrivial := s.Outdir != "separate" || s.Fail != "none" || s.History != "single"
		r.Case(s.id(), nontrivial)
		if len(recs) > 0 && s.Expect == "refuse" && !recs[0].Errors {
			drift++
		}
		if i%500 == 0 && len(recs) > 0 {
			r.Sample(map[string]interface{}{"scenario": s, "steps": len(recs), "errors_step1": recs[0].Errors, "reported_step1": len(recs[0].Reported)})
		}
	})
	r.Set("spec_predicted_refusal_but_build_succeeded", drift)
	sort.Slice(all, func(i, j int) bool {
		if all[i].ID != all[j].ID {
			return all[i].ID < all[j].ID
		}
		return all[i].Step < all[j].Step
	})
	r.Set("build_steps_recorded", len(all))
	// validate in batches (TLC loads the whole file)
	const batch = 1500
	for i := 0; i < len(all); i += batch {
		j := i + batch
		if j > len(all) {
			j = len(all)
		}
		validate(r, all[i:j])
	}
	r.Set("rule", "case = one scenario of OutputGen.tla (outdir relation x entry ext x out-extension x name template x asset loader x write x allowOverwrite x failure x rebuild history) replayed on a real directory; non-trivial = output location coincides with or is inside the input tree, or the build fails, or a rebuild history with stale files; every build step becomes one record validated by TLC against OutputState.tla")
}

func init() { core.Register("C17", Run) }
