package c01

import (
	"encoding/json"
	"fmt"
	"sort"
	"strings"

	"github.com/evanw/esbuild/pkg/api"

	"verifharness/core"
	"verifharness/tlcrun"
)

// ---------------------------------------------------------------------------
// JSX cases (spec/JsJsx.tla).  acorn cannot read JSX, so the spec's desugaring is the only oracle for
// this family (no cross-validation of the input): reported separately as spec_only.

type jsxCase struct {
	Family    string   `json:"family"`
	Tag       string   `json:"tag"`
	Src       []piece  `json:"src"`
	Classic   string   `json:"classic"`
	Automatic string   `json:"automatic"`
	Labels    []string `json:"labels"`
}

func genJSX(r *core.Run) []jsxCase {
	var cases []jsxCase
	tlcrun.MustHold(r, tlcrun.Options{
		Module: "JsJsx", Config: "JsJsx.cfg", Workers: 2, TimeoutSec: 1800, HeapGB: 4,
		// quick: the covering part + a seeded quarter of the attribute x children products; thorough: everything
		Files: map[string]string{"JsJsx.cfg": fmt.Sprintf("SPECIFICATION Spec\nCONSTANTS\n  NParts = 8\n  Keep = %d\n  Seed = %d\nINVARIANTS\n  AllOK\nCHECK_DEADLOCK FALSE\n", r.Pick(4, 1), r.Seed%1000)},
		OnCase: func(raw []byte) {
			var c jsxCase
			if err := json.Unmarshal(raw, &c); err != nil {
				r.Infra("undecodable JSX CASE: %v", err)
				return
			}
			cases = append(cases, c)
		},
	})
	sort.Slice(cases, func(a, b int) bool { return cases[a].Classic+cases[a].src() < cases[b].Classic+cases[b].src() })
	return cases
}

func (c *jsxCase) src() string { lc := litCase{Src: c.Src}; return lc.body() }

type jsxOut struct {
	cfg  config
	err  string
	code string
	pi   int    // parser item of the JS to compare (for preserve: the re-transformed output)
	want string // expected S-expression ("" for automatic: handled by splitAutomatic)
	auto bool
	pres string // the preserved JSX text (mode preserve)
}

// (prog (import <hex> specs...) EXPR) -> import statement, EXPR
func splitAutomatic(sexp string) (imp, rest string, ok bool) {
	const pre = "(prog (import "
	if !strings.HasPrefix(sexp, pre) || !strings.HasSuffix(sexp, ")") {
		return "", "", false
	}
	depth := 0
	for i := len("(prog "); i < len(sexp); i++ {
		switch sexp[i] {
		case '(':
			depth++
		case ')':
			depth--
			if depth == 0 {
				if i+2 > len(sexp)-1 {
					return "", "", false
				}
				return sexp[len("(prog "):i+1], sexp[i+2 : len(sexp)-1], true
			}
		}
	}
	return "", "", false
}

func runJSX(r *core.Run, cases []jsxCase, cfgs []config) {
	cfgs = literalConfigs(r, cfgs)
	r.Logf("TLC exported %d JSX cases", len(cases))
	if len(cases) == 0 {
		return
	}
	p := newParser(r)
	outs := make([][]jsxOut, len(cases))
	core.Parallel(len(cases), 8, func(i int) {
		c := &cases[i]
		src := c.src()
		for _, base := range cfgs {
			for _, mode := range []string{"transform", "automatic", "preserve"} {
				cf := base
				cf.JSX = mode
				if mode == "automatic" && (cf.Format == "cjs" || cf.Format == "iife") {
					continue // the runtime import is converted to require(): compared under preserve/esm only
				}
				code, errText := transform(src, cf, api.LoaderJSX)
				o := jsxOut{cfg: cf, err: errText, code: code, pi: -1, want: c.Classic, auto: mode == "automatic"}
				if errText == "" {
					js := code
					if mode == "preserve" {
						o.pres = code
						cf2 := cf
						cf2.JSX = "transform"
						cf2.Format = "preserve" // the first pass already applied the format (one iife wrapper)
						js, errText = transform(code, cf2, api.LoaderJSX)
						if errText != "" {
							o.err = "second pass over the preserved JSX: " + errText
						}
					}
					if o.err == "" {
						kind := "script"
						if cf.Format == "esm" || mode == "automatic" {
							kind = "module"
						}
						it := pItem{Src: js, Kind: kind, V8: true}
						if cf.Format == "iife" {
							it.Unwrap = "iife"
						}
						o.pi = p.add(it)
					}
				}
				outs[i] = append(outs[i], o)
			}
		}
	})
	r.Logf("jsx: %d cases -> %d outputs for the reference parser", len(cases), len(p.items))
	if !p.run(4000, 8) {
		return
	}
	n := 0
	perLabel := map[string]int{}
	for i := range cases {
		c := &cases[i]
		src := c.src()
		r.Case(core.Hash([]interface{}{"jsx", src}), len(c.Labels) > 0)
		for _, l := range c.Labels {
			perLabel[l]++
		}
		if i%(len(cases)/3+1) == 0 {
			r.Sample(map[string]interface{}{"kind": "jsx", "input": src, "expected_classic": c.Classic, "labels": c.Labels, "output": outs[i][0].code})
		}
		for _, o := range outs[i] {
			n++
			key := map[string]interface{}{"kind": "jsx", "input": src, "config": o.cfg.Name()}
			detail := map[string]interface{}{"case": c, "input": src, "config": o.cfg, "output": o.code}
			if o.err != "" {
				key["check"] = "accepts-valid-input"
				r.Violation(key, fmt.Sprintf("esbuild rejects a JSX program: %q: %s", src, o.err), detail)
				continue
			}
			res := &p.res[o.pi]
			if !res.Acorn || !res.V8 {
				key["check"] = "output-valid"
				r.Violation(key, fmt.Sprintf("JSX output is not valid JavaScript: %q -> %q (acorn: %s; v8: %s)", src, o.code, res.AErr, res.VErr), detail)
				continue
			}
			got := res.Sexp
			want := o.want
			if o.auto {
				imp, rest, ok := splitAutomatic(got)
				want = "(prog " + c.Automatic + ")"
				if ok {
					got = "(prog " + rest + ")"
					// import { Fragment, jsx, jsxs } from "react/jsx-runtime"
					const rt = "(import 0072.0065.0061.0063.0074.002f.006a.0073.0078.002d.0072.0075.006e.0074.0069.006d.0065"
					if !strings.HasPrefix(imp, rt) {
						got = "unexpected import " + imp + " " + got
					}
				}
			}
			if got != want {
				key["check"] = "same-tree"
				detail["expected_sexp"], detail["observed_sexp"] = want, got
				r.Violation(key, fmt.Sprintf("JSX (%s) desugars to a different program: %q -> %q\n   expected %s\n   observed %s", o.cfg.JSX, src, o.code, want, got), detail)
				continue
			}
			// with charset=ascii only preserved JSX text may keep non-ASCII bytes
			if o.cfg.Charset == "ascii" && o.cfg.JSX != "preserve" {
				if k := asciiOnly(o.code); k >= 0 {
					key["check"] = "ascii-only"
					r.Violation(key, fmt.Sprintf("charset=ascii output has a non-ASCII byte at %d: %q -> %q", k, src, o.code), detail)
				}
			}
		}
	}
	r.AddTraces(int64(n))
	r.Inc("jsx_outputs_checked", int64(n))
	r.Set("jsx_oracle", "spec_only (acorn/V8 cannot read JSX input; the spec's desugaring is not cross-validated)")
	mergeCount(r, "jsx_cases_per_label", perLabel)
}
