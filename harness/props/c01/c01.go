// Package c01: Transform preserves JS/JSX program behaviour and literal values.
//
// Spec: spec/JsSyntax.tla (abstract syntax, ECMA-262 precedence tables, start
// restrictions, gluing hazards, reference renderers + reader, S-expression) and
// spec/JsSyntaxGen.tla / spec/JsLiteral.tla (bounded-exhaustive generators).
// Binding (R): every TLC-generated case is pushed through the real
// api.Transform under a configuration grid; the output is projected by V8
// (compile / evaluate) and by Node's internal acorn onto the spec's
// S-expression / literal value and compared.  Oracle cross-validation: the
// spec's S-expression (value) must agree with acorn (V8) on the INPUT,
// otherwise the case is SPEC-DRIFT and excluded.
package c01

import (
	"encoding/json"
	"fmt"
	"os"
	"sort"
	"strings"
	"sync"
	"time"

	"github.com/evanw/esbuild/pkg/api"

	"verifharness/core"
	"verifharness/nodex"
	"verifharness/tlcrun"
)

func init() { core.Register("C01", Run) }

// ---------------------------------------------------------------------------
// configuration grid

type config struct {
	Charset   string `json:"charset"` // ascii | utf8
	MinifyWS  bool   `json:"minify_whitespace"`
	LineLimit int    `json:"line_limit"`
	Format    string `json:"format"`   // preserve | esm | cjs | iife
	Platform  string `json:"platform"` // browser | node | neutral
	JSX       string `json:"jsx,omitempty"`
}

func (c config) Name() string {
	mw := "pretty"
	if c.MinifyWS {
		mw = "minws"
	}
	s := fmt.Sprintf("%s/%s/ll%d/%s/%s", c.Charset, mw, c.LineLimit, c.Format, c.Platform)
	if c.JSX != "" {
		s += "/jsx-" + c.JSX
	}
	return s
}

func (c config) options(loader api.Loader) api.TransformOptions {
	o := api.TransformOptions{
		Loader:           loader,
		MinifyWhitespace: c.MinifyWS,
		LineLimit:        c.LineLimit,
		LogLevel:         api.LogLevelSilent,
		Target:           api.ESNext,
		Sourcefile:       "in.js",
		// format=iife turns tree shaking on by default; removing unused declarations is C04's subject,
		// here every construct of the input must reach the printer
		TreeShaking: api.TreeShakingFalse,
	}
	if c.Charset == "utf8" {
		o.Charset = api.CharsetUTF8
	} else {
		o.Charset = api.CharsetASCII
	}
	switch c.Format {
	case "esm":
		o.Format = api.FormatESModule
	case "cjs":
		o.Format = api.FormatCommonJS
	case "iife":
		o.Format = api.FormatIIFE
	}
	switch c.Platform {
	case "node":
		o.Platform = api.PlatformNode
	case "neutral":
		o.Platform = api.PlatformNeutral
	default:
		o.Platform = api.PlatformBrowser
	}
	switch c.JSX {
	case "transform":
		o.JSX = api.JSXTransform
	case "automatic":
		o.JSX = api.JSXAutomatic
	case "preserve":
		o.JSX = api.JSXPreserve
	}
	return o
}

var defaultConfig = config{Charset: "ascii", Format: "preserve", Platform: "browser"}

func allConfigs() []config {
	var out []config
	plats := []string{"browser", "node", "neutral"}
	i := 0
	for _, cs := range []string{"ascii", "utf8"} {
		for _, mw := range []bool{false, true} {
			for _, ll := range []int{0, 20} {
				for _, f := range []string{"preserve", "esm", "cjs", "iife"} {
					out = append(out, config{Charset: cs, MinifyWS: mw, LineLimit: ll, Format: f, Platform: plats[i%3]})
					i++
				}
			}
		}
	}
	return out
}

// pickConfigs: thorough = the whole grid; quick = the default (ascii, pretty, no line limit, format preserved), its
// complement in every two-valued dimension (utf8, minify-whitespace, line limit 20) under a seeded converting format,
// and n-1 more seeded ones: every value of charset / minify-whitespace / line-limit occurs in every run.
func pickConfigs(r *core.Run, n int) []config {
	all := allConfigs()
	if r.Thorough() {
		return all
	}
	out := []config{defaultConfig}
	seen := map[string]bool{defaultConfig.Name(): true}
	var compl []config
	for _, c := range all {
		if c.Charset == "utf8" && c.MinifyWS && c.LineLimit == 20 && c.Format != "preserve" {
			compl = append(compl, c)
		}
	}
	c := compl[r.Rand.Intn(len(compl))]
	out = append(out, c)
	seen[c.Name()] = true
	for len(out) < n+1 {
		c := all[r.Rand.Intn(len(all))]
		if !seen[c.Name()] {
			seen[c.Name()] = true
			out = append(out, c)
		}
	}
	return out
}

// ---------------------------------------------------------------------------
// node batches

type pItem struct {
	Src    string `json:"src"`
	Kind   string `json:"kind"` // script | module
	Want   string `json:"want,omitempty"`
	V8     bool   `json:"v8"`
	Fold   bool   `json:"fold,omitempty"`
	Unwrap string `json:"unwrap,omitempty"`
}

type pRes struct {
	Acorn     bool   `json:"acorn"`
	Sexp      string `json:"sexp"`
	SexpF     string `json:"sexpf"`
	AErr      string `json:"aerr"`
	V8        bool   `json:"v8"`
	VErr      string `json:"verr"`
	Unwrapped bool   `json:"unwrapped"`
}

// folded normal form (falls back to the plain S-expression)
func (p *pRes) NF() string {
	if p.SexpF != "" {
		return p.SexpF
	}
	return p.Sexp
}

func (it pItem) key() string { return it.Kind + "\x00" + it.Unwrap + "\x00" + it.Src }

// parser: de-duplicating batched access to node/acorn_parse.js
type parser struct {
	r     *core.Run
	mu    sync.Mutex
	index map[string]int
	items []pItem
	res   []pRes
}

func newParser(r *core.Run) *parser { return &parser{r: r, index: map[string]int{}} }

func (p *parser) add(it pItem) int {
	k := it.key()
	p.mu.Lock()
	defer p.mu.Unlock()
	if i, ok := p.index[k]; ok {
		return i
	}
	p.items = append(p.items, it)
	p.index[k] = len(p.items) - 1
	return len(p.items) - 1
}

func (p *parser) run(batch, procs int) bool {
	n := len(p.items)
	p.res = make([]pRes, n)
	nb := (n + batch - 1) / batch
	ok := true
	var mu sync.Mutex
	core.Parallel(nb, procs, func(b int) {
		lo, hi := b*batch, (b+1)*batch
		if hi > n {
			hi = n
		}
		var out struct {
			Results []pRes `json:"results"`
		}
		in := map[string]interface{}{"items": p.items[lo:hi]}
		err := nodex.Run(p.r, "acorn_parse.js", in, &out, 10*time.Minute, "", "--expose-internals", "--experimental-vm-modules", "--no-warnings", "--stack-size=4000")
		if err != nil || len(out.Results) != hi-lo {
			mu.Lock()
			ok = false
			mu.Unlock()
			p.r.Infra("acorn_parse batch %d failed: %v (got %d of %d results)", b, err, len(out.Results), hi-lo)
			return
		}
		copy(p.res[lo:hi], out.Results)
	})
	return ok
}

// ---------------------------------------------------------------------------
// tree cases (families expr / spine / skel of JsSyntaxGen)

type treeCase struct {
	Spec    string   `json:"spec"`
	Family  string   `json:"family"`
	Skel    string   `json:"skel"`
	Goal    string   `json:"goal"` // any | module | sloppy
	Full    []string `json:"full"`
	Min     []string `json:"min"`
	Sexp    string   `json:"sexp"`
	Depth   int      `json:"depth"`
	Labels  []string `json:"labels"`
	Missing []string `json:"missing"` // only in the per-shard "missing labels" record
	IsMiss  bool     `json:"is_missing"`
}

type tlcJob struct {
	seed   int64 // TLC -seed (family rand: RandomElement)
	family string
	size   int
	shard  int
	shards int
	parts  int
	keep   int // 1 = everything; n = the fixed covering part + every n-th case of the bulk part (seeded offset)
}

func (j tlcJob) cfgText() string {
	keep := j.keep
	if keep < 1 {
		keep = 1
	}
	return fmt.Sprintf("SPECIFICATION Spec\nCONSTANTS\n  Family = \"%s\"\n  Size = %d\n  NParts = %d\n  Keep = %d\n  Seed = %d\n  Shard = %d\n  NShards = %d\nINVARIANTS\n  AllRoundTrips Inhabited\nCHECK_DEADLOCK FALSE\n",
		j.family, j.size, j.parts, keep, j.seed%1000, j.shard, j.shards)
}

// genTrees runs the JsSyntaxGen configurations (several JVMs side by side) and returns the exported cases
func genTrees(r *core.Run, jobs []tlcJob, workersEach int) []treeCase {
	var mu sync.Mutex
	var cases []treeCase
	missing := map[string]map[string]int{} // family -> label -> number of shards that miss it
	shardsOf := map[string]int{}
	// the two chains run side by side: at most 3 JVMs each in the thorough tier (6 GB heaps)
	core.Parallel(len(jobs), r.Pick(5, 3), func(i int) {
		j := jobs[i]
		base := fmt.Sprintf("JsSyntaxGen.%s%d.cfg", j.family, j.size)
		if j.family == "rand" {
			base = "JsSyntaxGen.rand300.cfg" // the configuration text is generated below (Size, seed)
		}
		name := fmt.Sprintf("JsSyntaxGen.%s%d.s%d.cfg", j.family, j.size, j.shard)
		var local []treeCase
		res := tlcrun.MustHold(r, tlcrun.Options{
			Module: "JsSyntaxGen", Config: base, Workers: workersEach, TimeoutSec: r.Pick(1800, 3600), Seed: j.seed,
			XssMB: 64, HeapGB: 6,
			Files: map[string]string{base: j.cfgText()},
			OnCase: func(raw []byte) {
				var c treeCase
				if err := json.Unmarshal(raw, &c); err != nil {
					r.Infra("undecodable CASE record: %v", err)
					return
				}
				local = append(local, c)
			},
		})
		_ = name
		if res == nil {
			return
		}
		mu.Lock()
		defer mu.Unlock()
		shardsOf[j.family] = j.shards
		for _, c := range local {
			if c.IsMiss {
				if missing[c.Family] == nil {
					missing[c.Family] = map[string]int{}
				}
				for _, l := range c.Missing {
					missing[c.Family][l]++
				}
				continue
			}
			cases = append(cases, c)
		}
	})
	// a hazard label is uninhabited iff every shard of the family misses it (non-vacuity of the generator)
	for fam, m := range missing {
		for l, n := range m {
			if n >= shardsOf[fam] {
				r.Infra("spec non-vacuity: hazard label %q is not inhabited by any generated case of family %s", l, fam)
			}
		}
	}
	sort.Slice(cases, func(a, b int) bool {
		if cases[a].Sexp != cases[b].Sexp {
			return cases[a].Sexp < cases[b].Sexp
		}
		return cases[a].Skel < cases[b].Skel
	})
	return cases
}

type outRef struct {
	cfg    int
	err    string // esbuild error text ("" = accepted)
	code   string
	pi     int // parser item of the output
	format string
}

type spelling struct {
	name string // full | min
	src  string
	pi   int // parser item of the input
	outs []outRef
}

type treeEval struct {
	c      *treeCase
	spells []spelling
}

func kindFor(goal, format string) string {
	if goal == "module" || format == "esm" {
		return "module"
	}
	return "script"
}

// which output formats a case of this goal is run under (property exclusions:
// sloppy-only programs are not converted to ESM; programs with import/export
// are compared structurally when the format keeps them (preserve, esm) and by probe traces otherwise)
func formatOK(goal, format string) bool {
	switch goal {
	case "sloppy":
		return format == "preserve" || format == "iife" || format == "cjs"
	}
	return true
}

func nontrivialLabels(ls []string) []string {
	var out []string
	for _, l := range ls {
		if l != "foldable" {
			out = append(out, l)
		}
	}
	return out
}

func hasLabel(ls []string, l string) bool {
	for _, x := range ls {
		if x == l {
			return true
		}
	}
	return false
}

func hazardOf(ls []string) string {
	var out []string
	for _, l := range ls {
		if strings.HasPrefix(l, "start-") || strings.HasPrefix(l, "forof-") || strings.HasPrefix(l, "forinit-") ||
			strings.HasPrefix(l, "new-") || strings.HasPrefix(l, "optchain-") || l == "exp-unary-left" || l == "nullish-mix" ||
			strings.HasPrefix(l, "glue-html") || l == "glue-lt-bang" || l == "glue-dashdash-gt" || l == "glue-div-regexp" || l == "glue-regexp-keyword" {
			out = append(out, l)
		}
	}
	sort.Strings(out)
	return strings.Join(out, "+")
}

func transform(src string, c config, loader api.Loader) (string, string) {
	res := api.Transform(src, c.options(loader))
	if len(res.Errors) > 0 {
		return "", res.Errors[0].Text
	}
	return string(res.Code), ""
}

func asciiOnly(s string) int {
	for i := 0; i < len(s); i++ {
		if s[i] >= 0x80 {
			return i
		}
	}
	return -1
}

// ---------------------------------------------------------------------------
// probe runs (node/run_probes.js): behaviour comparison where the tree legitimately changes

type probeItem struct {
	Src        string   `json:"src"`
	Kind       string   `json:"kind"` // script | module | cjs
	Names      []string `json:"names"`
	Valuations int      `json:"valuations"`
}

type probeRes struct {
	Traces [][]string `json:"traces"`
}

type prober struct {
	r     *core.Run
	items []probeItem
	index map[string]int
	res   []probeRes
}

func newProber(r *core.Run) *prober { return &prober{r: r, index: map[string]int{}} }

func (p *prober) add(it probeItem) int {
	k := it.Kind + "\x00" + strings.Join(it.Names, ",") + "\x00" + it.Src
	if i, ok := p.index[k]; ok {
		return i
	}
	p.items = append(p.items, it)
	p.index[k] = len(p.items) - 1
	return len(p.items) - 1
}

func (p *prober) run(batch, procs int) bool {
	n := len(p.items)
	p.res = make([]probeRes, n)
	if n == 0 {
		return true
	}
	nb := (n + batch - 1) / batch
	ok := true
	var mu sync.Mutex
	core.Parallel(nb, procs, func(b int) {
		lo, hi := b*batch, (b+1)*batch
		if hi > n {
			hi = n
		}
		var out struct {
			Results []probeRes `json:"results"`
		}
		err := nodex.Run(p.r, "run_probes_c01.js", map[string]interface{}{"items": p.items[lo:hi]}, &out, 15*time.Minute, "", "--experimental-vm-modules", "--no-warnings")
		if err != nil || len(out.Results) != hi-lo {
			mu.Lock()
			ok = false
			mu.Unlock()
			p.r.Infra("run_probes batch %d failed: %v", b, err)
			return
		}
		copy(p.res[lo:hi], out.Results)
	})
	return ok
}

var jsKeywords = map[string]bool{"typeof": true, "void": true, "delete": true, "new": true, "await": true, "yield": true, "in": true, "instanceof": true,
	"function": true, "class": true, "this": true, "if": true, "else": true, "for": true, "while": true, "do": true, "switch": true, "case": true,
	"return": true, "throw": true, "var": true, "const": true, "export": true, "default": true, "import": true, "with": true, "extends": true, "of": true,
	"k": true, "m": true, "f": true, "w": true, "C": true, "l": true, "v": true, "u": true, "break": true, "next": true}

func isIdent(t string) bool {
	if t == "" {
		return false
	}
	for i, c := range t {
		if !(c == '_' || c == '$' || (c >= 'a' && c <= 'z') || (c >= 'A' && c <= 'Z') || (i > 0 && c >= '0' && c <= '9')) {
			return false
		}
	}
	return true
}

// free identifiers of a token list (probe names), in first-occurrence order
func probeNames(toks []string) []string {
	seen := map[string]bool{}
	var out []string
	for i, t := range toks {
		if !isIdent(t) || jsKeywords[t] || seen[t] {
			continue
		}
		if t == "let" && i+1 < len(toks) && isIdent(toks[i+1]) && !jsKeywords[toks[i+1]] {
			continue // `let v` declaration keyword
		}
		if t == "async" && i+1 < len(toks) && (toks[i+1] == "(" || toks[i+1] == "function") {
			continue
		}
		seen[t] = true
		out = append(out, t)
	}
	return out
}

// plain reads of a variable are not host-visible calls (esbuild may drop `typeof b` when the result is
// unused): they are logged by the probes for diagnosis but not compared
func dropReads(tr []string) []string {
	var out []string
	for _, l := range tr {
		if !strings.HasPrefix(l, "read ") {
			out = append(out, l)
		}
	}
	return out
}

func dropExports(tr []string) []string {
	var out []string
	for _, l := range tr {
		if !strings.HasPrefix(l, "export ") {
			out = append(out, l)
		}
	}
	return out
}

// A function / class leaf that meets an operator which converts it to a string (`class{} + y`, `function(){} in y`)
// makes its own source text observable; the property excludes that (Function.prototype.toString), and esbuild only
// re-formats the white space of such a leaf: trace lines are compared modulo white space.
func squeeze(l string) string {
	return strings.Join(strings.Fields(strings.ReplaceAll(l, "\\n", " ")), "")
}

func squeezeAll(tr []string) []string {
	out := make([]string, len(tr))
	for i, l := range tr {
		out[i] = squeeze(l)
	}
	return out
}

func sameTraces(a, b [][]string, ignoreExports bool) (bool, string) {
	if len(a) != len(b) {
		return false, "different number of valuations"
	}
	for v := range a {
		x, y := dropReads(a[v]), dropReads(b[v])
		if ignoreExports {
			x, y = dropExports(x), dropExports(y)
		}
		if strings.Join(squeezeAll(x), "\n") != strings.Join(squeezeAll(y), "\n") {
			return false, fmt.Sprintf("valuation %d: input trace %q, output trace %q", v, x, y)
		}
	}
	return true, ""
}

// onlyStrictModeErrorsLost: every valuation whose traces differ is one where the input (module code, strict)
// ends by throwing a TypeError or ReferenceError and the output has the same trace up to that point and
// then goes on without that error: the signature of strict-mode-only errors (assignment to a property of a
// primitive / to a read-only property / to an undeclared name, delete of a non-configurable property).
func onlyStrictModeErrorsLost(a, b [][]string, ignoreExports bool) bool {
	if len(a) != len(b) {
		return false
	}
	differ := 0
	for v := range a {
		x, y := dropReads(a[v]), dropReads(b[v])
		if ignoreExports {
			x, y = dropExports(x), dropExports(y)
		}
		x, y = squeezeAll(x), squeezeAll(y)
		if strings.Join(x, "\n") == strings.Join(y, "\n") {
			continue
		}
		differ++
		if len(x) == 0 {
			return false
		}
		last := x[len(x)-1]
		if last != squeeze("throw TypeError") && last != squeeze("throw ReferenceError") {
			return false
		}
		if len(y) < len(x)-1 || strings.Join(x[:len(x)-1], "\n") != strings.Join(y[:len(x)-1], "\n") {
			return false
		}
		for _, e := range y[len(x)-1:] {
			if strings.HasPrefix(e, "throw") {
				return false
			}
		}
	}
	return differ > 0
}

// exposesSourceText: some trace event carries the source text of a function or class (it was stringified)
func exposesSourceText(trs [][]string) bool {
	for _, tr := range trs {
		for _, e := range tr {
			if strings.Contains(e, "class{") || strings.Contains(e, "class {") || strings.Contains(e, "function(") || strings.Contains(e, "function (") || strings.Contains(e, "=>") {
				return true
			}
		}
	}
	return false
}

type pendingProbe struct {
	key     map[string]interface{}
	detail  map[string]interface{}
	what    string
	in, out int
	ignoreX bool
	conv    bool // ES module input converted to a script format (cjs / iife)
	toMod   bool // sloppy script input, output requested as an ES module (format esm): the output is strict code by request
}

func runTrees(r *core.Run, cases []treeCase, cfgs []config) {
	if len(cases) == 0 {
		return
	}
	p := newParser(r)
	evals := make([]treeEval, len(cases))
	core.Parallel(len(cases), 8, func(i int) {
		c := &cases[i]
		ev := treeEval{c: c}
		inKind := "script"
		if c.Goal == "module" {
			inKind = "module"
		}
		for _, sp := range []struct {
			n string
			t []string
		}{{"full", c.Full}, {"min", c.Min}} {
			s := spelling{name: sp.n, src: strings.Join(sp.t, " ")}
			s.pi = p.add(pItem{Src: s.src, Kind: inKind, V8: true, Fold: true})
			for ci, cf := range cfgs {
				if !formatOK(c.Goal, cf.Format) {
					continue
				}
				code, errText := transform(s.src, cf, api.LoaderJS)
				o := outRef{cfg: ci, err: errText, code: code, format: cf.Format, pi: -1}
				if errText == "" {
					it := pItem{Src: code, Kind: kindFor(c.Goal, cf.Format), V8: true, Fold: true}
					if cf.Format == "iife" {
						it.Unwrap = "iife"
					}
					o.pi = p.add(it)
				}
				s.outs = append(s.outs, o)
			}
			ev.spells = append(ev.spells, s)
		}
		evals[i] = ev
	})
	r.Logf("trees: %d cases x %d configs -> %d distinct texts for the reference parser", len(cases), len(cfgs), len(p.items))
	if !p.run(4000, 8) {
		return
	}
	perLabel := map[string]int{}
	perSkel := map[string]int{}
	nOut := 0
	pb := newProber(r)
	var pend []pendingProbe
	nProbeCmp := 0
	for i := range evals {
		ev := &evals[i]
		c := ev.c
		labels := nontrivialLabels(c.Labels)
		id := core.Hash([]interface{}{c.Skel, c.Sexp})
		drift := false
		for si := range ev.spells {
			s := &ev.spells[si]
			in := &p.res[s.pi]
			if !in.Acorn || !in.V8 {
				r.Drift("spec says valid but reference rejects the %s rendering %q (acorn=%v %s, v8=%v %s)", s.name, s.src, in.Acorn, in.AErr, in.V8, in.VErr)
				drift = true
				continue
			}
			if in.Sexp != c.Sexp {
				r.Drift("S-expression of the %s rendering %q: spec %s, acorn %s", s.name, s.src, c.Sexp, in.Sexp)
				drift = true
				continue
			}
		}
		if drift {
			continue
		}
		r.Case(id, len(labels) > 0)
		perSkel[c.Skel]++
		for _, l := range labels {
			perLabel[l]++
		}
		if i%(len(evals)/6+1) == 0 {
			r.Sample(map[string]interface{}{"kind": "tree", "skeleton": c.Skel, "input_full": ev.spells[0].src, "input_min": ev.spells[1].src,
				"sexp": c.Sexp, "labels": c.Labels, "output_default": ev.spells[0].outs[0].code})
		}
		for si := range ev.spells {
			s := &ev.spells[si]
			in := &p.res[s.pi]
			for _, o := range s.outs {
				nOut++
				cf := cfgs[o.cfg]
				key := map[string]interface{}{"kind": "tree", "skeleton": c.Skel, "input": s.src, "config": cf.Name(), "hazard": hazardOf(c.Labels),
					"let_bracket_start": hasLabel(c.Labels, "start-let-bracket"), "div_regexp_glue": hasLabel(c.Labels, "glue-div-regexp")}
				detail := map[string]interface{}{"case": c, "spelling": s.name, "input": s.src, "config": cf, "expected_sexp": in.NF()}
				if o.err != "" {
					key["check"] = "accepts-valid-input"
					detail["esbuild_error"] = o.err
					r.Violation(key, fmt.Sprintf("esbuild rejects a valid program (V8 and acorn accept it): %q: %s", s.src, o.err), detail)
					continue
				}
				detail["output"] = o.code
				out := &p.res[o.pi]
				if out.V8 && !out.Acorn {
					// The two reference readers disagree on the OUTPUT text (V8, the engine that would run it, compiles it;
					// acorn 8.16 does not, e.g. it misreads "async function(){} / y" as the start of a regular expression):
					// no verdict can be based on that, it is counted as drift of the reference.
					r.Drift("reference readers disagree on an output (V8 accepts, acorn: %s): input %q -> output %q", out.AErr, s.src, o.code)
					continue
				}
				if !out.Acorn || !out.V8 {
					key["check"] = "output-valid"
					detail["acorn_error"], detail["v8_error"] = out.AErr, out.VErr
					r.Violation(key, fmt.Sprintf("output is not a valid %s: input %q -> output %q (acorn: %s; v8: %s)", kindFor(c.Goal, cf.Format), s.src, o.code, out.AErr, out.VErr), detail)
					continue
				}
				converted := c.Goal == "module" && (cf.Format == "cjs" || cf.Format == "iife")
				if cf.Format == "iife" && !out.Unwrapped && !converted {
					key["check"] = "iife-shape"
					r.Violation(key, fmt.Sprintf("format=iife output is not a single immediately-invoked arrow: %q", o.code), detail)
					continue
				}
				if converted || out.NF() != in.NF() {
					// (c) the tree differs. Legitimate only for ESM->CJS/IIFE conversion and for operators over operands of
					// statically known value (label "foldable"): then behaviour is compared with probe leaves instead.
					foldable := false
					for _, l := range c.Labels {
						if l == "foldable" {
							foldable = true
						}
					}
					if converted || foldable {
						names := probeNames(c.Full)
						inKind, outKind := "script", "script"
						if c.Goal == "module" {
							inKind = "module"
						}
						switch {
						case cf.Format == "cjs" && c.Goal == "module":
							outKind = "cjs"
						case kindFor(c.Goal, cf.Format) == "module":
							outKind = "module"
						}
						key["check"] = "same-behaviour"
						detail["observed_sexp"] = out.NF()
						pend = append(pend, pendingProbe{key: key, detail: detail,
							what:    fmt.Sprintf("input %q -> output %q", s.src, o.code),
							in:      pb.add(probeItem{Src: s.src, Kind: inKind, Names: names, Valuations: r.Pick(2, 4)}),
							out:     pb.add(probeItem{Src: o.code, Kind: outKind, Names: names, Valuations: r.Pick(2, 4)}),
							ignoreX: cf.Format == "iife" && c.Goal == "module", conv: converted, toMod: inKind == "script" && outKind == "module"})
					} else {
						key["check"] = "same-tree"
						detail["observed_sexp"] = out.NF()
						r.Violation(key, fmt.Sprintf("output parses to a different program: input %q -> output %q\n   expected %s\n   observed %s", s.src, o.code, in.NF(), out.NF()), detail)
						continue
					}
				}
				if cf.Charset == "ascii" {
					if k := asciiOnly(o.code); k >= 0 {
						key["check"] = "ascii-only"
						r.Violation(key, fmt.Sprintf("charset=ascii output has a non-ASCII byte at %d: %q", k, o.code), detail)
					}
				}
			}
		}
	}
	if len(pend) > 0 {
		r.Logf("trees: %d outputs differ in shape legitimately (folding / format conversion): comparing probe traces of %d programs", len(pend), len(pb.items))
		if pb.run(120, 8) {
			for _, q := range pend {
				nProbeCmp++
				if ok, why := sameTraces(pb.res[q.in].Traces, pb.res[q.out].Traces, q.ignoreX); !ok {
					q.detail["input_traces"], q.detail["output_traces"] = pb.res[q.in].Traces, pb.res[q.out].Traces
					if exposesSourceText(pb.res[q.in].Traces) {
						// the program converts a function or class to a string and uses the text (as a property key, in
						// arithmetic): Function.prototype.toString exposes the source text, which every transform changes;
						// the property excludes it (whitespace alone is already ignored by squeeze, but values DERIVED from
						// the text - a key looked up on the probe object - differ legitimately)
						r.Inc("tree_probe_excluded_source_text_observed", 1)
						continue
					}
					if q.toMod && onlyStrictModeErrorsLost(pb.res[q.out].Traces, pb.res[q.in].Traces, q.ignoreX) {
						// a sloppy script was requested as format=esm: the output is module code, which is strict by definition;
						// an error that only strict mode raises (assignment to an undeclared name, to a property of a primitive)
						// and that is the ONLY difference is the consequence of the requested format, not of the transform
						r.Inc("tree_probe_excluded_strictness_gained_by_requested_esm_format", 1)
						continue
					}
					if q.conv && onlyStrictModeErrorsLost(pb.res[q.in].Traces, pb.res[q.out].Traces, q.ignoreX) {
						// structural cause: the module (always strict code) became a sloppy script
						q.key["strictness_lost_in_format_conversion"] = true
					}
					r.Violation(q.key, "behaviour differs (host-visible calls / exceptions / exports): "+q.what+": "+why, q.detail)
				}
			}
		}
	}
	r.AddTraces(int64(nOut))
	r.Inc("tree_outputs_checked", int64(nOut))
	r.Inc("tree_outputs_compared_by_probe_traces", int64(nProbeCmp))
	mergeCount(r, "tree_cases_per_label", perLabel)
	mergeCount(r, "tree_cases_per_skeleton", perSkel)
}

// mergeCount accumulates per-label counts; the stages run side by side, so the totals are kept here and
// written to the evidence once by flushCounts
var (
	countMu sync.Mutex
	counts  = map[string]map[string]int{}
)

func mergeCount(r *core.Run, key string, m map[string]int) {
	countMu.Lock()
	defer countMu.Unlock()
	cur := counts[key]
	if cur == nil {
		cur = map[string]int{}
		counts[key] = cur
	}
	for k, v := range m {
		cur[k] += v
	}
}

func flushCounts(r *core.Run) {
	countMu.Lock()
	defer countMu.Unlock()
	for k, v := range counts {
		r.Set(k, v)
	}
}

// ---------------------------------------------------------------------------

// replay re-runs the single case x configuration recorded in a replay file
func replay(r *core.Run) {
	data, err := os.ReadFile(r.Replay)
	if err != nil {
		r.Infra("cannot read replay file: %v", err)
		return
	}
	var rec struct {
		Key    map[string]interface{} `json:"key"`
		Detail struct {
			Case     json.RawMessage `json:"case"`
			Config   config          `json:"config"`
			Contexts []litCtx        `json:"contexts"`
		} `json:"detail"`
	}
	if err := json.Unmarshal(data, &rec); err != nil {
		r.Infra("cannot decode replay file: %v", err)
		return
	}
	cfgs := []config{rec.Detail.Config}
	switch rec.Key["kind"] {
	case "tree":
		var c treeCase
		json.Unmarshal(rec.Detail.Case, &c)
		runTrees(r, []treeCase{c}, cfgs)
	case "literal":
		var c litCase
		json.Unmarshal(rec.Detail.Case, &c)
		for _, cx := range rec.Detail.Contexts {
			litContexts[cx.Name] = cx
			c.Ctxs = []string{cx.Name} // the one context of the recorded violation
		}
		runLiterals(r, []litCase{c}, cfgs)
	case "jsx":
		var c jsxCase
		json.Unmarshal(rec.Detail.Case, &c)
		cfgs[0].JSX = ""
		runJSX(r, []jsxCase{c}, cfgs)
	default:
		r.Infra("unknown replay kind %v", rec.Key["kind"])
	}
	flushCounts(r)
}

func Run(r *core.Run) {
	if r.Replay != "" {
		replay(r)
		return
	}
	r.Set("rule", "cases are enumerated by TLC from spec/JsSyntax*.tla / JsLiteral*.tla / JsJsx.tla: expression trees (one operator per precedence level / associativity class, depth<=2), left spines over 22 left-edge operator classes, family mix (restricted leaves under chains of 2-3 forwarding operators in every kind of for-init and statement start), statement skeletons x depth<=1 trees, string/template bodies over 52 code-unit classes x 7 spellings x 4 quote kinds (every ordered class pair, constructive >=3-unit hazard families) in the spec's program contexts (expression, key, strict code, both-quotes, line-wrap, directive, template head/tail), regexp atoms, numeric lexical forms x magnitude classes, JSX elements; quick = the fixed label-covering part of each family + a slice of its bulk cut by VERIF_SEED, thorough = all; each case x configuration goes through the real api.Transform. A tree case is non-trivial iff it carries >= 1 hazard label (a required parenthesis, a start-of-statement/arrow-body/for-init restriction or a token-gluing hazard); a literal case iff it contains a non-letter code-unit class or a branch label (numbers: a non-plain-decimal form)")
	r.Assume("Node 20 V8 and Node's internal acorn 8.16 are the reference for validity, tree shape and literal values; the spec's prediction is cross-validated against them on every INPUT (disagreement = SPEC-DRIFT, case excluded)")
	r.Assume("numeric value equality is judged by V8 on the enumerated lexical forms x magnitude classes; float64 bit patterns outside that grid and code-unit VALUES beyond the class representatives are not reached (DESIGN.md section 6)")
	r.Assume("never minify-syntax / minify-identifiers, never lowering (Target ESNext)")

	cfgs := pickConfigs(r, 2)
	names := []string{}
	for _, c := range cfgs {
		names = append(names, c.Name())
	}
	r.Set("configurations", names)

	var jobs []tlcJob
	if r.Thorough() {
		for s := 0; s < 4; s++ {
			jobs = append(jobs, tlcJob{family: "expr", size: 3, shard: s, shards: 4, parts: 8, keep: 1})
		}
		for s := 0; s < 2; s++ {
			jobs = append(jobs, tlcJob{family: "spine", size: 3, shard: s, shards: 2, parts: 8, keep: 30, seed: r.Seed})
			jobs = append(jobs, tlcJob{family: "mix", size: 3, shard: s, shards: 2, parts: 8, keep: 16, seed: r.Seed})
		}
		jobs = append(jobs, tlcJob{family: "skel", size: 2, shard: 0, shards: 1, parts: 16, keep: 1})
		// random compositions of the same node classes to depth 3 (seeded)
		for k := int64(0); k < 3; k++ {
			jobs = append(jobs, tlcJob{family: "rand", size: 6000, shard: 0, shards: 1, parts: 8, seed: r.Seed*100 + k + 1})
		}
	} else {
		// quick: the fixed (label-covering) part of every family plus a seeded 1/keep slice of its bulk
		jobs = append(jobs, tlcJob{family: "expr", size: 2, shard: 0, shards: 1, parts: 8, keep: 16, seed: r.Seed})
		jobs = append(jobs, tlcJob{family: "spine", size: 2, shard: 0, shards: 1, parts: 8, keep: 30, seed: r.Seed})
		jobs = append(jobs, tlcJob{family: "mix", size: 2, shard: 0, shards: 1, parts: 8, keep: 80, seed: r.Seed})
		jobs = append(jobs, tlcJob{family: "skel", size: 1, shard: 0, shards: 1, parts: 8, keep: 8, seed: r.Seed})
	}
	// developer aid: C01_FAMILIES=expr,spine,skel,lit restricts the families (never set by bin/check users)
	if only := os.Getenv("C01_FAMILIES"); only != "" {
		var keep []tlcJob
		for _, j := range jobs {
			if strings.Contains(","+only+",", ","+j.family+",") {
				keep = append(keep, j)
			}
		}
		jobs = keep
		r.Assume("developer run restricted to families " + only)
	}
	// The stages run side by side: literals and JSX are replayed as soon as their generators finish, the tree
	// families in two chains (the depth-2 expression shards; spines / forwarding chains / skeletons).
	var wg sync.WaitGroup
	stage := func(f func()) {
		wg.Add(1)
		go func() {
			defer wg.Done()
			f()
		}()
	}
	doLit := os.Getenv("C01_FAMILIES") == "" || strings.Contains(","+os.Getenv("C01_FAMILIES")+",", ",lit,")
	doJSX := os.Getenv("C01_FAMILIES") == "" || strings.Contains(","+os.Getenv("C01_FAMILIES")+",", ",jsx,")
	if doLit {
		stage(func() { runLiterals(r, genLiterals(r), cfgs) })
	}
	if doJSX {
		stage(func() { runJSX(r, genJSX(r), cfgs) })
	}
	var chainA, chainB []tlcJob
	for _, j := range jobs {
		if j.family == "expr" || j.family == "rand" {
			chainA = append(chainA, j)
		} else {
			chainB = append(chainB, j)
		}
	}
	for _, chain := range [][]tlcJob{chainA, chainB} {
		chain := chain
		if len(chain) == 0 {
			continue
		}
		stage(func() {
			trees := genTrees(r, chain, 2)
			r.Logf("TLC exported %d tree cases (%s ...)", len(trees), chain[0].family)
			runTrees(r, trees, cfgs)
		})
	}
	wg.Wait()
	flushCounts(r)
}
