package c01

import (
	"encoding/json"
	"fmt"
	"sort"
	"strings"
	"sync"
	"time"
	"unicode/utf16"

	"github.com/evanw/esbuild/pkg/api"

	"verifharness/core"
	"verifharness/nodex"
	"verifharness/tlcrun"
)

// ---------------------------------------------------------------------------
// literal cases (spec/JsLiteral.tla, generator spec/JsLiteralGen.tla)

type piece struct {
	Txt string `json:"txt"`
	Raw []int  `json:"raw"`
}

type litCase struct {
	Family string          `json:"family"` // str | re | num
	Quote  string          `json:"quote"`
	Elems  json.RawMessage `json:"elems"`
	Units  []int           `json:"units"`
	Src    []piece         `json:"src"`
	Labels []string        `json:"labels"`
	Flags  string          `json:"flags"`
	Atoms  []string        `json:"atoms"`
	Form   string          `json:"form"`
	Txt    string          `json:"txt"`
	Mag    string          `json:"mag"`
	Kind   string          `json:"kind"` // num | big
	Goal   string          `json:"goal"` // any | sloppy
	// str: the contexts (names of spec/JsLiteral.tla Contexts) this body is placed in, and whether the body,
	// as a directive, is the `use strict` directive (written without escapes)
	Ctxs      []string `json:"ctxs"`
	UseStrict bool     `json:"usestrict"`
	// family "ctx": the context table of the specification
	Contexts []litCtx `json:"contexts"`
}

// litCtx: one element of JsLiteral!Contexts
type litCtx struct {
	Name   string   `json:"name"`
	Quotes []string `json:"quotes"`
	Pre    string   `json:"pre"`
	BPre   string   `json:"bpre"`
	BPost  string   `json:"bpost"`
	Post   string   `json:"post"`
	VPre   []int    `json:"vpre"`
	VPost  []int    `json:"vpost"`
	Mode   string   `json:"mode"`
	Strict bool     `json:"strict"`
	Quick  bool     `json:"quick"`
}

// the context table exported by TLC (set once by genLiterals / replay)
var litContexts = map[string]litCtx{}

func quoteChar(q string) string {
	switch q {
	case "sq":
		return "'"
	case "dq":
		return "\""
	}
	return "`"
}

func (c *litCase) body() string {
	var sb strings.Builder
	for _, p := range c.Src {
		if len(p.Raw) > 0 {
			u := make([]uint16, len(p.Raw))
			for i, x := range p.Raw {
				u[i] = uint16(x)
			}
			sb.WriteString(string(utf16.Decode(u)))
		} else {
			sb.WriteString(p.Txt)
		}
	}
	return sb.String()
}

func hexUnits(u []int) string {
	if len(u) == 0 {
		return "e"
	}
	parts := make([]string, len(u))
	for i, x := range u {
		parts[i] = fmt.Sprintf("%04x", x)
	}
	return strings.Join(parts, ".")
}

// one program built around a literal
type litProg struct {
	ctx  string // expr | key | neg | member | negpow
	src  string
	mode string // str | key | tag | num | big | re
	// expected value according to the spec ("" = judged by V8 only)
	specVal string
}

func (c *litCase) programs() []litProg {
	switch c.Family {
	case "str":
		b := c.body()
		q := quoteChar(c.Quote)
		var out []litProg
		names := append([]string(nil), c.Ctxs...)
		sort.Strings(names)
		for _, n := range names {
			cx, ok := litContexts[n]
			if !ok {
				continue
			}
			want := ""
			if cx.Mode != "tag" {
				var u []int
				u = append(u, cx.VPre...)
				u = append(u, c.Units...)
				u = append(u, cx.VPost...)
				want = hexUnits(u)
				if cx.Mode == "dir" {
					// the directive prologue: the spec says the code after it is strict iff the directive is `use strict` without escapes
					if c.UseStrict {
						want += "|strict"
					} else {
						want += "|sloppy"
					}
				}
			}
			out = append(out, litProg{n, cx.Pre + q + cx.BPre + b + cx.BPost + q + cx.Post, cx.Mode, want})
		}
		return out
	case "re":
		return []litProg{{"expr", "x = /" + c.body() + "/" + c.Flags + ";", "re", ""},
			{"glue", "x = [/" + c.body() + "/" + c.Flags + " in {}, /" + c.body() + "/" + c.Flags + "][1];", "re", ""}}
	case "num":
		n := c.Txt
		if c.Kind == "big" {
			return []litProg{{"expr", "x = " + n + ";", "big", ""}, {"neg", "x = -" + n + ";", "big", ""},
				{"member", "x = (" + n + ").valueOf();", "big", ""}, {"negpow", "x = (-" + n + ") ** 2n;", "big", ""},
				{"key", "x = {" + n + ": 1};", "key", ""}}
		}
		return []litProg{{"expr", "x = " + n + ";", "num", ""}, {"neg", "x = -" + n + ";", "num", ""},
			{"member", "x = (" + n + ").valueOf();", "num", ""}, {"negmember", "x = (-" + n + ").valueOf();", "num", ""},
			{"negpow", "x = (-" + n + ") ** 2;", "num", ""}, {"key", "x = {" + n + ": 1};", "key", ""},
			{"in", "x = [" + n + " in {}, " + n + "][1];", "num", ""}, {"plus", "x = [+ +" + n + ", - -" + n + "][0];", "num", ""}}
	}
	return nil
}

type evItem struct {
	Src  string `json:"src"`
	Mode string `json:"mode"`
	Goal string `json:"goal"`
}

type evRes struct {
	OK       bool   `json:"ok"`
	Val      string `json:"val"`
	Err      string `json:"err"`
	Compiles bool   `json:"compiles"`
}

type evaler struct {
	r     *core.Run
	mu    sync.Mutex
	index map[string]int
	items []evItem
	res   []evRes
}

func newEvaler(r *core.Run) *evaler { return &evaler{r: r, index: map[string]int{}} }

func (e *evaler) add(it evItem) int {
	k := it.Mode + "\x00" + it.Goal + "\x00" + it.Src
	e.mu.Lock()
	defer e.mu.Unlock()
	if i, ok := e.index[k]; ok {
		return i
	}
	e.items = append(e.items, it)
	e.index[k] = len(e.items) - 1
	return len(e.items) - 1
}

func (e *evaler) run(batch, procs int) bool {
	n := len(e.items)
	e.res = make([]evRes, n)
	nb := (n + batch - 1) / batch
	ok := true
	var mu sync.Mutex
	core.Parallel(nb, procs, func(b int) {
		lo, hi := b*batch, (b+1)*batch
		if hi > n {
			hi = n
		}
		var out struct {
			Results []evRes `json:"results"`
		}
		err := nodex.Run(e.r, "literal_eval.js", map[string]interface{}{"items": e.items[lo:hi]}, &out, 10*time.Minute, "", "--experimental-vm-modules", "--no-warnings")
		if err != nil || len(out.Results) != hi-lo {
			mu.Lock()
			ok = false
			mu.Unlock()
			e.r.Infra("literal_eval batch %d failed: %v", b, err)
			return
		}
		copy(e.res[lo:hi], out.Results)
	})
	return ok
}

func genLiterals(r *core.Run) []litCase {
	type job struct {
		family string
		size   int
	}
	jobs := []job{{"str", r.Pick(2, 3)}, {"re", r.Pick(2, 3)}, {"num", 1}}
	var mu sync.Mutex
	var cases []litCase
	core.Parallel(len(jobs), len(jobs), func(i int) {
		j := jobs[i]
		var local []litCase
		cfgName := fmt.Sprintf("JsLiteralGen.%s%d.cfg", j.family, j.size)
		cfgText := fmt.Sprintf("SPECIFICATION Spec\nCONSTANTS\n  Family = \"%s\"\n  Size = %d\n  NParts = 8\n  Seed = %d\nINVARIANTS\n  AllSourcesOK Inhabited\nCHECK_DEADLOCK FALSE\n",
			j.family, j.size, r.Seed%1000)
		tlcrun.MustHold(r, tlcrun.Options{
			Module: "JsLiteralGen", Config: cfgName, Workers: 2,
			TimeoutSec: r.Pick(1800, 3600), XssMB: 64, HeapGB: 4,
			Files: map[string]string{cfgName: cfgText},
			OnCase: func(raw []byte) {
				var c litCase
				if err := json.Unmarshal(raw, &c); err != nil {
					r.Infra("undecodable literal CASE: %v", err)
					return
				}
				if c.Family == "ctx" {
					mu.Lock()
					for _, cx := range c.Contexts {
						litContexts[cx.Name] = cx
					}
					mu.Unlock()
					return
				}
				local = append(local, c)
			},
		})
		mu.Lock()
		cases = append(cases, local...)
		mu.Unlock()
	})
	sort.Slice(cases, func(a, b int) bool {
		x, y := &cases[a], &cases[b]
		if x.Family != y.Family {
			return x.Family < y.Family
		}
		kx, ky := x.Quote+x.Flags+x.Txt+string(x.Elems)+strings.Join(x.Atoms, ","), y.Quote+y.Flags+y.Txt+string(y.Elems)+strings.Join(y.Atoms, ",")
		return kx < ky
	})
	return cases
}

type litOut struct {
	cfg  int
	err  string
	code string
	ei   int // evaler item
	pi   int // parser item (acorn validity)
}

type litEval struct {
	c     *litCase
	progs []litProg
	in    []int      // evaler item of each input program
	outs  [][]litOut // per program
}

// with charset=ascii only regular-expression literals (and comments / preserved JSX text) may keep non-ASCII bytes
func asciiViolation(code string, family string) int {
	// regular expressions: documented exception.  Tagged templates: the RAW strings are observable by the tag
	// function, so escaping a non-ASCII character would change the value the first clause of the property protects
	if family == "re" || family == "tag" {
		return -1
	}
	return asciiOnly(code)
}

// literals are printed by code that does not depend on the output format: in the thorough tier they run under
// charset x minify-whitespace x line-limit with the format rotating (8 configurations), not the whole grid
func literalConfigs(r *core.Run, cfgs []config) []config {
	if !r.Thorough() || len(cfgs) <= 8 {
		return cfgs
	}
	var out []config
	formats := []string{"preserve", "esm", "iife", "cjs"}
	i := 0
	for _, cs := range []string{"ascii", "utf8"} {
		for _, mw := range []bool{false, true} {
			for _, ll := range []int{0, 20} {
				out = append(out, config{Charset: cs, MinifyWS: mw, LineLimit: ll, Format: formats[i%4], Platform: "browser"})
				i++
			}
		}
	}
	return out
}

func runLiterals(r *core.Run, cases []litCase, cfgs []config) {
	cfgs = literalConfigs(r, cfgs)
	r.Logf("TLC exported %d literal cases", len(cases))
	if len(cases) == 0 {
		return
	}
	ev := newEvaler(r)
	p := newParser(r)
	evals := make([]litEval, len(cases))
	core.Parallel(len(cases), 8, func(i int) {
		c := &cases[i]
		le := litEval{c: c, progs: c.programs()}
		if !r.Thorough() && c.Family == "num" && len(le.progs) > 3 {
			// quick: the plain expression context plus two of the other contexts in seeded rotation
			n := len(le.progs) - 1
			a := 1 + (i+int(r.Seed%1000))%n
			b := 1 + (i+int(r.Seed%1000)+n/2)%n
			le.progs = []litProg{le.progs[0], le.progs[a], le.progs[b]}
		}
		for _, pg := range le.progs {
			le.in = append(le.in, ev.add(evItem{Src: pg.src, Mode: pg.mode, Goal: "script"}))
			var outs []litOut
			for ci, cf := range cfgs {
				goal := "any"
				if c.Goal == "sloppy" {
					goal = "sloppy"
				}
				if !formatOK(goal, cf.Format) {
					continue
				}
				// the directive context observes the completion value of the script and the strictness of the code after
				// the directive: both are only preserved when the output format is the input's (property exclusion)
				if pg.mode == "dir" && cf.Format != "preserve" {
					continue
				}
				code, errText := transform(pg.src, cf, api.LoaderJS)
				o := litOut{cfg: ci, err: errText, code: code, ei: -1, pi: -1}
				if errText == "" {
					g := "script"
					if cf.Format == "esm" {
						g = "module"
					}
					o.ei = ev.add(evItem{Src: code, Mode: pg.mode, Goal: g})
					o.pi = p.add(pItem{Src: code, Kind: g, Want: "valid"})
				}
				outs = append(outs, o)
			}
			le.outs = append(le.outs, outs)
		}
		evals[i] = le
	})
	r.Logf("literals: %d cases -> %d programs to evaluate in V8, %d outputs for acorn", len(cases), len(ev.items), len(p.items))
	if !ev.run(3000, 8) || !p.run(6000, 8) {
		return
	}
	perClass := map[string]int{}
	nOut := 0
	for i := range evals {
		le := &evals[i]
		c := le.c
		id := core.Hash([]interface{}{c.Family, c.Quote, c.Flags, c.Txt, string(c.Elems), c.Atoms})
		drift := false
		for k, pg := range le.progs {
			in := &ev.res[le.in[k]]
			if !in.OK {
				r.Drift("spec says the literal program %q is valid but V8 says: %s", pg.src, in.Err)
				drift = true
				break
			}
			if pg.specVal != "" && in.Val != pg.specVal {
				r.Drift("value of %q: spec %s, V8 %s", pg.src, pg.specVal, in.Val)
				drift = true
				break
			}
		}
		if drift {
			continue
		}
		r.Case(id, len(c.Labels) > 0)
		for _, l := range c.Labels {
			perClass[c.Family+":"+l]++
		}
		if i%(len(evals)/5+1) == 0 {
			r.Sample(map[string]interface{}{"kind": "literal", "family": c.Family, "input": le.progs[0].src, "value": ev.res[le.in[0]].Val,
				"labels": c.Labels, "output_default": le.outs[0][0].code})
		}
		for k, pg := range le.progs {
			in := &ev.res[le.in[k]]
			for _, o := range le.outs[k] {
				nOut++
				cf := cfgs[o.cfg]
				key := map[string]interface{}{"kind": "literal", "family": c.Family, "context": pg.ctx, "input": pg.src, "config": cf.Name(), "form": c.Form}
				detail := map[string]interface{}{"case": c, "input": pg.src, "config": cf, "expected_value": in.Val}
				if c.Family == "str" {
					detail["contexts"] = []litCtx{litContexts[pg.ctx]}
					// the directive-position context with the value `use strict` spelled with an escape (not the directive)
					key["escaped_use_strict_directive"] = pg.ctx == "dir" && !c.UseStrict && hexUnits(c.Units) == "0075.0073.0065.0020.0073.0074.0072.0069.0063.0074"
				}
				if o.err != "" {
					key["check"] = "accepts-valid-input"
					r.Violation(key, fmt.Sprintf("esbuild rejects a valid program: %q: %s", pg.src, o.err), detail)
					continue
				}
				detail["output"] = o.code
				out := &ev.res[o.ei]
				if !out.Compiles || !p.res[o.pi].Acorn {
					key["check"] = "output-valid"
					r.Violation(key, fmt.Sprintf("output is not valid: input %q -> output %q (v8: %s; acorn: %s)", pg.src, o.code, out.Err, p.res[o.pi].AErr), detail)
					continue
				}
				if !out.OK || out.Val != in.Val {
					key["check"] = "same-value"
					detail["observed_value"] = out.Val
					r.Violation(key, fmt.Sprintf("literal denotes a different value: input %q -> output %q: expected %s, observed %s %s", pg.src, o.code, in.Val, out.Val, out.Err), detail)
					continue
				}
				if cf.Charset == "ascii" {
					fam := c.Family
					if c.Quote == "tag" {
						fam = "tag"
					}
					if k := asciiViolation(o.code, fam); k >= 0 {
						key["check"] = "ascii-only"
						r.Violation(key, fmt.Sprintf("charset=ascii output has a non-ASCII byte at %d: input %q -> output %q", k, pg.src, o.code), detail)
					}
				}
			}
		}
	}
	r.AddTraces(int64(nOut))
	r.Inc("literal_outputs_checked", int64(nOut))
	mergeCount(r, "literal_cases_per_class", perClass)
}
