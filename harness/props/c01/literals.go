package c01

import "verifharness/core"

func runLiterals(r *core.Run, cfgs []config) {}
