package c09

// Replay of the histories of spec/CacheDisk.tla: a build context with
// Write = true is rebuilt after every edit and the OUTPUT DIRECTORY ON DISK
// (set of files and their bytes) is compared with what a fresh api.Build of
// the same tree writes into an empty output directory.  Histories contain
// failing builds (syntax error, unresolved import, plugin error) and their
// repair, a dynamic-import chunk that disappears or is renamed, and foreign
// writers that modify or delete output files between builds.

import (
	"encoding/json"
	"fmt"
	"os"
	"path/filepath"
	"sort"
	"strings"
	"sync"
	"sync/atomic"

	"github.com/evanw/esbuild/pkg/api"

	"verifharness/core"
	"verifharness/tlcrun"
)

type DEdit struct {
	Op string `json:"op"`
	V  string `json:"v"`
}

func (e DEdit) String() string { return e.Op + "(" + e.V + ")" }

type DExpect struct {
	Failed  bool     `json:"failed"`
	Files   []string `json:"files"`
	Skipped []string `json:"skipped"`
	Written []string `json:"written"`
	Deleted []string `json:"deleted"`
}

type DCase struct {
	Edits  []DEdit   `json:"edits"`
	Expect []DExpect `json:"expect"`
}

func (c DCase) String() string {
	s := []string{}
	for _, e := range c.Edits {
		s = append(s, e.String())
	}
	return strings.Join(s, " ; ")
}

type diskProject struct {
	dir          string
	ver          string // "1" | "2"
	fault, chunk string
	cur          map[string]string
}

func (pr *diskProject) put(rel, data string, present bool) error {
	abs := filepath.Join(pr.dir, rel)
	if !present {
		if _, ok := pr.cur[rel]; ok {
			delete(pr.cur, rel)
			return os.Remove(abs)
		}
		return nil
	}
	if old, ok := pr.cur[rel]; ok && old == data {
		return nil
	}
	pr.cur[rel] = data
	return os.WriteFile(abs, []byte(data), 0644)
}

// materialise writes the files that differ from the current tree state
func (pr *diskProject) materialise() error {
	entry := "import { x } from \"./x.js\";\nimport flag from \"virtual:flag\";\nconsole.log(\"entry v" + pr.ver + "\", x, flag);\n"
	if pr.chunk != "none" {
		entry += "import(\"./lazy.js\").then(m => console.log(m.lazy));\n"
	}
	if pr.fault == "syntax" {
		entry = "export const = ; // v" + pr.ver + "\n" + entry
	}
	flag := "ok"
	if pr.fault == "plugin" {
		flag = "fail"
	}
	for _, f := range []struct {
		rel, data string
		present   bool
	}{
		{"entry.js", entry, true},
		{"x.js", "export const x = \"x\";\n", pr.fault != "unres"},
		{"flag.txt", flag, true},
		{"lazy.js", "export const lazy = \"lazy " + pr.chunk + "\";\n", pr.chunk != "none"},
	} {
		if err := pr.put(f.rel, f.data, f.present); err != nil {
			return err
		}
	}
	return nil
}

// foreign writer: modify / delete an output file (entry.js or the chunk) in out/
func (pr *diskProject) foreign(op, kind string) error {
	ents, _ := os.ReadDir(filepath.Join(pr.dir, "out"))
	for _, e := range ents {
		n := e.Name()
		if !strings.HasSuffix(n, ".js") || (kind == "entry") != (n == "entry.js") {
			continue
		}
		abs := filepath.Join(pr.dir, "out", n)
		if op == "fdel" {
			return os.Remove(abs)
		}
		data, err := os.ReadFile(abs)
		if err != nil {
			return err
		}
		return os.WriteFile(abs, append(data, []byte("/* foreign writer */\n")...), 0644)
	}
	// the model says the file is there; if the context under test failed to write it, the
	// previous step has already reported that: a foreign writer has nothing to touch
	return nil
}

func (pr *diskProject) apply(e DEdit) error {
	switch e.Op {
	case "ver":
		pr.ver = e.V
	case "fault":
		pr.fault = e.V
	case "chunk":
		pr.chunk = e.V
	case "fmod", "fdel":
		return pr.foreign(e.Op, e.V)
	default:
		return fmt.Errorf("unknown edit op %q", e.Op)
	}
	return pr.materialise()
}

func flagPlugin(dir string) api.Plugin {
	return api.Plugin{Name: "verif-flag", Setup: func(b api.PluginBuild) {
		b.OnResolve(api.OnResolveOptions{Filter: `^virtual:flag$`}, func(a api.OnResolveArgs) (api.OnResolveResult, error) {
			return api.OnResolveResult{Path: "flag", Namespace: "virt"}, nil
		})
		b.OnLoad(api.OnLoadOptions{Filter: `.*`, Namespace: "virt"}, func(a api.OnLoadArgs) (api.OnLoadResult, error) {
			data, _ := os.ReadFile(filepath.Join(dir, "flag.txt"))
			if string(data) == "fail" {
				return api.OnLoadResult{Errors: []api.Message{{Text: "the flag plugin fails"}}}, nil
			}
			text := "export default \"flag\";\n"
			return api.OnLoadResult{Contents: &text, Loader: api.LoaderJS}, nil
		})
	}}
}

var diskOptSets = []struct {
	Name string
	Make func(dir, outdir string) api.BuildOptions
}{
	{"splitting", func(dir, outdir string) api.BuildOptions {
		return api.BuildOptions{AbsWorkingDir: dir, EntryPoints: []string{"entry.js"}, Bundle: true, Outdir: outdir, Write: true,
			LogLevel: api.LogLevelSilent, Format: api.FormatESModule, Splitting: true, Plugins: []api.Plugin{flagPlugin(dir)}}
	}},
	{"splitting+map", func(dir, outdir string) api.BuildOptions {
		return api.BuildOptions{AbsWorkingDir: dir, EntryPoints: []string{"entry.js"}, Bundle: true, Outdir: outdir, Write: true,
			LogLevel: api.LogLevelSilent, Format: api.FormatESModule, Splitting: true, Sourcemap: api.SourceMapLinked,
			MinifyWhitespace: true, Plugins: []api.Plugin{flagPlugin(dir)}}
	}},
}

// listing of an output directory: relative path -> bytes
func listDir(root string) map[string]string {
	m := map[string]string{}
	filepath.Walk(root, func(p string, info os.FileInfo, err error) error {
		if err != nil || info.IsDir() {
			return nil
		}
		rel, _ := filepath.Rel(root, p)
		data, _ := os.ReadFile(p)
		m[rel] = string(data)
		return nil
	})
	return m
}

func diffListing(a, b map[string]string) string {
	names := func(m map[string]string) []string {
		var s []string
		for k := range m {
			s = append(s, k)
		}
		sort.Strings(s)
		return s
	}
	na, nb := names(a), names(b)
	if strings.Join(na, ",") != strings.Join(nb, ",") {
		return fmt.Sprintf("files on disk %v vs %v", na, nb)
	}
	for _, n := range na {
		if a[n] != b[n] {
			return fmt.Sprintf("bytes on disk of %s differ: %s", n, firstDiffLine(a[n], b[n]))
		}
	}
	return ""
}

// result signature with output paths relative to the output directory
func diskSig(dir, outdir string, res api.BuildResult) Sig {
	return sigOf(filepath.Join(dir, outdir), res)
}

type DStep struct {
	Edit        string   `json:"edit"`
	DiskDiff    string   `json:"disk_diff,omitempty"`   // out/ after ctx.Rebuild() vs outF/ after a fresh build
	ResultDiff  string   `json:"result_diff,omitempty"` // BuildResult of the context vs of the fresh build
	FreshFiles  []string `json:"fresh_files"`
	FreshErrors int      `json:"fresh_errors"`
}

type diskOut struct {
	Steps   []DStep
	Initial string
	Infra   string
}

func replayDisk(dir string, c DCase, osi int) (out diskOut) {
	if err := os.MkdirAll(dir, 0755); err != nil {
		out.Infra = err.Error()
		return
	}
	defer os.RemoveAll(dir)
	pr := &diskProject{dir: dir, ver: "1", fault: "none", chunk: "c1", cur: map[string]string{}}
	if err := pr.materialise(); err != nil {
		out.Infra = err.Error()
		return
	}
	ctx, cerr := api.Context(diskOptSets[osi].Make(dir, "out"))
	if cerr != nil {
		out.Infra = fmt.Sprintf("context creation failed: %v", cerr.Errors)
		return
	}
	defer ctx.Dispose()
	compare := func() (string, string, []string, int) {
		got := ctx.Rebuild()
		onDisk := listDir(filepath.Join(dir, "out"))
		os.RemoveAll(filepath.Join(dir, "outF"))
		fr := api.Build(diskOptSets[osi].Make(dir, "outF"))
		freshDisk := listDir(filepath.Join(dir, "outF"))
		var files []string
		for k := range freshDisk {
			files = append(files, k)
		}
		sort.Strings(files)
		return diffListing(onDisk, freshDisk), diskSig(dir, "out", got).Diff(diskSig(dir, "outF", fr)), files, len(fr.Errors)
	}
	d, rd, _, _ := compare()
	if d == "" {
		d = rd
	}
	out.Initial = d
	for _, e := range c.Edits {
		st := DStep{Edit: e.String()}
		if err := pr.apply(e); err != nil {
			out.Infra = "edit " + e.String() + " failed: " + err.Error()
			return
		}
		st.DiskDiff, st.ResultDiff, st.FreshFiles, st.FreshErrors = compare()
		out.Steps = append(out.Steps, st)
	}
	return
}

// diskPhase: TLC on CacheDisk (must hold for the code's constants), generation, replay
func diskPhase(r *core.Run) {
	var wg sync.WaitGroup
	wg.Add(1)
	go func() {
		defer wg.Done()
		if os.Getenv("C09_SKIP_DESIGN") != "" {
			return
		}
		tlcrun.MustHold(r, tlcrun.Options{Module: "CacheDisk", Config: pickS(r, "CacheDisk.design3.cfg", "CacheDisk.design.cfg"), Workers: 2, TimeoutSec: r.Pick(1800, 3600)})
		if r.Thorough() {
			// the two mechanisms are necessary: without them the model violates the property
			alt := map[string]string{}
			for _, c := range []string{"CacheDisk.noreadback.cfg", "CacheDisk.keephashes.cfg"} {
				res, err := tlcrun.Run(r, tlcrun.Options{Module: "CacheDisk", Config: c, Workers: 1, TimeoutSec: 1800})
				if err != nil {
					r.Infra("%v", err)
					continue
				}
				v := res.Violated
				if v == "" {
					v = "holds"
				}
				alt[strings.TrimSuffix(strings.TrimPrefix(c, "CacheDisk."), ".cfg")] = v
			}
			r.Set("disk_model_alternatives", alt)
		}
	}()
	cfgName := "CacheDisk.gen3.cfg"
	if r.Thorough() {
		cfgName = "CacheDisk.gen4.cfg"
	}
	var mu sync.Mutex
	var cases []DCase
	res, err := tlcrun.Run(r, tlcrun.Options{Module: "CacheDisk", Config: cfgName, Workers: 2, TimeoutSec: r.Pick(1800, 5400),
		OnCase: func(raw []byte) {
			var c DCase
			if err := json.Unmarshal(raw, &c); err != nil || len(c.Expect) != len(c.Edits) {
				r.Infra("bad CacheDisk CASE record: %v", err)
				return
			}
			mu.Lock()
			cases = append(cases, c)
			mu.Unlock()
		}})
	if err != nil {
		r.Infra("%v", err)
		wg.Wait()
		return
	}
	if res.Violated != "" {
		r.Infra("CacheDisk: the transcription of the code violates %s on the model, which must hold", res.Violated)
	}
	sort.Slice(cases, func(i, j int) bool { return cases[i].String() < cases[j].String() })
	total := len(cases)
	// every history of MaxEdits-1 edits is covered (as the prefix of a seeded choice of two of
	// its extensions): quick MaxEdits = 3, thorough 4
	{
		byPrefix := map[string][]DCase{}
		var order []string
		for _, c := range cases {
			p := DCase{Edits: c.Edits[:len(c.Edits)-1]}.String()
			if _, ok := byPrefix[p]; !ok {
				order = append(order, p)
			}
			byPrefix[p] = append(byPrefix[p], c)
		}
		cases = nil
		for _, p := range order {
			ext := byPrefix[p]
			for k := 0; k < 2 && k < len(ext); k++ {
				cases = append(cases, ext[(int(r.Seed)*7+len(cases)*13+k*(len(ext)/2+1))%len(ext)])
			}
		}
	}
	r.Logf("TLC CacheDisk/%s: %d distinct states, %d histories, %d replayed", cfgName, res.Distinct, total, len(cases))
	if len(cases) == 0 {
		r.Infra("CacheDisk exported no histories")
		wg.Wait()
		return
	}
	var histories, steps, failing, diskDiffs, drift, repairs, foreign int64
	core.Parallel(len(cases), r.Pick(3, 4), func(i int) {
		c := cases[i]
		osi := (i + int(r.Seed)) % len(diskOptSets)
		out := replayDisk(filepath.Join(r.Scratch, fmt.Sprintf("d%d", i)), c, osi)
		osName := diskOptSets[osi].Name
		r.Case(core.Hash(map[string]interface{}{"disk": c.String(), "o": osName}), true)
		atomic.AddInt64(&histories, 1)
		if out.Infra != "" {
			r.Infra("disk history [%s] %s: %s", c.String(), osName, out.Infra)
			return
		}
		key := func() map[string]interface{} {
			return map[string]interface{}{"tree": "disk", "history": c.String(), "optset": osName}
		}
		if out.Initial != "" {
			k := key()
			k["check"] = "initial"
			r.Violation(k, "first build of a context with Write=true differs from a fresh build: "+out.Initial, out)
		}
		prevFailed := false
		for si, st := range out.Steps {
			ex := c.Expect[si]
			atomic.AddInt64(&steps, 1)
			if st.FreshErrors > 0 {
				atomic.AddInt64(&failing, 1)
			} else if prevFailed {
				atomic.AddInt64(&repairs, 1)
			}
			prevFailed = st.FreshErrors > 0
			if strings.HasPrefix(c.Edits[si].Op, "f") {
				atomic.AddInt64(&foreign, 1)
			}
			// model vs real fresh build: number of .js outputs (never a verdict)
			js := 0
			for _, f := range st.FreshFiles {
				if strings.HasSuffix(f, ".js") {
					js++
				}
			}
			if js != len(ex.Files) || ex.Failed != (st.FreshErrors > 0) {
				atomic.AddInt64(&drift, 1)
				r.Drift("CacheDisk predicts outputs %v failed=%v at step %d of [%s], the fresh build wrote %v with %d errors", ex.Files, ex.Failed, si+1, c.String(), st.FreshFiles, st.FreshErrors)
			}
			d, what := st.DiskDiff, "the output directory after Rebuild() differs from what a fresh build writes"
			if d == "" && st.ResultDiff != "" {
				d, what = st.ResultDiff, "the result of Rebuild() (Write=true) differs from a fresh build"
			}
			if d != "" {
				atomic.AddInt64(&diskDiffs, 1)
				k := key()
				k["check"], k["step"], k["edit"], k["cause"] = "disk", si+1, st.Edit, "unpredicted"
				r.Violation(k, fmt.Sprintf("%s after [%s] (step %d, %s): %s", what, c.String(), si+1, osName, d),
					map[string]interface{}{"disk": c, "observed": out.Steps})
			}
		}
		if i%40 == 0 {
			r.Sample(map[string]interface{}{"tree": "disk", "history": c.String(), "optset": osName, "steps": out.Steps})
		}
	})
	wg.Wait()
	r.Set("disk_histories_replayed", histories)
	r.Set("disk_steps", steps)
	r.Set("disk_steps_failing_build", failing)
	r.Set("disk_steps_repair_after_failure", repairs)
	r.Set("disk_steps_foreign_writer", foreign)
	r.Set("disk_steps_differ", diskDiffs)
	r.Set("disk_model_drift", drift)
	r.Logf("disk: histories=%d steps=%d failing=%d repairs=%d foreign=%d differ=%d drift=%d", histories, steps, failing, repairs, foreign, diskDiffs, drift)
}
