// Package c09: incremental rebuilds and watch mode are equivalent to clean
// builds.  Spec: spec/Cache.tla; binding: replay of TLC-generated edit
// histories against real build contexts (R), validation of cache hit/miss
// events (T).
package c09

import (
	"encoding/json"
	"fmt"
	"os"
	"path/filepath"

	"verifharness/core"
)

func init() { core.Register("C09", Run) }

type Case struct {
	ID     string   `json:"id"`
	Edits  []Edit   `json:"edits"`
	Labels []string `json:"labels"`
}

func Run(r *core.Run) {
	if f := os.Getenv("C09_PROBE"); f != "" {
		probeFile(r, f)
		return
	}
}

// developer helper: C09_PROBE=<file with one JSON array of edits per line>
func probeFile(r *core.Run, f string) {
	data, err := os.ReadFile(f)
	if err != nil {
		r.Infra("%v", err)
		return
	}
	n := 0
	for _, line := range splitLines(string(data)) {
		var edits []Edit
		if err := json.Unmarshal([]byte(line), &edits); err != nil {
			r.Infra("bad probe line %q: %v", line, err)
			continue
		}
		for _, os_ := range optSets {
			for _, old := range []bool{true, false} {
				n++
				out := replayCase(filepath.Join(r.Scratch, fmt.Sprintf("p%d", n)), edits, os_, old, true, nil)
				fmt.Printf("== %s old=%v initial=%q infra=%q\n", os_.Name, old, out.Initial, out.Infra)
				for _, st := range out.Steps {
					b, _ := json.Marshal(st)
					fmt.Println("  ", string(b))
				}
				if os.Getenv("C09_PROBE_DUMP") != "" && os_.Name == "bundle" && old {
					for i, s := range out.Fresh {
						fmt.Printf("--- fresh %d errors=%q warnings=%q\n", i, s.Errors, s.Warnings)
						for _, f := range s.Files {
							fmt.Println(f.Text)
						}
					}
				}
			}
		}
		r.Case(line, true)
	}
	r.Set("rule", "probe")
}

func splitLines(s string) []string {
	var out []string
	cur := ""
	for _, c := range s {
		if c == '\n' {
			if len(cur) > 0 && cur[0] != '#' {
				out = append(out, cur)
			}
			cur = ""
		} else {
			cur += string(c)
		}
	}
	if len(cur) > 0 && cur[0] != '#' {
		out = append(out, cur)
	}
	return out
}
