// Package c09: incremental rebuilds and watch mode are equivalent to clean
// builds.
//
// Spec: spec/Cache.tla (file system, FS/AST caches, watch predicates, the
// edit alphabet of the property).  TLC checks the design (repaired constants)
// and the transcription of the code (ComparedFields / WatchKinds /
// CopyEntryPoints as in /repo); the same spec enumerates edit histories and
// exports them with what it predicts.  Binding (R): every history is replayed
// on a real directory against real build contexts and compared with fresh
// builds; the watch predicates of the previous build are evaluated after each
// edit.  Binding (T): cache hit/miss hook events are validated against
// spec/CacheTrace.tla.
//
// Verdicts come from real behaviour only; the spec's prediction is used to
// classify a violation (which known cause, if any) and to measure drift.
package c09

import (
	"encoding/json"
	"fmt"
	"os"
	"path/filepath"
	"regexp"
	"sort"
	"strings"
	"sync"
	"sync/atomic"

	"verifharness/core"
	"verifharness/tlcrun"
)

func init() { core.Register("C09", Run) }

// StepExpect is what spec/Cache.tla predicts for one step of a history
type StepExpect struct {
	Changed    bool     `json:"changed"`
	Dirty      bool     `json:"dirty"`
	Missed     bool     `json:"missed"`
	Stale      bool     `json:"stale"`
	EpStale    bool     `json:"epStale"`
	AstBad     []string `json:"astBad"`
	BadFields  []string `json:"badFields"`
	Uncovered  []string `json:"uncovered"`
	MissedU    bool     `json:"missedU"`    // as Missed, had the previous build seen unusable mod keys
	UncoveredU []string `json:"uncoveredU"` //
	FsHit      []string `json:"fsHit"`
	AstHit     []string `json:"astHit"`
	Loaded     []string `json:"loaded"`
	Diag       []string `json:"diag"`
}

type Case struct {
	Edits  []Edit       `json:"edits"`
	Expect []StepExpect `json:"expect"`
}

func (c Case) String() string {
	var s []string
	for _, e := range c.Edits {
		s = append(s, e.String())
	}
	return strings.Join(s, " ; ")
}

// nontrivial: the history edits a config file, changes a resolution, or rebuilds >= 2 times
func (c Case) nontrivial() bool {
	if len(c.Edits) >= 2 {
		return true
	}
	for _, e := range c.Edits {
		switch e.Op {
		case "cfg", "create", "delete", "rename", "todir", "tofile", "retarget", "mkfile":
			return true
		}
	}
	return false
}

type counters struct {
	histories, steps                            int64
	changedSteps, diverged, missed              int64
	candStale, candStaleRepro                   int64
	candMissed, candMissedRepro                 int64
	overChanged, underChanged, dirtyDisagree    int64
	flaky, unpredicted                          int64
	fsHits, astHits, cacheEvents, forbiddenHits int64
}

func Run(r *core.Run) {
	if f := os.Getenv("C09_PROBE"); f != "" {
		probeFile(r, f)
		return
	}
	r.Set("rule", "C09: history edits a config file, changes a resolution, or rebuilds >= 2 times")
	if r.Replay != "" {
		replayFile(r)
		return
	}
	r.Assume("file modification times advance normally (every edit stamps the edited file with a later mtime); Cache.backdate.cfg shows FsHitImpliesSameContent fails without it")
	r.Assume("project tree of harness/props/c09/tree.go (11 editable paths, 10 fixed files); option sets bundle, minify, sourcemap+metafile, splitting (format esm)")
	r.Assume("diagnostic order among fresh builds of one tree is C08's subject: a step whose fresh builds disagree among themselves is excluded (counted as flaky)")

	var wg sync.WaitGroup
	// --- directory enumeration / observation kinds (CacheWatch.tla) and the on-disk
	// result of rebuilds (CacheDisk.tla): own trees, own histories, run beside the main pipeline
	only := os.Getenv("C09_ONLY") // developer switch: main | enum | disk
	wg.Add(1)
	go func() {
		defer wg.Done()
		if only == "" || only == "enum" {
			enumPhase(r)
		}
		if only == "" || only == "disk" {
			diskPhase(r)
		}
	}()
	if only != "" && only != "main" {
		wg.Wait()
		return
	}
	// --- model checking of the design and of the transcription of the code
	wg.Add(1)
	go func() {
		defer wg.Done()
		if os.Getenv("C09_SKIP_DESIGN") == "" { // developer switch
			designChecks(r)
		}
	}()

	// --- scenario generation
	cases := generate(r)
	r.Logf("%d edit histories exported by TLC", len(cases))
	if len(cases) == 0 {
		r.Infra("TLC exported no histories")
		wg.Wait()
		return
	}

	// --- replay
	var cnt counters
	combos := []struct {
		os_ int
		old bool
	}{}
	for i := range optSets {
		combos = append(combos, struct {
			os_ int
			old bool
		}{i, true}, struct {
			os_ int
			old bool
		}{i, false})
	}
	type job struct {
		c     Case
		combo int
		n     int
	}
	var jobs []job
	for i, c := range cases {
		// every history runs under one combination (all eight are covered
		// across histories); thorough adds a second one
		k := (i + int(r.Seed)) % len(combos)
		jobs = append(jobs, job{c, k, len(jobs)})
		if r.Thorough() {
			jobs = append(jobs, job{c, (k + 3) % len(combos), len(jobs)})
		}
		if os.Getenv("C09_ALLCOMBOS") != "" { // developer switch
			for d := 1; d < len(combos); d++ {
				jobs = append(jobs, job{c, (k + d) % len(combos), len(jobs)})
			}
		}
	}
	var traceMu sync.Mutex
	var traces []*traceRec
	traceEvery := r.Pick(1, 6) // thorough: cache traces of every 6th replay (bounded TLC input)
	var done int64
	core.Parallel(len(jobs), r.Pick(6, 8), func(i int) {
		j := jobs[i]
		co := combos[j.combo]
		dir := filepath.Join(r.Scratch, fmt.Sprintf("h%d", j.n))
		var tr *traceRec
		if j.n%traceEvery == 0 {
			tr = newTraceRec()
		}
		out := replayCase(dir, j.c.Edits, optSets[co.os_], co.old, true, tr)
		tr.close(fmt.Sprintf("%s | %s old-mtimes=%v", j.c.String(), optSets[co.os_].Name, co.old))
		judge(r, &cnt, j.c, optSets[co.os_].Name, co.old, out)
		if tr != nil && len(tr.log) > 1 {
			traceMu.Lock()
			traces = append(traces, tr)
			traceMu.Unlock()
		}
		if n := atomic.AddInt64(&done, 1); n%500 == 0 {
			r.Logf("replayed %d/%d", n, len(jobs))
		}
	})
	validateTraces(r, &cnt, traces)
	watchLoop(r, &cnt)

	wg.Wait()
	r.Set("histories_replayed", cnt.histories)
	r.Set("steps", cnt.steps)
	r.Set("steps_fresh_result_changed", cnt.changedSteps)
	r.Set("steps_rebuild_differs", cnt.diverged)
	r.Set("steps_watch_missed", cnt.missed)
	r.Set("spec_candidates_stale", cnt.candStale)
	r.Set("spec_candidates_stale_reproduced", cnt.candStaleRepro)
	r.Set("spec_candidates_missed", cnt.candMissed)
	r.Set("spec_candidates_missed_reproduced", cnt.candMissedRepro)
	r.Set("spec_predicts_change_real_unchanged", cnt.overChanged)
	r.Set("spec_predicts_unchanged_real_changed", cnt.underChanged)
	r.Set("dirty_prediction_disagrees", cnt.dirtyDisagree)
	r.Set("flaky_steps_excluded", cnt.flaky)
	r.Set("cache_events", cnt.cacheEvents)
	r.Set("cache_hits_fs", cnt.fsHits)
	r.Set("cache_hits_ast", cnt.astHits)
	r.Set("cache_hits_forbidden_by_spec", cnt.forbiddenHits)
	r.Set("option_sets", []string{"bundle", "minify", "sourcemap", "splitting"})
	r.Set("mtime_regimes", []string{"old-advancing (mod keys usable)", "fresh (mod keys unusable)"})
	r.Logf("histories=%d steps=%d changed=%d rebuild-differs=%d watch-missed=%d | spec candidates: stale %d (reproduced %d) missed %d (reproduced %d) | changed over/under %d/%d flaky=%d",
		cnt.histories, cnt.steps, cnt.changedSteps, cnt.diverged, cnt.missed, cnt.candStale, cnt.candStaleRepro, cnt.candMissed, cnt.candMissedRepro, cnt.overChanged, cnt.underChanged, cnt.flaky)
}

// designChecks: TLC on the repaired design (its properties must hold) and, in
// the thorough tier, the stand-alone configurations of the transcription of
// the code (violations there are candidates, not verdicts).  The candidates
// of the quick tier come from the generator run (Cand* reporters).
func designChecks(r *core.Run) {
	big := "Cache.design2q.cfg"
	hold := []string{"Cache.design1.cfg"}
	var cand []string
	if r.Thorough() {
		big = "Cache.design2.cfg"
		hold = []string{"Cache.design1.cfg", "Cache.code-holds.cfg"}
		cand = []string{"Cache.code-ast.cfg", "Cache.code-rebuild.cfg", "Cache.code-ep.cfg", "Cache.code-watch.cfg", "Cache.code-obs.cfg", "Cache.backdate.cfg"}
	}
	var wg sync.WaitGroup
	sem := make(chan struct{}, 2)
	var mu sync.Mutex
	cands := map[string]string{}
	wg.Add(1)
	go func() {
		defer wg.Done()
		tlcrun.MustHold(r, tlcrun.Options{Module: "Cache", Config: big, Workers: 2, TimeoutSec: r.Pick(1800, 3600)})
	}()
	for _, c := range hold {
		c := c
		wg.Add(1)
		go func() {
			defer wg.Done()
			sem <- struct{}{}
			defer func() { <-sem }()
			tlcrun.MustHold(r, tlcrun.Options{Module: "Cache", Config: c, Workers: 1, TimeoutSec: r.Pick(1800, 3600)})
		}()
	}
	for _, c := range cand {
		c := c
		wg.Add(1)
		go func() {
			defer wg.Done()
			sem <- struct{}{}
			defer func() { <-sem }()
			res, err := tlcrun.Run(r, tlcrun.Options{Module: "Cache", Config: c, Workers: 1, TimeoutSec: 3600})
			if err != nil {
				r.Infra("%v", err)
				return
			}
			v := res.Violated
			if v == "" {
				v = "holds"
			}
			mu.Lock()
			cands[strings.TrimSuffix(strings.TrimPrefix(c, "Cache."), ".cfg")] = v
			mu.Unlock()
			r.Logf("TLC Cache/%s: %s (%d distinct states, %.1fs)", c, v, res.Distinct, res.Wall.Seconds())
		}()
	}
	wg.Wait()
	if len(cands) > 0 {
		r.Set("model_candidate_configs", cands)
	}
}

// generate runs the generator configuration and collects the exported histories
func generate(r *core.Run) []Case {
	cfgName := "Cache.gen3q.cfg"
	if r.Thorough() {
		cfgName = "Cache.gen3t.cfg"
	}
	if c := os.Getenv("C09_GEN"); c != "" {
		cfgName = c
	}
	// the seed is a constant of the model: substitute it in a copy of the configuration
	data, err := os.ReadFile(filepath.Join(r.Verif, "spec", "cfg", cfgName))
	if err != nil {
		r.Infra("%v", err)
		return nil
	}
	cfg := strings.Replace(string(data), "Seed = 1", fmt.Sprintf("Seed = %d", r.Seed), 1)
	if fan := os.Getenv("C09_FAN"); fan != "" { // developer switch: "0,4,2"
		for i, v := range strings.Split(fan, ",") {
			re := regexp.MustCompile(fmt.Sprintf(`Fan%d = \d+`, i+1))
			cfg = re.ReplaceAllString(cfg, fmt.Sprintf("Fan%d = %s", i+1, strings.TrimSpace(v)))
		}
	}
	var mu sync.Mutex
	var cases []Case
	seen := map[string]bool{}
	candHist := map[string]map[string]bool{} // property -> histories on which the model violates it
	res, err := tlcrun.Run(r, tlcrun.Options{Module: "Cache", Config: cfgName, Workers: 4, TimeoutSec: r.Pick(1800, 5400),
		Files: map[string]string{cfgName: cfg},
		OnCase: func(raw []byte) {
			var c Case
			var cd struct {
				Cand  string `json:"cand"`
				Edits []Edit `json:"edits"`
			}
			if json.Unmarshal(raw, &cd) == nil && cd.Cand != "" {
				mu.Lock()
				if candHist[cd.Cand] == nil {
					candHist[cd.Cand] = map[string]bool{}
				}
				candHist[cd.Cand][Case{Edits: cd.Edits}.String()] = true
				mu.Unlock()
				return
			}
			if err := json.Unmarshal(raw, &c); err != nil {
				r.Infra("bad CASE record: %v", err)
				return
			}
			if len(c.Expect) != len(c.Edits) {
				r.Infra("CASE record with %d edits and %d expectations", len(c.Edits), len(c.Expect))
				return
			}
			id := c.String()
			mu.Lock()
			if !seen[id] {
				seen[id] = true
				cases = append(cases, c)
			}
			mu.Unlock()
		}})
	if err != nil {
		r.Infra("%v", err)
		return cases
	}
	if res.Violated != "" {
		r.Infra("the transcription of the code violates %s on the model, which must hold (FsHitImpliesSameContent / WatchStateWellFormed / TypeOK)", res.Violated)
	}
	// candidates: properties that the transcription of the code violates on the model
	mc := map[string]interface{}{}
	for prop, hs := range candHist {
		ex := ""
		for h := range hs {
			if ex == "" || len(h) < len(ex) || (len(h) == len(ex) && h < ex) {
				ex = h
			}
		}
		mc[prop] = map[string]interface{}{"histories": len(hs), "shortest": ex}
		r.Logf("model candidate: %s violated by the transcription of the code on %d histories, e.g. [%s]", prop, len(hs), ex)
	}
	r.Set("model_candidates", mc)
	r.Logf("TLC Cache/%s: %d generated, %d distinct, %d cases, %.1fs", cfgName, res.Generated, res.Distinct, res.Cases, res.Wall.Seconds())
	sort.Slice(cases, func(i, j int) bool { return cases[i].String() < cases[j].String() })
	return cases
}

func diffKind(d string) string {
	switch {
	case strings.HasPrefix(d, "bytes of"):
		return "bytes"
	case strings.Contains(d, "errors"):
		return "errors"
	case strings.Contains(d, "warnings"):
		return "warnings"
	case strings.HasPrefix(d, "metafile"):
		return "metafile"
	}
	return "files"
}

// judge turns the observations of one replay into verdicts, drift and evidence
func judge(r *core.Run, cnt *counters, c Case, osName string, old bool, out replayOut) {
	regime := "fresh"
	if old {
		regime = "old"
	}
	id := core.Hash(map[string]interface{}{"h": c.String(), "o": osName, "r": regime})
	r.Case(id, c.nontrivial())
	atomic.AddInt64(&cnt.histories, 1)
	base := func() map[string]interface{} {
		return map[string]interface{}{"history": c.String(), "optset": osName, "regime": regime}
	}
	if out.Infra != "" {
		r.Infra("history [%s] %s/%s: %s", c.String(), osName, regime, out.Infra)
		return
	}
	if out.Initial != "" {
		k := base()
		k["check"] = "initial"
		r.Violation(k, "the first build of a context differs from api.Build of the same tree: "+out.Initial, out)
	}
	for i, st := range out.Steps {
		ex := c.Expect[i]
		atomic.AddInt64(&cnt.steps, 1)
		if st.Changed {
			atomic.AddInt64(&cnt.changedSteps, 1)
		}
		if st.Flaky {
			atomic.AddInt64(&cnt.flaky, 1)
			continue
		}
		// ---- rebuild == fresh
		diff := st.RebuildDiff
		which := "Rebuild()"
		if diff == "" && st.WatchDiff != "" {
			diff, which = st.WatchDiff, "watch-mode rebuild"
		}
		if ex.Stale {
			atomic.AddInt64(&cnt.candStale, 1)
			if diff != "" {
				atomic.AddInt64(&cnt.candStaleRepro, 1)
			} else {
				r.Drift("spec predicts a stale rebuild at step %d of [%s] (%s/%s) but the real rebuild equals the fresh build", i+1, c.String(), osName, regime)
			}
		}
		if diff != "" {
			atomic.AddInt64(&cnt.diverged, 1)
			k := base()
			k["check"] = "rebuild"
			k["step"] = i + 1
			k["edit"] = st.Edit
			k["diff"] = diffKind(diff)
			switch {
			case ex.Stale && len(ex.BadFields) > 0:
				f := append([]string{}, ex.BadFields...)
				sort.Strings(f)
				k["cause"] = "ast-cache-key-ignores:" + strings.Join(f, ",")
			case ex.Stale && ex.EpStale:
				k["cause"] = "entry-point-list-mutated"
			default:
				k["cause"] = "unpredicted"
				atomic.AddInt64(&cnt.unpredicted, 1)
			}
			r.Violation(k, fmt.Sprintf("%s after [%s] (step %d, %s, %s mtimes) differs from a fresh build of the same tree: %s", which, c.String(), i+1, osName, regime, diff),
				map[string]interface{}{"edits": c.Edits, "expect": c.Expect, "observed": out.Steps})
		}
		// ---- watch completeness (the prediction depends on the mtime regime)
		if !old && ex.MissedU && !ex.Missed {
			ex.Missed, ex.Uncovered = true, ex.UncoveredU
		}
		if ex.Missed {
			atomic.AddInt64(&cnt.candMissed, 1)
			if st.Missed {
				atomic.AddInt64(&cnt.candMissedRepro, 1)
			} else if st.Changed {
				r.Drift("spec predicts an undetected change at step %d of [%s] but the real predicates report %v", i+1, c.String(), st.Dirty)
			}
		}
		if st.Missed {
			atomic.AddInt64(&cnt.missed, 1)
			k := base()
			k["check"] = "watch"
			k["step"] = i + 1
			k["edit"] = st.Edit
			if ex.Missed && len(ex.Uncovered) > 0 {
				u := append([]string{}, ex.Uncovered...)
				sort.Strings(u)
				k["cause"] = "unwatched:" + strings.Join(u, ",")
			} else {
				k["cause"] = "unpredicted"
				atomic.AddInt64(&cnt.unpredicted, 1)
			}
			r.Violation(k, fmt.Sprintf("edit %s (step %d of [%s], %s, %s mtimes) changes the result of a fresh build but no watch predicate of the previous build reports a dirty path", st.Edit, i+1, c.String(), osName, regime),
				map[string]interface{}{"edits": c.Edits, "expect": c.Expect, "observed": out.Steps})
		}
		// ---- drift of the model's own predictions (never a verdict)
		if ex.Changed && !st.Changed {
			atomic.AddInt64(&cnt.overChanged, 1)
			if os.Getenv("C09_VERBOSE") != "" {
				r.Logf("OVER: step %d of [%s] (%s/%s)", i+1, c.String(), osName, regime)
			}
		}
		if !ex.Changed && st.Changed {
			atomic.AddInt64(&cnt.underChanged, 1)
			r.Drift("spec predicts an unchanged result at step %d of [%s] (%s) but the fresh build changed", i+1, c.String(), osName)
			if os.Getenv("C09_VERBOSE") != "" {
				r.Logf("UNDER: step %d of [%s] (%s/%s)", i+1, c.String(), osName, regime)
			}
		}
		if old && ex.Dirty != (len(st.Dirty) > 0) {
			atomic.AddInt64(&cnt.dirtyDisagree, 1)
		}
		cnt.countEvents(st.Events)
	}
	if len(out.Steps) > 0 {
		r.Sample(map[string]interface{}{"history": c.String(), "optset": osName, "regime": regime, "steps": out.Steps})
	}
}

func (cnt *counters) countEvents(evs []CacheEv) {
	for _, e := range evs {
		atomic.AddInt64(&cnt.cacheEvents, 1)
		if e.Hit {
			if e.Ev == "cache.fs" {
				atomic.AddInt64(&cnt.fsHits, 1)
			} else {
				atomic.AddInt64(&cnt.astHits, 1)
			}
		}
	}
}

// developer helper: C09_PROBE=<file with one JSON array of edits per line>
func probeFile(r *core.Run, f string) {
	data, err := os.ReadFile(f)
	if err != nil {
		r.Infra("%v", err)
		return
	}
	n := 0
	for _, line := range strings.Split(string(data), "\n") {
		line = strings.TrimSpace(line)
		if line == "" || line[0] == '#' {
			continue
		}
		var edits []Edit
		if err := json.Unmarshal([]byte(line), &edits); err != nil {
			r.Infra("bad probe line %q: %v", line, err)
			continue
		}
		for _, os_ := range optSets {
			for _, old := range []bool{true, false} {
				n++
				out := replayCase(filepath.Join(r.Scratch, fmt.Sprintf("p%d", n)), edits, os_, old, true, nil)
				fmt.Printf("== %s old=%v initial=%q infra=%q\n", os_.Name, old, out.Initial, out.Infra)
				for _, st := range out.Steps {
					b, _ := json.Marshal(st)
					fmt.Println("  ", string(b))
				}
				if os.Getenv("C09_PROBE_DUMP") != "" && os_.Name == "bundle" && old {
					for i, s := range out.Fresh {
						fmt.Printf("--- fresh %d errors=%q warnings=%q\n", i, s.Errors, s.Warnings)
						for _, f := range s.Files {
							fmt.Println(f.Text)
						}
					}
				}
			}
		}
		r.Case(line, true)
	}
	r.Set("rule", "probe")
}

// replayFile re-runs the single history of a replay file (bin/check C09 --replay <path>)
func replayFile(r *core.Run) {
	data, err := os.ReadFile(r.Replay)
	if err != nil {
		r.Infra("%v", err)
		return
	}
	var rf struct {
		Key    map[string]interface{} `json:"key"`
		Detail struct {
			Edits  []Edit       `json:"edits"`
			Expect []StepExpect `json:"expect"`
			Enum   *ECase       `json:"enum"`
			Disk   *DCase       `json:"disk"`
		} `json:"detail"`
	}
	if err := json.Unmarshal(data, &rf); err == nil && rf.Detail.Enum != nil {
		c := *rf.Detail.Enum
		name, _ := rf.Key["optset"].(string)
		regime, _ := rf.Key["regime"].(string)
		var cnt enumCounters
		for _, os_ := range enumOptSets {
			if os_.Name == name || name == "" {
				out := replayEnum(filepath.Join(r.Scratch, "replay-"+os_.Name), c, os_, regime != "fresh")
				for _, st := range out.Steps {
					b, _ := json.Marshal(st)
					r.Logf("%s", string(b))
				}
				judgeEnum(r, &cnt, c, os_.Name, regime != "fresh", out)
			}
		}
		return
	}
	if err == nil && rf.Detail.Disk != nil {
		c := *rf.Detail.Disk
		name, _ := rf.Key["optset"].(string)
		for i, os_ := range diskOptSets {
			if os_.Name == name || name == "" {
				out := replayDisk(filepath.Join(r.Scratch, fmt.Sprintf("replay-d%d", i)), c, i)
				for si, st := range out.Steps {
					b, _ := json.Marshal(st)
					r.Logf("%s", string(b))
					if d := st.DiskDiff + st.ResultDiff; d != "" {
						r.Violation(map[string]interface{}{"tree": "disk", "history": c.String(), "optset": os_.Name, "check": "disk", "step": si + 1, "edit": st.Edit, "cause": "unpredicted"},
							fmt.Sprintf("the output directory / result after Rebuild() differs from a fresh build after [%s] (step %d, %s): %s", c.String(), si+1, os_.Name, d), map[string]interface{}{"disk": c, "observed": out.Steps})
					}
				}
				r.Case("replay-disk:"+c.String(), true)
			}
		}
		return
	}
	if err := json.Unmarshal(data, &rf); err != nil || len(rf.Detail.Edits) == 0 {
		r.Infra("replay file %s has no edit history (%v)", r.Replay, err)
		return
	}
	c := Case{Edits: rf.Detail.Edits, Expect: rf.Detail.Expect}
	for len(c.Expect) < len(c.Edits) {
		c.Expect = append(c.Expect, StepExpect{})
	}
	name, _ := rf.Key["optset"].(string)
	regime, _ := rf.Key["regime"].(string)
	var cnt counters
	for _, os_ := range optSets {
		if os_.Name == name || name == "" {
			out := replayCase(filepath.Join(r.Scratch, "replay-"+os_.Name), c.Edits, os_, regime != "fresh", true, nil)
			for _, st := range out.Steps {
				b, _ := json.Marshal(st)
				r.Logf("%s", string(b))
			}
			judge(r, &cnt, c, os_.Name, regime != "fresh", out)
		}
	}
}
