package c09

// A few histories through the real polling loop of ctx.Watch() (watcher.go):
// after an edit that changes the fresh result the watcher must start a
// rebuild within a bounded wait, and the rebuild must equal a fresh build.

import (
	"fmt"
	"path/filepath"
	"sync"
	"time"

	"github.com/evanw/esbuild/pkg/api"

	"verifharness/core"
)

func watchLoop(r *core.Run, cnt *counters) {
	type wcase struct {
		edits     []Edit
		old       bool
		knownMiss bool // the synchronous check already lists this as a known finding: only confirm
	}
	cases := []wcase{
		{[]Edit{{Op: "write", P: "xjs", V: "2"}, {Op: "create", P: "xts", V: "1"}}, true, false},
		{[]Edit{{Op: "cfg", P: "tsc", F: map[string]string{"jsxFactory": "h"}}, {Op: "create", P: "near", V: "1"}}, false, false},
		{[]Edit{{Op: "retarget", P: "dep", V: "B"}}, true, true},
	}
	if r.Thorough() {
		cases = append(cases,
			wcase{[]Edit{{Op: "write", P: "entry", V: "2"}, {Op: "write", P: "entry", V: "1"}, {Op: "delete", P: "xjs"}}, false, false},
			wcase{[]Edit{{Op: "cfg", P: "pkg", F: map[string]string{"sideEffects": "false"}}, {Op: "create", P: "dfile", V: "1"}, {Op: "delete", P: "dfile"}}, true, false},
			// known finding unwatched:kind:d through the real loop (d.js shadows the directory d, then d becomes a file)
			wcase{[]Edit{{Op: "create", P: "dfile", V: "1"}, {Op: "tofile", P: "d", V: "1"}}, false, true},
			wcase{[]Edit{{Op: "cfg", P: "nmpkg", F: map[string]string{"main": "main2"}}, {Op: "delete", P: "tsc"}}, true, false},
		)
	}
	var wg sync.WaitGroup
	confirmed := int64(0)
	var mu sync.Mutex
	for i, wc := range cases {
		wg.Add(1)
		go func(i int, wc wcase) {
			defer wg.Done()
			dir := filepath.Join(r.Scratch, fmt.Sprintf("w%d", i))
			pr, err := newProject(dir, wc.old)
			if err != nil {
				r.Infra("watch loop: %v", err)
				return
			}
			ends := make(chan Sig, 16)
			opts := baseOptions(dir)
			opts.Plugins = []api.Plugin{{Name: "verif-onend", Setup: func(b api.PluginBuild) {
				b.OnEnd(func(res *api.BuildResult) (api.OnEndResult, error) {
					ends <- sigOf(dir, *res)
					return api.OnEndResult{}, nil
				})
			}}}
			ctx, cerr := api.Context(opts)
			if cerr != nil {
				r.Infra("watch loop: context creation failed: %v", cerr.Errors)
				return
			}
			defer ctx.Dispose()
			if err := ctx.Watch(api.WatchOptions{}); err != nil {
				r.Infra("watch loop: Watch(): %v", err)
				return
			}
			freshOpts := baseOptions(dir)
			select {
			case <-ends:
			case <-time.After(120 * time.Second):
				r.Infra("watch loop: no initial build within 120 s")
				return
			}
			prev := sigOf(dir, api.Build(freshOpts))
			hist := ""
			for ei, e := range wc.edits {
				if err := pr.apply(e); err != nil {
					r.Infra("watch loop: edit %s: %v", e.String(), err)
					return
				}
				hist += e.String() + " ; "
				cur := sigOf(dir, api.Build(freshOpts))
				changed := !cur.Equal(prev)
				prev = cur
				if !changed {
					continue
				}
				wait := 90 * time.Second
				known := wc.knownMiss && ei == len(wc.edits)-1
				if known {
					wait = 8 * time.Second
				}
				select {
				case got := <-ends:
					// a second rebuild may follow if the first one raced with the edit
					for d := got.Diff(cur); d != ""; d = got.Diff(cur) {
						select {
						case got = <-ends:
						case <-time.After(45 * time.Second):
							r.Violation(map[string]interface{}{"check": "watchloop-result", "history": hist, "cause": "unpredicted"},
								fmt.Sprintf("the rebuild started by the watcher after [%s] differs from a fresh build: %s", hist, d), nil)
							return
						}
					}
				case <-time.After(wait):
					if known {
						mu.Lock()
						confirmed++
						mu.Unlock()
						return
					}
					r.Violation(map[string]interface{}{"check": "watchloop", "history": hist, "cause": "unpredicted"},
						fmt.Sprintf("ctx.Watch(): no rebuild within %v after [%s] although the result of a fresh build changed", wait, hist), nil)
					return
				}
			}
			r.Case("watchloop:"+hist, true)
		}(i, wc)
	}
	wg.Wait()
	r.Set("watch_loop_histories", len(cases))
	r.Set("watch_loop_known_miss_confirmed", confirmed)
}

var _ = core.Hash
